(* MapOrderSites.v -- property C08: the finite obligation over the GENERATED site table
   (gen/MapRangeSites.v, rewritten from the goflow working tree by translators/cmd/maprange on every run) and the
   statements behind the reasons of the committed exception table (model/MapRangeExceptions.v). *)
From Coq Require Import List String NArith ZArith Bool Permutation Lia RelationClasses.
From Verif Require Import model.MapOrder model.MapRangeExceptions gen.MapRangeSites
  proofs.MapOrderProofs proofs.MapOrderLoop proofs.MapOrderPipelines.
Import ListNotations.

(* ================================================================================================ *)
(** * The obligation *)

(* every place where non-test goflow code observes map iteration order either has an order-insensitive shape
   or is a reviewed exception with exactly the reviewed shape.  A new `range` over a map that appends, returns
   early or calls back, an edit that adds such an effect to an existing loop, or the removal of a sort makes
   this fail (the site then shows up in `unclassified`). *)
Lemma sites_classified : forallb (classified_ok map_range_exceptions) map_range_sites = true.
Proof. vm_compute. reflexivity. Qed.

(* the same for the packages of github.com/nyaruka/gocommon that goflow imports: accepted shape, reviewed exception, or a
   KNOWN finding (order-dependent code goflow cannot repair; the driver's probe reports it on every run) *)
Lemma dep_sites_classified : forallb (classified_ok dep_map_range_exceptions) dep_map_range_sites = true.
Proof. vm_compute. reflexivity. Qed.

(* no exception entry covers more than one site; no reviewed ambient use covers more than one call *)
Lemma exceptions_cover_one_site_each :
  one_site_per_entry map_range_exceptions map_range_sites = true /\
  one_site_per_entry dep_map_range_exceptions dep_map_range_sites = true /\
  one_call_per_allowed ambient_allowed ambient_calls = true.
Proof. repeat split; vm_compute; reflexivity. Qed.

Lemma sites_unclassified_none : unclassified map_range_exceptions map_range_sites = [].
Proof. vm_compute. reflexivity. Qed.

(* the table is not empty and the translator scanned the library *)
Lemma sites_nonempty : (30 <=? List.length map_range_sites)%nat = true /\ (200 <=? map_range_files_scanned)%nat = true.
Proof. split; vm_compute; reflexivity. Qed.

(* library code never reads the wall clock, the global random source or process identity directly: everything
   time- or chance-dependent goes through the injectable generators the property lists as inputs *)
Lemma no_ambient_sources : forallb (ambient_ok ambient_allowed) ambient_calls = true.
Proof. vm_compute. reflexivity. Qed.

(* the versions passed to registerMigration are pairwise different, so `version -> migration` is a function and
   sorting the collected versions by LessThan separates them *)
Lemma registered_versions_distinct : NoDup registered_versions.
Proof.
  assert (H : forall l : list version,
             (fix nodupb (l : list version) : bool :=
                match l with
                | [] => true
                | v :: t => negb (existsb (version_eqb v) t) && nodupb t
                end) l = true -> NoDup l).
  { induction l as [|v t IH]; intro Hb. constructor.
    apply andb_true_iff in Hb. destruct Hb as [Hn Ht]. constructor.
    - intro Hin. apply negb_true_iff in Hn.
      assert (Hex : existsb (version_eqb v) t = true).
      { apply existsb_exists. exists v. split. exact Hin.
        destruct v as [[a b] c]. unfold version_eqb. rewrite !N.eqb_refl. reflexivity. }
      rewrite Hex in Hn. discriminate.
    - apply IH. exact Ht. }
  apply H. vm_compute. reflexivity.
Qed.

(* ================================================================================================ *)
(** * Statements behind the reasons *)

(* every iteration reads and writes only the element of its own key *)
Section KeyPartitioned.
  Context {K V W : Type}.
  Variable keq : K -> K -> bool.
  Hypothesis keq_spec : forall a b, keq a b = true <-> a = b.
  Variable h : K -> V -> option W -> W.

  Definition partitioned_step (acc : list (K * W)) (kv : K * V) : list (K * W) :=
    upsert keq (fst kv) (h (fst kv) (snd kv) (lookup keq (fst kv) acc)) acc.

  Lemma key_partitioned_perm_invariant : forall l1 l2 acc,
    NoDup (map fst l1) -> Permutation l1 l2 ->
    map_equiv keq (fold_left partitioned_step l1 acc) (fold_left partitioned_step l2 acc).
  Proof.
    intros l1 l2 acc Hnd Hp.
    apply (fold_left_perm_nodup (map_equiv keq) partitioned_step).
    - apply map_equiv_Equivalence.
    - intros s s' x H. unfold partitioned_step. rewrite (H (fst x)). apply upsert_cong. exact keq_spec. exact H.
    - intros s [k1 v1] [k2 v2] Hne. unfold partitioned_step. simpl in *.
      rewrite !(lookup_upsert keq keq_spec).
      rewrite (keq_neq keq keq_spec k2 k1) by (intro E; apply Hne; symmetry; exact E).
      rewrite (keq_neq keq keq_spec k1 k2) by exact Hne.
      apply upsert_comm. exact keq_spec. exact Hne.
    - exact Hp.
    - exact Hnd.
  Qed.
End KeyPartitioned.

(* dst[key_of v] = g v where every value is stored under its own key *)
Lemma fold_left_ext_in : forall {S X : Type} (f g : S -> X -> S) l s,
  (forall a x, In x l -> f a x = g a x) -> fold_left f l s = fold_left g l s.
Proof.
  intros S X f g l. induction l as [|y t IH]; intros s H; simpl. reflexivity.
  rewrite H by (left; reflexivity). apply IH. intros a x Hx. apply H. right. exact Hx.
Qed.

Lemma value_keyed_perm_invariant : forall {K V W : Type} (keq : K -> K -> bool),
  (forall a b, keq a b = true <-> a = b) ->
  forall (key_of : V -> K) (g : V -> W) (l1 l2 : list (K * V)),
  (forall kv, In kv l1 -> key_of (snd kv) = fst kv) ->
  NoDup (map fst l1) -> Permutation l1 l2 ->
  map_equiv keq (fold_left (fun acc kv => upsert keq (key_of (snd kv)) (g (snd kv)) acc) l1 [])
                (fold_left (fun acc kv => upsert keq (key_of (snd kv)) (g (snd kv)) acc) l2 []).
Proof.
  intros K V W keq keq_spec key_of g l1 l2 Hkey Hnd Hp.
  rewrite (fold_left_ext_in _ (fun acc kv => upsert keq (fst kv) (g (snd kv)) acc) l1).
  2: { intros a kv Hin. rewrite (Hkey kv Hin). reflexivity. }
  rewrite (fold_left_ext_in _ (fun acc kv => upsert keq (fst kv) (g (snd kv)) acc) l2).
  2: { intros a kv Hin. rewrite (Hkey kv). reflexivity. eapply Permutation_in. apply Permutation_sym. exact Hp. exact Hin. }
  apply (build_map_perm_invariant keq keq_spec (fun k => k) (fun _ v => g v) l1 l2).
  - intros a b _ _ E. exact E.
  - exact Hnd.
  - exact Hp.
Qed.

(* BuildMap with a conflict check: whether it fails, and the map it builds, do not depend on the order *)
Section ConflictChecked.
  Context {K V K2 V2 : Type}.
  Variable keq2 : K2 -> K2 -> bool.
  Variable veq : V2 -> V2 -> bool.
  Hypothesis keq2_spec : forall a b, keq2 a b = true <-> a = b.
  Hypothesis veq_spec : forall a b, veq a b = true <-> a = b.
  Variable f : V -> K2.
  Variable g : V -> V2.

  Definition opt_equiv (a b : option (list (K2 * V2))) : Prop :=
    match a, b with
    | Some m1, Some m2 => map_equiv keq2 m1 m2
    | None, None => True
    | _, _ => False
    end.

  Definition checked_step (acc : option (list (K2 * V2))) (kv : K * V) : option (list (K2 * V2)) :=
    match acc with
    | None => None
    | Some m => match lookup keq2 (f (snd kv)) m with
                | Some old => if veq old (g (snd kv)) then Some (upsert keq2 (f (snd kv)) (g (snd kv)) m) else None
                | None => Some (upsert keq2 (f (snd kv)) (g (snd kv)) m)
                end
    end.

  Instance opt_equiv_Equivalence : Equivalence opt_equiv.
  Proof.
    split.
    - intros [m|]; simpl. reflexivity. exact I.
    - intros [m1|] [m2|]; simpl; intro H; try contradiction; try exact I. symmetry. exact H.
    - intros [m1|] [m2|] [m3|]; simpl; intros H1 H2; try contradiction; try exact I. etransitivity; eassumption.
  Qed.

  Lemma checked_step_cong : forall s s' x, opt_equiv s s' -> opt_equiv (checked_step s x) (checked_step s' x).
  Proof.
    intros [m|] [m'|] x H; simpl in *; try contradiction; try exact I.
    rewrite (H (f (snd x))). destruct (lookup keq2 (f (snd x)) m') as [old|].
    - destruct (veq old (g (snd x))); simpl. apply upsert_cong. exact keq2_spec. exact H. exact I.
    - simpl. apply upsert_cong. exact keq2_spec. exact H.
  Qed.

  Lemma veq_refl : forall a, veq a a = true.
  Proof. intro a. apply veq_spec. reflexivity. Qed.

  Definition stepkv (acc : option (list (K2 * V2))) (k : K2) (v : V2) : option (list (K2 * V2)) :=
    match acc with
    | None => None
    | Some m => match lookup keq2 k m with
                | Some old => if veq old v then Some (upsert keq2 k v m) else None
                | None => Some (upsert keq2 k v m)
                end
    end.

  Lemma stepkv_comm : forall m kx gx ky gy,
    opt_equiv (stepkv (stepkv (Some m) kx gx) ky gy) (stepkv (stepkv (Some m) ky gy) kx gx).
  Proof.
    intros m kx gx ky gy. unfold stepkv.
    destruct (keq2 kx ky) eqn:Exy.
    - (* the two entries collide *)
      apply keq2_spec in Exy. subst ky.
      destruct (lookup keq2 kx m) as [old|] eqn:El.
      + destruct (veq old gx) eqn:E1.
        * apply veq_spec in E1. subst old.
          rewrite (lookup_upsert keq2 keq2_spec), (keq_refl keq2 keq2_spec).
          destruct (veq gx gy) eqn:E2.
          -- apply veq_spec in E2. subst gy.
             rewrite (lookup_upsert keq2 keq2_spec), (keq_refl keq2 keq2_spec), veq_refl. simpl. reflexivity.
          -- exact I.
        * destruct (veq old gy) eqn:E2.
          -- apply veq_spec in E2. subst old.
             rewrite (lookup_upsert keq2 keq2_spec), (keq_refl keq2 keq2_spec), E1. exact I.
          -- exact I.
      + rewrite !(lookup_upsert keq2 keq2_spec), !(keq_refl keq2 keq2_spec).
        destruct (veq gx gy) eqn:E.
        * apply veq_spec in E. subst gy. rewrite veq_refl. simpl. reflexivity.
        * destruct (veq gy gx) eqn:E'.
          -- apply veq_spec in E'. subst gy. rewrite veq_refl in E. discriminate.
          -- exact I.
    - (* different new keys: independent *)
      assert (Hne : kx <> ky) by (intro E; apply keq2_spec in E; rewrite E in Exy; discriminate).
      assert (Eyx : keq2 ky kx = false) by (apply (keq_neq keq2 keq2_spec); intro E; apply Hne; symmetry; exact E).
      destruct (lookup keq2 kx m) as [ox|] eqn:Lx; [destruct (veq ox gx) eqn:Vx|];
        (destruct (lookup keq2 ky m) as [oy|] eqn:Ly; [destruct (veq oy gy) eqn:Vy|]);
        repeat progress (simpl; rewrite ?(lookup_upsert keq2 keq2_spec), ?Exy, ?Eyx, ?Lx, ?Ly, ?Vx, ?Vy);
        try exact I; try (apply upsert_comm; [exact keq2_spec | exact Hne]).
  Qed.

  Lemma checked_step_comm : forall s x y, opt_equiv (checked_step (checked_step s x) y) (checked_step (checked_step s y) x).
  Proof.
    intros [m|] x y; [|exact I].
    exact (stepkv_comm m (f (snd x)) (g (snd x)) (f (snd y)) (g (snd y))).
  Qed.

  Theorem build_map_checked_perm_invariant : forall (l1 l2 : list (K * V)),
    Permutation l1 l2 ->
    opt_equiv (build_map_checked keq2 veq f g l1) (build_map_checked keq2 veq f g l2).
  Proof.
    intros l1 l2 Hp. unfold build_map_checked.
    change (opt_equiv (fold_left checked_step l1 (Some [])) (fold_left checked_step l2 (Some []))).
    generalize (Some (@nil (K2 * V2))).
    induction Hp as [|x l l' Hp IH|x y l|l l' l'' Hp1 IH1 Hp2 IH2]; intro s; simpl.
    - reflexivity.
    - apply IH.
    - assert (Hc : forall l a b, opt_equiv a b -> opt_equiv (fold_left checked_step l a) (fold_left checked_step l b)).
      { induction l0 as [|z t IHt]; intros a b H; simpl. exact H. apply IHt. apply checked_step_cong. exact H. }
      apply Hc. apply checked_step_comm.
    - etransitivity. apply IH1. apply IH2.
  Qed.
End ConflictChecked.

(* defaults written through a canonical name: `if dst.Get(k) == "" { dst.Set(k, v) }` *)
Section HeaderDefaults.
  Context {V : Type}.
  Variable canon : str -> str.
  Variable empty : V -> bool.

  Definition default_step (acc : list (str * V)) (kv : str * V) : list (str * V) :=
    match lookup str_eqb (canon (fst kv)) acc with
    | Some old => if empty old then upsert str_eqb (canon (fst kv)) (snd kv) acc else acc
    | None => upsert str_eqb (canon (fst kv)) (snd kv) acc
    end.

  Definition default_step_id (acc : list (str * V)) (kv : str * V) : list (str * V) :=
    match lookup str_eqb (fst kv) acc with
    | Some old => if empty old then upsert str_eqb (fst kv) (snd kv) acc else acc
    | None => upsert str_eqb (fst kv) (snd kv) acc
    end.

  Lemma default_step_id_perm : forall l1 l2 acc,
    NoDup (map fst l1) -> Permutation l1 l2 ->
    map_equiv str_eqb (fold_left default_step_id l1 acc) (fold_left default_step_id l2 acc).
  Proof.
    intros l1 l2 acc Hnd Hp.
    apply (fold_left_perm_nodup (map_equiv str_eqb) default_step_id).
    - apply map_equiv_Equivalence.
    - intros s s' x H. unfold default_step_id. rewrite (H (fst x)).
      destruct (lookup str_eqb (fst x) s') as [old|]. destruct (empty old).
      apply upsert_cong. exact str_eqb_spec. exact H. exact H.
      apply upsert_cong. exact str_eqb_spec. exact H.
    - intros s [k1 v1] [k2 v2] Hne. simpl in Hne.
      assert (E12 : str_eqb k1 k2 = false) by (apply (keq_neq str_eqb str_eqb_spec); exact Hne).
      assert (E21 : str_eqb k2 k1 = false) by (apply (keq_neq str_eqb str_eqb_spec); intro E; apply Hne; symmetry; exact E).
      unfold default_step_id. simpl.
      destruct (lookup str_eqb k1 s) as [o1|] eqn:L1; destruct (lookup str_eqb k2 s) as [o2|] eqn:L2;
        try destruct (empty o1) eqn:M1; try destruct (empty o2) eqn:M2;
        rewrite ?(lookup_upsert str_eqb str_eqb_spec), ?E12, ?E21, ?L1, ?L2, ?M1, ?M2;
        try reflexivity; try (apply upsert_comm; [exact str_eqb_spec | exact Hne]).
    - exact Hp.
    - exact Hnd.
  Qed.

  Lemma default_step_canon : forall l acc,
    fold_left default_step l acc = fold_left default_step_id (map (fun kv => (canon (fst kv), snd kv)) l) acc.
  Proof.
    induction l as [|x t IH]; intro acc; simpl. reflexivity. rewrite IH. reflexivity.
  Qed.

  (* partial: needs the canonical names of the configured defaults to be pairwise different *)
  Theorem header_defaults_perm_invariant_partial : forall l1 l2 acc,
    NoDup (map (fun kv => canon (fst kv)) l1) -> Permutation l1 l2 ->
    map_equiv str_eqb (fold_left default_step l1 acc) (fold_left default_step l2 acc).
  Proof.
    intros l1 l2 acc Hnd Hp. rewrite !default_step_canon. apply default_step_id_perm.
    - rewrite map_map. simpl. exact Hnd.
    - apply Permutation_map. exact Hp.
  Qed.
End HeaderDefaults.

Lemma key_unique_in_map : forall {K V : Type} (l : list (K * V)) x y,
  NoDup (map fst l) -> In x l -> In y l -> fst x = fst y -> x = y.
Proof. intros K V l x y Hnd Hx Hy E. eapply nodup_fst_inj; eassumption. Qed.

(* assignments guarded by `key == c`: at most one visited pair takes them *)
Theorem key_guarded_first_match_perm_invariant : forall {K V R : Type} (keq : K -> K -> bool),
  (forall a b, keq a b = true <-> a = b) ->
  forall (c : K) (f : K * V -> R) (l1 l2 : list (K * V)),
  NoDup (map fst l1) -> Permutation l1 l2 ->
  first_match (fun kv => keq (fst kv) c) f l1 = first_match (fun kv => keq (fst kv) c) f l2.
Proof.
  intros K V R keq keq_spec c f l1 l2 Hnd Hp. apply first_match_unique_perm_invariant. exact Hp.
  intros x y Hx Hy Ex Ey. apply keq_spec in Ex. apply keq_spec in Ey.
  eapply key_unique_in_map; try eassumption. rewrite Ex, Ey. reflexivity.
Qed.

Definition reason_statement (r : reason) : Prop :=
  match r with
  | RRegistration =>
      (* copying a map into a registry under the same names *)
      forall (K V : Type) (keq : K -> K -> bool), (forall a b, keq a b = true <-> a = b) ->
      forall (g : K -> V -> V) (l1 l2 : list (K * V)), NoDup (map fst l1) -> Permutation l1 l2 ->
      forall k, lookup keq k (build_map keq (fun k => k) g l1) = lookup keq k (build_map keq (fun k => k) g l2)
  | RKeyGuardedAssign =>
      (* `if k == c { x = g k v } else { dst[k] = h k v }` as a loop body: same final state for every visiting order *)
      forall (K V I : Type) (keq : K -> K -> bool) (ieq : I -> I -> bool),
      (forall a b, keq a b = true <-> a = b) -> (forall a b, ieq a b = true -> a = b) ->
      forall (c : K) (g h : K -> V -> I) (st : list (cell K I)) (l1 l2 : list (K * V)),
      NoDup (map fst l1) -> Permutation l1 l2 ->
      state_equiv K I keq
        (run_loop K V I keq [SAssignAtKey 0 c g; SMapWriteKey 1 (fun k _ => negb (keq k c)) h] st l1)
        (run_loop K V I keq [SAssignAtKey 0 c g; SMapWriteKey 1 (fun k _ => negb (keq k c)) h] st l2)
  | RMinMatch =>
      forall (V : Type) (lower : str -> str) key (l1 l2 : list (str * V)), NoDup (map fst l1) -> Permutation l1 l2 ->
      xobject_get lower key l1 = xobject_get lower key l2
  | RValueKeyedByOwnKey =>
      forall (K V W : Type) (keq : K -> K -> bool), (forall a b, keq a b = true <-> a = b) ->
      forall (key_of : V -> K) (g : V -> W) (l1 l2 : list (K * V)),
      (forall kv, In kv l1 -> key_of (snd kv) = fst kv) -> NoDup (map fst l1) -> Permutation l1 l2 ->
      forall k, lookup keq k (fold_left (fun acc kv => upsert keq (key_of (snd kv)) (g (snd kv)) acc) l1 [])
              = lookup keq k (fold_left (fun acc kv => upsert keq (key_of (snd kv)) (g (snd kv)) acc) l2 [])
  | RErrPresence =>
      (* whether some visited pair makes the loop return its error *)
      forall (K V R : Type) (p : K * V -> bool) (f : K * V -> R) (l1 l2 : list (K * V)), Permutation l1 l2 ->
      (match first_match p f l1 with Some _ => true | None => false end)
      = (match first_match p f l2 with Some _ => true | None => false end)
  | RConflictChecked =>
      forall (K V K2 V2 : Type) (keq2 : K2 -> K2 -> bool) (veq : V2 -> V2 -> bool),
      (forall a b, keq2 a b = true <-> a = b) -> (forall a b, veq a b = true <-> a = b) ->
      forall (f : V -> K2) (g : V -> V2) (l1 l2 : list (K * V)), Permutation l1 l2 ->
      match build_map_checked keq2 veq f g l1, build_map_checked keq2 veq f g l2 with
      | Some m1, Some m2 => forall k, lookup keq2 k m1 = lookup keq2 k m2
      | None, None => True
      | _, _ => False
      end
  | RStableSortInjective =>
      NoDup registered_versions /\
      forall (F : Type) from to (l1 l2 : list (version * F)), Permutation l1 l2 ->
      migrate_versions from to l1 = migrate_versions from to l2
  | RNoCaller =>
      (* checked against the generated table: such an entry only matches a site whose function has no caller *)
      forall s e, x_reason e = RNoCaller -> site_matches s e = true -> s_callers s = 0
  | RFirstMatchUnique =>
      (* partial: invariant when at most one cached flow matches; whether one matches never depends on the order *)
      forall (K V R : Type) (p : K * V -> bool) (f : K * V -> R) (l1 l2 : list (K * V)), Permutation l1 l2 ->
      ((forall a b, In a l1 -> In b l1 -> p a = true -> p b = true -> a = b) -> first_match p f l1 = first_match p f l2)
      /\ (match first_match p f l1 with Some _ => true | None => false end)
         = (match first_match p f l2 with Some _ => true | None => false end)
  | RHeaderDefaults =>
      (* partial: needs pairwise different canonical names among the configured defaults *)
      forall (V : Type) (canon : str -> str) (empty : V -> bool) (l1 l2 acc : list (str * V)),
      NoDup (map (fun kv => canon (fst kv)) l1) -> Permutation l1 l2 ->
      forall k, lookup str_eqb k (fold_left (default_step canon empty) l1 acc)
              = lookup str_eqb k (fold_left (default_step canon empty) l2 acc)
  | RKeySelected =>
      (forall (V R : Type) (sel : str) (f : str * V -> R) (l1 l2 : list (str * V)), NoDup (map fst l1) -> Permutation l1 l2 ->
       first_match (fun kv => str_eqb (fst kv) sel) f l1 = first_match (fun kv => str_eqb (fst kv) sel) f l2)
      /\ (forall (V : Type) (tx : str -> V -> V) (l1 l2 : list (str * V)), NoDup (map fst l1) -> Permutation l1 l2 ->
          forall k, lookup str_eqb k (build_map str_eqb (fun k => k) tx l1) = lookup str_eqb k (build_map str_eqb (fun k => k) tx l2))
  | RKeyPartitioned =>
      (* `dst[k] = h k v dst[k]` as a loop body *)
      forall (K V I : Type) (keq : K -> K -> bool) (ieq : I -> I -> bool),
      (forall a b, keq a b = true <-> a = b) -> (forall a b, ieq a b = true -> a = b) ->
      forall (h : K -> V -> option I -> I) (st : list (cell K I)) (l1 l2 : list (K * V)),
      NoDup (map fst l1) -> Permutation l1 l2 ->
      state_equiv K I keq (run_loop K V I keq [SUpdateAtKey 0 h] st l1) (run_loop K V I keq [SUpdateAtKey 0 h] st l2)
  | RKnownFinding _ =>
      (* nothing is claimed invariant: the shapes such sites have (last-writer-wins assignment, first match) ARE order-dependent *)
      (exists (body : list (stmt N N N)) (l1 l2 : list (N * N)),
         NoDup (map fst l1) /\ Permutation l1 l2 /\
         run_loop N N N N.eqb body [CFlag None] l1 <> run_loop N N N N.eqb body [CFlag None] l2)
  | RCanonicalKeyWrite =>
      (* partial: needs the key transformer to be injective on the keys *)
      forall (K V K2 V2 : Type) (keq2 : K2 -> K2 -> bool), (forall a b, keq2 a b = true <-> a = b) ->
      forall (f : K -> K2) (g : K -> V -> V2) (l1 l2 : list (K * V)),
      (forall a b, In a (map fst l1) -> In b (map fst l1) -> f a = f b -> a = b) ->
      NoDup (map fst l1) -> Permutation l1 l2 ->
      forall k, lookup keq2 k (build_map keq2 f g l1) = lookup keq2 k (build_map keq2 f g l2)
  | RMonotoneBudget =>
      (* whether the budget lasts, and what is left of it when it does, for every visiting order *)
      forall (A : Type) (cost : A -> nat) (b : nat) (l1 l2 : list A), Permutation l1 l2 ->
      spend cost l1 b = spend cost l2 b
  | RPureCalleeReviewed =>
      (* with the callee a function of (k, v), the body is made of accepted statements: the loop-body theorem *)
      forall (K V I : Type) (keq : K -> K -> bool) (ieq : I -> I -> bool),
      (forall a b, keq a b = true <-> a = b) -> (forall a b, ieq a b = true -> a = b) ->
      forall (body : list (stmt K V I)) (st : list (cell K I)) (l1 l2 : list (K * V)),
      body_safe K V I keq ieq body = true -> NoDup (map fst l1) -> Permutation l1 l2 ->
      state_equiv K I keq (run_loop K V I keq body st l1) (run_loop K V I keq body st l2)
  end.

Lemma spend_spec : forall (A : Type) (cost : A -> nat) (l : list A) (b : nat),
  spend cost l b = if Nat.leb (list_sum (map cost l)) b then Some (Nat.sub b (list_sum (map cost l))) else None.
Proof.
  induction l as [|a r IH]; intros b; simpl.
  - rewrite Nat.sub_0_r. reflexivity.
  - destruct (Nat.leb (cost a) b) eqn:E.
    + rewrite IH. apply Nat.leb_le in E.
      destruct (Nat.leb (list_sum (map cost r)) (Nat.sub b (cost a))) eqn:E2.
      * apply Nat.leb_le in E2. assert (H : Nat.leb (Nat.add (cost a) (list_sum (map cost r))) b = true) by (apply Nat.leb_le; lia).
        rewrite H. f_equal. lia.
      * apply Nat.leb_gt in E2. assert (H : Nat.leb (Nat.add (cost a) (list_sum (map cost r))) b = false) by (apply Nat.leb_gt; lia).
        rewrite H. reflexivity.
    + apply Nat.leb_gt in E. assert (H : Nat.leb (Nat.add (cost a) (list_sum (map cost r))) b = false) by (apply Nat.leb_gt; lia).
      rewrite H. reflexivity.
Qed.

Lemma list_sum_perm : forall l1 l2 : list nat, Permutation l1 l2 -> list_sum l1 = list_sum l2.
Proof. intros l1 l2 Hp. induction Hp; simpl; lia. Qed.

Theorem budget_walk_perm_invariant : forall (A : Type) (cost : A -> nat) (b : nat) (l1 l2 : list A), Permutation l1 l2 ->
  spend cost l1 b = spend cost l2 b.
Proof.
  intros A cost b l1 l2 Hp. rewrite !spend_spec.
  rewrite (list_sum_perm (map cost l1) (map cost l2) (Permutation_map cost Hp)). reflexivity.
Qed.

Theorem reasons_sound : forall r, reason_statement r.
Proof.
  destruct r; simpl.
  - (* RRegistration *) intros K V keq Hk g l1 l2 Hnd Hp.
    apply (build_map_perm_invariant keq Hk (fun k => k) g l1 l2); try assumption. intros a b _ _ E. exact E.
  - (* RKeyGuardedAssign *) intros K V I keq ieq Hk Hi c g h st l1 l2 Hnd Hp.
    apply (safe_body_perm_invariant K V I keq ieq Hk Hi); try assumption.
    unfold body_safe. simpl. rewrite (keq_refl keq Hk c). reflexivity.
  - (* RMinMatch *) intros V lower key l1 l2 Hnd Hp. apply xobject_get_perm_invariant; assumption.
  - (* RValueKeyedByOwnKey *) intros K V W keq Hk key_of g l1 l2 Hkey Hnd Hp.
    apply (value_keyed_perm_invariant keq Hk key_of g l1 l2); assumption.
  - (* RErrPresence *) intros K V R p f l1 l2 Hp. apply first_match_presence_perm_invariant. exact Hp.
  - (* RConflictChecked *) intros K V K2 V2 keq2 veq Hk Hv f g l1 l2 Hp.
    generalize (build_map_checked_perm_invariant keq2 veq Hk Hv f g l1 l2 Hp). unfold opt_equiv.
    destruct (build_map_checked keq2 veq f g l1); destruct (build_map_checked keq2 veq f g l2); intro H; exact H.
  - (* RStableSortInjective *) split. exact registered_versions_distinct.
    intros F from to l1 l2 Hp. apply migrate_versions_perm_invariant. exact Hp.
  - (* RNoCaller *) intros s e Hr Hm. unfold site_matches in Hm. rewrite Hr in Hm.
    apply andb_true_iff in Hm. destruct Hm as [_ Hc]. apply Nat.eqb_eq. exact Hc.
  - (* RFirstMatchUnique *) intros K V R p f l1 l2 Hp. split.
    + intro Hu. apply first_match_unique_perm_invariant; assumption.
    + apply first_match_presence_perm_invariant. exact Hp.
  - (* RHeaderDefaults *) intros V canon empty l1 l2 acc Hnd Hp.
    apply (header_defaults_perm_invariant_partial canon empty l1 l2 acc); assumption.
  - (* RKeySelected *) split.
    + intros V R sel f l1 l2 Hnd Hp. apply (key_guarded_first_match_perm_invariant str_eqb str_eqb_spec); assumption.
    + intros V tx l1 l2 Hnd Hp.
      apply (build_map_perm_invariant str_eqb str_eqb_spec (fun k => k) tx l1 l2); try assumption. intros a b _ _ E. exact E.
  - (* RKeyPartitioned *) intros K V I keq ieq Hk Hi h st l1 l2 Hnd Hp.
    apply (safe_body_perm_invariant K V I keq ieq Hk Hi); try assumption. reflexivity.
  - (* RKnownFinding *) exact assign_outer_refuted.
  - (* RCanonicalKeyWrite *) intros K V K2 V2 keq2 Hk f g l1 l2 Hinj Hnd Hp.
    apply (build_map_perm_invariant keq2 Hk f g l1 l2); assumption.
  - (* RMonotoneBudget *) exact budget_walk_perm_invariant.
  - (* RPureCalleeReviewed *) intros K V I keq ieq Hk Hi body st l1 l2 Hb Hnd Hp.
    apply (safe_body_perm_invariant K V I keq ieq Hk Hi); assumption.
Qed.

(* every entry of the committed table carries a reason whose statement is proved *)
Theorem exceptions_justified : forall e, In e (map_range_exceptions ++ dep_map_range_exceptions) -> reason_statement (x_reason e).
Proof. intros e _. apply reasons_sound. Qed.

(* the partial reasons' side conditions are satisfiable *)
Example header_defaults_hypothesis_satisfiable :
  NoDup (map (fun kv : str * N => (fun s : str => s) (fst kv)) [([85], 1); ([65], 2)]%N).
Proof. simpl. repeat constructor; simpl; intuition discriminate. Qed.

(* ---- the known dependency findings, with the inputs of their `known:` lines ---------------------------------------- *)

(* exactly three, and none inside goflow: a fourth cannot appear in a table silently *)
Lemma known_findings_listed :
  known_classes map_range_exceptions = [] /\
  known_classes dep_map_range_exceptions =
    ["dates:locale-match-map-order"; "dates:parse-error-ambiguous-layout-token"; "urns:percent-escape-map-order"]%string.
Proof. split; vm_compute; reflexivity. Qed.

(* urns:percent-escape-map-order, input `a%2523b` (path of ext:a%2523b): visiting '%' before '#' gives `a#b`, visiting '#'
   before '%' gives `a%23b` *)
Definition path_a_2523_b : str := [97; 37; 50; 53; 50; 51; 98]%N.

Lemma urns_unescape_refuted :
  exists l1 l2, Permutation l1 l2 /\ NoDup (map fst l1) /\
    urns_unescape l1 path_a_2523_b = [97; 35; 98]%N /\ urns_unescape l2 path_a_2523_b = [97; 37; 50; 51; 98]%N.
Proof.
  exists [(37, (37, 50, 53)); (35, (37, 50, 51)); (63, (37, 51, 70))]%N, urn_escapes.
  split. { unfold urn_escapes. apply perm_swap. }
  split. { simpl. repeat constructor; simpl; intuition discriminate. }
  split; vm_compute; reflexivity.
Qed.

(* dates:parse-error-ambiguous-layout-token, layout `tt:mm`: the reverse look-up "which layout token maps to 15" is a first
   match over a map in which `t` (116) and `tt` (116 116) both map to `15` (49 53) *)
Lemma dates_parse_error_token_refuted :
  exists l1 l2 : list (str * str), Permutation l1 l2 /\ NoDup (map fst l1) /\
    first_match (fun kv => str_eqb (snd kv) [49; 53]%N) fst l1 = Some [116]%N /\
    first_match (fun kv => str_eqb (snd kv) [49; 53]%N) fst l2 = Some [116; 116]%N.
Proof.
  exists [([116], [49; 53]); ([116; 116], [49; 53])]%N, [([116; 116], [49; 53]); ([116], [49; 53])]%N.
  split. { apply perm_swap. }
  split. { simpl. repeat constructor; simpl; intuition discriminate. }
  split; vm_compute; reflexivity.
Qed.
