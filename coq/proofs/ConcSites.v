(* ConcSites.v -- property C09: the hypotheses of the schedule theorems, discharged against the tables GENERATED from
   the goflow working tree (gen/SharedState.v) with the committed lists of model/SharedStateAllow.v. *)
From Coq Require Import List String NArith Bool Arith.
From Verif Require Import model.Conc model.SharedStateAllow gen.SharedState model.ConcCorr proofs.ConcProofs.
Import ListNotations.

(* the flow cache is locked (flowAssets.Get and FindByName exist, touch the cache, start with mutex.Lock() and
   defer mutex.Unlock(); so does every other method of a type that has a mutex) *)
Lemma code_locked_cache : locked_cache mutex_methods = true.
Proof. vm_compute. reflexivity. Qed.

(* no package-level variable of a lazily initialised type is left uninitialised, no package-level variable is written
   outside init()/sync.Once/reviewed start-up registration *)
Lemma code_no_shared_lazy : d_shared_lazy code_discipline = [].
Proof. vm_compute. reflexivity. Qed.

(* no unreviewed write to a field of a type that several sessions can reach, outside constructors and locks *)
Lemma code_no_def_writes : d_def_writes code_discipline = [].
Proof. vm_compute. reflexivity. Qed.

Lemma code_discipline_ok : discipline_ok code_discipline = true.
Proof. vm_compute. reflexivity. Qed.

(* the tables are not empty: the translator saw the library *)
Lemma code_tables_nonempty :
  Nat.leb 100 shared_files_scanned = true /\ Nat.leb 2 (List.length mutex_methods) = true
  /\ Nat.leb 10 (List.length global_writes) = true /\ Nat.leb 50 (List.length shared_field_writes) = true
  /\ Nat.leb 2 (List.length global_shared_vars) = true.
Proof. repeat split; vm_compute; reflexivity. Qed.

(* for the discipline of the current tree: no schedule of any number of goroutines, each looking flows up in the
   shared cache and reading loaded definitions, has a data race ... *)
Theorem race_free_current_tree : forall load progs sched,
  forallb (forallb (op_allowed code_discipline)) progs = true ->
  g_races (run load sched (init (d_locked code_discipline) progs)) = [].
Proof. intros. apply race_free_for_discipline. exact code_discipline_ok. assumption. Qed.

(* ... and every goroutine observes what it observes alone *)
Theorem solo_equiv_current_tree : forall load progs sched t p,
  forallb (forallb (op_allowed code_discipline)) progs = true -> nth_error progs t = Some p ->
  let c := run load sched (init (d_locked code_discipline) progs) in
  (exists rest, solo_out load p [] = (thread_out c t ++ rest)%list) /\
  (thread_done c t = true -> thread_out c t = solo_out load p []).
Proof. intros. apply solo_equiv_for_discipline. exact code_discipline_ok. assumption. assumption. Qed.

(* the classification is not vacuous: each kind of table entry that the mutations of DESIGN section 4 produce is rejected *)
Example unlocked_get_rejected :
  locked_cache [ {| mm_pkg := "flows/definition"; mm_type := "flowAssets"; mm_method := "Get"; mm_touches := true;
                    mm_writes := true; mm_lock := LkNone; mm_defer_unlock := false; mm_reads_locked := false; mm_writes_locked := false |};
                 {| mm_pkg := "flows/definition"; mm_type := "flowAssets"; mm_method := "FindByName"; mm_touches := true;
                    mm_writes := true; mm_lock := LkLock; mm_defer_unlock := true; mm_reads_locked := true; mm_writes_locked := true |} ] = false.
Proof. reflexivity. Qed.

(* the store after the unlock (or: a write while only the read lock is held) *)
Example write_outside_exclusive_lock_rejected :
  mutex_method_ok {| mm_pkg := "flows/definition"; mm_type := "flowAssets"; mm_method := "FindByName"; mm_touches := true;
                     mm_writes := true; mm_lock := LkRLock; mm_defer_unlock := true; mm_reads_locked := true;
                     mm_writes_locked := false |} = false.
Proof. reflexivity. Qed.

(* a correct read/write-lock discipline and helpers called with the lock held are accepted *)
Example rwmutex_discipline_accepted :
  locked_cache [ {| mm_pkg := "flows/definition"; mm_type := "flowAssets"; mm_method := "Get"; mm_touches := true;
                    mm_writes := true; mm_lock := LkRLock; mm_defer_unlock := false; mm_reads_locked := true; mm_writes_locked := true |};
                 {| mm_pkg := "flows/definition"; mm_type := "flowAssets"; mm_method := "FindByName"; mm_touches := true;
                    mm_writes := true; mm_lock := LkRLock; mm_defer_unlock := false; mm_reads_locked := true; mm_writes_locked := true |};
                 {| mm_pkg := "flows/definition"; mm_type := "flowAssets"; mm_method := "cachedByName"; mm_touches := true;
                    mm_writes := false; mm_lock := LkHeld; mm_defer_unlock := false; mm_reads_locked := true; mm_writes_locked := true |} ] = true.
Proof. reflexivity. Qed.

Example lazy_global_rejected :
  global_write_ok shared_state_allow
    {| gw_pkg := "flows"; gw_func := "lookupTable"; gw_var := "flows.table"; gw_kind := GwAssign;
       gw_in_once := false; gw_nil_guard := true; gw_init_only := false; gw_exported := false |} = false.
Proof. reflexivity. Qed.

Example cache_on_definition_rejected :
  field_write_ok shared_state_allow mutex_methods
    {| fw_pkg := "flows/definition"; fw_func := "flow.Nodes"; fw_type := "flows/definition.flow"; fw_field := "nodeMap";
       fw_root := RtRecv; fw_ctor := CkNone; fw_under_lock := false; fw_nil_guard := true; fw_in_once := false |} = false.
Proof. reflexivity. Qed.

Example lazy_shared_var_rejected :
  shared_var_ok shared_state_allow
    {| sv_pkg := "excellent/types"; sv_var := "XObjectEmpty"; sv_type := "excellent/types.XObject";
       sv_ctor := "NewXLazyObject"; sv_eager := false;
       sv_mutators := [ {| mu_name := "XObject.initialize"; mu_lazy := true; mu_callers := 2 |} ] |} = false.
Proof. reflexivity. Qed.

(* a plain setter of a package-level instance that somebody calls *)
Example called_setter_on_shared_var_rejected :
  shared_var_ok shared_state_allow
    {| sv_pkg := "excellent/types"; sv_var := "XObjectEmpty"; sv_type := "excellent/types.XObject";
       sv_ctor := "NewXObject"; sv_eager := true;
       sv_mutators := [ {| mu_name := "XObject.SetMarshalOptions"; mu_lazy := false; mu_callers := 1 |} ] |} = false.
Proof. reflexivity. Qed.

(* the lazy-initialisation pattern inside a function that is a constructor by name only, through its argument *)
(* review round 2, finding 1: a write to a CACHED flow made inside the locked flowAssets.Get (`flow.hits++` on a cache hit:
   root is the looked-up object, not the receiver) is not covered by the cache's mutex; the same write to the receiver's
   own field is *)
Example write_to_cached_flow_under_cache_lock_rejected :
  field_write_ok shared_state_allow mutex_methods
    {| fw_pkg := "flows/definition"; fw_func := "flowAssets.Get"; fw_type := "flows/definition.flow"; fw_field := "hits";
       fw_root := RtOther; fw_ctor := CkNone; fw_under_lock := true; fw_nil_guard := false; fw_in_once := false |} = false
  /\ field_write_ok shared_state_allow mutex_methods
    {| fw_pkg := "flows/definition"; fw_func := "flowAssets.Get"; fw_type := "flows/definition.flow"; fw_field := "hits";
       fw_root := RtRecv; fw_ctor := CkNone; fw_under_lock := true; fw_nil_guard := false; fw_in_once := false |} = false
  /\ field_write_ok shared_state_allow mutex_methods
    {| fw_pkg := "flows/definition"; fw_func := "flowAssets.Get"; fw_type := "flows/definition.flowAssets"; fw_field := "cache";
       fw_root := RtRecv; fw_ctor := CkNone; fw_under_lock := true; fw_nil_guard := false; fw_in_once := false |} = true.
Proof. repeat split; reflexivity. Qed.

Example cache_on_definition_in_ctor_rejected :
  field_write_ok shared_state_allow mutex_methods
    {| fw_pkg := "flows"; fw_func := "parseQuery"; fw_type := "flows.Group"; fw_field := "parsedQuery";
       fw_root := RtParam; fw_ctor := CkNamed; fw_under_lock := false; fw_nil_guard := true; fw_in_once := false |} = false
  /\ field_write_ok shared_state_allow mutex_methods
    {| fw_pkg := "flows"; fw_func := "parseQuery"; fw_type := "flows.Group"; fw_field := "parsedQuery";
       fw_root := RtParam; fw_ctor := CkNamed; fw_under_lock := false; fw_nil_guard := false; fw_in_once := false |} = false
  /\ field_write_ok shared_state_allow mutex_methods
    {| fw_pkg := "flows"; fw_func := "Group.UnmarshalJSON"; fw_type := "flows.Group"; fw_field := "parsedQuery";
       fw_root := RtRecv; fw_ctor := CkUnmarshal; fw_under_lock := false; fw_nil_guard := true; fw_in_once := false |} = false.
Proof. repeat split; reflexivity. Qed.
