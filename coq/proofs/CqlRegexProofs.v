(* proofs/CqlRegexProofs.v — generic facts about the derivative matcher and the tokenizer of lib/RegexLM.v, used to
   lex formatted contact queries: independence of the text after a dead state, one-or-more-of-a-class rules, the
   shape of the PROPERTY rule. *)
From Coq Require Import List Arith NArith Bool Lia.
From Verif Require Import lib.RegexLM.
Import ListNotations.
Close Scope N_scope.

(* ---- a rule that has died on a prefix does not look at the rest ------------------------------------- *)

Fixpoint dies (r : re) (s : list N) : bool :=
  match s with
  | [] => false
  | c :: s' => is_Empty (deriv c r) || dies (deriv c r) s'
  end.

Lemma lm_dies : forall s r rest i best, dies r s = true -> lm r (s ++ rest) i best = lm r s i best.
Proof.
  induction s as [|c s IH]; intros r rest i best H; [discriminate|].
  cbn [dies] in H. cbn [app lm]. destruct (is_Empty (deriv c r)) eqn:E; [reflexivity|].
  cbn [orb] in H. apply IH. exact H.
Qed.

Lemma pick_dies {kind} : forall (rules : list (rule kind)) s rest cur,
  forallb (fun ru => dies (r_re ru) s) rules = true -> pick rules (s ++ rest) cur = pick rules s cur.
Proof.
  induction rules as [|ru rules IH]; intros s rest cur H; [reflexivity|].
  cbn [forallb] in H. apply andb_prop in H. destruct H as [H1 H2].
  cbn [pick]. unfold longest. rewrite (lm_dies s (r_re ru) rest 0 None H1). apply IH. exact H2.
Qed.

(* ---- derivatives along a prefix that keeps the rule alive --------------------------------------------- *)

Fixpoint derivs (r : re) (s : list N) : re :=
  match s with
  | [] => r
  | c :: s' => derivs (deriv c r) s'
  end.

(* no state along s (after at least one character) is Empty *)
Fixpoint alive (r : re) (s : list N) : bool :=
  match s with
  | [] => true
  | c :: s' => negb (is_Empty (deriv c r)) && alive (deriv c r) s'
  end.

Lemma lm_alive : forall s r t i best, alive r s = true ->
  exists b, lm r (s ++ t) i best = lm (derivs r s) t (i + length s) b.
Proof.
  induction s as [|c s IH]; intros r t i best H.
  - exists best. cbn [app derivs length]. rewrite Nat.add_0_r. reflexivity.
  - cbn [alive] in H. apply andb_prop in H. destruct H as [H1 H2].
    cbn [app lm derivs length]. destruct (is_Empty (deriv c r)); [discriminate|].
    destruct (IH (deriv c r) t (S i) (if nullable r then Some i else best) H2) as [b Hb].
    exists b. rewrite Hb. f_equal. lia.
Qed.

(* ---- zero-or-more / one-or-more characters of a class -------------------------------------------------- *)

Fixpoint span (C : cset) (s : list N) : nat :=
  match s with
  | c :: r => if in_cset c C then S (span C r) else O
  | [] => O
  end.

Lemma deriv_star_class C c : deriv c (Star (Chr C)) = if in_cset c C then Star (Chr C) else Empty.
Proof. cbn [deriv]. destruct (in_cset c C); reflexivity. Qed.

Lemma deriv_plus_class C c : deriv c (Cat (Chr C) (Star (Chr C))) = if in_cset c C then Star (Chr C) else Empty.
Proof. cbn [deriv nullable]. destruct (in_cset c C); reflexivity. Qed.

Lemma lm_star_class : forall C s i best, lm (Star (Chr C)) s i best = Some (i + span C s).
Proof.
  induction s as [|c s IH]; intros i best.
  - cbn [lm nullable span]. f_equal. lia.
  - cbn [lm nullable span]. rewrite deriv_star_class. destruct (in_cset c C).
    + cbn [is_Empty]. rewrite IH. f_equal. lia.
    + cbn [is_Empty]. f_equal. lia.
Qed.

Lemma lm_plus_class : forall C s i best,
  lm (Cat (Chr C) (Star (Chr C))) s i best = match span C s with O => best | n => Some (i + n) end.
Proof.
  intros C s i best. destruct s as [|c s].
  - reflexivity.
  - cbn [lm nullable andb span]. rewrite deriv_plus_class. destruct (in_cset c C).
    + cbn [is_Empty]. rewrite lm_star_class. f_equal. lia.
    + reflexivity.
Qed.

Lemma longest_plus_class : forall C s,
  longest (Cat (Chr C) (Star (Chr C))) s = match span C s with O => None | n => Some n end.
Proof. intros C s. unfold longest. rewrite lm_plus_class. destruct (span C s); reflexivity. Qed.

Lemma longest_class : forall C c s, longest (Chr C) (c :: s) = if in_cset c C then Some 1 else None.
Proof.
  intros C c s. unfold longest. cbn [lm nullable deriv]. destruct (in_cset c C).
  - cbn [is_Empty]. destruct s; reflexivity.
  - reflexivity.
Qed.

(* span of a run of class members followed by a non-member (or the end) *)
Lemma span_app_all C : forall a t, forallb (fun c => in_cset c C) a = true -> span C (a ++ t) = length a + span C t.
Proof.
  induction a as [|c a IH]; intros t H; [reflexivity|].
  cbn [forallb] in H. apply andb_prop in H. destruct H as [H1 H2].
  cbn [app span length]. rewrite H1, IH by exact H2. reflexivity.
Qed.

Definition stops (C : cset) (t : list N) : Prop :=
  match t with [] => True | c :: _ => in_cset c C = false end.

Lemma span_stops C t : stops C t -> span C t = O.
Proof. destruct t as [|c t]; [reflexivity|]. cbn [stops span]. intros ->. reflexivity. Qed.

Lemma span_run C a t : forallb (fun c => in_cset c C) a = true -> stops C t -> span C (a ++ t) = length a.
Proof. intros Ha Ht. rewrite span_app_all by exact Ha. rewrite span_stops by exact Ht. lia. Qed.

Lemma span_le C : forall s, span C s <= length s.
Proof. induction s as [|c s IH]; cbn [span length]; [lia|]. destruct (in_cset c C); lia. Qed.

(* the run cannot be longer than the position of the first non-member *)
Lemma span_bound C : forall a c t, in_cset c C = false -> span C (a ++ c :: t) <= length a.
Proof.
  induction a as [|x a IH]; intros c t H.
  - cbn [app span length]. rewrite H. lia.
  - cbn [app span length]. destruct (in_cset x C); [|lia]. specialize (IH c t H). lia.
Qed.

(* ---- the PROPERTY rule: (letters+ '.')? keychars+ ---------------------------------------------------------- *)

Section Property.
  Variables L K : cset.
  Let D : cset := CRanges [(46%N, 46%N)].
  Let PK : re := Cat (Chr K) (Star (Chr K)).
  Let PROP : re := Cat (Alt (Cat (Cat (Chr L) (Star (Chr L))) (Chr D)) Eps) PK.

  (* a first character that is a key character but not a letter: only the un-prefixed form remains *)
  Lemma deriv_prop_nonletter c : in_cset c L = false -> in_cset c K = true -> deriv c PROP = Star (Chr K).
  Proof.
    intros HL HK. unfold PROP, PK. cbn [deriv nullable andb orb]. rewrite HL, HK. reflexivity.
  Qed.

  Lemma longest_prop_nonletter : forall c s, in_cset c L = false -> in_cset c K = true ->
    longest PROP (c :: s) = Some (S (span K s)).
  Proof.
    intros c s HL HK. unfold longest. cbn [lm].
    rewrite (deriv_prop_nonletter c HL HK). cbn [is_Empty]. rewrite lm_star_class. reflexivity.
  Qed.

  (* from the state after the prefix `letters+ .` *)
  Lemma lm_key : forall key t i best, key <> [] -> forallb (fun c => in_cset c K) key = true -> stops K t ->
    lm PK (key ++ t) i best = Some (i + length key).
  Proof.
    intros key t i best Hne Hk Ht. unfold PK. rewrite lm_plus_class, span_run by assumption.
    destruct key; [congruence|]. reflexivity.
  Qed.
End Property.
