(* ExAvoid.v — C11, renaming: capture avoidance in the direction of the new name (hunt finding C11/1).
   ContextRefRename first gives every anonymous-function parameter that would capture a renamed reference a name
   nothing else uses (model/ExRefactor.v: avoid, alpha, pick_fresh), then renames.  Proved here:
   (1) when nothing would be captured, nothing but the renaming happens (avoid is the identity);
   (2) after avoid, no anonymous function with a parameter named like a name of the replacement contains a
       reference that will be renamed. *)
From Coq Require Import List NArith Bool Arith Lia.
From Verif Require Import lib.Quote model.ExSyntax model.ExLexer model.ExParser model.ExPrinter model.ExScanner
  model.ExRefactor proofs.ExPrintProofs.
Import ListNotations.
Open Scope N_scope.

Lemma teq_refl (a : text) : text_eqb a a = true.
Proof. induction a as [|x a IH]; [reflexivity|]. cbn [text_eqb]. rewrite N.eqb_refl, IH. reflexivity. Qed.

Lemma teq_eq : forall a b : text, text_eqb a b = true -> a = b.
Proof.
  induction a as [|x a IH]; intros [|y b] H; try discriminate; [reflexivity|].
  cbn [text_eqb] in H. apply andb_prop in H. destruct H as [H1 H2]. apply N.eqb_eq in H1. subst y. f_equal. exact (IH _ H2).
Qed.

Lemma teq_neq (a b : text) : a <> b -> text_eqb a b = false.
Proof. intros H. destruct (text_eqb a b) eqn:E; [|reflexivity]. exfalso. exact (H (teq_eq _ _ E)). Qed.

Lemma existsb_teq_in (x : text) l : existsb (text_eqb x) l = true <-> In x l.
Proof.
  rewrite existsb_exists. split.
  - intros (y & Hy & E). apply teq_eq in E. subst y. exact Hy.
  - intros H. exists x. split; [exact H|apply teq_refl].
Qed.

(* ---------------------------------------------------------------------------------------------- *)
(* the loop that picks a fresh name *)

Definition count_ge (k : nat) (l : list text) : nat := length (filter (fun t => Nat.leb k (length t)) l).

Lemma count_ge_S_le k l : (count_ge (S k) l <= count_ge k l)%nat.
Proof.
  unfold count_ge. induction l as [|t l IH]; [apply Nat.le_refl|]. cbn [filter].
  destruct (Nat.leb (S k) (length t)) eqn:E1.
  - apply Nat.leb_le in E1. replace (Nat.leb k (length t)) with true by (symmetry; apply Nat.leb_le; lia). cbn [length]. lia.
  - destruct (Nat.leb k (length t)); cbn [length]; lia.
Qed.

Lemma count_ge_in_lt (c : text) l : In c l -> (count_ge (S (length c)) l < count_ge (length c) l)%nat.
Proof.
  unfold count_ge. induction l as [|t l IH]; intros H; [contradiction|]. cbn [filter]. destruct H as [->|H].
  - rewrite Nat.leb_refl. replace (Nat.leb (S (length c)) (length c)) with false by (symmetry; apply Nat.leb_gt; lia).
    cbn [length]. pose proof (count_ge_S_le (length c) l) as HL. unfold count_ge in HL. lia.
  - specialize (IH H). destruct (Nat.leb (S (length c)) (length t)) eqn:E1.
    + apply Nat.leb_le in E1. replace (Nat.leb (length c) (length t)) with true by (symmetry; apply Nat.leb_le; lia). cbn [length]. lia.
    + destruct (Nat.leb (length c) (length t)); cbn [length]; lia.
Qed.

Lemma pick_fresh_spec : forall fuel cand taken, (count_ge (length cand) taken < fuel)%nat ->
  existsb (text_eqb (pick_fresh fuel cand taken)) taken = false
  /\ exists k, pick_fresh fuel cand taken = cand ++ repeat 95 k.
Proof.
  induction fuel as [|f IH]; intros cand taken H; [lia|]. cbn [pick_fresh].
  destruct (existsb (text_eqb cand) taken) eqn:E.
  - apply existsb_teq_in in E. pose proof (count_ge_in_lt cand taken E) as HL.
    destruct (IH (cand ++ [95]) taken) as (H1 & k & H2).
    { rewrite app_length. cbn [length]. rewrite Nat.add_1_r. eapply Nat.lt_le_trans; [exact HL|]. apply Nat.lt_succ_r. exact H. }
    split; [exact H1|]. exists (S k). rewrite H2, <- app_assoc. reflexivity.
  - split; [exact E|]. exists O. rewrite app_nil_r. reflexivity.
Qed.

Lemma count_ge_le k l : (count_ge k l <= length l)%nat.
Proof. unfold count_ge. induction l as [|t l IH]; [apply Nat.le_refl|]. cbn [filter]. destruct (Nat.leb k (length t)); cbn [length]; lia. Qed.

(* ---------------------------------------------------------------------------------------------- *)
Section AvoidProofs.
Variable lower : N -> N.
Hypothesis lower_idem : forall c, lower (lower c) = lower c.
Hypothesis lower_us : lower 95 = 95.            (* unicode.ToLower('_') = '_' *)
Variable from : ExSyntax.text.
Variable to : ExSyntax.text.

Notation lname := (lname lower).
Notation same_name := (same_name lower).
Notation is_from := (is_from lower from).
Notation has_renamed := (has_renamed lower from).
Notation captures := (captures lower from).
Notation alpha := (alpha lower).
Notation used_names := (used_names lower).
Notation TN := (target_names lower to).
Notation avoid := (avoid lower from to).

Lemma lname_idem n : lname (lname n) = lname n.
Proof. unfold ExRefactor.lname. rewrite map_map. apply map_ext. exact lower_idem. Qed.

Lemma lname_length n : length (lname n) = length n.
Proof. apply map_length. Qed.

Lemma same_iff a b : same_name a b = true <-> lname a = lname b.
Proof. unfold ExRefactor.same_name. split; [apply teq_eq|intros ->; apply teq_refl]. Qed.

Lemma same_sym a b : same_name a b = same_name b a.
Proof.
  destruct (same_name a b) eqn:E1, (same_name b a) eqn:E2; try reflexivity.
  - apply same_iff in E1. symmetry in E1. apply same_iff in E1. congruence.
  - apply same_iff in E2. symmetry in E2. apply same_iff in E2. congruence.
Qed.

Lemma same_trans_false a b c : same_name a b = true -> same_name b c = false -> same_name a c = false.
Proof.
  intros H1 H2. destruct (same_name a c) eqn:E; [|reflexivity].
  apply same_iff in H1. apply same_iff in E. assert (H : same_name b c = true) by (apply same_iff; congruence). congruence.
Qed.

(* nothing is renamed under a function that binds `from` *)
Lemma has_renamed_bound : forall e, has_renamed true e = false.
Proof.
  induction e as [n|c l IHc|c l IHc IHl|f ps IHf IHps|a b IHb|o a b IHa IHb|a IHa|a IHa|v|l|b|] using expr_ind';
    cbn [ExRefactor.has_renamed]; try reflexivity; try assumption.
  - rewrite IHc, IHl. reflexivity.
  - rewrite IHf. cbn [orb]. induction IHps as [|x r Hx Hr IH]; [reflexivity|]. cbn [existsb]. rewrite Hx, IH. reflexivity.
  - rewrite IHa, IHb. reflexivity.
Qed.

Lemma captures_bound name : forall e, captures name true e = false.
Proof.
  induction e as [n|c l IHc|c l IHc IHl|f ps IHf IHps|a b IHb|o a b IHa IHb|a IHa|a IHa|v|l|b|] using expr_ind';
    cbn [ExRefactor.captures]; try reflexivity; try assumption.
  - rewrite IHc, IHl. reflexivity.
  - rewrite IHf. cbn [orb]. induction IHps as [|x r Hx Hr IH]; [reflexivity|]. cbn [existsb]. rewrite Hx, IH. reflexivity.
  - cbn [orb]. rewrite has_renamed_bound, andb_false_r, IHb. reflexivity.
  - rewrite IHa, IHb. reflexivity.
Qed.

(* a parameter named like `from` binds it: a function with such a parameter captures nothing *)
Lemma captures_from name : same_name name from = true -> forall e bnd, captures name bnd e = false.
Proof.
  intros Hs.
  induction e as [n|c l IHc|c l IHc IHl|f ps IHf IHps|a b IHb|o a b IHa IHb|a IHa|a IHa|v|l|b|] using expr_ind';
    intros bnd; cbn [ExRefactor.captures]; try reflexivity; auto.
  - rewrite IHc, IHl. reflexivity.
  - rewrite IHf. cbn [orb]. induction IHps as [|x r Hx Hr IH]; [reflexivity|]. cbn [existsb]. rewrite Hx, IH. reflexivity.
  - rewrite IHb, orb_false_r. destruct (existsb (same_name name) a) eqn:E; [|reflexivity]. cbn [andb].
    assert (Hf : existsb is_from a = true).
    { apply existsb_exists in E. destruct E as (x & Hx & Ex). apply existsb_exists. exists x. split; [exact Hx|].
      unfold ExRefactor.is_from. apply same_iff. apply same_iff in Ex. apply same_iff in Hs. congruence. }
    rewrite Hf, orb_true_r. apply has_renamed_bound.
  - rewrite IHa, IHb. reflexivity.
Qed.

(* a reference that will be renamed is named like `from` *)
Lemma has_renamed_used : forall e bnd, has_renamed bnd e = true -> In (lname from) (used_names e).
Proof.
  induction e as [n|c l IHc|c l IHc IHl|f ps IHf IHps|a b IHb|o a b IHa IHb|a IHa|a IHa|v|l|b|] using expr_ind';
    intros bnd; cbn [ExRefactor.has_renamed ExRefactor.used_names]; try discriminate; eauto.
  - intros H. apply andb_prop in H. destruct H as [_ H]. unfold ExRefactor.is_from in H. apply same_iff in H. left. exact H.
  - intros H. apply orb_prop in H. apply in_or_app. destruct H as [H|H]; [left|right]; eauto.
  - intros H. apply orb_prop in H. apply in_or_app. destruct H as [H|H]; [left; eauto|right].
    induction IHps as [|x r Hx Hr IH]; [discriminate|]. cbn [existsb] in H. cbn [flat_map]. apply in_or_app.
    apply orb_prop in H. destruct H as [H|H]; [left; eauto|right; auto].
  - intros H. apply in_or_app. right. eauto.
  - intros H. apply orb_prop in H. apply in_or_app. destruct H as [H|H]; [left|right]; eauto.
Qed.

Lemma captures_used name : forall e bnd, captures name bnd e = true -> In (lname from) (used_names e).
Proof.
  induction e as [n|c l IHc|c l IHc IHl|f ps IHf IHps|a b IHb|o a b IHa IHb|a IHa|a IHa|v|l|b|] using expr_ind';
    intros bnd; cbn [ExRefactor.captures ExRefactor.used_names]; try discriminate; eauto.
  - intros H. apply orb_prop in H. apply in_or_app. destruct H as [H|H]; [left|right]; eauto.
  - intros H. apply orb_prop in H. apply in_or_app. destruct H as [H|H]; [left; eauto|right].
    induction IHps as [|x r Hx Hr IH]; [discriminate|]. cbn [existsb] in H. cbn [flat_map]. apply in_or_app.
    apply orb_prop in H. destruct H as [H|H]; [left; eauto|right; auto].
  - intros H. apply in_or_app. right. apply orb_prop in H. destruct H as [H|H]; [|eauto].
    apply andb_prop in H. destruct H as [_ H]. exact (has_renamed_used _ _ H).
  - intros H. apply orb_prop in H. apply in_or_app. destruct H as [H|H]; [left|right]; eauto.
Qed.

(* ---------------------------------------------------------------------------------------------- *)
(* the alpha step *)
Section Alpha.
Variable name fresh suffix : ExSyntax.text.
Hypothesis Hfs : fresh = name ++ suffix.
Hypothesis Hn : forall x, same_name x name = true -> is_from x = false.
Hypothesis Hf : is_from fresh = false.

Notation alpha1 := (alpha name fresh suffix).

(* a parameter with the suffix appended is, for every comparison of names, the fresh name *)
Lemma lname_suffixed x : same_name x name = true -> lname (x ++ suffix) = lname fresh.
Proof.
  intros H. apply same_iff in H. rewrite Hfs. unfold ExRefactor.lname in *. rewrite !map_app, H. reflexivity.
Qed.

Lemma same_suffixed_l x y : same_name x name = true -> same_name (x ++ suffix) y = same_name fresh y.
Proof. intros H. unfold ExRefactor.same_name. rewrite (lname_suffixed x H). reflexivity. Qed.

Lemma same_suffixed_r x y : same_name x name = true -> same_name y (x ++ suffix) = same_name y fresh.
Proof. intros H. unfold ExRefactor.same_name. rewrite (lname_suffixed x H). reflexivity. Qed.

Lemma alpha_args_from a :
  existsb is_from (map (fun x => if same_name x name then x ++ suffix else x) a) = existsb is_from a.
Proof.
  induction a as [|x a IH]; [reflexivity|]. cbn [map existsb]. rewrite IH. destruct (same_name x name) eqn:E; [|reflexivity].
  unfold ExRefactor.is_from at 1. rewrite (same_suffixed_l x from E). fold (is_from fresh). rewrite Hf, (Hn x E). reflexivity.
Qed.

Lemma alpha_has_renamed : forall e inb bnd, has_renamed bnd (alpha1 inb e) = has_renamed bnd e.
Proof.
  induction e as [n|c l IHc|c l IHc IHl|f ps IHf IHps|a b IHb|o a b IHa IHb|a IHa|a IHa|v|l|b|] using expr_ind';
    intros inb bnd; cbn [ExRefactor.alpha ExRefactor.has_renamed]; try reflexivity; auto.
  - destruct (inb && same_name n name) eqn:E; [|reflexivity]. apply andb_prop in E. destruct E as [_ E].
    cbn [ExRefactor.has_renamed]. rewrite Hf, (Hn n E). reflexivity.
  - rewrite IHc, IHl. reflexivity.
  - rewrite IHf. f_equal. induction IHps as [|x r Hx Hr IH]; [reflexivity|]. cbn [map existsb]. rewrite Hx, IH. reflexivity.
  - destruct (existsb (fun x => same_name x name) a); cbn [ExRefactor.has_renamed]; [rewrite alpha_args_from|]; apply IHb.
  - rewrite IHa, IHb. reflexivity.
Qed.

(* the captures of another name are what they were *)
Lemma alpha_captures_other m : same_name m name = false -> same_name m fresh = false ->
  forall e inb bnd, captures m bnd (alpha1 inb e) = captures m bnd e.
Proof.
  intros H1 H2.
  induction e as [n|c l IHc|c l IHc IHl|f ps IHf IHps|a b IHb|o a b IHa IHb|a IHa|a IHa|v|l|b|] using expr_ind';
    intros inb bnd; cbn [ExRefactor.alpha ExRefactor.captures]; try reflexivity; auto.
  - destruct (inb && same_name n name); reflexivity.
  - rewrite IHc, IHl. reflexivity.
  - rewrite IHf. f_equal. induction IHps as [|x r Hx Hr IH]; [reflexivity|]. cbn [map existsb]. rewrite Hx, IH. reflexivity.
  - destruct (existsb (fun x => same_name x name) a) eqn:E; cbn [ExRefactor.captures].
    + rewrite alpha_args_from, alpha_has_renamed, IHb. f_equal. f_equal.
      clear E. induction a as [|x a IH]; [reflexivity|]. cbn [map existsb]. rewrite IH. destruct (same_name x name) eqn:Ex; [|reflexivity].
      rewrite (same_suffixed_r x m Ex), H2. assert (Hx : same_name m x = false).
      { rewrite same_sym. apply (same_trans_false x name m Ex). rewrite same_sym. exact H1. }
      rewrite Hx. reflexivity.
    + rewrite alpha_has_renamed, IHb. reflexivity.
  - rewrite IHa, IHb. reflexivity.
Qed.

(* no function has a parameter of that name any more *)
Lemma alpha_captures_self : same_name name fresh = false ->
  forall e inb bnd, captures name bnd (alpha1 inb e) = false.
Proof.
  intros H1.
  induction e as [n|c l IHc|c l IHc IHl|f ps IHf IHps|a b IHb|o a b IHa IHb|a IHa|a IHa|v|l|b|] using expr_ind';
    intros inb bnd; cbn [ExRefactor.alpha ExRefactor.captures]; try reflexivity; auto.
  - destruct (inb && same_name n name); reflexivity.
  - rewrite IHc, IHl. reflexivity.
  - rewrite IHf. cbn [orb]. induction IHps as [|x r Hx Hr IH]; [reflexivity|]. cbn [map existsb]. rewrite Hx, IH. reflexivity.
  - destruct (existsb (fun x => same_name x name) a) eqn:E; cbn [ExRefactor.captures]; rewrite IHb, orb_false_r.
    + replace (existsb (same_name name) (map (fun x => if same_name x name then x ++ suffix else x) a)) with false; [reflexivity|].
      symmetry. clear E. induction a as [|x a IH]; [reflexivity|]. cbn [map existsb]. rewrite IH, orb_false_r.
      destruct (same_name x name) eqn:Ex; [rewrite (same_suffixed_r x name Ex); exact H1|]. rewrite same_sym. exact Ex.
    + replace (existsb (same_name name) a) with false; [reflexivity|].
      symmetry. rewrite <- E. clear E. induction a as [|x a IH]; [reflexivity|]. cbn [existsb]. rewrite IH, same_sym. reflexivity.
  - rewrite IHa, IHb. reflexivity.
Qed.

Lemma alpha_used : forall e inb x, In x (used_names (alpha1 inb e)) -> x = lname fresh \/ In x (used_names e).
Proof.
  induction e as [n|c l IHc|c l IHc IHl|f ps IHf IHps|a b IHb|o a b IHa IHb|a IHa|a IHa|v|l|b|] using expr_ind';
    intros inb x; cbn [ExRefactor.alpha ExRefactor.used_names]; try (intros []); eauto.
  - destruct (inb && same_name n name); cbn [ExRefactor.used_names In]; intros [H|[]]; auto.
  - intros H. apply in_app_or in H. destruct H as [H|H]; [apply IHc in H|apply IHl in H]; destruct H; auto using in_or_app.
  - intros H. apply in_app_or in H. destruct H as [H|H].
    + apply IHf in H. destruct H; auto using in_or_app.
    + assert (Hx : x = lname fresh \/ In x (flat_map used_names ps)); [|destruct Hx; auto using in_or_app].
      induction IHps as [|y r Hy Hr IH]; [contradiction|]. cbn [map flat_map] in *. apply in_app_or in H.
      destruct H as [H|H]; [apply Hy in H|apply IH in H]; destruct H; auto using in_or_app.
  - destruct (existsb (fun y => same_name y name) a); cbn [ExRefactor.used_names]; intros H; apply in_app_or in H; destruct H as [H|H].
    + rewrite map_map in H. apply in_map_iff in H. destruct H as (y & <- & Hy). destruct (same_name y name) eqn:Ey; [left; apply lname_suffixed; exact Ey|].
      right. apply in_or_app. left. apply in_map. exact Hy.
    + apply IHb in H. destruct H; auto using in_or_app.
    + right. apply in_or_app. left. exact H.
    + apply IHb in H. destruct H; auto using in_or_app.
  - intros H. apply in_app_or in H. destruct H as [H|H]; [apply IHa in H|apply IHb in H]; destruct H; auto using in_or_app.
Qed.

(* parameter lists without a repeated spelling stay so: x ++ suffix = y ++ suffix only for x = y, and a parameter that
   was not touched is not the suffixed form of another one because the fresh name is new *)
Lemma alpha_args_distinct a : (forall y, In y a -> lname y <> lname fresh) ->
  distinct a = true -> distinct (map (fun x => if same_name x name then x ++ suffix else x) a) = true.
Proof.
  set (g := fun x => if same_name x name then x ++ suffix else x).
  induction a as [|x a IH]; intros Hnew H; [reflexivity|].
  cbn [distinct] in H. apply andb_prop in H. destruct H as [H1 H2]. cbn [map distinct].
  rewrite IH; [|intros y Hy; apply Hnew; right; exact Hy|exact H2]. rewrite andb_true_r.
  apply negb_true_iff. apply negb_true_iff in H1.
  destruct (existsb (text_eqb (g x)) (map g a)) eqn:E; [|reflexivity]. exfalso.
  apply existsb_teq_in in E. apply in_map_iff in E. destruct E as (y & Ey & Hy).
  assert (Hxy : x = y).
  { unfold g in Ey. destruct (same_name y name) eqn:E1, (same_name x name) eqn:E2.
    - apply app_inv_tail in Ey. congruence.
    - exfalso. apply (Hnew x (or_introl eq_refl)). rewrite <- Ey. apply lname_suffixed. exact E1.
    - exfalso. apply (Hnew y (or_intror Hy)). rewrite Ey. apply lname_suffixed. exact E2.
    - congruence. }
  subst y. apply existsb_teq_in in Hy. congruence.
Qed.

Lemma alpha_distinct : forall e inb, ~ In (lname fresh) (used_names e) ->
  distinct_params e = true -> distinct_params (alpha1 inb e) = true.
Proof.
  induction e as [n|c l IHc|c l IHc IHl|f ps IHf IHps|a b IHb|o a b IHa IHb|a IHa|a IHa|v|l|b|] using expr_ind';
    intros inb Hu; cbn [ExRefactor.alpha distinct_params ExRefactor.used_names] in *; try reflexivity; auto.
  - destruct (inb && same_name n name); reflexivity.
  - intros H. apply andb_prop in H. destruct H as [H1 H2]. rewrite IHc, IHl; auto; intros Hx; apply Hu; apply in_or_app; auto.
  - intros H. apply andb_prop in H. destruct H as [H1 H2].
    rewrite IHf; [|intros Hx; apply Hu; apply in_or_app; auto|exact H1]. cbn [andb].
    assert (Hu2 : ~ In (lname fresh) (flat_map used_names ps)) by (intros Hx; apply Hu; apply in_or_app; auto).
    clear Hu H1 IHf. induction IHps as [|x r Hx Hr IH]; [reflexivity|]. cbn [map forallb flat_map] in *.
    apply andb_prop in H2. destruct H2 as [H3 H4]. rewrite Hx, IH; auto; intros Hy; apply Hu2; apply in_or_app; auto.
  - intros H. apply andb_prop in H. destruct H as [H1 H2].
    assert (Hb : ~ In (lname fresh) (used_names b)) by (intros Hx; apply Hu; apply in_or_app; auto).
    destruct (existsb (fun x => same_name x name) a); cbn [distinct_params]; rewrite IHb by assumption; rewrite andb_true_r; [|exact H1].
    apply alpha_args_distinct; [|exact H1]. intros y Hy E. apply Hu. apply in_or_app. left. rewrite <- E. apply in_map. exact Hy.
  - intros H. apply andb_prop in H. destruct H as [H1 H2]. rewrite IHa, IHb; auto; intros Hx; apply Hu; apply in_or_app; auto.
Qed.

End Alpha.

(* ---------------------------------------------------------------------------------------------- *)
(* the names of the replacement are lower-cased *)
Lemma add_name_norm acc x : (forall n, In n acc -> lname n = n) -> lname x = x -> forall n, In n (add_name acc x) -> lname n = n.
Proof.
  intros Ha Hx n. unfold add_name. destruct (existsb (text_eqb x) acc); [apply Ha|].
  intros H. apply in_app_or in H. destruct H as [H|[<-|[]]]; [apply Ha; exact H|exact Hx].
Qed.

Lemma target_names_norm : forall n, In n TN -> lname n = n.
Proof.
  assert (Hfold : forall l acc, (forall n, In n acc -> lname n = n) -> (forall n, In n l -> lname n = n) ->
            forall n, In n (fold_left add_name l acc) -> lname n = n).
  { induction l as [|x l IH]; intros acc Ha Hl; [exact Ha|]. cbn [fold_left]. apply IH.
    - apply add_name_norm; [exact Ha|apply Hl; left; reflexivity].
    - intros n Hn. apply Hl. right. exact Hn. }
  assert (Hone : forall n, In n [lname to] -> lname n = n).
  { intros n [<-|[]]. apply lname_idem. }
  unfold target_names. destruct (lex to) as [ts| |]; try exact Hone. destruct (parse_tokens ts); try exact Hone.
  apply Hfold; [intros n []|]. intros n Hn. apply in_map_iff in Hn. destruct Hn as (y & <- & _). apply lname_idem.
Qed.

Lemma lname_fresh n k : lname n = n -> lname (n ++ repeat 95 k) = n ++ repeat 95 k.
Proof.
  intros H. unfold ExRefactor.lname in *. rewrite map_app, H. f_equal.
  induction k as [|k IH]; [reflexivity|]. cbn [repeat map]. rewrite lower_us, IH. reflexivity.
Qed.

(* (1) nothing captured: nothing but the renaming *)
Theorem avoid_id : forall names used e, (forall m, In m names -> captures m false e = false) -> avoid names used e = e.
Proof.
  induction names as [|n rest IH]; intros used e H; [reflexivity|]. cbn [ExRefactor.avoid].
  rewrite (H n (or_introl eq_refl)). apply IH. intros m Hm. apply H. right. exact Hm.
Qed.

(* the fresh name picked for a capturing name n of the replacement *)
Lemma fresh_facts n used e : In n TN -> captures n false e = true -> (forall x, In x (used_names e) -> In x used) ->
  let taken := used ++ TN in
  let fr := pick_fresh (S (length taken)) (n ++ [95]) taken in
  let sfx := skipn (length n) fr in
  fr = n ++ sfx /\ ~ In fr used /\ ~ In fr TN /\ lname fr = fr
  /\ (forall x, same_name x n = true -> is_from x = false) /\ is_from fr = false /\ same_name n fr = false.
Proof.
  intros HnT EC Hused taken fr sfx.
  destruct (pick_fresh_spec (S (length taken)) (n ++ [95]) taken) as (Hfr & k & Hk).
  { apply Nat.lt_succ_r. apply count_ge_le. }
  fold fr in Hfr, Hk.
  assert (Hk' : fr = n ++ repeat 95 (S k)) by (rewrite Hk, <- app_assoc; reflexivity).
  assert (Hsfx : fr = n ++ sfx).
  { unfold sfx. rewrite Hk' at 2. rewrite skipn_app, skipn_all, Nat.sub_diag. cbn [skipn app]. exact Hk'. }
  assert (Hfr_used : ~ In fr used).
  { intros H. assert (H' : In fr taken) by (apply in_or_app; left; exact H). apply existsb_teq_in in H'. congruence. }
  assert (Hfr_tn : ~ In fr TN).
  { intros H. assert (H' : In fr taken) by (apply in_or_app; right; exact H). apply existsb_teq_in in H'. congruence. }
  pose proof (target_names_norm n HnT) as Hnn.
  assert (Hfrl : lname fr = fr) by (rewrite Hk'; apply lname_fresh; exact Hnn).
  assert (Hnf : same_name n from = false).
  { destruct (same_name n from) eqn:E; [|reflexivity]. rewrite (captures_from n E) in EC. discriminate. }
  repeat split; try assumption.
  - intros x Hx. unfold ExRefactor.is_from. exact (same_trans_false _ _ _ Hx Hnf).
  - unfold ExRefactor.is_from, ExRefactor.same_name. rewrite Hfrl. apply teq_neq. intros E.
    apply Hfr_used. rewrite E. apply Hused. exact (captures_used _ _ _ EC).
  - unfold ExRefactor.same_name. rewrite Hnn, Hfrl. apply teq_neq. intros E. apply Hfr_tn. rewrite <- E. exact HnT.
Qed.

(* (2) after avoid nothing is captured *)
Theorem avoid_no_capture : forall names used e,
  (forall n, In n names -> In n TN) -> (forall x, In x (used_names e) -> In x used) ->
  forall m, In m TN -> (In m names \/ captures m false e = false) -> captures m false (avoid names used e) = false.
Proof.
  induction names as [|n rest IH]; intros used e Hsub Hused m Hm Hor.
  { cbn [ExRefactor.avoid]. destruct Hor as [[]|H]. exact H. }
  cbn [ExRefactor.avoid].
  assert (Hrest : forall x, In x rest -> In x TN) by (intros x Hx; apply Hsub; right; exact Hx).
  assert (HnT : In n TN) by (apply Hsub; left; reflexivity).
  destruct (captures n false e) eqn:EC.
  2:{ apply IH; try assumption. destruct Hor as [[<-|H]|H]; [right; exact EC|left; exact H|right; exact H]. }
  destruct (fresh_facts n used e HnT EC Hused) as (Hsfx & Hfr_used & Hfr_tn & Hfrl & Hn' & Hf' & Hself).
  set (taken := used ++ TN) in *. set (fr := pick_fresh (S (length taken)) (n ++ [95]) taken) in *.
  set (sfx := skipn (length n) fr) in *.
  pose proof (target_names_norm n HnT) as Hnn.
  apply IH; try assumption.
  - intros x Hx. apply (alpha_used n fr sfx Hsfx) in Hx. destruct Hx as [->|Hx]; [left; symmetry; exact Hfrl|right; apply Hused; exact Hx].
  - destruct (text_eqb m n) eqn:Emn.
    + apply teq_eq in Emn. subst m. right. apply alpha_captures_self; assumption.
    + destruct Hor as [[E|H]|H].
      * subst m. rewrite teq_refl in Emn. discriminate.
      * left. exact H.
      * right. rewrite alpha_captures_other; try assumption.
        -- unfold ExRefactor.same_name. rewrite (target_names_norm m Hm), Hnn. exact Emn.
        -- unfold ExRefactor.same_name. rewrite (target_names_norm m Hm), Hfrl. apply teq_neq. intros E. apply Hfr_tn. rewrite <- E. exact Hm.
Qed.

(* (3) parameters are never merged: parameter lists without a repeated spelling stay so *)
Theorem avoid_distinct : forall names used e,
  (forall n, In n names -> In n TN) -> (forall x, In x (used_names e) -> In x used) ->
  distinct_params e = true -> distinct_params (avoid names used e) = true.
Proof.
  induction names as [|n rest IH]; intros used e Hsub Hused Hd; [exact Hd|].
  cbn [ExRefactor.avoid].
  assert (Hrest : forall x, In x rest -> In x TN) by (intros x Hx; apply Hsub; right; exact Hx).
  assert (HnT : In n TN) by (apply Hsub; left; reflexivity).
  destruct (captures n false e) eqn:EC; [|apply IH; assumption].
  destruct (fresh_facts n used e HnT EC Hused) as (Hsfx & Hfr_used & Hfr_tn & Hfrl & Hn' & Hf' & Hself).
  set (taken := used ++ TN) in *. set (fr := pick_fresh (S (length taken)) (n ++ [95]) taken) in *.
  set (sfx := skipn (length n) fr) in *.
  apply IH; try assumption.
  - intros x Hx. apply (alpha_used n fr sfx Hsfx) in Hx. destruct Hx as [->|Hx]; [left; symmetry; exact Hfrl|right; apply Hused; exact Hx].
  - apply alpha_distinct; try assumption. rewrite Hfrl. intros H. apply Hfr_used. apply Hused. exact H.
Qed.

(* the statement for the whole transformation *)
Corollary rename_full_no_capture e : forall m, In m TN ->
  captures m false (avoid TN (used_names e) e) = false.
Proof. intros m Hm. apply avoid_no_capture; auto. Qed.

Corollary rename_full_distinct e : distinct_params e = true ->
  distinct_params (avoid TN (used_names e) e) = true.
Proof. intros H. apply avoid_distinct; auto. Qed.

End AvoidProofs.
