(* RedactProofs.v — lemmas for property C19 (redacted URNs are invisible to expressions) about model/Redact.v.

   Vocabulary written from the property sentence (not from the code):
     urn_twin      two URNs that differ at most in the identifying part: same scheme, same channel affinity,
                   same derived country; path, display and everything gocommon prints from them are free
     session_twin  two sessions that are equal except that URNs were replaced by twins (contact, input,
                   contact of the parent summary, contact of the child summary)
   What is proved:
     - under the policy twin sessions have the same root context and the same evaluation environment as soon as
       the channel chosen for every pair of twin URNs is the same (the only use the code makes of a URN path
       under the policy is the digit-prefix overlap of ChannelAssets.GetForURN);  that hypothesis follows from
       "at most one tel send channel per country" — and without it the statement is false (witness below);
     - nameless contacts are shown by id under the policy, named ones by name, in every place a contact is shown;
     - without the policy the contexts of twins differ wherever their printed URNs differ;
     - queries that mention a URN value are rejected under the policy, implicit conditions never become URN
       conditions, and every accepted query evaluates equally on twin URN lists. *)

From Coq Require Import List String Ascii ZArith NArith Bool Lia.
From Verif Require Import model.Redact.
Import ListNotations.
Open Scope string_scope.

(* ------------------------------------------------------------------------------------------------ *)
(* twins                                                                                             *)

Definition urn_twin (u v : urn) : Prop :=
  u_scheme u = u_scheme v /\ u_affinity u = u_affinity v /\ u_country u = u_country v.

Inductive opt_rel {A : Type} (R : A -> A -> Prop) : option A -> option A -> Prop :=
| opt_rel_none : opt_rel R None None
| opt_rel_some : forall a b, R a b -> opt_rel R (Some a) (Some b).

Definition with_urns (c : contact) (us : list urn) : contact :=
  {| c_id := c_id c; c_name := c_name c; c_urns := us;
     c_created_on := c_created_on c; c_fields := c_fields c; c_first_name := c_first_name c;
     c_groups := c_groups c; c_language := c_language c; c_last_seen_on := c_last_seen_on c;
     c_status := c_status c; c_tickets := c_tickets c; c_timezone := c_timezone c; c_uuid := c_uuid c |}.

Definition contact_twin (c d : contact) : Prop :=
  exists us, Forall2 urn_twin (c_urns c) us /\ d = with_urns c us.

Definition with_input_urn (i : input) (u : option urn) : input :=
  {| i_urn := u; i_default := i_default i; i_attachments := i_attachments i; i_channel := i_channel i;
     i_created_on := i_created_on i; i_external_id := i_external_id i; i_text := i_text i;
     i_type := i_type i; i_uuid := i_uuid i |}.

Definition input_twin (i j : input) : Prop :=
  exists u, opt_rel urn_twin (i_urn i) u /\ j = with_input_urn i u.

Definition with_related_contact (r : related) (c : option contact) : related :=
  {| r_contact := c; r_flow_name := r_flow_name r; r_fields := r_fields r; r_flow := r_flow r;
     r_results := r_results r; r_run := r_run r; r_status := r_status r; r_uuid := r_uuid r |}.

Definition related_twin (r q : related) : Prop :=
  exists c, opt_rel contact_twin (r_contact r) c /\ q = with_related_contact r c.

Definition with_parts (s : session) (c : option contact) (i : option input) (p ch : option related) : session :=
  {| s_channels := s_channels s; s_contact := c; s_flow_name := s_flow_name s; s_input := i;
     s_parent := p; s_child := ch;
     s_run_created_on := s_run_created_on s; s_run_exited_on := s_run_exited_on s; s_run_flow := s_run_flow s;
     s_run_path := s_run_path s; s_run_results := s_run_results s; s_run_status := s_run_status s;
     s_run_uuid := s_run_uuid s;
     s_fields := s_fields s; s_globals := s_globals s; s_legacy_extra := s_legacy_extra s; s_node := s_node s;
     s_results := s_results s; s_resume := s_resume s; s_ticket := s_ticket s; s_trigger := s_trigger s;
     s_webhook := s_webhook s |}.

Definition session_twin (s t : session) : Prop :=
  exists c i p ch,
    opt_rel contact_twin (s_contact s) c /\ opt_rel input_twin (s_input s) i /\
    opt_rel related_twin (s_parent s) p /\ opt_rel related_twin (s_child s) ch /\
    t = with_parts s c i p ch.

(* the channel picked for sending is the same for the two URNs *)
Definition same_choice (chans : list channel) (u v : urn) : Prop :=
  get_for_urn chans u role_send = get_for_urn chans v role_send.

Definition contact_choice (chans : list channel) (c d : contact) : Prop :=
  Forall2 (same_choice chans) (c_urns c) (c_urns d).

Definition opt_contact_choice (chans : list channel) (c d : option contact) : Prop :=
  match c, d with Some c, Some d => contact_choice chans c d | _, _ => True end.

Definition related_contact (r : option related) : option contact :=
  match r with Some r => r_contact r | None => None end.

Definition session_choice (s t : session) : Prop :=
  opt_contact_choice (s_channels s) (s_contact s) (s_contact t) /\
  opt_contact_choice (s_channels s) (related_contact (s_parent s)) (related_contact (s_parent t)) /\
  opt_contact_choice (s_channels s) (related_contact (s_child s)) (related_contact (s_child t)).

(* for this URN: if it is a tel URN, at most one channel can be used to send to the numbers of ITS country
   (tel_candidate with the URN's derived country; a URN whose country cannot be derived, "", has every tel send
   channel as a candidate) *)
Definition tel_unambiguous (chans : list channel) (u : urn) : Prop :=
  String.eqb (u_scheme u) tel = true ->
  (List.length (filter (tel_candidate role_send (u_country u)) chans) <= 1)%nat.

Definition opt_contact_urns (c : option contact) : list urn :=
  match c with Some c => c_urns c | None => [] end.

(* the URN lists channel resolution is run on: the contact's, the parent summary's and the child summary's *)
Definition session_urns (s : session) : list urn :=
  (opt_contact_urns (s_contact s) ++ opt_contact_urns (related_contact (s_parent s))
   ++ opt_contact_urns (related_contact (s_child s)))%list.

Definition unambiguous_tel (s : session) : Prop :=
  Forall (tel_unambiguous (s_channels s)) (session_urns s).

(* a sufficient condition on the deployment: at most one tel send channel per (known) country ... *)
Definition one_tel_channel_per_country (chans : list channel) : Prop :=
  forall country, country <> "" ->
    (List.length (filter (tel_candidate role_send country) chans) <= 1)%nat.
(* ... and numbers whose country can be derived *)
Definition tel_countries_known (s : session) : Prop :=
  Forall (fun u => String.eqb (u_scheme u) tel = true -> u_country u <> "") (session_urns s).

(* what a template evaluation is given: the root context and the merged environment *)
Definition view (e : env) (s : session) : xv * env_view := (root_context e s, merged_env e s).

(* ------------------------------------------------------------------------------------------------ *)
(* URN values                                                                                        *)

Lemma urn_twin_refl : forall u, urn_twin u u.
Proof. intro u. repeat split. Qed.

Lemma urn_value_twin : forall e u v, redact e = true -> urn_twin u v -> urn_to_xvalue e u = urn_to_xvalue e v.
Proof.
  intros e u v Hr (Hs & _ & _). unfold urn_to_xvalue, urn_render. rewrite Hr, Hs. reflexivity.
Qed.

Lemma urns_value_twin : forall e us vs, redact e = true -> Forall2 urn_twin us vs ->
  urns_to_xvalue e us = urns_to_xvalue e vs.
Proof.
  intros e us vs Hr H. unfold urns_to_xvalue. f_equal.
  induction H as [|u v us vs Huv _ IH]; cbn [map]; [reflexivity|].
  rewrite (urn_value_twin e u v Hr Huv), IH. reflexivity.
Qed.

Lemma first_with_scheme_twin : forall k us vs, Forall2 urn_twin us vs ->
  opt_rel urn_twin (first_with_scheme k us) (first_with_scheme k vs).
Proof.
  intros k us vs H. induction H as [|u v us vs Huv _ IH]; cbn [first_with_scheme]; [constructor|].
  destruct Huv as (Hs & Ha & Hc). rewrite <- Hs.
  destruct (String.eqb (u_scheme u) k); [constructor; repeat split; assumption | exact IH].
Qed.

Lemma urns_map_twin : forall e us vs, redact e = true -> Forall2 urn_twin us vs ->
  urns_map_context e us = urns_map_context e vs.
Proof.
  intros e us vs Hr H. unfold urns_map_context. f_equal. apply map_ext. intro k.
  destruct (first_with_scheme_twin k us vs H) as [|a b Hab]; [reflexivity|].
  rewrite (urn_value_twin e a b Hr Hab). reflexivity.
Qed.

(* ------------------------------------------------------------------------------------------------ *)
(* channel resolution                                                                                *)

Definition dest_rel (a b : option (urn * channel)) : Prop :=
  match a, b with
  | None, None => True
  | Some (u, c), Some (v, d) => urn_twin u v /\ c = d
  | _, _ => False
  end.

Lemma resolve_twin : forall chans us vs,
  Forall2 urn_twin us vs -> Forall2 (same_choice chans) us vs ->
  dest_rel (resolve_destination chans us) (resolve_destination chans vs).
Proof.
  intros chans us vs H. induction H as [|u v us vs Huv _ IH]; intro Hc.
  - exact I.
  - inversion Hc as [|? ? ? ? Hhd Htl]; subst. cbn [resolve_destination].
    unfold same_choice in Hhd. rewrite <- Hhd.
    destruct (get_for_urn chans u role_send) as [c|].
    + cbn. split; [assumption | reflexivity].
    + apply IH. assumption.
Qed.

Lemma preferred_channel_twin : forall chans us vs,
  Forall2 urn_twin us vs -> Forall2 (same_choice chans) us vs ->
  preferred_channel chans us = preferred_channel chans vs.
Proof.
  intros chans us vs H Hc. unfold preferred_channel.
  pose proof (resolve_twin chans us vs H Hc) as R. unfold dest_rel in R.
  destruct (resolve_destination chans us) as [[u c]|], (resolve_destination chans vs) as [[v d]|];
    cbn; try contradiction; [destruct R as [_ ->]|]; reflexivity.
Qed.

Lemma preferred_urn_twin : forall chans us vs,
  Forall2 urn_twin us vs -> Forall2 (same_choice chans) us vs ->
  opt_rel urn_twin (preferred_urn chans us) (preferred_urn chans vs).
Proof.
  intros chans us vs H Hc. unfold preferred_urn.
  pose proof (resolve_twin chans us vs H Hc) as R. unfold dest_rel in R.
  destruct (resolve_destination chans us) as [[u c]|], (resolve_destination chans vs) as [[v d]|];
    cbn; try contradiction; [destruct R as [R _]; constructor; exact R | constructor].
Qed.

Lemma first_tel_country_twin : forall us vs, Forall2 urn_twin us vs ->
  first_tel_country us = first_tel_country vs.
Proof.
  intros us vs H. induction H as [|u v us vs (Hs & _ & Hc) _ IH]; cbn [first_tel_country]; [reflexivity|].
  rewrite <- Hs, <- Hc, IH. reflexivity.
Qed.

(* with at most one candidate per country the path is never looked at *)
Lemma unambiguous_same_choice : forall chans u v, tel_unambiguous chans u -> urn_twin u v -> same_choice chans u v.
Proof.
  intros chans u v Hu (Hs & Ha & Hc). unfold same_choice, get_for_urn, explicit_channel.
  rewrite <- Ha.
  assert (Hsc : scheme_choice chans u role_send = scheme_choice chans v role_send).
  { unfold scheme_choice. rewrite <- Hs, <- Hc. unfold tel_unambiguous in Hu.
    destruct (String.eqb (u_scheme u) tel); [|reflexivity].
    specialize (Hu eq_refl).
    destruct (filter (tel_candidate role_send (u_country u)) chans) as [|c1 [|c2 rest]];
      [reflexivity | reflexivity | cbn in Hu; lia]. }
  rewrite Hsc. reflexivity.
Qed.

Lemma unambiguous_choice_list : forall chans us vs, Forall (tel_unambiguous chans) us -> Forall2 urn_twin us vs ->
  Forall2 (same_choice chans) us vs.
Proof.
  intros chans us vs Hu H. induction H as [|u v us vs Huv _ IH]; [constructor|].
  inversion Hu as [|? ? Hhd Htl]; subst. constructor;
    [apply unambiguous_same_choice; assumption | apply IH; exact Htl].
Qed.

(* ------------------------------------------------------------------------------------------------ *)
(* contact                                                                                           *)

Lemma contact_format_twin : forall e c us, redact e = true ->
  contact_format e (with_urns c us) = contact_format e c.
Proof.
  intros e c us Hr. unfold contact_format. cbn [c_name c_id with_urns]. rewrite Hr.
  destruct (negb (String.eqb (c_name c) "")); reflexivity.
Qed.

Lemma contact_context_twin : forall e chans c d, redact e = true ->
  contact_twin c d -> contact_choice chans c d ->
  contact_context e chans c = contact_context e chans d.
Proof.
  intros e chans c d Hr (us & Hus & ->) Hc. unfold contact_choice in Hc. cbn [c_urns with_urns] in Hc.
  unfold contact_context. rewrite (contact_format_twin e c us Hr).
  cbn [with_urns c_id c_name c_urns c_created_on c_fields c_first_name c_groups c_language c_last_seen_on
       c_status c_tickets c_timezone c_uuid].
  rewrite <- (preferred_channel_twin chans _ _ Hus Hc).
  rewrite <- (urns_value_twin e _ _ Hr Hus).
  destruct (preferred_urn_twin chans _ _ Hus Hc) as [|a b Hab]; [reflexivity|].
  rewrite (urn_value_twin e a b Hr Hab). reflexivity.
Qed.

Lemma contact_country_twin : forall chans c d, contact_twin c d -> contact_choice chans c d ->
  contact_country chans c = contact_country chans d.
Proof.
  intros chans c d (us & Hus & ->) Hc. unfold contact_choice in Hc. cbn [c_urns with_urns] in Hc.
  unfold contact_country. cbn [c_urns with_urns].
  rewrite <- (preferred_channel_twin chans _ _ Hus Hc), <- (first_tel_country_twin _ _ Hus). reflexivity.
Qed.

Lemma format_run_summary_twin : forall e c d f, redact e = true -> opt_rel contact_twin c d ->
  format_run_summary e c f = format_run_summary e d f.
Proof.
  intros e c d f Hr H. unfold format_run_summary. destruct H as [|a b (us & _ & ->)]; [reflexivity|].
  rewrite (contact_format_twin e a us Hr). reflexivity.
Qed.

Lemma opt_contact_context_twin : forall e chans c d, redact e = true ->
  opt_rel contact_twin c d -> opt_contact_choice chans c d ->
  opt_ctx (contact_context e chans) c = opt_ctx (contact_context e chans) d.
Proof.
  intros e chans c d Hr H Hc. destruct H as [|a b Hab]; [reflexivity|]. cbn in *.
  apply contact_context_twin; assumption.
Qed.

Lemma opt_urns_map_twin : forall e c d, redact e = true -> opt_rel contact_twin c d ->
  opt_ctx (fun c => urns_map_context e (c_urns c)) c = opt_ctx (fun c => urns_map_context e (c_urns c)) d.
Proof.
  intros e c d Hr H. destruct H as [|a b (us & Hus & ->)]; [reflexivity|]. cbn [opt_ctx c_urns with_urns].
  apply urns_map_twin; assumption.
Qed.

(* ------------------------------------------------------------------------------------------------ *)
(* input, related runs                                                                               *)

Lemma input_context_twin : forall e i j, redact e = true -> input_twin i j ->
  input_context e i = input_context e j.
Proof.
  intros e i j Hr (u & Hu & ->). unfold input_context.
  cbn [with_input_urn i_urn i_default i_attachments i_channel i_created_on i_external_id i_text i_type i_uuid].
  destruct Hu as [|a b Hab]; [reflexivity|]. rewrite (urn_value_twin e a b Hr Hab). reflexivity.
Qed.

Lemma related_context_twin : forall e chans r q, redact e = true -> related_twin r q ->
  opt_contact_choice chans (r_contact r) (r_contact q) ->
  related_context e chans r = related_context e chans q.
Proof.
  intros e chans r q Hr (c & Hc & ->) Hch. unfold related_context.
  cbn [with_related_contact r_contact r_flow_name r_fields r_flow r_results r_run r_status r_uuid] in *.
  rewrite (format_run_summary_twin e _ _ (r_flow_name r) Hr Hc).
  pose proof (opt_contact_context_twin e chans _ _ Hr Hc Hch) as E1. unfold opt_ctx in E1. rewrite E1.
  pose proof (opt_urns_map_twin e _ _ Hr Hc) as E2. unfold opt_ctx in E2. rewrite E2.
  reflexivity.
Qed.

Lemma opt_related_context_twin : forall e chans r q, redact e = true -> opt_rel related_twin r q ->
  opt_contact_choice chans (related_contact r) (related_contact q) ->
  opt_ctx (related_context e chans) r = opt_ctx (related_context e chans) q.
Proof.
  intros e chans r q Hr H Hch. destruct H as [|a b Hab]; [reflexivity|]. cbn in *.
  apply related_context_twin; assumption.
Qed.

(* ------------------------------------------------------------------------------------------------ *)
(* the whole context                                                                                 *)

Lemma root_context_twin : forall e s t, redact e = true -> session_twin s t -> session_choice s t ->
  root_context e s = root_context e t.
Proof.
  intros e s t Hr (c & i & p & ch & Hc & Hi & Hp & Hch & ->) (A1 & A2 & A3).
  cbn [with_parts s_channels s_contact s_parent s_child] in A1, A2, A3.
  unfold root_context, run_context.
  cbn [with_parts s_channels s_contact s_flow_name s_input s_parent s_child
       s_run_created_on s_run_exited_on s_run_flow s_run_path s_run_results s_run_status s_run_uuid
       s_fields s_globals s_legacy_extra s_node s_results s_resume s_ticket s_trigger s_webhook].
  rewrite (opt_contact_context_twin e (s_channels s) _ _ Hr Hc A1).
  rewrite (opt_related_context_twin e (s_channels s) _ _ Hr Hp A2).
  rewrite (opt_related_context_twin e (s_channels s) _ _ Hr Hch A3).
  rewrite (format_run_summary_twin e _ _ (s_flow_name s) Hr Hc).
  rewrite (opt_urns_map_twin e _ _ Hr Hc).
  assert (Ei : opt_ctx (input_context e) (s_input s) = opt_ctx (input_context e) i).
  { destruct Hi as [|a b Hab]; [reflexivity|]. cbn. apply input_context_twin; assumption. }
  rewrite Ei. reflexivity.
Qed.

Lemma merged_env_twin : forall e s t, session_twin s t -> session_choice s t ->
  merged_env e s = merged_env e t.
Proof.
  intros e s t (c & i & p & ch & Hc & _ & _ & _ & ->) (A1 & _).
  cbn [with_parts s_channels s_contact] in A1.
  unfold merged_env, merged_country. cbn [with_parts s_channels s_contact]. f_equal.
  destruct Hc as [|a b Hab]; [reflexivity|]. cbn in A1.
  rewrite (contact_country_twin (s_channels s) a b Hab A1). reflexivity.
Qed.

(* every observer of (context, environment): templates, functions, renderings *)
Lemma noninterference_given_choice : forall e s t, redact e = true -> session_twin s t -> session_choice s t ->
  forall (Out : Type) (template : xv -> env_view -> Out),
    template (root_context e s) (merged_env e s) = template (root_context e t) (merged_env e t).
Proof.
  intros e s t Hr Ht Hc Out template.
  rewrite (root_context_twin e s t Hr Ht Hc), (merged_env_twin e s t Ht Hc). reflexivity.
Qed.

Lemma noninterference_partial_all : forall e s t,
  redact e = true -> session_twin s t -> session_choice s t ->
  root_context e s = root_context e t /\ merged_env e s = merged_env e t /\
  forall (Out : Type) (template : xv -> env_view -> Out),
    template (root_context e s) (merged_env e s) = template (root_context e t) (merged_env e t).
Proof.
  intros e s t Hr Ht Hc.
  exact (conj (root_context_twin e s t Hr Ht Hc)
          (conj (merged_env_twin e s t Ht Hc) (noninterference_given_choice e s t Hr Ht Hc))).
Qed.

Lemma session_choice_of_unambiguous : forall s t, unambiguous_tel s -> session_twin s t ->
  session_choice s t.
Proof.
  intros s t Hu (c & i & p & ch & Hc & _ & Hp & Hch & ->).
  unfold unambiguous_tel, session_urns in Hu.
  apply Forall_app in Hu. destruct Hu as [U1 Hu]. apply Forall_app in Hu. destruct Hu as [U2 U3].
  assert (K : forall a b, Forall (tel_unambiguous (s_channels s)) (opt_contact_urns a) ->
                          opt_rel contact_twin a b -> opt_contact_choice (s_channels s) a b).
  { intros a b U H. destruct H as [|a b (us & Hus & ->)]; [exact I|]. cbn. unfold contact_choice.
    cbn [c_urns with_urns]. cbn [opt_contact_urns] in U. apply unambiguous_choice_list; assumption. }
  assert (KR : forall a b, Forall (tel_unambiguous (s_channels s)) (opt_contact_urns (related_contact a)) ->
                           opt_rel related_twin a b ->
                           opt_contact_choice (s_channels s) (related_contact a) (related_contact b)).
  { intros a b U H. destruct H as [|a b (c0 & Hc0 & ->)]; [exact I|].
    cbn [related_contact with_related_contact r_contact] in *. apply K; assumption. }
  unfold session_choice. cbn [with_parts s_channels s_contact s_parent s_child].
  split; [apply K; assumption | split; apply KR; assumption].
Qed.

Lemma per_country_unambiguous : forall s,
  one_tel_channel_per_country (s_channels s) -> tel_countries_known s -> unambiguous_tel s.
Proof.
  intros s H1 H2. unfold unambiguous_tel, tel_countries_known in *.
  eapply Forall_impl; [|exact H2]. intros u Hk Ht. apply H1. apply Hk. exact Ht.
Qed.

Lemma noninterference_unambiguous : forall e s t, redact e = true -> unambiguous_tel s ->
  session_twin s t ->
  forall (Out : Type) (template : xv -> env_view -> Out),
    template (root_context e s) (merged_env e s) = template (root_context e t) (merged_env e t).
Proof.
  intros e s t Hr Hu Ht. apply noninterference_given_choice; try assumption.
  apply session_choice_of_unambiguous; assumption.
Qed.

(* ------------------------------------------------------------------------------------------------ *)
(* the hypotheses are satisfiable, and the statement without the channel hypothesis is false          *)

Definition ex_env : env := {| redact := true; env_country := "US"; all_schemes := ["tel"; "facebook"] |}.

Definition ex_tel (path : string) : urn :=
  {| u_scheme := "tel"; u_path := path; u_display := ""; u_affinity := ""; u_country := "US";
     u_plain := "tel:" ++ path; u_fmt := path |}.

Definition ex_channel (uuid name address : string) (prefixes : list string) : channel :=
  {| ch_uuid := uuid; ch_name := name; ch_address := address; ch_schemes := ["tel"]; ch_roles := ["send"; "receive"];
     ch_country := "US"; ch_prefixes := prefixes; ch_intl := false |}.

Definition ex_contact (us : list urn) : contact :=
  {| c_id := 1234567; c_name := ""; c_urns := us;
     c_created_on := XNil; c_fields := XNil; c_first_name := XNil; c_groups := XNil; c_language := XNil;
     c_last_seen_on := XNil; c_status := XNil; c_tickets := XNil; c_timezone := XNil; c_uuid := XNil |}.

Definition ex_session (chans : list channel) (us : list urn) : session :=
  {| s_channels := chans; s_contact := Some (ex_contact us); s_flow_name := Some "Parent"; s_input := None;
     s_parent := None; s_child := None;
     s_run_created_on := XNil; s_run_exited_on := XNil; s_run_flow := XNil; s_run_path := XNil;
     s_run_results := XNil; s_run_status := XNil; s_run_uuid := XNil;
     s_fields := XNil; s_globals := XNil; s_legacy_extra := XNil; s_node := XNil; s_results := XNil;
     s_resume := XNil; s_ticket := XNil; s_trigger := XNil; s_webhook := XNil |}.

Definition ex_one_channel : list channel := [ex_channel "A" "Android" "+17036975131" []].
Definition ex_two_channels : list channel :=
  [ex_channel "A" "Carrier A" "+12065550000" ["1206"; "1360"]; ex_channel "B" "Carrier B" "+14155550000" ["1415"]].

Lemma ex_twin : forall chans,
  session_twin (ex_session chans [ex_tel "+12065551212"]) (ex_session chans [ex_tel "+14155559999"]).
Proof.
  intro chans. exists (Some (ex_contact [ex_tel "+14155559999"])), None, None, None.
  repeat split; try constructor.
  exists [ex_tel "+14155559999"]. split; [|reflexivity].
  constructor; [repeat split | constructor].
Qed.

Lemma ex_unambiguous : forall us, unambiguous_tel (ex_session ex_one_channel us).
Proof.
  intro us. unfold unambiguous_tel, session_urns. cbn [ex_session s_contact s_parent s_child related_contact
    opt_contact_urns ex_contact c_urns s_channels]. rewrite !app_nil_r.
  apply Forall_forall. intros u _ _. unfold ex_one_channel. cbn [filter].
  destruct (tel_candidate role_send (u_country u) (ex_channel "A" "Android" "+17036975131" [])); cbn; lia.
Qed.

(* the hypotheses of noninterference_unambiguous hold for a pair of sessions whose contexts differ without the policy *)
Example twin_hypotheses_satisfiable :
  redact ex_env = true /\ unambiguous_tel (ex_session ex_one_channel [ex_tel "+12065551212"]) /\
  session_twin (ex_session ex_one_channel [ex_tel "+12065551212"]) (ex_session ex_one_channel [ex_tel "+14155559999"]).
Proof. split; [reflexivity | split; [apply ex_unambiguous | apply ex_twin]]. Qed.

(* a deployment with one tel channel per country (RW, UG; neither international) is covered for contacts with
   RW numbers, although it has two tel send channels in total *)
Definition ex_rw_ug : list channel :=
  [ {| ch_uuid := "R"; ch_name := "RW Line"; ch_address := "+250788000000"; ch_schemes := ["tel"];
       ch_roles := ["send"; "receive"]; ch_country := "RW"; ch_prefixes := []; ch_intl := false |};
    {| ch_uuid := "U"; ch_name := "UG Line"; ch_address := "+256700000000"; ch_schemes := ["tel"];
       ch_roles := ["send"; "receive"]; ch_country := "UG"; ch_prefixes := []; ch_intl := false |} ].
Definition ex_tel_rw (path : string) : urn :=
  {| u_scheme := "tel"; u_path := path; u_display := ""; u_affinity := ""; u_country := "RW";
     u_plain := "tel:" ++ path; u_fmt := path |}.

Example multi_country_deployment_covered :
  one_tel_channel_per_country ex_rw_ug /\
  tel_countries_known (ex_session ex_rw_ug [ex_tel_rw "+250788123123"]) /\
  unambiguous_tel (ex_session ex_rw_ug [ex_tel_rw "+250788123123"]) /\
  List.length (filter (tel_candidate role_send "") ex_rw_ug) = 2%nat.
Proof.
  assert (P : one_tel_channel_per_country ex_rw_ug).
  { intros country Hne. unfold ex_rw_ug. cbn [filter]. unfold tel_candidate. cbn -[String.eqb].
    destruct (String.eqb_spec country ""); [contradiction|]. cbn -[String.eqb].
    destruct (String.eqb_spec country "RW") as [->|]; [cbn; lia|]. cbn -[String.eqb].
    destruct (String.eqb country "UG"); cbn; lia. }
  assert (K : tel_countries_known (ex_session ex_rw_ug [ex_tel_rw "+250788123123"])).
  { unfold tel_countries_known. cbn. constructor; [intros _; discriminate | constructor]. }
  split; [exact P | split; [exact K | split; [apply per_country_unambiguous; assumption | reflexivity]]].
Qed.

(* two tel channels of one country: the one chosen, hence @contact.channel, depends on the leading digits *)
Lemma noninterference_refuted_witness :
  exists e s t, redact e = true /\ session_twin s t /\ root_context e s <> root_context e t.
Proof.
  exists ex_env, (ex_session ex_two_channels [ex_tel "+12065551212"]), (ex_session ex_two_channels [ex_tel "+14155559999"]).
  split; [reflexivity | split; [apply ex_twin|]].
  intro H.
  apply (f_equal (fun v => lookup v [Key "contact"; Key "channel"; Key "name"])) in H.
  vm_compute in H. discriminate H.
Qed.

(* ------------------------------------------------------------------------------------------------ *)
(* without any hypothesis on the channels: the members named "channel" are the ONLY thing that can differ *)

(* erase every member named k, at any depth *)
Fixpoint blank (k : string) (v : xv) : xv :=
  match v with
  | XObj d ps =>
      XObj (match d with Some x => Some (blank k x) | None => None end)
           ((fix go (l : list (string * xv)) : list (string * xv) :=
               match l with
               | [] => []
               | (k', x) :: t => (k', if String.eqb k' k then XNil else blank k x) :: go t
               end) ps)
  | XArr l => XArr ((fix go (l : list xv) : list xv := match l with [] => [] | x :: t => blank k x :: go t end) l)
  | _ => v
  end.

Definition blank_opt (k : string) (d : option xv) : option xv :=
  match d with Some x => Some (blank k x) | None => None end.

Definition prop_agree (k : string) (p q : string * xv) : Prop :=
  fst p = fst q /\ (fst p = k \/ blank k (snd p) = blank k (snd q)).

Lemma blank_obj : forall k d d' ps ps',
  blank_opt k d = blank_opt k d' -> Forall2 (prop_agree k) ps ps' ->
  blank k (XObj d ps) = blank k (XObj d' ps').
Proof.
  intros k d d' ps ps' Hd H. cbn [blank]. fold (blank_opt k d). fold (blank_opt k d'). rewrite Hd. f_equal.
  induction H as [|[k1 x] [k2 y] ps ps' [Hk Hv] _ IH]; [reflexivity|].
  cbn [fst snd] in Hk, Hv. subst k2. rewrite IH. f_equal. f_equal.
  destruct Hv as [-> | Hv]; [rewrite String.eqb_refl; reflexivity|].
  rewrite Hv. reflexivity.
Qed.

Lemma agree_same : forall k key v, prop_agree k (key, v) (key, v).
Proof. intros. split; [reflexivity | right; reflexivity]. Qed.

Lemma agree_key : forall k v w, prop_agree k (k, v) (k, w).
Proof. intros. split; [reflexivity | left; reflexivity]. Qed.

Lemma agree_eq : forall k key v w, blank k v = blank k w -> prop_agree k (key, v) (key, w).
Proof. intros. split; [reflexivity | right; assumption]. Qed.

(* ---- the channel loop always picks somebody when there is a candidate ---- *)

Lemma overlap_prefixes_keeps : forall number c ps st, snd st <> None -> snd (overlap_prefixes number c ps st) <> None.
Proof.
  intros number c ps. induction ps as [|p ps IH]; intros st H; cbn [overlap_prefixes]; [exact H|].
  apply IH. destruct (Nat.leb (fst st) (prefix_overlap p number)); [cbn; discriminate | exact H].
Qed.

Lemma overlap_prefixes_first : forall number c ps, ps <> [] ->
  snd (overlap_prefixes number c ps (O, None)) <> None.
Proof.
  intros number c [|p ps] H; [contradiction|]. cbn [overlap_prefixes fst]. cbn [Nat.leb].
  apply overlap_prefixes_keeps. cbn. discriminate.
Qed.

Lemma overlap_candidates_keeps : forall number cands st, snd st <> None -> snd (overlap_candidates number cands st) <> None.
Proof.
  intros number cands. induction cands as [|c cands IH]; intros st H; cbn [overlap_candidates]; [exact H|].
  apply IH. apply overlap_prefixes_keeps. exact H.
Qed.

Lemma overlap_candidates_some : forall number cands, cands <> [] ->
  snd (overlap_candidates number cands (O, None)) <> None.
Proof.
  intros number [|c cands] H; [contradiction|]. cbn [overlap_candidates].
  apply overlap_candidates_keeps. apply overlap_prefixes_first.
  destruct (ch_prefixes c); discriminate.
Qed.

Definition is_some {A} (o : option A) : bool := match o with Some _ => true | None => false end.

Lemma reachable_twin : forall chans u v, urn_twin u v ->
  is_some (get_for_urn chans u role_send) = is_some (get_for_urn chans v role_send).
Proof.
  intros chans u v (Hs & Ha & Hc). unfold get_for_urn, explicit_channel. rewrite <- Ha.
  destruct (if String.eqb (u_affinity u) "" then None
            else match channel_by_uuid chans (u_affinity u) with
                 | Some c => if has_role c role_send then Some c else None
                 | None => None
                 end); [reflexivity|].
  unfold scheme_choice. rewrite <- Hs, <- Hc.
  destruct (String.eqb (u_scheme u) tel); [|reflexivity].
  destruct (filter (tel_candidate role_send (u_country u)) chans) as [|c1 [|c2 rest]]; [reflexivity | reflexivity |].
  assert (N : forall n, is_some (snd (overlap_candidates n (c1 :: c2 :: rest) (O, None))) = true).
  { intro n. pose proof (overlap_candidates_some n (c1 :: c2 :: rest)) as S.
    destruct (snd (overlap_candidates n (c1 :: c2 :: rest) (O, None))); [reflexivity|].
    exfalso. apply S; [discriminate | reflexivity]. }
  rewrite !N. reflexivity.
Qed.

(* the preferred URN of twins is a twin pair, whatever the channels *)
Lemma preferred_urn_twin_always : forall chans us vs, Forall2 urn_twin us vs ->
  opt_rel urn_twin (preferred_urn chans us) (preferred_urn chans vs).
Proof.
  intros chans us vs H. unfold preferred_urn.
  induction H as [|u v us vs Huv _ IH]; cbn [resolve_destination option_map]; [constructor|].
  pose proof (reachable_twin chans u v Huv) as R.
  destruct (get_for_urn chans u role_send), (get_for_urn chans v role_send); cbn in R; try discriminate.
  - cbn. constructor. exact Huv.
  - exact IH.
Qed.

Lemma contact_context_up_to_channel : forall e chans c d, redact e = true -> contact_twin c d ->
  blank "channel" (contact_context e chans c) = blank "channel" (contact_context e chans d).
Proof.
  intros e chans c d Hr (us & Hus & ->). unfold contact_context.
  rewrite (contact_format_twin e c us Hr).
  cbn [with_urns c_id c_name c_urns c_created_on c_fields c_first_name c_groups c_language c_last_seen_on
       c_status c_tickets c_timezone c_uuid].
  rewrite <- (urns_value_twin e _ _ Hr Hus).
  assert (U : match preferred_urn chans (c_urns c) with Some u => urn_to_xvalue e u | None => XNil end
            = match preferred_urn chans us with Some u => urn_to_xvalue e u | None => XNil end).
  { destruct (preferred_urn_twin_always chans _ _ Hus) as [|a b Hab]; [reflexivity|].
    apply urn_value_twin; assumption. }
  rewrite U.
  apply blank_obj; [reflexivity|].
  repeat (first [apply Forall2_nil | apply Forall2_cons]); first [apply agree_key | apply agree_same].
Qed.

Lemma opt_contact_up_to_channel : forall e chans c d, redact e = true -> opt_rel contact_twin c d ->
  blank "channel" (opt_ctx (contact_context e chans) c) = blank "channel" (opt_ctx (contact_context e chans) d).
Proof.
  intros e chans c d Hr H. destruct H as [|a b Hab]; [reflexivity|]. cbn [opt_ctx].
  apply contact_context_up_to_channel; assumption.
Qed.

Lemma related_up_to_channel : forall e chans r q, redact e = true -> related_twin r q ->
  blank "channel" (related_context e chans r) = blank "channel" (related_context e chans q).
Proof.
  intros e chans r q Hr (c & Hc & ->). unfold related_context.
  cbn [with_related_contact r_contact r_flow_name r_fields r_flow r_results r_run r_status r_uuid].
  rewrite (format_run_summary_twin e _ _ (r_flow_name r) Hr Hc).
  pose proof (opt_urns_map_twin e _ _ Hr Hc) as E2. unfold opt_ctx in E2. rewrite E2.
  pose proof (opt_contact_up_to_channel e chans _ _ Hr Hc) as E1. unfold opt_ctx in E1.
  apply blank_obj; [reflexivity|].
  repeat (first [apply Forall2_nil | apply Forall2_cons]); first [apply agree_same | apply agree_eq; exact E1].
Qed.

Lemma opt_related_up_to_channel : forall e chans r q, redact e = true -> opt_rel related_twin r q ->
  blank "channel" (opt_ctx (related_context e chans) r) = blank "channel" (opt_ctx (related_context e chans) q).
Proof.
  intros e chans r q Hr H. destruct H as [|a b Hab]; [reflexivity|]. cbn [opt_ctx].
  apply related_up_to_channel; assumption.
Qed.

(* no hypothesis on channels: everything except the members named "channel" is equal *)
Lemma root_context_up_to_channel : forall e s t, redact e = true -> session_twin s t ->
  blank "channel" (root_context e s) = blank "channel" (root_context e t).
Proof.
  intros e s t Hr (c & i & p & ch & Hc & Hi & Hp & Hch & ->).
  unfold root_context, run_context.
  cbn [with_parts s_channels s_contact s_flow_name s_input s_parent s_child
       s_run_created_on s_run_exited_on s_run_flow s_run_path s_run_results s_run_status s_run_uuid
       s_fields s_globals s_legacy_extra s_node s_results s_resume s_ticket s_trigger s_webhook].
  rewrite (format_run_summary_twin e _ _ (s_flow_name s) Hr Hc).
  rewrite (opt_urns_map_twin e _ _ Hr Hc).
  assert (Ei : opt_ctx (input_context e) (s_input s) = opt_ctx (input_context e) i).
  { destruct Hi as [|a b Hab]; [reflexivity|]. cbn. apply input_context_twin; assumption. }
  rewrite Ei.
  pose proof (opt_contact_up_to_channel e (s_channels s) _ _ Hr Hc) as E1.
  pose proof (opt_related_up_to_channel e (s_channels s) _ _ Hr Hp) as E2.
  pose proof (opt_related_up_to_channel e (s_channels s) _ _ Hr Hch) as E3.
  apply blank_obj; [reflexivity|].
  repeat (first [apply Forall2_nil | apply Forall2_cons]);
    first [ apply agree_same
          | apply agree_eq; first [exact E1 | exact E2 | exact E3]
          | apply agree_eq; apply blank_obj; [reflexivity|];
            repeat (first [apply Forall2_nil | apply Forall2_cons]); first [apply agree_same | apply agree_eq; exact E1] ].
Qed.

(* the merged environment: its country comes from the channel chosen for the contact, so it can differ too, and only
   when the countries of the chosen channels differ *)
Definition chosen_country (s : session) : option string :=
  match s_contact s with
  | Some c => option_map ch_country (preferred_channel (s_channels s) (c_urns c))
  | None => None
  end.

Lemma merged_env_up_to_channel_country : forall e s t, session_twin s t ->
  chosen_country s = chosen_country t -> merged_env e s = merged_env e t.
Proof.
  intros e s t (c & i & p & ch & Hc & _ & _ & _ & ->). unfold chosen_country, merged_env, merged_country.
  cbn [with_parts s_channels s_contact]. intro H. f_equal.
  destruct Hc as [|a b (us & Hus & ->)]; [reflexivity|].
  unfold contact_country. cbn [c_urns with_urns] in *.
  rewrite <- (first_tel_country_twin _ _ Hus).
  destruct (preferred_channel (s_channels s) (c_urns a)) as [c1|],
           (preferred_channel (s_channels s) us) as [c2|]; cbn in H; try discriminate; [|reflexivity].
  injection H as H. rewrite H. reflexivity.
Qed.

Lemma up_to_channel_all : forall e s t, redact e = true -> session_twin s t ->
  blank "channel" (root_context e s) = blank "channel" (root_context e t) /\
  v_redact (merged_env e s) = v_redact (merged_env e t) /\
  (chosen_country s = chosen_country t -> merged_env e s = merged_env e t).
Proof.
  intros e s t Hr Ht. split; [apply root_context_up_to_channel; assumption|].
  split; [reflexivity | apply merged_env_up_to_channel_country; exact Ht].
Qed.

(* ... and it does: a RW channel and an international UG channel with prefix 25073; the twins' RW numbers start with
   25078 / 25073; contexts equal up to "channel", environment countries RW / UG *)
Definition ex_rw_ug_intl : list channel :=
  [ {| ch_uuid := "R"; ch_name := "RW Line"; ch_address := "+25078"; ch_schemes := ["tel"];
       ch_roles := ["send"; "receive"]; ch_country := "RW"; ch_prefixes := []; ch_intl := false |};
    {| ch_uuid := "U"; ch_name := "UG Intl"; ch_address := "+256700000000"; ch_schemes := ["tel"];
       ch_roles := ["send"; "receive"]; ch_country := "UG"; ch_prefixes := ["25073"]; ch_intl := true |} ].

Example merged_country_depends_on_path :
  let s := ex_session ex_rw_ug_intl [ex_tel_rw "+250788123123"] in
  let t := ex_session ex_rw_ug_intl [ex_tel_rw "+250738123123"] in
  session_twin s t /\
  blank "channel" (root_context ex_env s) = blank "channel" (root_context ex_env t) /\
  v_country (merged_env ex_env s) = "RW" /\ v_country (merged_env ex_env t) = "UG".
Proof.
  cbv zeta. split.
  - exists (Some (ex_contact [ex_tel_rw "+250738123123"])), None, None, None.
    repeat split; try constructor. exists [ex_tel_rw "+250738123123"]. split; [|reflexivity].
    constructor; [repeat split | constructor].
  - vm_compute. repeat split; reflexivity.
Qed.

(* the witness of the refutation differs only there *)
Example up_to_channel_example :
  blank "channel" (root_context ex_env (ex_session ex_two_channels [ex_tel "+12065551212"]))
  = blank "channel" (root_context ex_env (ex_session ex_two_channels [ex_tel "+14155559999"])).
Proof. vm_compute. reflexivity. Qed.

(* ------------------------------------------------------------------------------------------------ *)
(* how contacts are shown                                                                            *)

Lemma format_by_id : forall e c, redact e = true -> c_name c = "" -> contact_format e c = itoa (c_id c).
Proof. intros e c Hr Hn. unfold contact_format. rewrite Hn, Hr. reflexivity. Qed.

Lemma format_by_name : forall e c, c_name c <> "" -> contact_format e c = c_name c.
Proof.
  intros e c Hn. unfold contact_format. destruct (String.eqb_spec (c_name c) ""); [contradiction|reflexivity].
Qed.

Lemma format_by_id_or_name : forall e c,
  (redact e = true -> c_name c = "" -> contact_format e c = itoa (c_id c)) /\
  (c_name c <> "" -> contact_format e c = c_name c).
Proof. intros e c. exact (conj (format_by_id e c) (format_by_name e c)). Qed.

(* ... in every place a contact is shown: @contact, @run.contact, @parent.contact, @child.contact, @run, @parent, @child *)
Definition default_of (v : option xv) : option xv :=
  match v with Some (XObj d _) => d | _ => None end.

Lemma shown_by_id_everywhere : forall e s c, redact e = true -> c_name c = "" ->
  (s_contact s = Some c ->
     default_of (lookup (root_context e s) [Key "contact"]) = Some (xtext (itoa (c_id c))) /\
     default_of (lookup (root_context e s) [Key "run"; Key "contact"]) = Some (xtext (itoa (c_id c))) /\
     default_of (lookup (root_context e s) [Key "run"]) =
       Some (xtext (itoa (c_id c) ++ "@" ++ match s_flow_name s with Some f => f | None => "<missing>" end))) /\
  (forall r, s_parent s = Some r -> r_contact r = Some c ->
     default_of (lookup (root_context e s) [Key "parent"; Key "contact"]) = Some (xtext (itoa (c_id c))) /\
     default_of (lookup (root_context e s) [Key "parent"]) =
       Some (xtext (itoa (c_id c) ++ "@" ++ match r_flow_name r with Some f => f | None => "<missing>" end))) /\
  (forall r, s_child s = Some r -> r_contact r = Some c ->
     default_of (lookup (root_context e s) [Key "child"; Key "contact"]) = Some (xtext (itoa (c_id c))) /\
     default_of (lookup (root_context e s) [Key "child"]) =
       Some (xtext (itoa (c_id c) ++ "@" ++ match r_flow_name r with Some f => f | None => "<missing>" end))).
Proof.
  intros e s c Hr Hn. pose proof (format_by_id e c Hr Hn) as F.
  split; [|split].
  - intro Hc. cbn. rewrite Hc. cbn. unfold format_run_summary. rewrite F. repeat split; reflexivity.
  - intros r Hp Hrc. cbn. rewrite Hp. cbn. rewrite Hrc. unfold format_run_summary, contact_context. rewrite F.
    split; reflexivity.
  - intros r Hp Hrc. cbn. rewrite Hp. cbn. rewrite Hrc. unfold format_run_summary, contact_context. rewrite F.
    split; reflexivity.
Qed.

Example shown_by_id_example :
  default_of (lookup (root_context ex_env (ex_session ex_one_channel [ex_tel "+12065551212"])) [Key "contact"])
  = Some (xtext "1234567").
Proof. vm_compute. reflexivity. Qed.

(* ------------------------------------------------------------------------------------------------ *)
(* without the policy the same expressions do see the URNs                                            *)

Lemma nth_error_map_some : forall {A B} (f : A -> B) l i a, nth_error l i = Some a -> nth_error (map f l) i = Some (f a).
Proof. intros A B f l i a H. rewrite nth_error_map, H. reflexivity. Qed.

Lemma visible_without_policy : forall e s t c d i u v,
  redact e = false -> s_contact s = Some c -> s_contact t = Some d ->
  nth_error (c_urns c) i = Some u -> nth_error (c_urns d) i = Some v -> u_plain u <> u_plain v ->
  lookup (root_context e s) [Key "contact"; Key "urns"; Idx i] = Some (xtext (u_plain u)) /\
  lookup (root_context e t) [Key "contact"; Key "urns"; Idx i] = Some (xtext (u_plain v)) /\
  lookup (root_context e s) [Key "contact"; Key "urns"; Idx i] <> lookup (root_context e t) [Key "contact"; Key "urns"; Idx i].
Proof.
  intros e s t c d i u v Hr Hs Ht Hu Hv Hne.
  assert (L : forall s0 c0 u0, s_contact s0 = Some c0 -> nth_error (c_urns c0) i = Some u0 ->
              lookup (root_context e s0) [Key "contact"; Key "urns"; Idx i] = Some (xtext (u_plain u0))).
  { intros s0 c0 u0 H0 H1. cbn. rewrite H0. cbn.
    rewrite (nth_error_map_some (urn_to_xvalue e) _ _ _ H1). unfold urn_to_xvalue, urn_render. rewrite Hr. reflexivity. }
  rewrite (L s c u Hs Hu), (L t d v Ht Hv). repeat split; try reflexivity.
  intro H. injection H as H. apply Hne. exact H.
Qed.

(* a template that tells twins apart without the policy, on sessions that are indistinguishable under it *)
Example visible_without_policy_example :
  let s := ex_session ex_one_channel [ex_tel "+12065551212"] in
  let t := ex_session ex_one_channel [ex_tel "+14155559999"] in
  let off := {| redact := false; env_country := "US"; all_schemes := ["tel"; "facebook"] |} in
  session_twin s t /\ root_context ex_env s = root_context ex_env t /\
  lookup (root_context off s) [Key "contact"; Key "urn"] <> lookup (root_context off t) [Key "contact"; Key "urn"].
Proof.
  cbv zeta. split; [apply ex_twin | split].
  - vm_compute. reflexivity.
  - vm_compute. discriminate.
Qed.

(* ------------------------------------------------------------------------------------------------ *)
(* contact queries                                                                                   *)

Lemma visit_condition_flags : forall e p op v, redact e = true ->
  urn_condition_with_value (snd (visit_condition e p op v)) = true ->
  fst (visit_condition e p op v) <> None.
Proof.
  intros e p op v Hr. unfold visit_condition. rewrite Hr.
  destruct (split_dot p) as [[pfx key]|].
  - destruct (String.eqb pfx "fields"); [cbn; discriminate|].
    destruct (String.eqb pfx "urns").
    + cbn. intro H. rewrite H. discriminate.
    + cbn. discriminate.
  - destruct (is_attribute p).
    + cbn. intro H. apply andb_true_iff in H. destruct H as [H1 H2]. rewrite H1, H2. cbn. discriminate.
    + destruct (str_in p (all_schemes e)).
      * cbn. intro H. rewrite H. discriminate.
      * cbn. discriminate.
Qed.

Lemma visit_implicit_no_urn : forall e v ai up pl nt, redact e = true ->
  mentions_urn_value (visit_implicit e v ai up pl nt) = false.
Proof.
  intros e v ai up pl nt Hr. unfold visit_implicit. rewrite Hr. destruct ai; reflexivity.
Qed.

Lemma mentions_cond : forall q, (forall b cs, q <> QBool b cs) -> mentions_urn_value q = urn_condition_with_value q.
Proof. intros q H. destruct q; [reflexivity | exfalso; eapply H; reflexivity]. Qed.

Lemma visit_condition_is_cond : forall e p op v, exists pt k o w, snd (visit_condition e p op v) = QCond pt k o w.
Proof.
  intros e p op v. unfold visit_condition.
  destruct (split_dot p) as [[pfx key]|].
  - destruct (String.eqb pfx "fields"); [|destruct (String.eqb pfx "urns")]; cbn; eauto.
  - destruct (is_attribute p); [|destruct (str_in p (all_schemes e))]; cbn; eauto.
Qed.

Lemma visit_flags : forall e r, redact e = true ->
  mentions_urn_value (snd (visit e r)) = true -> fst (visit e r) <> None.
Proof.
  intros e r Hr. induction r as [v ai up pl nt | p op v | a IHa b IHb | a IHa b IHb | a IHa]; cbn [visit].
  - cbn. rewrite (visit_implicit_no_urn e v ai up pl nt Hr). discriminate.
  - destruct (visit_condition_is_cond e p op v) as (pt & k & o & w & E).
    intro H. apply visit_condition_flags; [assumption|]. rewrite E in *. exact H.
  - destruct (visit e a) as [ea na], (visit e b) as [eb nb]. cbn in *. rewrite orb_false_r.
    intro H. apply orb_true_iff in H. destruct H as [H|H].
    + specialize (IHa H). destruct ea; [discriminate | contradiction].
    + specialize (IHb H). destruct ea; [discriminate|]. cbn. exact IHb.
  - destruct (visit e a) as [ea na], (visit e b) as [eb nb]. cbn in *. rewrite orb_false_r.
    intro H. apply orb_true_iff in H. destruct H as [H|H].
    + specialize (IHa H). destruct ea; [discriminate | contradiction].
    + specialize (IHb H). destruct ea; [discriminate|]. cbn. exact IHb.
  - exact IHa.
Qed.

(* a query that asks about a URN value is rejected under the policy *)
Lemma query_rejected : forall e r, redact e = true ->
  mentions_urn_value (snd (visit e r)) = true -> fst (parse_query e r) <> None.
Proof.
  intros e r Hr H. pose proof (visit_flags e r Hr H) as F. unfold parse_query.
  destruct (visit e r) as [err q]. cbn in F. destruct err; [cbn; discriminate | contradiction].
Qed.

(* ... and the first error reported is the redaction error unless an earlier condition has an unknown prefix *)
Lemma query_rejected_example :
  fst (parse_query ex_env (RCond "urns.tel" OpEq "123")) = Some ErrRedactedURNs /\
  fst (parse_query ex_env (RCond "tel" OpEq "123")) = Some ErrRedactedURNs /\
  fst (parse_query ex_env (RCond "urn" OpContains "123")) = Some ErrRedactedURNs /\
  fst (parse_query ex_env (ROr (RCond "name" OpEq "bob") (RGroup (RCond "urns.facebook" OpNe "1")))) = Some ErrRedactedURNs /\
  fst (parse_query ex_env (RCond "tel" OpEq "")) = None.
Proof. vm_compute. repeat split; reflexivity. Qed.

(* accepted queries cannot tell twins apart *)
Lemma urn_values_empty_twin : forall pt key us vs, Forall2 urn_twin us vs ->
  match urn_values pt key us, urn_values pt key vs with [], [] => True | _ :: _, _ :: _ => True | _, _ => False end.
Proof.
  intros pt key us vs H. unfold urn_values. destruct pt.
  - destruct H; cbn; exact I.
  - induction H as [|u v us vs (Hs & _ & _) _ IH]; cbn [filter map]; [exact I|].
    rewrite <- Hs. destruct (String.eqb (u_scheme u) key); cbn; [exact I | exact IH].
  - destruct H; cbn; exact I.
Qed.

Lemma eval_existence_twin : forall pt key op us vs, Forall2 urn_twin us vs ->
  (op = OpEq \/ op = OpNe) ->
  eval_urn_condition pt key op "" us = eval_urn_condition pt key op "" vs.
Proof.
  intros pt key op us vs H Hop. unfold eval_urn_condition. cbn [String.eqb].
  pose proof (urn_values_empty_twin pt key us vs H) as E.
  destruct Hop as [-> | ->]; destruct (urn_values pt key us), (urn_values pt key vs); try contradiction; reflexivity.
Qed.

(* what survives parsing under the policy: URN conditions only as existence checks *)
Fixpoint urn_blind (q : qnode) : Prop :=
  match q with
  | QCond pt k op v => is_urn_cond pt k = true -> v = "" /\ (op = OpEq \/ op = OpNe)
  | QBool _ cs => (fix go (l : list qnode) : Prop := match l with [] => True | c :: t => urn_blind c /\ go t end) cs
  end.

Lemma eval_blind_twin : forall other us vs q, Forall2 urn_twin us vs -> urn_blind q ->
  eval_query other us q = eval_query other vs q.
Proof.
  intros other us vs q H. revert q.
  fix IH 1. intros q Hb. destruct q as [pt k op v | b cs].
  - cbn [eval_query]. cbn in Hb. destruct (is_urn_cond pt k); [|reflexivity].
    destruct (Hb eq_refl) as [-> Hop]. apply eval_existence_twin; assumption.
  - cbn [eval_query]. destruct b.
    + induction cs as [|c t IHt]; [reflexivity|]. destruct Hb as [Hc Ht].
      rewrite (IH c Hc). f_equal. apply IHt. exact Ht.
    + induction cs as [|c t IHt]; [reflexivity|]. destruct Hb as [Hc Ht].
      rewrite (IH c Hc). f_equal. apply IHt. exact Ht.
Qed.

Lemma cond_blind : forall pt k op v,
  urn_condition_with_value (QCond pt k op v) = false -> validate_urn_condition pt k op v = None ->
  urn_blind (QCond pt k op v).
Proof.
  intros pt k op v Hm Hv. cbn. intro Hu. unfold validate_urn_condition in Hv.
  assert (Hv' : v = "").
  { destruct pt; cbn in Hm, Hu.
    - rewrite Hu in Hm. cbn in Hm. destruct (String.eqb_spec v ""); [assumption | discriminate].
    - destruct (String.eqb_spec v ""); [assumption | discriminate].
    - discriminate. }
  split; [exact Hv'|]. subst v.
  replace (match pt with PURN => true | PAttribute => String.eqb k "urn" | PField => false end) with true in Hv
    by (symmetry; exact Hu).
  cbn in Hv. destruct op; try discriminate; auto.
Qed.

Lemma visit_blind : forall e r, redact e = true ->
  fst (visit e r) = None -> validate_urn_parts (snd (visit e r)) = None -> urn_blind (snd (visit e r)).
Proof.
  intros e r Hr. induction r as [v ai up pl nt | p op v | a IHa b IHb | a IHa b IHb | a IHa]; cbn [visit].
  - cbn [fst snd]. intros _ _. unfold visit_implicit. rewrite Hr.
    destruct ai; cbn; intro H; discriminate.
  - intros He Hv. destruct (visit_condition_is_cond e p op v) as (pt & k & o & w & E).
    pose proof (visit_condition_flags e p op v Hr) as F. rewrite E in *.
    apply cond_blind.
    + destruct (urn_condition_with_value (QCond pt k o w)) eqn:M; [|reflexivity].
      exfalso. apply F; [reflexivity | exact He].
    + exact Hv.
  - destruct (visit e a) as [ea na], (visit e b) as [eb nb]. cbn [fst snd] in *.
    intros He Hv. destruct ea; [discriminate|]. cbn in He. subst eb.
    cbn in Hv. destruct (validate_urn_parts na); [discriminate|]. cbn in Hv.
    destruct (validate_urn_parts nb); [discriminate|].
    cbn. repeat split; [apply IHa | apply IHb]; reflexivity.
  - destruct (visit e a) as [ea na], (visit e b) as [eb nb]. cbn [fst snd] in *.
    intros He Hv. destruct ea; [discriminate|]. cbn in He. subst eb.
    cbn in Hv. destruct (validate_urn_parts na); [discriminate|]. cbn in Hv.
    destruct (validate_urn_parts nb); [discriminate|].
    cbn. repeat split; [apply IHa | apply IHb]; reflexivity.
  - exact IHa.
Qed.

Lemma accepted_queries_blind : forall e r other us vs, redact e = true ->
  fst (parse_query e r) = None -> Forall2 urn_twin us vs ->
  eval_query other us (snd (parse_query e r)) = eval_query other vs (snd (parse_query e r)).
Proof.
  intros e r other us vs Hr Hp Ht. unfold parse_query in *.
  pose proof (visit_blind e r Hr) as B.
  destruct (visit e r) as [err q]. destruct err; [cbn in Hp; discriminate|].
  cbn [fst snd] in *. apply eval_blind_twin; [assumption|]. apply B; [reflexivity | exact Hp].
Qed.

(* non-vacuity: an accepted query that does look at URNs (existence), and twins on which a rejected query would differ *)
Example accepted_query_example :
  fst (parse_query ex_env (RAnd (RCond "tel" OpNe "") (RCond "urns.facebook" OpEq ""))) = None /\
  eval_query (fun _ _ _ _ => false) [ex_tel "+12065551212"]
    (snd (parse_query ex_env (RAnd (RCond "tel" OpNe "") (RCond "urns.facebook" OpEq "")))) = true /\
  eval_query (fun _ _ _ _ => false) [ex_tel "+12065551212"] (QCond PURN "tel" OpEq "+12065551212")
    <> eval_query (fun _ _ _ _ => false) [ex_tel "+14155559999"] (QCond PURN "tel" OpEq "+12065551212").
Proof. vm_compute. repeat split; try reflexivity. discriminate. Qed.

(* ------------------------------------------------------------------------------------------------ *)
(* do the actions that look at the contact's URNs keep twin contacts twins?                           *)

Lemma Forall2_app_twin : forall us vs us' vs', Forall2 urn_twin us vs -> Forall2 urn_twin us' vs' ->
  Forall2 urn_twin (us ++ us') (vs ++ vs').
Proof. intros. apply Forall2_app; assumption. Qed.

(* add_contact_urn: twins stay twins when the candidate is held by both or by neither *)
Lemma add_urn_twin : forall us vs u, Forall2 urn_twin us vs -> has_urn us u = has_urn vs u ->
  Forall2 urn_twin (add_urn us u) (add_urn vs u).
Proof.
  intros us vs u H Hh. unfold add_urn. rewrite <- Hh. destruct (has_urn us u); [exact H|].
  apply Forall2_app_twin; [exact H | constructor; [apply urn_twin_refl | constructor]].
Qed.

(* ... and not otherwise: the candidate equals the path of one twin only *)
Definition set_contact_urns (s : session) (f : list urn -> list urn) : session :=
  with_parts s (match s_contact s with Some c => Some (with_urns c (f (c_urns c))) | None => None end)
             (s_input s) (s_parent s) (s_child s).

Lemma add_urn_refuted_witness :
  exists e s t c d u, redact e = true /\ session_twin s t /\
    s_contact s = Some c /\ s_contact t = Some d /\
    ~ Forall2 urn_twin (add_urn (c_urns c) u) (add_urn (c_urns d) u) /\
    root_context e (set_contact_urns s (fun us => add_urn us u))
      <> root_context e (set_contact_urns t (fun us => add_urn us u)).
Proof.
  exists ex_env, (ex_session ex_one_channel [ex_tel "+12065551212"]),
         (ex_session ex_one_channel [ex_tel "+12065553434"]),
         (ex_contact [ex_tel "+12065551212"]), (ex_contact [ex_tel "+12065553434"]), (ex_tel "+12065551212").
  split; [reflexivity|]. split.
  - exists (Some (ex_contact [ex_tel "+12065553434"])), None, None, None.
    repeat split; try constructor. exists [ex_tel "+12065553434"]. split; [|reflexivity].
    constructor; [repeat split | constructor].
  - split; [reflexivity|]. split; [reflexivity|]. split.
    + vm_compute. intro H. inversion H as [|? ? ? ? _ T]; subst. inversion T.
    + intro H.
      apply (f_equal (fun v => lookup v [Key "contact"; Key "urns"; Idx 1])) in H.
      vm_compute in H. discriminate H.
Qed.

(* set_contact_channel: twins stay twins, always (the loop looks at scheme and affinity only) *)
Lemma prefer_step_twin : forall c u v, urn_twin u v -> urn_twin (prefer_step c u) (prefer_step c v).
Proof.
  intros c u v (Hs & Ha & Hc). unfold prefer_step. rewrite <- Hs.
  destruct (String.eqb (u_scheme u) tel && supports c tel); cbn [set_affinity u_scheme u_affinity].
  - rewrite <- Hs. destruct (String.eqb (ch_uuid c) "" && supports c (u_scheme u));
      repeat split; cbn; assumption || reflexivity.
  - rewrite <- Hs, <- Ha. destruct (String.eqb (u_affinity u) "" && supports c (u_scheme u));
      repeat split; cbn; assumption || reflexivity.
Qed.

Lemma Forall2_filter_twin : forall (p : urn -> bool) us vs,
  (forall u v, urn_twin u v -> p u = p v) -> Forall2 urn_twin us vs ->
  Forall2 urn_twin (filter p us) (filter p vs).
Proof.
  intros p us vs Hp H. induction H as [|u v us vs Huv _ IH]; cbn [filter]; [constructor|].
  rewrite <- (Hp u v Huv). destruct (p u); [constructor; assumption | exact IH].
Qed.

Lemma Forall2_map_twin : forall (f : urn -> urn) us vs,
  (forall u v, urn_twin u v -> urn_twin (f u) (f v)) -> Forall2 urn_twin us vs ->
  Forall2 urn_twin (map f us) (map f vs).
Proof.
  intros f us vs Hf H. induction H as [|u v us vs Huv _ IH]; cbn [map]; constructor; [apply Hf; assumption | exact IH].
Qed.

Lemma update_preferred_channel_twin : forall ch us vs, Forall2 urn_twin us vs ->
  Forall2 urn_twin (update_preferred_channel ch us) (update_preferred_channel ch vs).
Proof.
  intros ch us vs H. unfold update_preferred_channel. destruct ch as [c|].
  - destruct (negb (has_role c role_send)); [exact H|].
    pose proof (Forall2_map_twin (prefer_step c) us vs (prefer_step_twin c) H) as M.
    apply Forall2_app_twin; apply Forall2_filter_twin; try exact M.
    + intros u v (_ & Ha & _). rewrite Ha. reflexivity.
    + intros u v (_ & Ha & _). rewrite Ha. reflexivity.
  - apply Forall2_map_twin; [|exact H]. intros u v (Hs & _ & Hc). repeat split; cbn; assumption.
Qed.

(* ... and it touches nothing but the affinity: every URN afterwards is a URN held before with another affinity
   (scheme, path, display, printed forms and derived country as stored), none is lost or invented.
   [ContactURN.SetChannel used to rebuild the URN with urns.NewFromParts, which re-normalizes the path: this statement
   was then false of the code — tel:12065551212 became tel:+12065551212 — while true of this model, which never
   normalized; found by the second bug hunt, repaired in flows/urn.go, and now compared (URN text after the
   operation) on every run.] *)
Definition same_but_affinity (u v : urn) : Prop := exists a, v = set_affinity u a.

Lemma prefer_step_same : forall c u, same_but_affinity u (prefer_step c u).
Proof.
  intros c u. unfold prefer_step, same_but_affinity.
  destruct (String.eqb (u_scheme u) tel && supports c tel).
  - destruct (String.eqb (u_affinity (set_affinity u (ch_uuid c))) "" && supports c (u_scheme (set_affinity u (ch_uuid c))));
      eexists; reflexivity.
  - destruct (String.eqb (u_affinity u) "" && supports c (u_scheme u)); [eexists; reflexivity|].
    exists (u_affinity u). destruct u; reflexivity.
Qed.

Lemma update_preferred_channel_keeps_urns : forall ch us,
  List.length (update_preferred_channel ch us) = List.length us /\
  Forall (fun v => exists u, In u us /\ same_but_affinity u v) (update_preferred_channel ch us).
Proof.
  intros ch us. unfold update_preferred_channel. destruct ch as [c|].
  - destruct (negb (has_role c role_send)).
    + split; [reflexivity|]. apply Forall_forall. intros v Hv. exists v. split; [exact Hv|].
      exists (u_affinity v). destruct v; reflexivity.
    + split.
      * rewrite app_length. rewrite <- (map_length (prefer_step c) us).
        generalize (map (prefer_step c) us). intro l. induction l as [|x l IH]; [reflexivity|].
        cbn [filter]. destruct (String.eqb (u_affinity x) (ch_uuid c)); cbn [negb List.length]; lia.
      * apply Forall_app. split; apply Forall_forall; intros v Hv; apply filter_In in Hv; destruct Hv as [Hv _];
          apply in_map_iff in Hv; destruct Hv as (u & <- & Hu); exists u; (split; [exact Hu | apply prefer_step_same]).
  - split; [apply map_length|]. apply Forall_forall. intros v Hv. apply in_map_iff in Hv.
    destruct Hv as (u & <- & Hu). exists u. split; [exact Hu | exists ""; reflexivity].
Qed.

(* the hypothesis of add_urn_twin is satisfiable both ways *)
Example add_urn_twin_example :
  has_urn [ex_tel "+12065551212"] (ex_tel "+12065550000") = has_urn [ex_tel "+12065553434"] (ex_tel "+12065550000") /\
  List.length (add_urn [ex_tel "+12065551212"] (ex_tel "+12065550000")) = 2%nat /\
  add_urn [ex_tel "+12065551212"] (ex_tel "+12065551212") = [ex_tel "+12065551212"].
Proof. vm_compute. repeat split; reflexivity. Qed.
