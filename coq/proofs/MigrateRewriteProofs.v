(* MigrateRewriteProofs.v -- Migrate13_3 changes the nodes of a definition only through the refactoring function it is
   given: with the identity for tx every node comes back as it was.  (Together with property C11's statement about
   refactor.Template -- what it returns evaluates like what it was given, with @webhook read as @webhook.json -- this is
   the model's share of "expression rewrites preserve what each template evaluates to"; that the catalogue lists every
   template position is checked on the implementation by the direct oracle, not here.) *)
From Coq Require Import List NArith ZArith Bool String Lia.
From Verif Require Import lib.Json gen.MigrationTable model.Migrate proofs.MigrateProofs.
Import ListNotations.
Open Scope N_scope.

Definition idtx (x : str) : str := x.

Lemma oset_same : forall k v o, olookup k o = Some v -> oset k v o = o.
Proof.
  intros k v o. induction o as [|[k' v'] o IH]; cbn [olookup oset]; [discriminate|].
  destruct (str_eqb k k') eqn:E; intro H; [inversion H; reflexivity | now rewrite IH].
Qed.

Lemma map_strings_id : forall vs, map (fun v => match v with JStr x => JStr (idtx x) | _ => v end) vs = vs.
Proof. induction vs as [|v vs IH]; [reflexivity|]. cbn [map]. rewrite IH. destruct v; reflexivity. Qed.

Lemma txl_id : forall loc container key val, snd (txl idtx loc container key val) = val.
Proof. intros. unfold txl. cbn [snd]. destruct val; try reflexivity. now rewrite map_strings_id. Qed.

Lemma map_st_same : forall {S A} (g : S -> A -> S * A) l st,
  (forall st x, snd (g st x) = x) -> snd (map_st g st l) = l.
Proof.
  intros S A g l. induction l as [|x l IH]; intros st H; [reflexivity|]. cbn [map_st].
  specialize (H st x) as Hx. destruct (g st x) as [st1 y]. cbn [snd] in Hx. subst y.
  specialize (IH st1 H). destruct (map_st g st1 l) as [st2 r]. cbn [snd] in *. now rewrite IH.
Qed.

Lemma visit_id : forall path loc j, snd (visit idtx path loc j) = j.
Proof.
  induction path as [|sel rem IH]; intros loc j; [reflexivity|].
  assert (Hv : forall container key loc0 v,
             snd (match rem with [] => txl idtx loc0 container key v | _ => visit idtx rem loc0 v end) = v).
  { intros. destruct rem; [apply txl_id | apply IH]. }
  destruct j as [| | | |l|o]; try reflexivity.
  - cbn [visit].
    assert (Hf : forall l0 i loc0 out,
               snd (fold_left (fun (acc : N * option obj * list json) v =>
                      let '(i, loc, out) := acc in
                      if (match parse_number sel with Some n => n =? i | None => false end) || str_eqb sel star then
                        match rem with
                        | [] => let '(loc', v') := txl idtx loc (JArr l) None v in (i + 1, loc', out ++ [v'])
                        | _ => let '(loc', v') := visit idtx rem loc v in (i + 1, loc', out ++ [v'])
                        end
                      else (i + 1, loc, out ++ [v])) l0 (i, loc0, out)) = out ++ l0).
    { induction l0 as [|v l0 IHl]; intros i loc0 out; cbn [fold_left snd]; [now rewrite app_nil_r|].
      destruct (_ || _).
      - pose proof (Hv (JArr l) None loc0 v) as H. destruct rem as [|r0 rem0].
        + destruct (txl idtx loc0 (JArr l) None v) as [loc' v']. cbn [snd] in H. subst v'.
          rewrite IHl. now rewrite <- app_assoc.
        + destruct (visit idtx (r0 :: rem0) loc0 v) as [loc' v']. cbn [snd] in H. subst v'.
          rewrite IHl. now rewrite <- app_assoc.
      - rewrite IHl. now rewrite <- app_assoc. }
    specialize (Hf l 0 loc []). destruct (fold_left _ l (0, loc, [])) as [[i loc'] l']. cbn [snd] in *. now subst l'.
  - cbn [visit].
    match goal with |- context [map_st ?g loc o] => pose proof (map_st_same g o loc) as Hm; destruct (map_st g loc o) as [loc' o'] end.
    cbn [snd] in *. rewrite Hm; [reflexivity|].
    intros st [k v]. destruct (_ || _); [|reflexivity].
    pose proof (Hv (JObj o) (Some k) st v) as H. destruct rem as [|r0 rem0].
    + destruct (txl idtx st (JObj o) (Some k) v) as [l1 v']. cbn [snd] in *. now subst.
    + destruct (visit idtx (r0 :: rem0) st v) as [l1 v']. cbn [snd] in *. now subst.
Qed.

Lemma rewrite_templates_id : forall loc o p, snd (rewrite_templates idtx loc o p) = o.
Proof.
  intros loc o p. unfold rewrite_templates. destruct (parse_path _) as [steps|]; [|reflexivity].
  pose proof (visit_id steps loc (JObj o)) as H. destruct (visit idtx steps loc (JObj o)) as [loc' j]. cbn [snd] in *.
  subst j. reflexivity.
Qed.

Lemma rewrite_all_id : forall tab st o, snd (rewrite_all idtx tab st o) = o.
Proof.
  intros tab st o. unfold rewrite_all.
  assert (H : forall ps acc, snd (fold_left (fun (acc : option obj * obj) p => rewrite_path idtx (fst acc) (snd acc) p) ps acc) = snd acc).
  { induction ps as [|p ps IH]; intro acc; [reflexivity|]. cbn [fold_left]. rewrite IH, rewrite_path_snd. apply rewrite_templates_id. }
  specialize (H (catalog_paths tab (type_of o)) (snd st, o)).
  destruct (fold_left _ (catalog_paths tab (type_of o)) (snd st, o)) as [loc' o']. cbn [snd] in *. now subst.
Qed.

Lemma on_objects_same : forall {S} (step : S -> obj -> S * obj) l st,
  (forall st o, snd (step st o) = o) -> snd (on_objects step st l) = l.
Proof.
  intros S step l st H. unfold on_objects. apply map_st_same. intros st0 x. destruct x; try reflexivity.
  specialize (H st0 kv). destruct (step st0 kv) as [st' o']. cbn [snd] in *. now subst.
Qed.

Lemma on_array_member_same : forall {S} k (step : S -> obj -> S * obj) st o,
  (forall st o, snd (step st o) = o) -> snd (on_array_member k step st o) = o.
Proof.
  intros S k step st o H. unfold on_array_member. destruct (olookup k o) as [[| | | |l|]|] eqn:E; try reflexivity.
  pose proof (on_objects_same step l st H) as Hl. destruct (on_objects step st l) as [st' l']. cbn [snd] in *. subst l'.
  now apply oset_same.
Qed.

Lemma on_object_member_same : forall {S} k (step : S -> obj -> S * obj) st o,
  (forall st o, snd (step st o) = o) -> snd (on_object_member k step st o) = o.
Proof.
  intros S k step st o H. unfold on_object_member. destruct (olookup k o) as [[| | | | |x]|] eqn:E; try reflexivity.
  specialize (H st x). destruct (step st x) as [st' x']. cbn [snd] in *. subst x'. now apply oset_same.
Qed.

Lemma node_13_3_id : forall st n, snd (node_13_3 idtx st n) = n.
Proof.
  intros st n. unfold node_13_3.
  pose proof (on_array_member_same k_actions (rewrite_all idtx catalog_actions) st n (rewrite_all_id catalog_actions)) as H.
  destruct (on_array_member k_actions (rewrite_all idtx catalog_actions) st n) as [st1 n1]. cbn [snd] in H. subst n1.
  apply on_object_member_same. apply rewrite_all_id.
Qed.

(* with the identity for tx, Migrate13_3 gives back every member of the definition except possibly `localization`
   (whose translations of catalogued members are re-written as arrays of texts) *)
Lemma migrate_13_3_only_through_tx : forall fr f k,
  k <> k_localization -> olookup k (fst (migrate_13_3 idtx fr f)) = olookup k f.
Proof.
  intros fr f k Hk. unfold migrate_13_3, with_localization.
  pose proof (on_array_member_same k_nodes (node_13_3 idtx) (fr, get_obj k_localization f) f node_13_3_id) as H.
  destruct (on_array_member k_nodes (node_13_3 idtx) (fr, get_obj k_localization f) f) as [[fr' loc'] f']. cbn [snd fst] in *.
  subst f'. destruct loc' as [l|]; [|reflexivity]. apply olookup_oset_other. congruence.
Qed.
