(* EngineExamples.v — concrete sessions showing that the hypotheses of the theorems in props/C01.v,
   C05.v and C10.v are satisfiable (all by computation on the model). *)

From Coq Require Import List NArith ZArith Bool Lia.
From Verif Require Import model.Lang model.Engine proofs.EngineProofs.
Import ListNotations.
Open Scope N_scope.

Definition ex_opts : options := {| max_steps := 100; max_resumes := 500; max_template_chars := 10000; max_result_chars := 640 |}.

(* parent flow 1: node 101 enters flow 2, then node 102 sends a message;
   child flow 2: node 201 waits for a message (timeout 60 s on category 1) and routes "a" to 202, else ends *)
Definition ex_wait_router : router :=
  {| rt_wait := Some {| w_type := WMsg; w_timeout := Some (60, 1%nat) |};
     rt_result := Some [114];
     rt_cats := [{| cat_name := [65]; cat_exit := 2011 |}; {| cat_name := [84]; cat_exit := 2012 |}];
     rt_cases := [([97], 0%nat)];
     rt_default := Some 1%nat |}.

Definition ex_flow1 : flow :=
  {| f_id := 1; f_type := 0;
     f_nodes := [ {| n_id := 101; n_actions := [AEnterFlow 2 false]; n_router := None;
                     n_exits := [{| e_id := 1011; e_dest := Some 102 |}] |};
                  {| n_id := 102; n_actions := [ASendMsg [104; 105]]; n_router := None;
                     n_exits := [{| e_id := 1021; e_dest := None |}] |} ] |}.

Definition ex_flow2 : flow :=
  {| f_id := 2; f_type := 0;
     f_nodes := [ {| n_id := 201; n_actions := []; n_router := Some ex_wait_router;
                     n_exits := [{| e_id := 2011; e_dest := Some 202 |}; {| e_id := 2012; e_dest := None |}] |};
                  {| n_id := 202; n_actions := [ASetResult [120] [121] []]; n_router := None;
                     n_exits := [{| e_id := 2021; e_dest := None |}] |} ] |}.

Definition ex_assets : assets := {| a_flows := [ex_flow1; ex_flow2]; a_opts := ex_opts |}.
Definition ex_assets_no_child : assets := {| a_flows := [ex_flow1]; a_opts := ex_opts |}.
Definition ex_assets_no_resumes : assets :=
  {| a_flows := [ex_flow1; ex_flow2];
     a_opts := {| max_steps := 100; max_resumes := 1; max_template_chars := 10000; max_result_chars := 640 |} |}.

Definition ex_started : result_ := Eval vm_compute in start ex_assets TManual 1.

Definition ex_waiting : session :=
  match ex_started with ROk x => session_ x | _ => new_session TManual 1 end.

(* the started session waits in the child (run 1) while the parent (run 0) stays active *)
Example ex_waiting_shape :
  s_status ex_waiting = SWaiting /\ waiting_run ex_waiting = Some 1%nat /\
  map r_status (s_runs ex_waiting) = [RActive; RWaiting] /\ map r_parent (s_runs ex_waiting) = [None; Some 0%nat].
Proof. vm_compute. repeat split. Qed.

(* C01: both status theorems apply (a call that returns without error exists) *)
Example ex_start_ok : exists x', start ex_assets TManual 1 = ROk x'.
Proof. vm_compute. eexists; reflexivity. Qed.

Example ex_resume_ok : exists x', resume_session ex_assets ex_waiting (RMsg [97]) [] = Resumed (ROk x')
                                  /\ s_status (session_ x') = SCompleted.
Proof. vm_compute. eexists; split; reflexivity. Qed.

(* C10: each of the three rejections happens *)
Definition ex_completed : session :=
  match resume_session ex_assets ex_waiting (RMsg [97]) [] with Resumed (ROk x) => session_ x | _ => ex_waiting end.

Example ex_rejected_101 : resume_session ex_assets ex_completed (RMsg [97]) [] = Rejected 101.
Proof. vm_compute. reflexivity. Qed.

Definition ex_tampered : session :=
  set_runs ex_waiting (map (fun r => match r_status r with RWaiting => run_set_status RActive r | _ => r end) (s_runs ex_waiting)).

Example ex_rejected_102 : resume_session ex_assets ex_tampered (RMsg [97]) [] = Rejected 102.
Proof. vm_compute. reflexivity. Qed.

Example ex_rejected_103 : resume_session ex_assets ex_waiting RDial [] = Rejected 103.
Proof. vm_compute. reflexivity. Qed.

(* the third disjunct of c10_rejected_iff is inhabited *)
Example ex_rejected_103_conditions :
  s_status ex_waiting = SWaiting /\
  exists wi pos n w, waiting_run ex_waiting = Some wi /\ ~ flow_unusable ex_assets ex_waiting wi /\
                     ~ resume_limit_reached ex_assets ex_waiting /\
                     resume_site ex_assets ex_waiting wi (Some (pos, n, w)) /\ accepts w RDial = false.
Proof.
  split; [reflexivity|].
  exists 1%nat, 0%nat, (nth 0 (f_nodes ex_flow2) (Build_node 0 [] None [])), {| w_type := WMsg; w_timeout := Some (60, 1%nat) |}.
  split; [reflexivity|]. split; [vm_compute; discriminate|]. split; [vm_compute; intros C; apply C; reflexivity|].
  split; [|reflexivity]. eapply site_wait; reflexivity.
Qed.

(* C10: each impossible-resume condition happens, and the session then ends as failed *)
Example ex_flow_missing : s_status ex_waiting = SWaiting /\ waiting_run ex_waiting = Some 1%nat /\
                          flow_missing ex_assets_no_child ex_waiting 1.
Proof. vm_compute. repeat split. Qed.

Example ex_limit_reached : resume_limit_reached ex_assets_no_resumes ex_waiting.
Proof. vm_compute. discriminate. Qed.

Example ex_node_gone :
  resume_site {| a_flows := [ex_flow1; {| f_id := 2; f_type := 0; f_nodes := [] |}]; a_opts := ex_opts |} ex_waiting 1 None.
Proof. apply site_gone. reflexivity. Qed.

Example ex_flow_missing_fails : exists x',
  resume_session ex_assets_no_child ex_waiting (RMsg [97]) [] = Resumed (ROk x') /\
  s_status (session_ x') = SFailed /\ map r_status (s_runs (session_ x')) = [RFailed; RFailed].
Proof. vm_compute. eexists; repeat split. Qed.

(* the waiting run's flow was re-saved as a voice flow; the session was not triggered with a call: failed, not resumed *)
Definition ex_assets_child_voice : assets :=
  {| a_flows := [ex_flow1; {| f_id := f_id ex_flow2; f_type := 2; f_nodes := f_nodes ex_flow2 |}]; a_opts := ex_opts |}.

Example ex_voice_without_call : flow_unusable ex_assets_child_voice ex_waiting 1 /\ ~ flow_missing ex_assets_child_voice ex_waiting 1.
Proof. split; [reflexivity|vm_compute; discriminate]. Qed.

(* ... with the voice-without-call failure, not the missing-flow one *)
Example ex_voice_without_call_code :
  unusable_code ex_assets_child_voice ex_waiting 1 FMissingFlow = FVoiceNoCall /\
  unusable_code ex_assets_no_child ex_waiting 1 FMissingFlow = FMissingFlow.
Proof. split; reflexivity. Qed.

Example ex_voice_without_call_fails : exists x',
  resume_session ex_assets_child_voice ex_waiting (RMsg [97]) [] = Resumed (ROk x') /\
  s_status (session_ x') = SFailed /\ map r_status (s_runs (session_ x')) = [RFailed; RFailed].
Proof. vm_compute. eexists; repeat split. Qed.

(* C05: truncation hypotheses *)
Example ex_truncate_cut : trunc_ellipsis [104; 101; 108; 108; 111] 4 = Some [104; 46; 46; 46].
Proof. reflexivity. Qed.
Example ex_truncate_tiny : trunc_ellipsis [104; 101; 108; 108; 111] 2 = Some [104; 101].
Proof. reflexivity. Qed.
Example ex_truncate_negative : trunc [104; 101; 108; 108; 111] (-5) = Some [].
Proof. reflexivity. Qed.

(* C01: the hypotheses of c01_status_wellformed / c01_invariant_preserved are inhabited, in both the
   waiting and the finished form *)
From Verif Require Import proofs.EngineInv.

Example ex_reachable_waiting : reachable ex_waiting /\ s_status ex_waiting = SWaiting.
Proof.
  split; [|reflexivity].
  change ex_waiting with (session_ (match ex_started with ROk x => x | _ => {| session_ := new_session TManual 1; sprint_ := empty_sprint |} end)).
  eapply reach_start with (a := ex_assets) (t := TManual) (f := 1). vm_compute. reflexivity.
Qed.

Example ex_reachable_completed : reachable ex_completed /\ s_status ex_completed = SCompleted.
Proof.
  split; [|reflexivity].
  assert (H : exists x, resume_session ex_assets ex_waiting (RMsg [97]) [] = Resumed (ROk x) /\ session_ x = ex_completed).
  { vm_compute. eexists; split; reflexivity. }
  destruct H as (x & Hx & <-). eapply reach_resume; [apply ex_reachable_waiting|exact Hx].
Qed.

(* C05: the hypotheses of c05_iteration_decreases_measure are inhabited (first iteration of a start) *)
From Verif Require Import proofs.EngineFuel.

Definition ex_x0 : st :=
  {| session_ := set_pushed (set_type (new_session TManual 1) 0) (Some {| p_flow := 1; p_terminal := false |});
     sprint_ := empty_sprint |}.

Example ex_term_inv : term_inv ex_assets ex_x0 (init_lstate true) /\
                      exists x' l', cuw_iter ex_assets ex_x0 (init_lstate true) = ICont x' l'.
Proof.
  split.
  - constructor; [apply loop_inv_start|simpl; lia|]. intros [C _]. simpl in C. lia.
  - vm_compute. eexists; eexists; reflexivity.
Qed.

(* C05: a history with one resume that went through *)
From Verif Require Import proofs.EngineResumes.
Example ex_history : history ex_assets 1 ex_completed.
Proof.
  assert (H0 : history ex_assets 0 ex_waiting).
  { change ex_waiting with (session_ (match ex_started with ROk x => x | _ => {| session_ := new_session TManual 1; sprint_ := empty_sprint |} end)).
    eapply h_start with (t := TManual) (f := 1). vm_compute. reflexivity. }
  assert (H : exists x, resume_session ex_assets ex_waiting (RMsg [97]) [] = Resumed (ROk x) /\ session_ x = ex_completed).
  { vm_compute. eexists; split; reflexivity. }
  destruct H as (x & Hx & <-). eapply h_resume; [exact H0|exact Hx|]. vm_compute. intros C. apply C. reflexivity.
Qed.

(* validity is satisfiable: the example assets (and the faulted stores used above) are valid *)
From Verif Require Import model.EngineCorr proofs.EngineNoErr.
Example ex_assets_valid : valid_assets ex_assets /\ valid_assets ex_assets_no_child.
Proof. split; apply valid_assets_b_sound; reflexivity. Qed.

From Verif Require Import proofs.EnginePaths.
Example ex_valid_cat_exits : valid_cat_exits ex_assets.
Proof. apply valid_cat_exits_b_sound. reflexivity. Qed.
Example ex_reachable_in : reachable_in ex_assets ex_waiting.
Proof.
  change ex_waiting with (session_ (match ex_started with ROk x => x | _ => {| session_ := new_session TManual 1; sprint_ := empty_sprint |} end)).
  eapply rin_start with (t := TManual) (f := 1). vm_compute. reflexivity.
Qed.

(* C10: a rejected resume in state-passing form *)
Example ex_resume_m_rejected : exists x', resume_m ex_assets ex_waiting RDial [] = (x', OErr 103).
Proof. vm_compute. eexists; reflexivity. Qed.

(* ---- C05: the step limit (review F1, F7) ---------------------------------------------------------------------- *)
From Verif Require Import proofs.EngineSteps proofs.EngineLimit.

(* a node that sends a message and loops on itself *)
Definition ex_loop_flow : flow :=
  {| f_id := 1; f_type := 0;
     f_nodes := [ {| n_id := 101; n_actions := [ASendMsg [104; 105]]; n_router := None;
                     n_exits := [{| e_id := 1011; e_dest := Some 101 |}] |} ] |}.
Definition ex_loop_assets (limit : Z) : assets :=
  {| a_flows := [ex_loop_flow];
     a_opts := {| max_steps := limit; max_resumes := 500; max_template_chars := 10000; max_result_chars := 640 |} |}.

(* limit 3: three steps, three messages, then the step-limit failure event; the session is failed *)
Example ex_limit_3 : exists x', start (ex_loop_assets 3) TManual 1 = ROk x' /\
  s_status (session_ x') = SFailed /\ tot (session_ x') = 3%nat /\
  map (fun oe => is_limit (ev_kind (snd oe))) (sp_events (sprint_ x')) = [false; false; false; true].
Proof. vm_compute. eexists; repeat split. Qed.

(* limits 0 and -4: no step at all, one failure event, failed *)
Example ex_limit_0 : exists x', start (ex_loop_assets 0) TManual 1 = ROk x' /\
  s_status (session_ x') = SFailed /\ tot (session_ x') = 0%nat /\ has_limit_event (sp_events (sprint_ x')) = true.
Proof. vm_compute. eexists; repeat split. Qed.
Example ex_limit_negative : exists x', start (ex_loop_assets (-4)) TManual 1 = ROk x' /\
  s_status (session_ x') = SFailed /\ tot (session_ x') = 0%nat /\ has_limit_event (sp_events (sprint_ x')) = true.
Proof. vm_compute. eexists; repeat split. Qed.

(* the hypotheses of c05_limit_ends_failed / c05_crossed_ends_failed / c05_limit_crossing are inhabited: the first
   iteration of a start with limit 0 crosses the limit *)
Definition ex_x0_loop : st :=
  {| session_ := set_pushed (set_type (new_session TManual 1) 0) (Some {| p_flow := 1; p_terminal := false |});
     sprint_ := empty_sprint |}.

Example ex_hit_state : exists x l,
  cuw_iter (ex_loop_assets 0) ex_x0_loop (init_lstate true) = ICont x l /\
  ~ hit (ex_loop_assets 0) (init_lstate true) /\ hit (ex_loop_assets 0) l /\
  step_inv (ex_loop_assets 0) 0 x l /\ has_limit_event (sp_events (sprint_ x)) = true.
Proof.
  pose proof (step_inv_init (ex_loop_assets 0) ex_x0_loop (init_lstate true) (loop_inv_start TManual 1 0) eq_refl) as S.
  pose proof (cuw_iter_steps (ex_loop_assets 0) _ _ _ S) as K.
  destruct (cuw_iter (ex_loop_assets 0) ex_x0_loop (init_lstate true)) as [r|x l] eqn:E; [vm_compute in E; discriminate|].
  exists x, l. split; [reflexivity|]. split; [intros [C _]; simpl in C; lia|].
  vm_compute in E. inversion E; subst. split; [split; reflexivity|]. split; [exact K|reflexivity].
Qed.

(* C05: a resume answered by the resume-limit failure (constructor h_limit of [history]) *)
Example ex_history_limit : exists x,
  resume_session ex_assets_no_resumes ex_waiting (RMsg [97]) [] = Resumed (ROk x) /\
  resume_limit_reached ex_assets_no_resumes ex_waiting /\ s_status (session_ x) = SFailed.
Proof. vm_compute. eexists; repeat split; discriminate. Qed.

(* ---- C10 (review F5): a node that lost its router, and a wait whose type changed under the session ------------ *)
Definition ex_flow2_no_router : flow :=
  {| f_id := 2; f_type := 0;
     f_nodes := [ {| n_id := 201; n_actions := []; n_router := None; n_exits := [{| e_id := 2011; e_dest := None |}] |} ] |}.
Definition ex_assets_no_router : assets := {| a_flows := [ex_flow1; ex_flow2_no_router]; a_opts := ex_opts |}.

Example ex_site_no_wait : resume_site ex_assets_no_router ex_waiting 1 None /\
  exists x', resume_session ex_assets_no_router ex_waiting (RMsg [97]) [] = Resumed (ROk x') /\
             s_status (session_ x') = SFailed /\ map r_status (s_runs (session_ x')) = [RFailed; RFailed] /\
             map (fun oe => ev_kind (snd oe)) (sp_events (sprint_ x')) = [EFailure FNoWait].
Proof.
  split.
  - eapply site_no_wait; reflexivity.
  - vm_compute. eexists; repeat split.
Qed.

(* the wait on node 201 became a dial wait: a msg resume is rejected (103), a dial resume is accepted *)
Definition ex_dial_router : router :=
  {| rt_wait := Some {| w_type := WDial; w_timeout := None |}; rt_result := None;
     rt_cats := [{| cat_name := [65]; cat_exit := 2011 |}]; rt_cases := []; rt_default := Some 0%nat |}.
Definition ex_flow2_dial : flow :=
  {| f_id := 2; f_type := 0;
     f_nodes := [ {| n_id := 201; n_actions := []; n_router := Some ex_dial_router; n_exits := [{| e_id := 2011; e_dest := None |}] |} ] |}.
Definition ex_assets_dial : assets := {| a_flows := [ex_flow1; ex_flow2_dial]; a_opts := ex_opts |}.

Example ex_dial_row :
  resume_session ex_assets_dial ex_waiting (RMsg [97]) [] = Rejected 103 /\
  resume_session ex_assets_dial ex_waiting RTimeout [] = Rejected 103 /\
  exists x', resume_session ex_assets_dial ex_waiting RDial [] = Resumed (ROk x') /\ s_status (session_ x') = SCompleted.
Proof. vm_compute. repeat split. eexists; split; reflexivity. Qed.

(* the premises of c10_route_error_unreachable are inhabited *)
Example ex_route_error_premises :
  exists n rt w, path_location ex_assets ex_waiting 1 = Some (0%nat, n) /\ n_router n = Some rt /\ rt_wait rt = Some w /\ accepts w RTimeout = true.
Proof. vm_compute. do 3 eexists. repeat split. Qed.

(* ---- C01 (review F5): a terminal enter followed by run_expiration; stores that differ between calls ---------- *)
Definition ex_term_flow1 : flow :=
  {| f_id := 1; f_type := 0;
     f_nodes := [ {| n_id := 101; n_actions := [AEnterFlow 2 true]; n_router := None; n_exits := [{| e_id := 1011; e_dest := None |}] |} ] |}.
Definition ex_term_assets : assets := {| a_flows := [ex_term_flow1; ex_flow2]; a_opts := ex_opts |}.

Definition ex_term_started : result_ := Eval vm_compute in start ex_term_assets TManual 1.
Definition ex_term_s1 : session := match ex_term_started with ROk x => session_ x | _ => new_session TManual 1 end.

Example ex_terminal_enter : exists x1, start ex_term_assets TManual 1 = ROk x1 /\ session_ x1 = ex_term_s1 /\
  map r_status (s_runs ex_term_s1) = [RCompleted; RWaiting] /\ s_status ex_term_s1 = SWaiting.
Proof. vm_compute. eexists; repeat split. Qed.

Example ex_terminal_then_expiration : exists x2,
  resume_session ex_term_assets ex_term_s1 RExpiration [] = Resumed (ROk x2) /\
  s_status (session_ x2) = SCompleted /\ map r_status (s_runs (session_ x2)) = [RCompleted; RExpired] /\
  map r_exited (s_runs (session_ x2)) = [true; true].
Proof. vm_compute. eexists; repeat split. Qed.

Example ex_terminal_then_expiration_reachable : exists x2,
  resume_session ex_term_assets ex_term_s1 RExpiration [] = Resumed (ROk x2) /\ reachable (session_ x2).
Proof.
  destruct ex_terminal_then_expiration as (x2 & H2 & _). exists x2. split; [exact H2|].
  destruct ex_terminal_enter as (x1 & H1 & E1 & _). eapply reach_resume; [|exact H2]. rewrite <- E1. eapply reach_start; exact H1.
Qed.

(* [reachable] really is wider than [reachable_in]: the second call runs against another store *)
Example ex_reachable_across_stores : exists x', resume_session ex_assets_no_child ex_waiting (RMsg [97]) [] = Resumed (ROk x') /\ reachable (session_ x').
Proof.
  assert (H : exists x', resume_session ex_assets_no_child ex_waiting (RMsg [97]) [] = Resumed (ROk x')) by (vm_compute; eexists; reflexivity).
  destruct H as (x' & H). exists x'. split; [exact H|]. eapply reach_resume; [apply ex_reachable_waiting|exact H].
Qed.


(* ---- a reachable session waiting on a DIAL wait (a loadable store: the flow is a voice flow, the session has a call) *)
Definition ex_voice_flow : flow := {| f_id := 1; f_type := 2; f_nodes := map (fun n => {| n_id := n_id n; n_actions := n_actions n; n_router := n_router n; n_exits := n_exits n |}) (f_nodes ex_flow2_dial) |}.
Definition ex_voice_assets : assets := {| a_flows := [ex_voice_flow]; a_opts := ex_opts |}.
Definition ex_voice_started : result_ := Eval vm_compute in start ex_voice_assets TManual 1.
Definition ex_voice_waiting : session := match ex_voice_started with ROk x => session_ x | _ => new_session TManual 1 end.

Example ex_reachable_dial_waiting :
  reachable ex_voice_waiting /\ s_status ex_voice_waiting = SWaiting /\ s_type ex_voice_waiting = 2 /\
  map r_status (s_runs ex_voice_waiting) = [RWaiting] /\ count_waits ex_voice_waiting = 1%nat /\
  (exists sr, map (fun e => ev_kind e) (flat_map r_events (s_runs ex_voice_waiting)) = [EDialWait] /\ sr = tt).
Proof.
  split.
  - change ex_voice_waiting with (session_ (match ex_voice_started with ROk x => x | _ => {| session_ := new_session TManual 1; sprint_ := empty_sprint |} end)).
    eapply reach_start with (a := ex_voice_assets) (t := TManual) (f := 1). vm_compute. reflexivity.
  - vm_compute. repeat split. exists tt. split; reflexivity.
Qed.

(* the accept table's dial row on that session: msg and wait_timeout are rejected, dial goes through *)
Example ex_dial_row_voice :
  resume_session ex_voice_assets ex_voice_waiting (RMsg [97]) [] = Rejected 103 /\
  resume_session ex_voice_assets ex_voice_waiting RTimeout [] = Rejected 103 /\
  exists x', resume_session ex_voice_assets ex_voice_waiting RDial [] = Resumed (ROk x') /\ s_status (session_ x') = SCompleted.
Proof. vm_compute. repeat split. eexists; split; reflexivity. Qed.

(* ---- a reachable session whose stored result was actually CUT: value to MaxResultChars = 1, kept input to
   MaxTemplateChars = 2 (c05_stored_result_values / c05_stored_result_inputs are not vacuous) *)
Definition ex_cut_assets : assets :=
  {| a_flows := [ex_flow1; ex_flow2]; a_opts := {| max_steps := 100; max_resumes := 500; max_template_chars := 2; max_result_chars := 1 |} |}.
Definition ex_cut_resumed : resume_result := Eval vm_compute in resume_session ex_cut_assets ex_waiting (RMsg [97; 98; 99; 100]) [].

Example ex_result_cut : exists x', ex_cut_resumed = Resumed (ROk x') /\
  s_input (session_ x') = Some [97; 98; 99; 100] /\
  exists r res, nth_error (s_runs (session_ x')) 1 = Some r /\ In res (r_results r) /\
                res_value res = [97] /\ res_input res = [97; 98].
Proof. vm_compute. eexists; split; [reflexivity|]. split; [reflexivity|]. eexists; eexists. split; [reflexivity|]. split; [left; reflexivity|]. split; reflexivity. Qed.
