(* MigrateTextProofs.v -- facts about the text helpers of model/Migrate.v (trimming, truncation, lengths) that the
   13.6 step of the validity argument needs. *)
From Coq Require Import List NArith ZArith Bool Lia ZifyBool ZifyNat ZifyN.
From Verif Require Import lib.Json model.Migrate model.MigrateValid.
Import ListNotations.
Open Scope N_scope.

Section Forall.
  Variable p : N -> bool.

  Lemma forallb_firstn : forall n (l : str), forallb p l = true -> forallb p (firstn n l) = true.
  Proof.
    induction n as [|n IH]; intros l H; [reflexivity|]. destruct l as [|c l]; [reflexivity|].
    cbn in *. apply andb_true_iff in H. destruct H as [H1 H2]. now rewrite H1, IH.
  Qed.

  Lemma forallb_trim_left : forall l : str, forallb p l = true -> forallb p (trim_left l) = true.
  Proof.
    induction l as [|c l IH]; intro H; [reflexivity|]. cbn [trim_left]. destruct (is_space c); [|exact H].
    cbn in H. apply andb_true_iff in H. now apply IH.
  Qed.

  Lemma forallb_rev' : forall l : str, forallb p l = true -> forallb p (List.rev l) = true.
  Proof.
    intros l H. apply forallb_forall. intros x Hx. apply in_rev in Hx. rewrite forallb_forall in H. now apply H.
  Qed.

  Lemma forallb_trim_space : forall l : str, forallb p l = true -> forallb p (trim_space l) = true.
  Proof.
    intros l H. unfold trim_space, trim_right. apply forallb_rev', forallb_trim_left, forallb_rev', forallb_trim_left, H.
  Qed.

  Lemma forallb_truncate : forall (l : str) max, forallb p l = true -> forallb p (truncate l max) = true.
  Proof.
    intros l max H. unfold truncate, truncate_runes.
    pose proof (forallb_trim_space _ (forallb_firstn (N.to_nat max) _ (forallb_trim_space l H))) as H1.
    destruct (trim_space (firstn (N.to_nat max) (trim_space l))); [now apply forallb_firstn | exact H1].
  Qed.
End Forall.

Lemma trim_left_length : forall l : str, (List.length (trim_left l) <= List.length l)%nat.
Proof.
  induction l as [|c l IH]; [cbn; lia|]. cbn [trim_left]. destruct (is_space c); cbn [List.length]; lia.
Qed.

Lemma trim_space_length : forall l : str, (List.length (trim_space l) <= List.length l)%nat.
Proof.
  intro l. unfold trim_space, trim_right. rewrite rev_length.
  pose proof (trim_left_length (List.rev (trim_left l))) as H1. rewrite rev_length in H1.
  pose proof (trim_left_length l). lia.
Qed.

Lemma truncate_length : forall (l : str) max, rune_len (truncate l max) <= max.
Proof.
  intros l max. unfold rune_len, truncate, truncate_runes.
  pose proof (trim_space_length (firstn (N.to_nat max) (trim_space l))) as H1.
  pose proof (firstn_le_length (N.to_nat max) (trim_space l)) as H2.
  pose proof (firstn_le_length (N.to_nat max) l) as H3.
  destruct (trim_space (firstn (N.to_nat max) (trim_space l))); cbn [List.length] in *; lia.
Qed.

Lemma utf8_width_pos : forall c, 1 <= utf8_width c.
Proof. intro c. unfold utf8_width. destruct (c <? 128), (c <? 2048), (c <? 65536); lia. Qed.

Lemma rune_len_le_utf8_len : forall x, rune_len x <= utf8_len x.
Proof.
  unfold rune_len, utf8_len. induction x as [|c x IH]; [cbn; lia|].
  cbn [List.length fold_right]. pose proof (utf8_width_pos c). lia.
Qed.

(* shortening never empties a name *)
Lemma truncate_nonempty : forall x max, nonempty x = true -> 1 <= max -> nonempty (truncate x max) = true.
Proof.
  intros x max H Hm. unfold truncate, truncate_runes.
  destruct (trim_space (firstn (N.to_nat max) (trim_space x))) as [|c t]; [|reflexivity].
  destruct x as [|c x]; [discriminate|]. destruct (N.to_nat max) as [|n] eqn:En; [lia|]. reflexivity.
Qed.
