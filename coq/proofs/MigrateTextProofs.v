(* MigrateTextProofs.v -- facts about the text helpers of model/Migrate.v (trimming, truncation, lengths) that the
   13.6 step of the validity argument needs. *)
From Coq Require Import List NArith ZArith Bool Lia ZifyBool ZifyNat ZifyN.
From Verif Require Import lib.Json model.Migrate model.MigrateValid.
Import ListNotations.
Open Scope N_scope.

Section Forall.
  Variable p : N -> bool.

  Lemma forallb_firstn : forall n (l : str), forallb p l = true -> forallb p (firstn n l) = true.
  Proof.
    induction n as [|n IH]; intros l H; [reflexivity|]. destruct l as [|c l]; [reflexivity|].
    cbn in *. apply andb_true_iff in H. destruct H as [H1 H2]. now rewrite H1, IH.
  Qed.

  Lemma forallb_trim_left : forall l : str, forallb p l = true -> forallb p (trim_left l) = true.
  Proof.
    induction l as [|c l IH]; intro H; [reflexivity|]. cbn [trim_left]. destruct (is_space c); [|exact H].
    cbn in H. apply andb_true_iff in H. now apply IH.
  Qed.

  Lemma forallb_rev' : forall l : str, forallb p l = true -> forallb p (List.rev l) = true.
  Proof.
    intros l H. apply forallb_forall. intros x Hx. apply in_rev in Hx. rewrite forallb_forall in H. now apply H.
  Qed.

  Lemma forallb_trim_space : forall l : str, forallb p l = true -> forallb p (trim_space l) = true.
  Proof.
    intros l H. unfold trim_space, trim_right. apply forallb_rev', forallb_trim_left, forallb_rev', forallb_trim_left, H.
  Qed.

  Lemma forallb_truncate : forall (l : str) max, forallb p l = true -> forallb p (truncate l max) = true.
  Proof.
    intros l max H. unfold truncate, truncate_runes. now apply forallb_trim_space, forallb_firstn, forallb_trim_space.
  Qed.
End Forall.

Lemma trim_left_length : forall l : str, (List.length (trim_left l) <= List.length l)%nat.
Proof.
  induction l as [|c l IH]; [cbn; lia|]. cbn [trim_left]. destruct (is_space c); cbn [List.length]; lia.
Qed.

Lemma trim_space_length : forall l : str, (List.length (trim_space l) <= List.length l)%nat.
Proof.
  intro l. unfold trim_space, trim_right. rewrite rev_length.
  pose proof (trim_left_length (List.rev (trim_left l))) as H1. rewrite rev_length in H1.
  pose proof (trim_left_length l). lia.
Qed.

Lemma truncate_length : forall (l : str) max, rune_len (truncate l max) <= max.
Proof.
  intros l max. unfold rune_len, truncate, truncate_runes.
  pose proof (trim_space_length (firstn (N.to_nat max) (trim_space l))) as H1.
  pose proof (firstn_le_length (N.to_nat max) (trim_space l)) as H2. lia.
Qed.

Lemma utf8_width_pos : forall c, 1 <= utf8_width c.
Proof. intro c. unfold utf8_width. destruct (c <? 128), (c <? 2048), (c <? 65536); lia. Qed.

Lemma rune_len_le_utf8_len : forall x, rune_len x <= utf8_len x.
Proof.
  unfold rune_len, utf8_len. induction x as [|c x IH]; [cbn; lia|].
  cbn [List.length fold_right]. pose proof (utf8_width_pos c). lia.
Qed.

(* what is left of a text with a visible character is not empty *)
Lemma trim_left_head : forall x, has_nonspace x = true -> exists c r, trim_left x = c :: r /\ is_space c = false.
Proof.
  induction x as [|c x IH]; intro H; [discriminate|]. cbn [has_nonspace existsb] in H. cbn [trim_left].
  destruct (is_space c) eqn:E; [|eauto]. cbn in H. now apply IH.
Qed.

Lemma trim_left_last : forall (l : str) c, is_space c = false -> exists l', trim_left (l ++ [c]) = l' ++ [c].
Proof.
  induction l as [|d l IH]; intros c Hc; cbn [app trim_left].
  - rewrite Hc. now exists [].
  - destruct (is_space d); [now apply IH | now exists (d :: l)].
Qed.

Lemma trim_right_head : forall c (r : str), is_space c = false -> exists r', trim_right (c :: r) = c :: r'.
Proof.
  intros c r Hc. unfold trim_right. cbn [List.rev]. destruct (trim_left_last (List.rev r) c Hc) as [l' ->].
  rewrite rev_app_distr. cbn. eauto.
Qed.

Lemma truncate_nonempty : forall x max, has_nonspace x = true -> 1 <= max -> nonempty (truncate x max) = true.
Proof.
  intros x max H Hm. unfold truncate, truncate_runes, trim_space at 2.
  destruct (trim_left_head x H) as [c [r [E Hc]]].
  (* trimming the right end of something that starts with a visible character keeps that character *)
  rewrite E. destruct (trim_right_head c r Hc) as [r' ->].
  destruct (N.to_nat max) as [|n] eqn:En; [lia|]. cbn [firstn].
  unfold trim_space. cbn [trim_left]. rewrite Hc. destruct (trim_right_head c (firstn n r') Hc) as [r'' ->]. reflexivity.
Qed.
