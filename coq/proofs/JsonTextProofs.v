(* JsonTextProofs.v — lemmas about model/JsonText.v (C13, JSON).

   Specification (from the property sentence): a JSON document read with parse_json and written back with json() is
   JSON-equivalent to the original.  JSON equivalence [jequiv] is written here from the meaning of JSON documents,
   not from the code: equal nulls / booleans / strings, numerically equal numbers, arrays element by element, and
   objects as maps - for every key the LAST member with that key on either side (a later duplicate replaces an
   earlier one), in any order.

   Main result  json_roundtrip_equiv :  good j -> exists j', json_roundtrip j = Some j' /\ jequiv j' j
   for every document whose numbers have an exponent in -1000..1000 and whose strings and keys contain no half
   surrogate pair (the complement is covered by json_roundtrip_bad_* : those become error values). *)
From Coq Require Import ZArith NArith List Bool Lia Sorting.Sorted.
From Verif Require Import lib.Dec lib.Json model.NumText model.JsonText proofs.NumTextProofs.
Import ListNotations.

(* ------------------------------------------------------------------------------------------------ *)
(* JSON equivalence *)

Fixpoint lookup_last {A} (k : str) (l : list (str * A)) : option A :=
  match l with
  | [] => None
  | (k', v) :: r => match lookup_last k r with
                    | Some x => Some x
                    | None => if str_eqb k k' then Some v else None
                    end
  end.

Inductive opt_rel {A} (R : A -> A -> Prop) : option A -> option A -> Prop :=
| OR_none : opt_rel R None None
| OR_some : forall x y, R x y -> opt_rel R (Some x) (Some y).

Inductive jequiv : json -> json -> Prop :=
| JE_null : jequiv JNull JNull
| JE_bool : forall b, jequiv (JBool b) (JBool b)
| JE_num : forall m e m' e', dec_eq (Dec m e) (Dec m' e') -> jequiv (JNum m e) (JNum m' e')
| JE_str : forall s, jequiv (JStr s) (JStr s)
| JE_arr : forall l l', Forall2 jequiv l l' -> jequiv (JArr l) (JArr l')
| JE_obj : forall kv kv', (forall k, opt_rel jequiv (lookup_last k kv) (lookup_last k kv')) ->
                          jequiv (JObj kv) (JObj kv').

(* sanity of the relation: reflexive, and it does distinguish documents *)
Lemma jequiv_refl : forall j, jequiv j j.
Proof.
  induction j as [| b | m e | s | l IH | kv IH] using json_ind'.
  - constructor.
  - constructor.
  - constructor. apply dec_eq_refl.
  - constructor.
  - constructor. induction IH; constructor; assumption.
  - constructor. intros k. induction IH as [|[k' v] r Hv _ IHr]; cbn [lookup_last]; [constructor|].
    cbn [snd] in Hv. inversion IHr as [E1 E2|x y Hxy E1 E2].
    + destruct (str_eqb k k'); constructor. exact Hv.
    + constructor. exact Hxy.
Qed.

Example jequiv_examples :
  jequiv (JObj [([97], JNum 1 0); ([98], JNum 150 (-2)); ([97], JNum 2 0)]%N) (JObj [([98], JNum 15 (-1)); ([97], JNum 20 (-1))]%N)
  /\ ~ jequiv (JObj [([97], JNum 1 0); ([97], JNum 2 0)]%N) (JObj [([97], JNum 1 0)]%N)
  /\ ~ jequiv (JObj [([97], JNull)]%N) (JObj [([65], JNull)]%N).
Proof.
  split; [|split].
  - constructor. intros k. cbn [lookup_last].
    destruct (str_eqb k [97%N]) eqn:Ea; [|destruct (str_eqb k [98%N]) eqn:Eb]; constructor; constructor; reflexivity.
  - intros H. inversion H as [| | | | |kv kv' Hk]; subst. specialize (Hk [97%N]). cbn in Hk.
    inversion Hk as [|x y Hxy]; subst. inversion Hxy; subst. discriminate.
  - intros H. inversion H as [| | | | |kv kv' Hk]; subst. specialize (Hk [97%N]). cbn in Hk. inversion Hk.
Qed.

(* ------------------------------------------------------------------------------------------------ *)
(* the order on keys *)

Lemma str_ltb_irrefl : forall a, str_ltb a a = false.
Proof. induction a as [|x a IH]; [reflexivity|]. cbn [str_ltb]. rewrite N.ltb_irrefl. exact IH. Qed.

Lemma str_ltb_trans : forall a b c, str_ltb a b = true -> str_ltb b c = true -> str_ltb a c = true.
Proof.
  induction a as [|x a IH]; intros [|y b] [|z c] H1 H2; cbn [str_ltb] in *; try discriminate; try reflexivity.
  destruct (x <? y)%N eqn:Exy; [apply N.ltb_lt in Exy|apply N.ltb_ge in Exy].
  - destruct (y <? z)%N eqn:Eyz; [apply N.ltb_lt in Eyz|apply N.ltb_ge in Eyz].
    + assert (E : (x <? z)%N = true) by (apply N.ltb_lt; lia). rewrite E. reflexivity.
    + destruct (z <? y)%N eqn:Ezy; [discriminate|]. apply N.ltb_ge in Ezy.
      assert (E : (x <? z)%N = true) by (apply N.ltb_lt; lia). rewrite E. reflexivity.
  - destruct (y <? x)%N eqn:Eyx; [discriminate|]. apply N.ltb_ge in Eyx. assert (x = y) by lia. subst y.
    destruct (x <? z)%N eqn:Exz; [reflexivity|].
    destruct (z <? x)%N eqn:Ezx; [discriminate|]. eapply IH; eassumption.
Qed.

Lemma str_trichotomy : forall a b, str_ltb a b = false -> str_eqb a b = false -> str_ltb b a = true.
Proof.
  induction a as [|x a IH]; intros [|y b] H1 H2; cbn [str_ltb str_eqb] in *; try discriminate; try reflexivity.
  destruct (x <? y)%N eqn:Exy; [discriminate|]. apply N.ltb_ge in Exy.
  destruct (y <? x)%N eqn:Eyx; [reflexivity|]. apply N.ltb_ge in Eyx. assert (x = y) by lia. subst y.
  rewrite N.eqb_refl in H2. cbn [andb] in H2. apply IH; assumption.
Qed.

Lemma str_ltb_neq : forall a b, str_ltb a b = true -> str_eqb a b = false.
Proof.
  intros a b H. destruct (str_eqb a b) eqn:E; [|reflexivity]. apply str_eqb_eq in E. subst.
  rewrite str_ltb_irrefl in H. discriminate.
Qed.

(* ------------------------------------------------------------------------------------------------ *)
(* canonical maps: sorted by key, one binding per key *)

Definition klt {A} (a b : str * A) : Prop := str_ltb (fst a) (fst b) = true.
Definition ssorted {A} (l : list (str * A)) : Prop := StronglySorted klt l.

Lemma sinsert_In : forall A k (v : A) l x, In x (sinsert k v l) -> x = (k, v) \/ In x l.
Proof.
  intros A k v l x. induction l as [|[k' v'] r IH]; cbn [sinsert].
  - intros [H|[]]. left. symmetry. exact H.
  - destruct (str_ltb k k'); [|destruct (str_eqb k k')]; cbn [In]; intros H.
    + destruct H as [H|H]; [left; symmetry; exact H|right; exact H].
    + destruct H as [H|H]; [left; symmetry; exact H|right; right; exact H].
    + destruct H as [H|H]; [right; left; exact H|]. destruct (IH H) as [E|E]; [left; exact E|right; right; exact E].
Qed.

Lemma sinsert_sorted : forall A k (v : A) l, ssorted l -> ssorted (sinsert k v l).
Proof.
  intros A k v l H. induction H as [|[k' v'] r Hr IH Hall]; cbn [sinsert].
  - constructor; constructor.
  - destruct (str_ltb k k') eqn:Elt; [|destruct (str_eqb k k') eqn:Eeq].
    + constructor; [constructor; assumption|]. constructor; [exact Elt|].
      eapply Forall_impl; [|exact Hall]. intros [k2 v2] H2. unfold klt in *. cbn [fst] in *.
      eapply str_ltb_trans; eassumption.
    + apply str_eqb_eq in Eeq. subst k'. constructor; [exact Hr|]. exact Hall.
    + constructor; [exact IH|]. apply Forall_forall. intros x Hx. apply sinsert_In in Hx. destruct Hx as [->|Hx].
      * unfold klt. cbn [fst]. apply str_trichotomy; assumption.
      * rewrite Forall_forall in Hall. apply Hall. exact Hx.
Qed.

Lemma slookup_sinsert_same : forall A k (v : A) l, slookup k (sinsert k v l) = Some v.
Proof.
  intros A k v l. induction l as [|[k' v'] r IH]; cbn [sinsert slookup].
  - rewrite str_eqb_refl. reflexivity.
  - destruct (str_ltb k k'); [|destruct (str_eqb k k') eqn:E]; cbn [slookup].
    + rewrite str_eqb_refl. reflexivity.
    + rewrite str_eqb_refl. reflexivity.
    + rewrite E. exact IH.
Qed.

Lemma slookup_sinsert_other : forall A k k2 (v : A) l, str_eqb k2 k = false ->
  slookup k2 (sinsert k v l) = slookup k2 l.
Proof.
  intros A k k2 v l Hne. induction l as [|[k' v'] r IH]; cbn [sinsert slookup].
  - rewrite Hne. reflexivity.
  - destruct (str_ltb k k'); [|destruct (str_eqb k k') eqn:E]; cbn [slookup].
    + rewrite Hne. reflexivity.
    + apply str_eqb_eq in E. subst k'. rewrite Hne. reflexivity.
    + rewrite IH. reflexivity.
Qed.

(* on a canonical map the first and the last binding of a key coincide *)
Lemma lookup_last_sorted : forall A (l : list (str * A)) k, ssorted l -> lookup_last k l = slookup k l.
Proof.
  intros A l k H. induction H as [|[k' v'] r Hr IH Hall]; [reflexivity|]. cbn [lookup_last slookup].
  destruct (str_eqb k k') eqn:E.
  - assert (Hn : lookup_last k r = None).
    { apply str_eqb_eq in E. subst k'. clear - Hall. induction r as [|[k2 v2] r IHr]; [reflexivity|].
      inversion Hall as [|x l Hx Hrr]; subst. cbn [lookup_last]. rewrite (IHr Hrr).
      unfold klt in Hx. cbn [fst] in Hx. rewrite (str_ltb_neq _ _ Hx). reflexivity. }
    rewrite Hn. reflexivity.
  - rewrite IH. destruct (slookup k r); reflexivity.
Qed.

Lemma sremove_sorted : forall A k (l : list (str * A)), ssorted l -> ssorted (sremove k l).
Proof.
  intros A k l H. induction H as [|[k' v'] r Hr IH Hall]; cbn [sremove]; [constructor|].
  destruct (str_eqb k k'); [exact Hr|]. constructor; [exact IH|].
  apply Forall_forall. intros x Hx. rewrite Forall_forall in Hall. apply Hall.
  clear - Hx. induction r as [|[k2 v2] r IHr]; cbn [sremove] in Hx; [contradiction|].
  destruct (str_eqb k k2); [right; exact Hx|]. destruct Hx as [Hx|Hx]; [left; exact Hx|right; apply IHr; exact Hx].
Qed.

Lemma slookup_sremove_other : forall A k k2 (l : list (str * A)), str_eqb k2 k = false ->
  slookup k2 (sremove k l) = slookup k2 l.
Proof.
  intros A k k2 l Hne. induction l as [|[k' v'] r IH]; cbn [sremove slookup]; [reflexivity|].
  destruct (str_eqb k k') eqn:E.
  - apply str_eqb_eq in E. subst k'. rewrite Hne. reflexivity.
  - cbn [slookup]. rewrite IH. reflexivity.
Qed.

Lemma slookup_sremove_same : forall A k (l : list (str * A)), ssorted l -> slookup k (sremove k l) = None.
Proof.
  intros A k l H. induction H as [|[k' v'] r Hr IH Hall]; cbn [sremove slookup]; [reflexivity|].
  destruct (str_eqb k k') eqn:E.
  - apply str_eqb_eq in E. subst k'. clear - Hall. induction r as [|[k2 v2] r IHr]; [reflexivity|].
    inversion Hall as [|x l Hx Hrr]; subst. cbn [slookup]. unfold klt in Hx. cbn [fst] in Hx.
    rewrite (str_ltb_neq _ _ Hx). apply IHr. exact Hrr.
  - cbn [slookup]. rewrite E. exact IH.
Qed.

(* building the map from the members in document order: last binding wins *)
Lemma build_props_spec : forall A (kvs acc : list (str * A)),
  Forall (fun p => str_ok (fst p) = true) kvs -> ssorted acc ->
  ssorted (build_props kvs acc) /\
  forall k, slookup k (build_props kvs acc)
            = match lookup_last k kvs with Some v => Some v | None => slookup k acc end.
Proof.
  intros A kvs. induction kvs as [|[k' v'] r IH]; intros acc Hok Hs.
  - split; [exact Hs|]. intros k. reflexivity.
  - inversion Hok as [|x l Hx Hr]; subst. cbn [fst] in Hx. cbn [build_props]. rewrite Hx.
    destruct (IH (sinsert k' v' acc) Hr (sinsert_sorted _ _ _ _ Hs)) as [S L]. split; [exact S|].
    intros k. rewrite L. cbn [lookup_last]. destruct (lookup_last k r); [reflexivity|].
    destruct (str_eqb k k') eqn:E.
    + apply str_eqb_eq in E. subst k'. apply slookup_sinsert_same.
    + apply slookup_sinsert_other. exact E.
Qed.

(* ------------------------------------------------------------------------------------------------ *)
(* the documents the conversion represents exactly *)

Fixpoint good (j : json) : bool :=
  match j with
  | JNum _ e => exp_ok e
  | JStr s => str_ok s
  | JArr l => forallb good l
  | JObj kv => forallb (fun p => str_ok (fst p) && good (snd p)) kv
  | _ => true
  end.

(* the marshalling of a map all of whose values marshal *)
Definition marshal_props (props : list (str * xval)) : list (str * json) :=
  (fix go (l : list (str * xval)) : list (str * json) :=
     match l with
     | [] => []
     | (k, v) :: r => match to_json v with Some j => (k, j) :: go r | None => go r end
     end) props.

Lemma marshal_props_cons : forall k v r,
  marshal_props ((k, v) :: r) = match to_json v with Some j => (k, j) :: marshal_props r | None => marshal_props r end.
Proof. reflexivity. Qed.

Lemma marshal_props_spec : forall props,
  Forall (fun p => exists j, to_json (snd p) = Some j) props -> ssorted props ->
  ssorted (marshal_props props) /\
  forall k, slookup k (marshal_props props) = match slookup k props with Some v => to_json v | None => None end.
Proof.
  intros props Hall Hs. induction Hs as [|[k' v'] r Hr IH Hlt].
  - split; [constructor|]. intros k. reflexivity.
  - inversion Hall as [|x l Hx Hrest]; subst. destruct Hx as (j & Hj). cbn [snd] in Hj.
    destruct (IH Hrest) as [S L]. rewrite marshal_props_cons, Hj. split.
    + constructor; [exact S|]. apply Forall_forall. intros [k2 j2] Hin.
      assert (Hk : exists v2, In (k2, v2) r).
      { clear - Hin. induction r as [|[k3 v3] r IHr]; [contradiction|]. rewrite marshal_props_cons in Hin.
        destruct (to_json v3).
        - destruct Hin as [E|Hin]; [inversion E; subst; exists v3; left; reflexivity|].
          destruct (IHr Hin) as (v2 & H2). exists v2. right. exact H2.
        - destruct (IHr Hin) as (v2 & H2). exists v2. right. exact H2. }
      destruct Hk as (v2 & Hin2). rewrite Forall_forall in Hlt. apply (Hlt _ Hin2).
    + intros k. cbn [slookup]. destruct (str_eqb k k'); [symmetry; exact Hj|apply L].
Qed.

Lemma slookup_In : forall A k (l : list (str * A)) v, slookup k l = Some v -> In (k, v) l.
Proof.
  intros A k l v. induction l as [|[k' v'] r IH]; cbn [slookup]; [discriminate|].
  destruct (str_eqb k k') eqn:E.
  - intros H. inversion H; subst. apply str_eqb_eq in E. subst. left. reflexivity.
  - intros H. right. apply IH. exact H.
Qed.

Lemma lookup_last_In : forall A k (l : list (str * A)) v, lookup_last k l = Some v -> In (k, v) l.
Proof.
  intros A k l v. induction l as [|[k' v'] r IH]; cbn [lookup_last]; [discriminate|].
  destruct (lookup_last k r) eqn:E.
  - intros H. inversion H; subst. right. apply IH. reflexivity.
  - destruct (str_eqb k k') eqn:E2; [|discriminate]. intros H. inversion H; subst. apply str_eqb_eq in E2. subst.
    left. reflexivity.
Qed.

Lemma lookup_last_map : forall A B (f : A -> B) k (l : list (str * A)),
  lookup_last k (map (fun p => (fst p, f (snd p))) l) = option_map f (lookup_last k l).
Proof.
  intros A B f k l. induction l as [|[k' v'] r IH]; [reflexivity|]. cbn [map lookup_last fst snd]. rewrite IH.
  destruct (lookup_last k r); cbn [option_map]; [reflexivity|]. destruct (str_eqb k k'); reflexivity.
Qed.

(* numbers: the written literal denotes the same number *)
Lemma num_json_equiv : forall m e, jequiv (num_json (Dec m e)) (JNum m e).
Proof.
  intros m e. unfold num_json.
  destruct (new_from_string_render (fun _ => true) (Dec m e)) as (d' & Heq & _ & Hp). rewrite Hp.
  destruct d' as [m' e']. cbn [mant dexp]. constructor. exact Heq.
Qed.

(* ------------------------------------------------------------------------------------------------ *)
(* the round trip *)

Lemma to_json_of_json_equiv : forall j, good j = true -> exists j', to_json (of_json j) = Some j' /\ jequiv j' j.
Proof.
  induction j as [| b | m e | s | l IH | kv IH] using json_ind'; cbn [good]; intros G.
  - exists JNull. split; [reflexivity|constructor].
  - exists (JBool b). split; [reflexivity|constructor].
  - cbn [of_json]. rewrite G. cbn [to_json]. eexists. split; [reflexivity|apply num_json_equiv].
  - cbn [of_json]. rewrite G. cbn [to_json]. eexists. split; [reflexivity|constructor].
  - cbn [of_json to_json]. eexists. split; [reflexivity|]. constructor.
    induction IH as [|x r Hx _ IHr]; cbn [map]; [constructor|].
    cbn [forallb] in G. apply andb_true_iff in G. destruct G as [Gx Gr].
    destruct (Hx Gx) as (jx & Ex & Qx). rewrite Ex. constructor; [exact Qx|apply IHr; exact Gr].
  - cbn [of_json]. set (kv' := map (fun p => (fst p, of_json (snd p))) kv).
    (* every member converts, and converts back to an equivalent value *)
    assert (Hmem : forall k v, In (k, v) kv -> str_ok k = true /\ exists jv, to_json (of_json v) = Some jv /\ jequiv jv v).
    { intros k v Hin. rewrite forallb_forall in G. specialize (G _ Hin). cbn [fst snd] in G.
      apply andb_true_iff in G. destruct G as [Gk Gv]. split; [exact Gk|].
      rewrite Forall_forall in IH. apply (IH _ Hin). exact Gv. }
    assert (Hok : Forall (fun p => str_ok (fst p) = true) kv').
    { apply Forall_forall. intros [k x] Hin. unfold kv' in Hin. apply in_map_iff in Hin.
      destruct Hin as ([k0 v0] & E & Hin). inversion E; subst. cbn [fst]. apply (Hmem _ _ Hin). }
    destruct (build_props_spec _ kv' [] Hok ltac:(constructor)) as [Sp Lp].
    set (props := build_props kv' []) in *.
    assert (Hprops : forall k x, slookup k props = Some x -> exists v, In (k, v) kv /\ x = of_json v).
    { intros k x Hx. rewrite Lp in Hx. cbn [slookup] in Hx. destruct (lookup_last k kv') eqn:E; [|discriminate].
      inversion Hx; subst. apply lookup_last_In in E. unfold kv' in E. apply in_map_iff in E.
      destruct E as ([k0 v0] & E & Hin). inversion E; subst. exists v0. split; [exact Hin|reflexivity]. }
    unfold mk_object. cbn [to_json]. fold (marshal_props (sremove default_key props)).
    assert (Hall : Forall (fun p => exists j, to_json (snd p) = Some j) (sremove default_key props)).
    { apply Forall_forall. intros [k x] Hin. cbn [snd].
      assert (Hin' : In (k, x) props).
      { clear - Hin. induction props as [|[k2 x2] r IHr]; cbn [sremove] in Hin; [contradiction|].
        destruct (str_eqb default_key k2); [right; exact Hin|]. destruct Hin as [Hin|Hin]; [left; exact Hin|right; apply IHr; exact Hin]. }
      assert (Hl : slookup k props = Some x).
      { rewrite <- (lookup_last_sorted _ props k Sp). clear - Hin' Sp.
        induction Sp as [|[k2 x2] r Hr IHr Hlt]; [contradiction|]. cbn [lookup_last].
        destruct Hin' as [E|Hin'].
        - inversion E; subst. rewrite str_eqb_refl.
          assert (Hn : lookup_last k r = None).
          { clear - Hlt. induction r as [|[k3 x3] r IH]; [reflexivity|]. inversion Hlt as [|y l Hy Hrr]; subst.
            cbn [lookup_last]. rewrite (IH Hrr). unfold klt in Hy. cbn [fst] in Hy. rewrite (str_ltb_neq _ _ Hy). reflexivity. }
          rewrite Hn. reflexivity.
        - rewrite (IHr Hin'). reflexivity. }
      destruct (Hprops _ _ Hl) as (v & Hin2 & ->). destruct (Hmem _ _ Hin2) as (_ & jv & Ej & _). exists jv. exact Ej. }
    destruct (marshal_props_spec _ Hall (sremove_sorted _ _ _ Sp)) as [Sm Lm].
    (* the written object, with the default member put back *)
    set (out := match slookup default_key props with
                | Some d => match to_json d with
                            | Some j => sinsert default_key j (marshal_props (sremove default_key props))
                            | None => marshal_props (sremove default_key props)
                            end
                | None => marshal_props (sremove default_key props)
                end).
    exists (JObj out). split; [reflexivity|]. constructor. intros k.
    assert (Sout : ssorted out).
    { unfold out. destruct (slookup default_key props); [destruct (to_json x)|]; try exact Sm. apply sinsert_sorted. exact Sm. }
    rewrite (lookup_last_sorted _ out k Sout).
    (* what the written object has under k *)
    assert (Lout : slookup k out = match slookup k props with Some x => to_json x | None => None end).
    { unfold out. destruct (str_eqb k default_key) eqn:Ek.
      - apply str_eqb_eq in Ek. subst k. destruct (slookup default_key props) as [d|] eqn:Ed.
        + destruct (Hprops _ _ Ed) as (v & Hin & ->). destruct (Hmem _ _ Hin) as (_ & jv & Ej & _). rewrite Ej.
          apply slookup_sinsert_same.
        + rewrite Lm, slookup_sremove_same by exact Sp. reflexivity.
      - assert (Hbase : slookup k (marshal_props (sremove default_key props))
                        = match slookup k props with Some x => to_json x | None => None end).
        { rewrite Lm, slookup_sremove_other by exact Ek. reflexivity. }
        destruct (slookup default_key props) as [d|]; [destruct (to_json d)|]; try exact Hbase.
        rewrite slookup_sinsert_other by exact Ek. exact Hbase. }
    rewrite Lout, Lp. cbn [slookup]. unfold kv'. rewrite lookup_last_map.
    destruct (lookup_last k kv) as [v|] eqn:El; cbn [option_map]; [|constructor].
    apply lookup_last_In in El. destruct (Hmem _ _ El) as (_ & jv & Ej & Qj). rewrite Ej. constructor. exact Qj.
Qed.

(* ---- the complement: what the conversion does NOT represent ------------------------------------- *)

(* a number whose exponent is outside -1000..1000, a string with half a surrogate pair: error values;
   at top level json() fails, inside an array null is written, inside an object the member is omitted *)
Lemma json_roundtrip_bad_number : forall m e, exp_ok e = false ->
  json_roundtrip 1 (JNum m e) = None
  /\ json_roundtrip 1 (JArr [JNum m e]) = Some (JArr [JNull])
  /\ json_roundtrip 1 (JObj [([97%N], JNum m e)]) = Some (JObj []).
Proof.
  intros m e H. unfold json_roundtrip, to_json_checked. cbn [of_json map fst snd build_props str_ok existsb negb is_surrogate].
  rewrite H. repeat split.
Qed.

Lemma json_roundtrip_bad_string : forall s, str_ok s = false ->
  json_roundtrip 1 (JStr s) = None
  /\ json_roundtrip 1 (JArr [JStr s]) = Some (JArr [JNull])
  /\ json_roundtrip 1 (JObj [([97%N], JStr s)]) = Some (JObj []).
Proof.
  intros s H. unfold json_roundtrip, to_json_checked. cbn [of_json map fst snd build_props]. rewrite H. repeat split.
Qed.

(* a key with half a surrogate pair ends the object: the members after it are lost as well *)
Lemma json_roundtrip_bad_key :
  json_roundtrip 1 (JObj [([97%N], JNum 1 0); ([56320%N], JNum 2 0); ([98%N], JNum 3 0)])
  = Some (JObj [([97%N], JNum 1 0)]).
Proof. vm_compute. reflexivity. Qed.

Example good_sat : good (JObj [(default_key, JNum 1 0); ([97%N], JArr [JStr [128512%N]; JNum 15 (-1000)]); ([97%N], JNull)]) = true.
Proof. reflexivity. Qed.

(* witnesses against the statement for ALL documents *)
Lemma json_roundtrip_witnesses :
  (json_roundtrip 1 (JArr [JNum 1 1001]) = Some (JArr [JNull]) /\ ~ jequiv (JArr [JNull]) (JArr [JNum 1 1001]))
  /\ (json_roundtrip 1 (JObj [([107%N], JStr [55296%N; 120%N]); ([98%N], JNum 1 0)]) = Some (JObj [([98%N], JNum 1 0)])
      /\ ~ jequiv (JObj [([98%N], JNum 1 0)]) (JObj [([107%N], JStr [55296%N; 120%N]); ([98%N], JNum 1 0)])).
Proof.
  split; split; try (vm_compute; reflexivity).
  - intros H. inversion H as [| | | |l l' Hl|]; subst. inversion Hl as [|x y r r' Hxy Hr]; subst. inversion Hxy.
  - intros H. inversion H as [| | | | |kv kv' Hk]; subst. specialize (Hk [107%N]). cbn in Hk. inversion Hk.
Qed.

(* ------------------------------------------------------------------------------------------------ *)
(* with the render size limit of ToXJSON *)

Theorem json_roundtrip_equiv : forall dc j, good j = true -> render_ok dc true (of_json j) = true ->
  exists j', json_roundtrip dc j = Some j' /\ jequiv j' j.
Proof.
  intros dc j G R. unfold json_roundtrip, to_json_checked. rewrite R. apply to_json_of_json_equiv. exact G.
Qed.

(* the error branch: a value above the limit is not written at all *)
Lemma json_roundtrip_over_size : forall dc j, render_ok dc true (of_json j) = false -> json_roundtrip dc j = None.
Proof. intros dc j R. unfold json_roundtrip, to_json_checked. rewrite R. reflexivity. Qed.

(* where the limit lies for nesting alone.  With the charge of 1 per level (dc = 1) n arrays inside one another cost
   n(n+1)/2: 1413 levels are written back, 1414 are not.  Without it (dc = 0) they cost n. *)
Fixpoint nest (n : nat) : json := match n with O => JArr [] | S k => JArr [nest k] end.

Example nest_limit :
  good (nest 1412) = true /\ render_ok 1 true (of_json (nest 1412)) = true /\ json_roundtrip 1 (nest 1412) = Some (nest 1412)
  /\ good (nest 1413) = true /\ render_ok 1 true (of_json (nest 1413)) = false /\ json_roundtrip 1 (nest 1413) = None
  /\ json_roundtrip 0 (nest 1413) = Some (nest 1413).
Proof. vm_compute. repeat split. Qed.
