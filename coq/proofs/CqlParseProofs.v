(* proofs/CqlParseProofs.v — facts about model/CqlParser.v [parse_query]: the root it returns is never nil and is
   in Simplify's normal form. *)
From Coq Require Import List Arith NArith Bool Lia.
From Verif Require Import lib.Quote lib.RegexLM model.CqlSyntax gen.GrammarCQL model.CqlPrinter model.CqlParser
  proofs.CqlSimplifyProofs.
Import ListNotations.
Close Scope N_scope.

Lemma visit_nonempty : forall e a n errs, visit e a = VNode n errs -> nonempty_combs n.
Proof.
  induction a as [prop comp lit|lit|b l IHl r IHr]; intros n errs H; simpl in H.
  - destruct (literal_value lit); [discriminate|].
    destruct (visit_condition e prop comp v) as [n' errs'] eqn:E. inversion H; subst.
    unfold visit_condition in E.
    repeat match type of E with
           | (let '(_, _) := ?x in _) = _ => destruct x
           | match ?x with _ => _ end = _ => destruct x
           | (if ?x then _ else _) = _ => destruct x
           end; inversion E; constructor.
  - destruct (literal_value lit); [discriminate|]. inversion H; subst.
    unfold visit_implicit.
    repeat match goal with
           | |- nonempty_combs (match ?x with _ => _ end) => destruct x
           | |- nonempty_combs (if ?x then _ else _) => destruct x
           end; constructor.
  - destruct (visit e l) as [|n1 e1]; [discriminate|]. destruct (visit e r) as [|n2 e2]; [discriminate|].
    inversion H; subst. constructor; [discriminate|]. repeat constructor; eauto.
Qed.

(* what ParseQuery accepts: a non-nil root in normal form, which Simplify leaves alone *)
Theorem parse_query_simplified : forall e s root, parse_query e s = QOk root ->
  exists q, root = Some q /\ simplified q /\ simplify q = Some q.
Proof.
  intros e s root H. unfold parse_query in H.
  destruct (parse_front e s) as [| | n | |] eqn:F; try discriminate.
  destruct (conditions_valid e n); [|discriminate]. inversion H; subst.
  assert (Hn : nonempty_combs n).
  { unfold parse_front in F.
    destruct (cql_lex (preprocess e s)); try discriminate.
    destruct (parse_tokens ts) as [| |a rest]; try discriminate.
    destruct (visit e a) as [|n' errs] eqn:V; [discriminate|].
    destruct errs; [|discriminate]. inversion F; subst. eapply visit_nonempty. exact V. }
  destruct (simplify_some n Hn) as [q Eq]. exists q. split; [exact Eq|].
  split; [eapply simplify_simplified; exact Eq|eapply simplify_idem; exact Eq].
Qed.
