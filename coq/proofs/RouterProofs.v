(* RouterProofs.v — specification vocabulary for C07 written from the property sentence, and the proofs that the
   model in model/Router.v meets it.  Everything is parametric in the value type, template evaluation, text
   conversion, the test registry and the test functions (Section variables = universally quantified). *)

From Coq Require Import List NArith ZArith QArith Qround Bool Lia.
From Verif Require Import model.Lang model.Router proofs.LangProofs.
Import ListNotations.
Open Scope N_scope.

(* ---- facts that do not depend on the oracles ---------------------------------------------------------- *)

Lemma find_category_first cats u c :
  find_category cats u = Some c ->
  exists pre post, cats = pre ++ c :: post /\ c_uuid c = u /\ Forall (fun c' => c_uuid c' <> u) pre.
Proof.
  induction cats as [|c0 rest IH]; cbn [find_category]; [discriminate|].
  destruct (N.eqb (c_uuid c0) u) eqn:E.
  - intros H; inversion H; subst. exists [], rest. repeat split; [apply N.eqb_eq; exact E|constructor].
  - intros H. destruct (IH H) as (pre & post & -> & Hu & Hpre).
    exists (c0 :: pre), post. repeat split; [exact Hu|].
    constructor; [apply N.eqb_neq; exact E|exact Hpre].
Qed.

Lemma find_category_none cats u :
  find_category cats u = None <-> Forall (fun c' => c_uuid c' <> u) cats.
Proof.
  induction cats as [|c0 rest IH]; cbn [find_category].
  - split; [constructor|reflexivity].
  - destruct (N.eqb (c_uuid c0) u) eqn:E.
    + split; [discriminate|]. intros H; inversion H; subst. apply N.eqb_eq in E. contradiction.
    + rewrite IH. split; intros H.
      * constructor; [apply N.eqb_neq; exact E|exact H].
      * inversion H; assumption.
Qed.

Lemma find_category_In cats u c : find_category cats u = Some c -> In c cats /\ c_uuid c = u.
Proof.
  intros H. destruct (find_category_first _ _ _ H) as (pre & post & -> & Hu & _).
  split; [apply in_or_app; right; left; reflexivity|exact Hu].
Qed.

Lemma find_exit_first exits u e :
  find_exit exits u = Some e ->
  exists pre post, exits = pre ++ e :: post /\ e_uuid e = u /\ Forall (fun e' => e_uuid e' <> u) pre.
Proof.
  induction exits as [|e0 rest IH]; cbn [find_exit]; [discriminate|].
  destruct (N.eqb (e_uuid e0) u) eqn:E.
  - intros H; inversion H; subst. exists [], rest. repeat split; [apply N.eqb_eq; exact E|constructor].
  - intros H. destruct (IH H) as (pre & post & -> & Hu & Hpre).
    exists (e0 :: pre), post. repeat split; [exact Hu|].
    constructor; [apply N.eqb_neq; exact E|exact Hpre].
Qed.

Lemma find_exit_In exits u e : find_exit exits u = Some e -> In e exits /\ e_uuid e = u.
Proof.
  intros H. destruct (find_exit_first _ _ _ H) as (pre & post & -> & Hu & _).
  split; [apply in_or_app; right; left; reflexivity|exact Hu].
Qed.

(* ---- the random index: floor (r * n) for the draw r = mant / 10^scale ---------------------------------- *)

Lemma pow10_pos k : 0 < 10 ^ k.
Proof. apply N.neq_0_lt_0. apply N.pow_nonzero. discriminate. Qed.

Lemma random_index_floor d n :
  let idx := random_index d n in
  idx * 10 ^ d_scale d <= d_mant d * n < (idx + 1) * 10 ^ d_scale d.
Proof.
  cbn zeta. unfold random_index.
  pose proof (pow10_pos (d_scale d)) as Hp.
  generalize dependent (10 ^ d_scale d). generalize (d_mant d * n). intros a p Hp.
  pose proof (N.div_mod a p ltac:(lia)) as Hdm.
  pose proof (N.mod_lt a p ltac:(lia)) as Hlt.
  rewrite N.mul_add_distr_r, N.mul_1_l, (N.mul_comm (a / p) p).
  generalize dependent (p * (a / p)). generalize dependent (a mod p). intros. lia.
Qed.

Lemma random_index_lt d n :
  d_mant d < 10 ^ d_scale d -> 0 < n -> random_index d n < n.
Proof.
  intros Hr Hn. unfold random_index.
  pose proof (pow10_pos (d_scale d)) as Hp.
  apply N.div_lt_upper_bound; [lia|]. nia.
Qed.

(* the same index as the floor of the rational r * n *)
Definition draw_Q (d : draw) : Q := Z.of_N (d_mant d) # Z.to_pos (Z.of_N (10 ^ d_scale d)).

Lemma random_index_Qfloor d n :
  Qfloor (draw_Q d * inject_Z (Z.of_N n)) = Z.of_N (random_index d n).
Proof.
  unfold draw_Q, random_index, Qfloor, Qmult, inject_Z. cbn [Qnum Qden].
  rewrite Pos.mul_1_r.
  pose proof (pow10_pos (d_scale d)) as Hp.
  rewrite Z2Pos.id by lia.
  rewrite N2Z.inj_div, N2Z.inj_mul. reflexivity.
Qed.

(* ---- RouteTimeout's scan of the run's events keeps the FIRST wait_timed_out time ------------------------------- *)

Lemma scan_timeouts_first times : scan_timeouts times = hd zero_time_text times.
Proof.
  unfold scan_timeouts. destruct times as [|t rest]; [reflexivity|].
  cbn [rev hd]. rewrite fold_left_app. reflexivity.
Qed.

(* ---- fmt.Sprintf("%d", n): N_to_text n is a decimal numeral of n ------------------------------------------------ *)

(* the number a list of ASCII digits denotes (most significant first), continuing from a *)
Fixpoint digits_value (a : N) (t : text) : N :=
  match t with
  | [] => a
  | c :: rest => digits_value (10 * a + (c - 48)) rest
  end.

Definition is_digit (c : N) : Prop := 48 <= c <= 57.

Lemma digits_value_shift a t : digits_value a t = a * 10 ^ N.of_nat (length t) + digits_value 0 t.
Proof.
  revert a. induction t as [|c rest IH]; intros a.
  - cbn [digits_value length N.of_nat]. rewrite N.pow_0_r. lia.
  - cbn [digits_value length]. rewrite (IH (10 * a + (c - 48))), (IH (10 * 0 + (c - 48))).
    rewrite Nat2N.inj_succ, N.pow_succ_r'. lia.
Qed.

Lemma digits_fuel_value fuel : forall n acc,
  n < 2 ^ N.of_nat fuel ->
  digits_value 0 (digits_fuel fuel n acc) = n * 10 ^ N.of_nat (length acc) + digits_value 0 acc.
Proof.
  induction fuel as [|f IH]; intros n acc Hn.
  - cbn [N.of_nat] in Hn. rewrite N.pow_0_r in Hn. assert (n = 0) by lia. subst n. cbn [digits_fuel]. lia.
  - cbn [digits_fuel].
    pose proof (N.div_mod n 10 ltac:(lia)) as Hdm. pose proof (N.mod_lt n 10 ltac:(lia)) as Hlt.
    assert (Hq : n / 10 < 2 ^ N.of_nat f).
    { rewrite Nat2N.inj_succ, N.pow_succ_r' in Hn. apply N.div_lt_upper_bound; lia. }
    remember (n mod 10) as dg eqn:Hdg. remember (n / 10) as q eqn:Hqq.
    destruct (N.eqb q 0) eqn:E.
    + apply N.eqb_eq in E. cbn [digits_value]. rewrite digits_value_shift.
      replace (10 * 0 + (48 + dg - 48)) with n by lia. reflexivity.
    + rewrite (IH q _ Hq).
      cbn [length digits_value]. rewrite (digits_value_shift (10 * 0 + (48 + dg - 48)) acc).
      rewrite Nat2N.inj_succ, N.pow_succ_r'.
      replace (10 * 0 + (48 + dg - 48)) with dg by lia.
      rewrite Hdm. ring.
Qed.

Lemma digits_fuel_digits fuel : forall n acc, Forall is_digit acc -> Forall is_digit (digits_fuel fuel n acc).
Proof.
  induction fuel as [|f IH]; intros n acc Hacc; cbn [digits_fuel]; [exact Hacc|].
  pose proof (N.mod_lt n 10 ltac:(lia)) as Hlt.
  assert (Hd : Forall is_digit ((48 + n mod 10) :: acc)).
  { constructor; [|exact Hacc]. unfold is_digit. generalize dependent (n mod 10). intros dg Hdg. lia. }
  destruct (N.eqb (n / 10) 0); [exact Hd|apply IH; exact Hd].
Qed.

(* no leading zero: the first digit of a non-zero number is not '0' *)
Lemma digits_fuel_head fuel : forall n acc,
  n < 2 ^ N.of_nat fuel -> n <> 0 -> hd 48 (digits_fuel fuel n acc) <> 48.
Proof.
  induction fuel as [|f IH]; intros n acc Hn Hnz.
  - cbn [N.of_nat] in Hn. rewrite N.pow_0_r in Hn. lia.
  - cbn [digits_fuel].
    pose proof (N.div_mod n 10 ltac:(lia)) as Hdm. pose proof (N.mod_lt n 10 ltac:(lia)) as Hlt.
    assert (Hq : n / 10 < 2 ^ N.of_nat f).
    { rewrite Nat2N.inj_succ, N.pow_succ_r' in Hn. apply N.div_lt_upper_bound; lia. }
    remember (n mod 10) as dg eqn:Hdg. remember (n / 10) as q eqn:Hqq.
    destruct (N.eqb q 0) eqn:E.
    + apply N.eqb_eq in E. cbn [hd]. lia.
    + apply N.eqb_neq in E. apply IH; assumption.
Qed.

(* N_to_text n consists of ASCII digits, denotes n, and has no leading zero ("0" for zero) *)
Lemma N_to_text_spec n :
  Forall is_digit (N_to_text n) /\ digits_value 0 (N_to_text n) = n
  /\ (n = 0 -> N_to_text n = [48]) /\ (n <> 0 -> hd 48 (N_to_text n) <> 48).
Proof.
  assert (Hfuel : n < 2 ^ N.of_nat (S (N.to_nat (N.log2 n)))).
  { rewrite Nat2N.inj_succ, N2Nat.id. destruct (N.eq_dec n 0) as [->|Hnz]; [reflexivity|].
    apply N.log2_spec. lia. }
  unfold N_to_text. split; [apply digits_fuel_digits; constructor|].
  split; [|split; [intros ->; reflexivity | intros Hnz; apply digits_fuel_head; assumption]].
  rewrite digits_fuel_value.
  - cbn [length N.of_nat digits_value]. rewrite N.pow_0_r. lia.
  - rewrite Nat2N.inj_succ, N2Nat.id. destruct (N.eq_dec n 0) as [->|Hnz]; [reflexivity|].
    apply N.log2_spec. lia.
Qed.

Example N_to_text_examples :
  N_to_text 0 = [48] /\ N_to_text 9 = [57] /\ N_to_text 10 = [49; 48] /\ N_to_text 205 = [50; 48; 53]
  /\ N_to_text 1234567890123 = [49;50;51;52;53;54;55;56;57;48;49;50;51].
Proof. repeat split; reflexivity. Qed.

(* Decimal.String(): 0.7, 0.05 (trailing zero dropped), 0, 12 (from 12.00), 0.3125, 1.5 *)
Example draw_text_examples :
  draw_text {| d_mant := 7; d_scale := 1 |} = [48; 46; 55]
  /\ draw_text {| d_mant := 50; d_scale := 3 |} = [48; 46; 48; 53]
  /\ draw_text {| d_mant := 0; d_scale := 0 |} = [48]
  /\ draw_text {| d_mant := 1200; d_scale := 2 |} = [49; 50]
  /\ draw_text {| d_mant := 3125; d_scale := 4 |} = [48; 46; 51; 49; 50; 53]
  /\ draw_text {| d_mant := 15; d_scale := 1 |} = [49; 46; 53].
Proof. repeat split; reflexivity. Qed.

Section Proofs.

Variable value : Type.
Variable eval_tpl : text -> value * (bool * nat).
Variable to_xtext : value -> option text.
Variable registered : test_id -> bool.
Variable test : test_id -> value -> list value -> test_result value.
Variable lc : lctx.
Variable max_result_chars : nat.
Variable max_template_chars : nat.

Notation eval_args' := (eval_args value eval_tpl).
Notation match_case' := (match_case value eval_tpl to_xtext registered test lc).
Notation route_via' := (route_via lc max_result_chars max_template_chars).
Notation route_to_category' := (route_to_category lc max_result_chars max_template_chars).
Notation route_switch' := (route_switch value eval_tpl to_xtext registered test lc max_result_chars max_template_chars).
Notation route_timeout' := (route_timeout lc max_result_chars max_template_chars).
Notation route_random' := (route_random lc max_result_chars max_template_chars).
Notation route' := (route value eval_tpl to_xtext registered test lc max_result_chars max_template_chars).
Notation pick_node_exit' := (pick_node_exit value eval_tpl to_xtext registered test lc max_result_chars max_template_chars).
Notation visit' := (visit value eval_tpl to_xtext registered test lc max_result_chars max_template_chars).

(* ---- vocabulary of the statement ------------------------------------------------------------------------ *)

(* "its localized and evaluated arguments": the localized arguments (C18, model/Lang.v), each evaluated *)
Definition case_args (c : case_def) : list value := map (fun t => fst (eval_tpl t)) (localized_args lc c).

(* events the evaluation of those arguments logs *)
Definition arg_events (c : case_def) : list event :=
  flat_map (fun t => tpl_events (snd (eval_tpl t))) (localized_args lc c).

(* the test of a case applied to "the evaluated operand with its localized and evaluated arguments" *)
Definition case_result (operand : value) (c : case_def) : test_result value :=
  test (k_test c) operand (case_args c).

(* "whose test matches" *)
Definition matches (operand : value) (c : case_def) (m : option value) (x : extra_v) : Prop :=
  registered (k_test c) = true /\ case_result operand c = TObject true m x.

(* a case that is passed over: its (registered) test returns an error or a result that is not truthy *)
Definition passed_over (operand : value) (c : case_def) : Prop :=
  registered (k_test c) = true
  /\ (case_result operand c = TError \/ exists m x, case_result operand c = TObject false m x).

(* what a passed-over case leaves behind: the events of its argument evaluation, and an error event if it errored *)
Definition skip_events (operand : value) (c : case_def) : list event :=
  arg_events c ++ match case_result operand c with TError => [EvTestError (k_test c)] | _ => [] end.

Definition extra_events (c : case_def) (x : extra_v) : list event :=
  match x with ExOther => [EvNonObjectExtra (k_test c)] | _ => [] end.

Definition named (b : base_router) : bool := match b_result_name b with [] => false | _ => true end.

(* the result a router saves for category c *)
Definition result_for (b : base_router) (c : category) (value_ input : text) (extra : option text) : result :=
  {| r_name := b_result_name b; r_value := truncate max_result_chars value_; r_category := c_name c;
     r_category_localized := category_localized (lc_contact lc) (lc_allowed lc) (lc_base lc) (c_tr_name c);
     r_input := truncate_ellipsis max_template_chars input; r_extra := bound_extra extra |}.

(* the outcome "left through category c" *)
Definition through (b : base_router) (prev : option result) (c : category) (value_ input : text)
           (extra : option text) (evs : list event) : route_out :=
  let r := result_for b c value_ input extra in
  {| ro_res := RExit (c_exit c) input;
     ro_saved := if named b then Some r else None;
     ro_events := evs ++ (if named b && result_changed prev r then [EvResultChanged r] else []) |}.

(* ---- routeToCategory -------------------------------------------------------------------------------------- *)

(* routeVia is "leaving through the category" *)
Lemma route_via_through b prev c mtch operand extra evs :
  route_via' b prev c mtch operand extra evs = through b prev c mtch operand extra evs.
Proof.
  unfold route_via, through, result_for, named.
  destruct (b_result_name b) as [|ch name]; cbn [andb].
  - rewrite app_nil_r. reflexivity.
  - reflexivity.
Qed.

Lemma route_to_category_found b prev cat mtch operand extra evs c :
  cat <> no_uuid -> find_category (b_categories b) cat = Some c ->
  route_to_category' b prev cat mtch operand extra evs = through b prev c mtch operand extra evs.
Proof.
  intros Hne Hf. unfold route_to_category.
  apply N.eqb_neq in Hne. rewrite Hne, Hf. apply route_via_through.
Qed.

Lemma route_to_category_none b prev mtch operand extra evs :
  route_to_category' b prev no_uuid mtch operand extra evs
  = {| ro_res := RExit no_uuid operand; ro_saved := None; ro_events := evs |}.
Proof. reflexivity. Qed.

Lemma route_to_category_unknown b prev cat mtch operand extra evs :
  cat <> no_uuid -> find_category (b_categories b) cat = None ->
  route_to_category' b prev cat mtch operand extra evs
  = {| ro_res := RError; ro_saved := None; ro_events := evs |}.
Proof.
  intros Hne Hf. unfold route_to_category. apply N.eqb_neq in Hne. rewrite Hne, Hf. reflexivity.
Qed.

(* ---- matchCase ---------------------------------------------------------------------------------------------- *)

Lemma eval_args_spec ts :
  eval_args' ts = (map (fun t => fst (eval_tpl t)) ts, flat_map (fun t => tpl_events (snd (eval_tpl t))) ts).
Proof.
  induction ts as [|t rest IH]; cbn [eval_args map flat_map]; [reflexivity|].
  destruct (eval_tpl t) as [v e]. rewrite IH. reflexivity.
Qed.

Lemma match_case_cons_skip operand c rest :
  passed_over operand c ->
  match_case' operand (c :: rest)
  = (skip_events operand c ++ fst (match_case' operand rest), snd (match_case' operand rest)).
Proof.
  intros [Hreg Hres]. cbn [match_case]. rewrite Hreg. cbn [negb].
  rewrite eval_args_spec. unfold skip_events.
  fold (case_args c). fold (arg_events c). fold (case_result operand c).
  destruct (match_case' operand rest) as [evs' r]. cbn [fst snd].
  destruct Hres as [He | (m & x & He)]; rewrite He.
  - rewrite <- app_assoc. reflexivity.
  - rewrite app_nil_r. reflexivity.
Qed.

Lemma match_case_skip operand pre rest :
  Forall (passed_over operand) pre ->
  match_case' operand (pre ++ rest)
  = (flat_map (skip_events operand) pre ++ fst (match_case' operand rest), snd (match_case' operand rest)).
Proof.
  induction 1 as [|c pre Hc Hpre IH]; cbn [app flat_map].
  - destruct (match_case' operand rest); reflexivity.
  - rewrite (match_case_cons_skip _ _ _ Hc), IH. cbn [fst snd]. rewrite <- app_assoc. reflexivity.
Qed.

Lemma match_case_all_skipped operand cs :
  Forall (passed_over operand) cs ->
  match_case' operand cs = (flat_map (skip_events operand) cs, MNone).
Proof.
  intros H. rewrite <- (app_nil_r cs) at 1. rewrite (match_case_skip _ _ _ H).
  cbn [match_case fst snd]. rewrite app_nil_r. reflexivity.
Qed.

(* the first case that is not passed over decides *)
Lemma match_case_hit operand c rest m x :
  matches operand c m x ->
  match_case' operand (c :: rest)
  = (arg_events c ++ extra_events c x,
     match opt_to_xtext value to_xtext m with
     | None => MError
     | Some t => MFound t (k_cat c) (extra_json x)
     end).
Proof.
  intros [Hreg Hres]. cbn [match_case]. rewrite Hreg. cbn [negb].
  rewrite eval_args_spec. fold (case_args c). fold (arg_events c). fold (case_result operand c).
  rewrite Hres. unfold extra_events.
  destruct (opt_to_xtext value to_xtext m); reflexivity.
Qed.

Lemma match_case_unregistered operand c rest :
  registered (k_test c) = false -> match_case' operand (c :: rest) = ([], MError).
Proof. intros H. cbn [match_case]. rewrite H. reflexivity. Qed.

Lemma match_case_other operand c rest :
  registered (k_test c) = true -> case_result operand c = TOther ->
  match_case' operand (c :: rest) = (arg_events c, MPanic).
Proof.
  intros Hreg Hres. cbn [match_case]. rewrite Hreg. cbn [negb].
  rewrite eval_args_spec. fold (case_args c). fold (arg_events c). fold (case_result operand c).
  rewrite Hres. reflexivity.
Qed.

(* every case list decomposes: all cases are passed over, or there is a first case that is not *)
Lemma cases_exhaustive operand cs :
  Forall (passed_over operand) cs
  \/ exists pre c post, cs = pre ++ c :: post /\ Forall (passed_over operand) pre
       /\ (registered (k_test c) = false
           \/ (registered (k_test c) = true /\ case_result operand c = TOther)
           \/ exists m x, matches operand c m x).
Proof.
  induction cs as [|c rest IH]; [left; constructor|].
  destruct (registered (k_test c)) eqn:Hreg.
  - destruct (case_result operand c) as [|[|] m x|] eqn:Hres.
    + destruct IH as [IH | (pre & c' & post & -> & Hpre & Hc')].
      * left. constructor; [split; [exact Hreg|left; exact Hres]|exact IH].
      * right. exists (c :: pre), c', post. repeat split; [|exact Hc'].
        constructor; [split; [exact Hreg|left; exact Hres]|exact Hpre].
    + right. exists [], c, rest. repeat split; [constructor|].
      right; right. exists m, x. split; assumption.
    + destruct IH as [IH | (pre & c' & post & -> & Hpre & Hc')].
      * left. constructor; [split; [exact Hreg|right; exists m, x; exact Hres]|exact IH].
      * right. exists (c :: pre), c', post. repeat split; [|exact Hc'].
        constructor; [split; [exact Hreg|right; exists m, x; exact Hres]|exact Hpre].
    + right. exists [], c, rest. repeat split; [constructor|]. right; left. split; assumption.
  - right. exists [], c, rest. repeat split; [constructor|]. left; exact Hreg.
Qed.

(* ---- SwitchRouter.Route --------------------------------------------------------------------------------------- *)

Definition operand_of (operand_tpl : text) : value := fst (eval_tpl operand_tpl).
Definition operand_events (operand_tpl : text) : list event := tpl_events (snd (eval_tpl operand_tpl)).
Definition operand_text (operand_tpl : text) : text := text_or_empty (to_xtext (operand_of operand_tpl)).

(* "the first case, in definition order, whose test matches": cases = pre ++ c :: post, every case of pre is passed
   over, c matches.  The router then leaves through the category of c. *)
Theorem route_switch_first_match b operand_tpl cases default prev pre c post m x mt cat :
  cases = pre ++ c :: post ->
  Forall (passed_over (operand_of operand_tpl)) pre ->
  matches (operand_of operand_tpl) c m x ->
  opt_to_xtext value to_xtext m = Some mt ->
  k_cat c <> no_uuid ->
  find_category (b_categories b) (k_cat c) = Some cat ->
  route_switch' b operand_tpl cases default prev
  = through b prev cat mt (operand_text operand_tpl) (extra_json x)
            (operand_events operand_tpl ++ flat_map (skip_events (operand_of operand_tpl)) pre
             ++ arg_events c ++ extra_events c x).
Proof.
  intros -> Hpre Hm Hmt Hne Hcat.
  unfold route_switch, operand_text, operand_events, operand_of in *.
  destruct (eval_tpl operand_tpl) as [operand e0]. cbn [fst snd] in *.
  rewrite (match_case_skip _ _ _ Hpre), (match_case_hit _ _ _ _ _ Hm), Hmt. cbn [fst snd].
  apply N.eqb_neq in Hne. rewrite Hne. cbn [andb]. apply N.eqb_neq in Hne.
  rewrite (route_to_category_found _ _ _ _ _ _ _ _ Hne Hcat).
  rewrite <- ?app_assoc. reflexivity.
Qed.

(* "otherwise by the default category's exit" — value: "the operand itself" *)
Theorem route_switch_default b operand_tpl cases default prev cat :
  Forall (passed_over (operand_of operand_tpl)) cases ->
  default <> no_uuid ->
  find_category (b_categories b) default = Some cat ->
  route_switch' b operand_tpl cases default prev
  = through b prev cat (operand_text operand_tpl) (operand_text operand_tpl) None
            (operand_events operand_tpl ++ flat_map (skip_events (operand_of operand_tpl)) cases
             ++ match to_xtext (operand_of operand_tpl) with None => [EvOperandTextError] | Some _ => [] end).
Proof.
  intros Hall Hne Hcat.
  unfold route_switch, operand_text, operand_events, operand_of in *.
  destruct (eval_tpl operand_tpl) as [operand e0]. cbn [fst snd] in *.
  rewrite (match_case_all_skipped _ _ Hall).
  rewrite N.eqb_refl. apply N.eqb_neq in Hne. rewrite Hne. cbn [andb negb]. apply N.eqb_neq in Hne.
  rewrite (route_to_category_found _ _ _ _ _ _ _ _ Hne Hcat).
  rewrite <- ?app_assoc. reflexivity.
Qed.

(* no case matches and there is no default: no category, nothing saved *)
Theorem route_switch_no_category b operand_tpl cases prev :
  Forall (passed_over (operand_of operand_tpl)) cases ->
  route_switch' b operand_tpl cases no_uuid prev
  = {| ro_res := RExit no_uuid (operand_text operand_tpl); ro_saved := None;
       ro_events := operand_events operand_tpl ++ flat_map (skip_events (operand_of operand_tpl)) cases |}.
Proof.
  intros Hall.
  unfold route_switch, operand_text, operand_events, operand_of in *.
  destruct (eval_tpl operand_tpl) as [operand e0]. cbn [fst snd] in *.
  rewrite (match_case_all_skipped _ _ Hall).
  rewrite N.eqb_refl. cbn [andb negb]. reflexivity.
Qed.

(* the branches in which the router does not answer at all *)
Theorem route_switch_errors b operand_tpl cases default prev pre c post :
  cases = pre ++ c :: post ->
  Forall (passed_over (operand_of operand_tpl)) pre ->
  let evs := operand_events operand_tpl ++ flat_map (skip_events (operand_of operand_tpl)) pre in
  (* the test is not registered: Go error *)
  (registered (k_test c) = false ->
     route_switch' b operand_tpl cases default prev = {| ro_res := RError; ro_saved := None; ro_events := evs |})
  (* the test returns neither an error nor an object: panic *)
  /\ (registered (k_test c) = true -> case_result (operand_of operand_tpl) c = TOther ->
     route_switch' b operand_tpl cases default prev
     = {| ro_res := RPanic; ro_saved := None; ro_events := evs ++ arg_events c |})
  (* the match cannot be converted to text: Go error *)
  /\ (forall m x, matches (operand_of operand_tpl) c m x -> opt_to_xtext value to_xtext m = None ->
     route_switch' b operand_tpl cases default prev
     = {| ro_res := RError; ro_saved := None; ro_events := evs ++ arg_events c ++ extra_events c x |})
  (* the case's category does not exist: Go error *)
  /\ (forall m x mt, matches (operand_of operand_tpl) c m x -> opt_to_xtext value to_xtext m = Some mt ->
     k_cat c <> no_uuid -> find_category (b_categories b) (k_cat c) = None ->
     route_switch' b operand_tpl cases default prev
     = {| ro_res := RError; ro_saved := None; ro_events := evs ++ arg_events c ++ extra_events c x |}).
Proof.
  intros -> Hpre evs. subst evs.
  unfold route_switch, operand_text, operand_events, operand_of in *.
  destruct (eval_tpl operand_tpl) as [operand e0]. cbn [fst snd] in *.
  rewrite (match_case_skip _ _ _ Hpre).
  repeat split.
  - intros Hreg. rewrite (match_case_unregistered _ _ _ Hreg). cbn [fst snd].
    rewrite app_nil_r. reflexivity.
  - intros Hreg Hres. rewrite (match_case_other _ _ _ Hreg Hres). cbn [fst snd].
    rewrite <- ?app_assoc. reflexivity.
  - intros m x Hm Hmt. rewrite (match_case_hit _ _ _ _ _ Hm), Hmt. cbn [fst snd].
    rewrite <- ?app_assoc. reflexivity.
  - intros m x mt Hm Hmt Hne Hcat. rewrite (match_case_hit _ _ _ _ _ Hm), Hmt. cbn [fst snd].
    apply N.eqb_neq in Hne. rewrite Hne. cbn [andb]. apply N.eqb_neq in Hne.
    rewrite (route_to_category_unknown _ _ _ _ _ _ _ Hne Hcat).
    rewrite <- ?app_assoc. reflexivity.
Qed.

(* a matching case without a category UUID (rejected when a definition is read: category_uuid is required) counts as
   no match for the choice of the category, but its extra survives *)
Theorem route_switch_case_without_category b operand_tpl cases default prev pre c post m x mt cat :
  cases = pre ++ c :: post ->
  Forall (passed_over (operand_of operand_tpl)) pre ->
  matches (operand_of operand_tpl) c m x ->
  opt_to_xtext value to_xtext m = Some mt ->
  k_cat c = no_uuid ->
  let evs := operand_events operand_tpl ++ flat_map (skip_events (operand_of operand_tpl)) pre
             ++ arg_events c ++ extra_events c x in
  (default = no_uuid ->
     route_switch' b operand_tpl cases default prev
     = {| ro_res := RExit no_uuid (operand_text operand_tpl); ro_saved := None; ro_events := evs |})
  /\ (default <> no_uuid -> find_category (b_categories b) default = Some cat ->
     route_switch' b operand_tpl cases default prev
     = through b prev cat (operand_text operand_tpl) (operand_text operand_tpl) (extra_json x)
               (evs ++ match to_xtext (operand_of operand_tpl) with None => [EvOperandTextError] | Some _ => [] end)).
Proof.
  intros -> Hpre Hm Hmt Hk evs. subst evs.
  unfold route_switch, operand_text, operand_events, operand_of in *.
  destruct (eval_tpl operand_tpl) as [operand e0]. cbn [fst snd] in *.
  rewrite (match_case_skip _ _ _ Hpre), (match_case_hit _ _ _ _ _ Hm), Hmt. cbn [fst snd].
  rewrite Hk, N.eqb_refl. split.
  - intros ->. rewrite N.eqb_refl. cbn [andb negb]. rewrite route_to_category_none.
    rewrite <- ?app_assoc. reflexivity.
  - intros Hne Hcat. apply N.eqb_neq in Hne. rewrite Hne. cbn [andb negb]. apply N.eqb_neq in Hne.
    rewrite (route_to_category_found _ _ _ _ _ _ _ _ Hne Hcat).
    rewrite <- ?app_assoc. reflexivity.
Qed.

(* ---- RouteTimeout ------------------------------------------------------------------------------------------------ *)

Theorem route_timeout_spec b timed_out_on prev :
  (b_timeout b = None ->
     route_timeout' b timed_out_on prev = {| ro_res := RError; ro_saved := None; ro_events := [] |})
  /\ (forall cat c, b_timeout b = Some cat -> cat <> no_uuid -> find_category (b_categories b) cat = Some c ->
     route_timeout' b timed_out_on prev = through b prev c timed_out_on [] None []).
Proof.
  unfold route_timeout. split.
  - intros ->. reflexivity.
  - intros cat c -> Hne Hcat. apply (route_to_category_found _ _ _ _ _ _ _ _ Hne Hcat).
Qed.

(* ---- RandomRouter.Route ---------------------------------------------------------------------------------------------- *)

Theorem route_random_spec b d prev :
  let n := N.of_nat (length (b_categories b)) in
  let idx := random_index d n in
  d_mant d < 10 ^ d_scale d -> 0 < n ->
  (idx * 10 ^ d_scale d <= d_mant d * n < (idx + 1) * 10 ^ d_scale d)
  /\ Qfloor (draw_Q d * inject_Z (Z.of_N n)) = Z.of_N idx
  /\ idx < n
  /\ exists c, nth_error (b_categories b) (N.to_nat idx) = Some c
       /\ route_random' b d prev = through b prev c (N_to_text idx) (draw_text d) None [].
Proof.
  intros n idx Hr Hn.
  split; [apply random_index_floor|].
  split; [apply random_index_Qfloor|].
  pose proof (random_index_lt d n Hr Hn) as Hlt. fold idx in Hlt.
  split; [exact Hlt|].
  destruct (nth_error (b_categories b) (N.to_nat idx)) as [c|] eqn:E.
  - exists c. split; [reflexivity|]. unfold route_random. fold n. fold idx. rewrite E. apply route_via_through.
  - exfalso. apply nth_error_None in E. subst n. lia.
Qed.

(* a random router without categories (rejected when a definition is read) indexes an empty slice *)
Theorem route_random_empty b d prev :
  b_categories b = [] -> ro_res (route_random' b d prev) = RPanic.
Proof. intros H. unfold route_random. rewrite H. cbn. destruct (N.to_nat _); reflexivity. Qed.

(* ---- pickNodeExit ------------------------------------------------------------------------------------------------------ *)

Definition router_out (r : router) (is_timeout : bool) (d : draw) (timed_out_on : text) (prev : option result)
  : route_out :=
  if is_timeout then route_timeout' (router_base r) timed_out_on prev else route' r d prev.

(* "a node without a router [leaves] by its first exit" *)
Theorem pick_no_router nd is_timeout d timed_out_on prev :
  n_router nd = None ->
  pick_node_exit' nd is_timeout d timed_out_on prev
  = match n_exits nd with
    | e :: _ => {| po_kind := PkLeft; po_step_exit := e_uuid e; po_exit := Some e; po_operand := [];
                   po_saved := None; po_events := [] |}
    | [] => {| po_kind := PkLeft; po_step_exit := no_uuid; po_exit := None; po_operand := [];
               po_saved := None; po_events := [] |}
    end.
Proof.
  intros H. unfold pick_node_exit. rewrite H.
  destruct (n_exits nd) as [|e rest]; cbn [find_exit]; [reflexivity|].
  rewrite N.eqb_refl. reflexivity.
Qed.

(* "a router that selects no category fails the run instead of choosing arbitrarily": the step is not left, no exit
   is handed on, a failure event is logged *)
Theorem pick_no_category_fails nd r is_timeout d timed_out_on prev operand :
  n_router nd = Some r ->
  ro_res (router_out r is_timeout d timed_out_on prev) = RExit no_uuid operand ->
  pick_node_exit' nd is_timeout d timed_out_on prev
  = {| po_kind := PkFailed; po_step_exit := no_uuid; po_exit := None; po_operand := [];
       po_saved := ro_saved (router_out r is_timeout d timed_out_on prev);
       po_events := ro_events (router_out r is_timeout d timed_out_on prev) ++ [EvFailure] |}.
Proof.
  intros Hr Hres. unfold pick_node_exit. rewrite Hr. fold (router_out r is_timeout d timed_out_on prev).
  rewrite Hres. rewrite N.eqb_refl. reflexivity.
Qed.

Theorem pick_left nd r is_timeout d timed_out_on prev u operand :
  n_router nd = Some r ->
  ro_res (router_out r is_timeout d timed_out_on prev) = RExit u operand -> u <> no_uuid ->
  pick_node_exit' nd is_timeout d timed_out_on prev
  = {| po_kind := PkLeft; po_step_exit := u; po_exit := find_exit (n_exits nd) u;
       po_operand := match find_exit (n_exits nd) u with
                     | Some _ => if is_timeout then [] else operand
                     | None => []
                     end;
       po_saved := ro_saved (router_out r is_timeout d timed_out_on prev);
       po_events := ro_events (router_out r is_timeout d timed_out_on prev) |}.
Proof.
  intros Hr Hres Hne. unfold pick_node_exit. rewrite Hr. fold (router_out r is_timeout d timed_out_on prev).
  rewrite Hres. apply N.eqb_neq in Hne. rewrite Hne.
  destruct (find_exit (n_exits nd) u); reflexivity.
Qed.

Theorem pick_error_panic nd r is_timeout d timed_out_on prev :
  n_router nd = Some r ->
  (ro_res (router_out r is_timeout d timed_out_on prev) = RError ->
     po_kind (pick_node_exit' nd is_timeout d timed_out_on prev) = PkError
     /\ po_step_exit (pick_node_exit' nd is_timeout d timed_out_on prev) = no_uuid
     /\ po_exit (pick_node_exit' nd is_timeout d timed_out_on prev) = None)
  /\ (ro_res (router_out r is_timeout d timed_out_on prev) = RPanic ->
     po_kind (pick_node_exit' nd is_timeout d timed_out_on prev) = PkPanic).
Proof.
  intros Hr. unfold pick_node_exit. rewrite Hr. fold (router_out r is_timeout d timed_out_on prev).
  split; intros ->; repeat split; reflexivity.
Qed.

(* the switch router with no matching case and no default, seen from the engine *)
Corollary switch_without_category_fails nd b operand_tpl cases d timed_out_on prev :
  n_router nd = Some (Switch b operand_tpl cases no_uuid) ->
  Forall (passed_over (operand_of operand_tpl)) cases ->
  pick_node_exit' nd false d timed_out_on prev
  = {| po_kind := PkFailed; po_step_exit := no_uuid; po_exit := None; po_operand := []; po_saved := None;
       po_events := operand_events operand_tpl ++ flat_map (skip_events (operand_of operand_tpl)) cases
                    ++ [EvFailure] |}.
Proof.
  intros Hr Hall.
  rewrite (pick_no_category_fails nd _ false d timed_out_on prev (operand_text operand_tpl) Hr).
  - unfold router_out. cbn [route]. rewrite (route_switch_no_category _ _ _ _ Hall). cbn [ro_saved ro_events].
    rewrite <- app_assoc. reflexivity.
  - unfold router_out. cbn [route]. rewrite (route_switch_no_category _ _ _ _ Hall). reflexivity.
Qed.

(* and what visit makes of it: run failed, no exit in the path, no segment *)
Corollary visit_without_category_fails site flow_nodes nd r is_timeout d timed_out_on prev operand :
  n_router nd = Some r ->
  ro_res (router_out r is_timeout d timed_out_on prev) = RExit no_uuid operand ->
  let v := visit' site flow_nodes nd is_timeout d timed_out_on prev in
  vo_outcome v = NRunFailed /\ vo_step_exit v = no_uuid /\ vo_segment v = None
  /\ vo_events v = ro_events (router_out r is_timeout d timed_out_on prev) ++ [EvFailure].
Proof.
  intros Hr Hres v. subst v. unfold visit.
  rewrite (pick_no_category_fails nd r is_timeout d timed_out_on prev operand Hr Hres).
  cbn. repeat split; reflexivity.
Qed.

(* ---- consistency: exit in the path = exit in the segment = exit of the saved category ------------------------------------ *)

(* whatever a router saves names one of its categories, and the exit it answers is that category's *)
Lemma route_via_saved b prev c mtch operand extra evs r :
  ro_saved (route_via' b prev c mtch operand extra evs) = Some r ->
  r = result_for b c mtch operand extra
  /\ ro_res (route_via' b prev c mtch operand extra evs) = RExit (c_exit c) operand.
Proof.
  rewrite route_via_through. unfold through. destruct (named b); cbn [ro_saved ro_res]; [|discriminate].
  intros H; inversion H. split; reflexivity.
Qed.

Lemma route_to_category_saved b prev cat mtch operand extra evs r :
  ro_saved (route_to_category' b prev cat mtch operand extra evs) = Some r ->
  exists c, find_category (b_categories b) cat = Some c /\ cat <> no_uuid
    /\ r = result_for b c mtch operand extra
    /\ ro_res (route_to_category' b prev cat mtch operand extra evs) = RExit (c_exit c) operand.
Proof.
  unfold route_to_category. destruct (N.eqb cat no_uuid) eqn:E; [discriminate|].
  destruct (find_category (b_categories b) cat) as [c|] eqn:Hf; [|discriminate].
  intros H. destruct (route_via_saved _ _ _ _ _ _ _ _ H) as [Hr Hres]. exists c.
  split; [reflexivity|]. split; [apply N.eqb_neq; exact E|]. split; assumption.
Qed.

Lemma route_switch_saved b operand_tpl cases default prev r :
  ro_saved (route_switch' b operand_tpl cases default prev) = Some r ->
  exists c u, In c (b_categories b) /\ c_uuid c = u /\ u <> no_uuid
    /\ r_name r = b_result_name b /\ r_category r = c_name c
    /\ r_category_localized r = category_localized (lc_contact lc) (lc_allowed lc) (lc_base lc) (c_tr_name c)
    /\ r_input r = truncate_ellipsis max_template_chars (operand_text operand_tpl)
    /\ ro_res (route_switch' b operand_tpl cases default prev) = RExit (c_exit c) (operand_text operand_tpl).
Proof.
  unfold route_switch, operand_text, operand_of.
  destruct (eval_tpl operand_tpl) as [operand e0]. cbn [fst].
  destruct (match_case' operand cases) as [evs1 m].
  assert (Hgen : forall cat mtch extra evs,
             ro_saved (route_to_category' b prev cat mtch (text_or_empty (to_xtext operand)) extra evs) = Some r ->
             exists c u, In c (b_categories b) /\ c_uuid c = u /\ u <> no_uuid
               /\ r_name r = b_result_name b /\ r_category r = c_name c
               /\ r_category_localized r
                  = category_localized (lc_contact lc) (lc_allowed lc) (lc_base lc) (c_tr_name c)
               /\ r_input r = truncate_ellipsis max_template_chars (text_or_empty (to_xtext operand))
               /\ ro_res (route_to_category' b prev cat mtch (text_or_empty (to_xtext operand)) extra evs)
                  = RExit (c_exit c) (text_or_empty (to_xtext operand))).
  { intros cat mtch extra evs H.
    destruct (route_to_category_saved _ _ _ _ _ _ _ _ H) as (c & Hf & Hne & -> & Hres).
    destruct (find_category_In _ _ _ Hf) as [Hin Hu].
    exists c, cat. repeat split; try assumption; reflexivity. }
  destruct m as [| | |t c0 x]; cbn [ro_saved]; try discriminate.
  - destruct (N.eqb no_uuid no_uuid && negb (N.eqb default no_uuid)); apply Hgen.
  - destruct (N.eqb c0 no_uuid && negb (N.eqb default no_uuid)); apply Hgen.
Qed.

Theorem pick_consistency flow_nodes nd is_timeout d timed_out_on prev :
  let p := pick_node_exit' nd is_timeout d timed_out_on prev in
  po_kind p = PkLeft ->
  (* the segment, when one is logged, carries the exit of the path, that exit's destination, and the operand *)
  (forall ex op dest, segment_of flow_nodes p = Some (ex, op, dest) ->
     ex = po_step_exit p /\ op = po_operand p /\ dest <> no_uuid /\ In dest flow_nodes
     /\ exists e, po_exit p = Some e /\ In e (n_exits nd) /\ e_uuid e = ex /\ e_dest e = dest)
  (* a router never leaves by the empty exit *)
  /\ (forall r, n_router nd = Some r -> po_step_exit p <> no_uuid)
  (* the saved result names a category of the router whose exit is the exit of the path *)
  /\ (forall res, po_saved p = Some res ->
      exists r c, n_router nd = Some r /\ In c (b_categories (router_base r))
        /\ r_category res = c_name c /\ c_exit c = po_step_exit p
        /\ r_name res = b_result_name (router_base r)
        /\ r_category_localized res
           = category_localized (lc_contact lc) (lc_allowed lc) (lc_base lc) (c_tr_name c)).
Proof.
  cbn zeta. intros Hk.
  assert (Hseg : forall p0 : pick_out,
             (forall e, po_exit p0 = Some e -> In e (n_exits nd) /\ e_uuid e = po_step_exit p0) ->
             forall ex op dest, segment_of flow_nodes p0 = Some (ex, op, dest) ->
             ex = po_step_exit p0 /\ op = po_operand p0 /\ dest <> no_uuid /\ In dest flow_nodes
             /\ exists e, po_exit p0 = Some e /\ In e (n_exits nd) /\ e_uuid e = ex /\ e_dest e = dest).
  { intros p0 Hex ex op dest. unfold segment_of.
    destruct (po_exit p0) as [e|] eqn:He; [|discriminate].
    destruct (negb (N.eqb (e_dest e) no_uuid) && existsb (N.eqb (e_dest e)) flow_nodes) eqn:Hc; [|discriminate].
    intros H; inversion H; subst. apply andb_prop in Hc. destruct Hc as [Hc1 Hc2].
    destruct (Hex e eq_refl) as [Hin Hu].
    repeat split.
    - exact Hu.
    - apply negb_true_iff in Hc1. apply N.eqb_neq. exact Hc1.
    - apply existsb_exists in Hc2. destruct Hc2 as (n0 & Hin0 & Hn0). apply N.eqb_eq in Hn0. subst. exact Hin0.
    - exists e. repeat split; exact Hin. }
  destruct (n_router nd) as [r|] eqn:Hr.
  - set (out := router_out r is_timeout d timed_out_on prev) in *.
    destruct (ro_res out) as [| |u operand] eqn:Hres.
    + exfalso. destruct (pick_error_panic nd r is_timeout d timed_out_on prev Hr) as [H _].
      fold out in H. destruct (H Hres) as [H1 _]. rewrite H1 in Hk. discriminate.
    + exfalso. destruct (pick_error_panic nd r is_timeout d timed_out_on prev Hr) as [_ H].
      fold out in H. rewrite (H Hres) in Hk. discriminate.
    + destruct (N.eq_dec u no_uuid) as [->|Hne].
      * exfalso. rewrite (pick_no_category_fails nd r is_timeout d timed_out_on prev operand Hr Hres) in Hk.
        discriminate.
      * rewrite (pick_left nd r is_timeout d timed_out_on prev u operand Hr Hres Hne) in *.
        cbn [po_step_exit po_saved po_exit po_operand].
        split; [|split].
        -- apply Hseg. cbn [po_exit po_step_exit]. intros e He. apply find_exit_In. exact He.
        -- intros r0 _. exact Hne.
        -- intros res Hs. exists r. fold out in Hs.
           assert (Hcat : exists c, In c (b_categories (router_base r)) /\ r_category res = c_name c
                             /\ c_exit c = u /\ r_name res = b_result_name (router_base r)
                             /\ r_category_localized res
                                = category_localized (lc_contact lc) (lc_allowed lc) (lc_base lc) (c_tr_name c)).
           { subst out. unfold router_out in Hs, Hres. destruct is_timeout.
             - unfold route_timeout in Hs, Hres. destruct (b_timeout (router_base r)) as [cat|]; [|discriminate].
               destruct (route_to_category_saved _ _ _ _ _ _ _ _ Hs) as (c & Hf & _ & -> & Hres').
               rewrite Hres' in Hres. inversion Hres; subst.
               exists c. destruct (find_category_In _ _ _ Hf) as [Hin _]. repeat split; assumption.
             - destruct r as [b operand_tpl cases default | b]; cbn [route router_base] in *.
               + destruct (route_switch_saved _ _ _ _ _ _ Hs) as (c & u0 & Hin & _ & _ & Hn & Hc & Hl & _ & Hres').
                 rewrite Hres' in Hres. inversion Hres; subst. exists c. repeat split; assumption.
               + unfold route_random in Hs, Hres.
                 destruct (nth_error (b_categories b) _) as [c0|] eqn:Hnth; [|discriminate].
                 destruct (route_via_saved _ _ _ _ _ _ _ _ Hs) as (-> & Hres').
                 rewrite Hres' in Hres. inversion Hres; subst.
                 exists c0. apply nth_error_In in Hnth. repeat split; assumption. }
           destruct Hcat as (c & H1 & H2 & H3 & H4 & H5). exists c. repeat split; assumption.
  - rewrite (pick_no_router nd is_timeout d timed_out_on prev Hr) in *.
    destruct (n_exits nd) as [|e rest] eqn:Hex; cbn [po_step_exit po_saved po_exit po_operand] in *.
    + split; [|split].
      * intros ex op dest H. cbn in H. discriminate.
      * intros r H; discriminate.
      * intros res H; discriminate.
    + split; [|split].
      * apply Hseg. cbn [po_exit po_step_exit]. intros e0 He0. inversion He0; subst.
        split; [left; reflexivity|reflexivity].
      * intros r H; discriminate.
      * intros res H; discriminate.
Qed.

(* ======================================================================================================== *)
(* The statements of C07 (props/C07.v), sentence by sentence.                                                  *)
(* ======================================================================================================== *)

(* "the category" a UUID denotes: the first category of the router, in definition order, that carries it (category
   UUIDs are not checked for uniqueness when a definition is read) *)
Definition category_with (b : base_router) (u : uuid) (c : category) : Prop :=
  u <> no_uuid
  /\ exists pre post, b_categories b = pre ++ c :: post /\ c_uuid c = u /\ Forall (fun c' => c_uuid c' <> u) pre.

(* the exit of a node a UUID denotes *)
Definition exit_with (nd : node) (u : uuid) (e : exit_def) : Prop :=
  exists pre post, n_exits nd = pre ++ e :: post /\ e_uuid e = u /\ Forall (fun e' => e_uuid e' <> u) pre.

Lemma find_category_of_first cats u c pre post :
  cats = pre ++ c :: post -> c_uuid c = u -> Forall (fun c' => c_uuid c' <> u) pre -> find_category cats u = Some c.
Proof.
  intros -> Hu Hpre. induction Hpre as [|c0 pre Hc0 Hpre IH]; cbn [app find_category].
  - apply N.eqb_eq in Hu. rewrite Hu. reflexivity.
  - apply N.eqb_neq in Hc0. rewrite Hc0. exact IH.
Qed.

Lemma category_with_find b u c :
  category_with b u c <-> (u <> no_uuid /\ find_category (b_categories b) u = Some c).
Proof.
  split.
  - intros (Hne & pre & post & Hcats & Hu & Hpre). split; [exact Hne|].
    eapply find_category_of_first; eassumption.
  - intros (Hne & Hf). split; [exact Hne|]. apply find_category_first. exact Hf.
Qed.

Lemma find_exit_of_first exits u e pre post :
  exits = pre ++ e :: post -> e_uuid e = u -> Forall (fun e' => e_uuid e' <> u) pre -> find_exit exits u = Some e.
Proof.
  intros -> Hu Hpre. induction Hpre as [|e0 pre He0 Hpre IH]; cbn [app find_exit].
  - apply N.eqb_eq in Hu. rewrite Hu. reflexivity.
  - apply N.eqb_neq in He0. rewrite He0. exact IH.
Qed.

Lemma exit_with_find nd u e : exit_with nd u e <-> find_exit (n_exits nd) u = Some e.
Proof.
  split.
  - intros (pre & post & Hex & Hu & Hpre). eapply find_exit_of_first; eassumption.
  - apply find_exit_first.
Qed.

Lemma category_with_unique b u c1 c2 : category_with b u c1 -> category_with b u c2 -> c1 = c2.
Proof.
  intros H1 H2. apply category_with_find in H1. apply category_with_find in H2.
  destruct H1 as [_ H1]. destruct H2 as [_ H2]. rewrite H1 in H2. inversion H2. reflexivity.
Qed.

(* ---- sentence 1: the switch router ------------------------------------------------------------------------ *)

(* the events of the default branch: converting an error operand to text is logged *)
Definition default_events (operand_tpl : text) : list event :=
  match to_xtext (operand_of operand_tpl) with None => [EvOperandTextError] | Some _ => [] end.

Lemma switch_first_match_spec b operand_tpl cases default prev :
  let operand := operand_of operand_tpl in
  let input := operand_text operand_tpl in
  let R := route_switch' b operand_tpl cases default prev in
  (* the first case, in definition order, whose test matches: the exit of its category; the cases before it only
     leave their events behind (argument evaluation, and an error event for a test that errored) *)
  (forall pre c post m x mt cat,
      cases = pre ++ c :: post -> Forall (passed_over operand) pre -> matches operand c m x ->
      opt_to_xtext value to_xtext m = Some mt -> category_with b (k_cat c) cat ->
      R = through b prev cat mt input (extra_json x)
                  (operand_events operand_tpl ++ flat_map (skip_events operand) pre
                   ++ arg_events c ++ extra_events c x))
  (* otherwise the default category's exit *)
  /\ (forall cat,
      Forall (passed_over operand) cases -> category_with b default cat ->
      R = through b prev cat input input None
                  (operand_events operand_tpl ++ flat_map (skip_events operand) cases
                   ++ default_events operand_tpl))
  (* no default: no category (the empty exit), nothing saved *)
  /\ (Forall (passed_over operand) cases -> default = no_uuid ->
      R = {| ro_res := RExit no_uuid input; ro_saved := None;
             ro_events := operand_events operand_tpl ++ flat_map (skip_events operand) cases |})
  (* these are all the possibilities, up to cases whose test cannot be used at all (see switch_rejects_spec) *)
  /\ (Forall (passed_over operand) cases
      \/ exists pre c post, cases = pre ++ c :: post /\ Forall (passed_over operand) pre
           /\ (registered (k_test c) = false
               \/ (registered (k_test c) = true /\ case_result operand c = TOther)
               \/ exists m x, matches operand c m x)).
Proof.
  cbn zeta. split; [|split; [|split]].
  - intros pre c post m x mt cat Hc Hpre Hm Hmt Hcat.
    apply category_with_find in Hcat. destruct Hcat as [Hne Hf].
    eapply route_switch_first_match; eassumption.
  - intros cat Hall Hcat. apply category_with_find in Hcat. destruct Hcat as [Hne Hf].
    apply route_switch_default; assumption.
  - intros Hall ->. apply route_switch_no_category. exact Hall.
  - apply cases_exhaustive.
Qed.

(* a router as the engine accepts it (SwitchRouter.Validate): every test is registered, every case names a
   category, the default (if any) too; and tests that keep to their contract: an error or a test result whose
   match converts to text *)
Definition well_formed_switch (b : base_router) (cases : list case_def) (default : uuid) : Prop :=
  Forall (fun c => registered (k_test c) = true /\ exists cat, category_with b (k_cat c) cat) cases
  /\ (default = no_uuid \/ exists cat, category_with b default cat).

Definition tests_behave (operand : value) (cases : list case_def) : Prop :=
  Forall (fun c => case_result operand c <> TOther
                   /\ forall m x, case_result operand c = TObject true m x -> opt_to_xtext value to_xtext m <> None)
         cases.

(* for such routers the three branches of the sentence are exhaustive *)
Lemma switch_total_spec b operand_tpl cases default :
  let operand := operand_of operand_tpl in
  well_formed_switch b cases default -> tests_behave operand cases ->
  (exists pre c post m x mt cat,
      cases = pre ++ c :: post /\ Forall (passed_over operand) pre /\ matches operand c m x
      /\ opt_to_xtext value to_xtext m = Some mt /\ category_with b (k_cat c) cat)
  \/ (Forall (passed_over operand) cases /\ exists cat, category_with b default cat)
  \/ (Forall (passed_over operand) cases /\ default = no_uuid).
Proof.
  cbn zeta. intros [Hwf Hdef] Hbeh.
  destruct (cases_exhaustive (operand_of operand_tpl) cases) as [Hall | (pre & c & post & Hc & Hpre & Hdec)].
  - right. destruct Hdef as [-> | Hcat]; [right; split; [exact Hall|reflexivity] | left; split; assumption].
  - left. subst cases.
    unfold tests_behave in Hbeh. rewrite Forall_forall in Hwf, Hbeh.
    assert (Hin : In c (pre ++ c :: post)) by (apply in_or_app; right; left; reflexivity).
    destruct (Hwf c Hin) as [Hreg (cat & Hcat)]. destruct (Hbeh c Hin) as [Hno Hconv].
    destruct Hdec as [Hunreg | [[_ Hother] | (m & x & Hm)]].
    + rewrite Hreg in Hunreg. discriminate.
    + contradiction.
    + destruct Hm as [Hreg' Hres]. specialize (Hconv m x Hres).
      destruct (opt_to_xtext value to_xtext m) as [mt|] eqn:Hmt; [|contradiction].
      exists pre, c, post, m, x, mt, cat.
      split; [reflexivity|]. split; [exact Hpre|]. split; [split; assumption|]. split; [exact Hmt|exact Hcat].
Qed.

(* ---- sentence 2: the saved result --------------------------------------------------------------------------- *)

Lemma route_to_category_unnamed b prev cat mtch operand extra evs :
  b_result_name b = [] -> ro_saved (route_to_category' b prev cat mtch operand extra evs) = None.
Proof.
  intros Hn. unfold route_to_category. destruct (N.eqb cat no_uuid); [reflexivity|].
  destruct (find_category (b_categories b) cat); [|reflexivity]. unfold route_via. rewrite Hn. reflexivity.
Qed.

Lemma route_switch_unnamed b operand_tpl cases default prev :
  b_result_name b = [] -> ro_saved (route_switch' b operand_tpl cases default prev) = None.
Proof.
  intros Hn. unfold route_switch.
  destruct (eval_tpl operand_tpl) as [operand e0].
  destruct (match_case' operand cases) as [evs1 m].
  destruct m as [| | |t c0 x]; try reflexivity.
  - destruct (N.eqb no_uuid no_uuid && negb (N.eqb default no_uuid)); apply route_to_category_unnamed; exact Hn.
  - destruct (N.eqb c0 no_uuid && negb (N.eqb default no_uuid)); apply route_to_category_unnamed; exact Hn.
Qed.

(* the localized category name is what the language fallback of C18 picks for the category's "name", with no base
   text to fall back on *)
Lemma category_localized_spec (c : category) :
  exists out used,
    spec_pick (lc_contact lc) (lc_allowed lc) (lc_base lc) [[]] (c_tr_name c) out used
    /\ category_localized (lc_contact lc) (lc_allowed lc) (lc_base lc) (c_tr_name c) = hd [] out.
Proof.
  unfold category_localized, get_text1.
  generalize (get_text_spec (lc_contact lc) (lc_allowed lc) (lc_base lc) [[]] (c_tr_name c)).
  destruct (get_text _ _ _ _ _) as [out used]. intros H.
  exists out, used. split; [exact H|reflexivity].
Qed.

Lemma truncate_short limit t : (length t <= limit)%nat -> truncate limit t = t.
Proof. intros H. unfold truncate. apply Nat.leb_le in H. rewrite H. reflexivity. Qed.

Lemma truncate_long limit t : (limit < length t)%nat -> truncate limit t = firstn limit t.
Proof. intros H. unfold truncate. apply Nat.leb_gt in H. rewrite H. reflexivity. Qed.

Lemma switch_result_spec b operand_tpl cases default prev :
  let operand := operand_of operand_tpl in
  let input := operand_text operand_tpl in
  let R := route_switch' b operand_tpl cases default prev in
  let localized c := category_localized (lc_contact lc) (lc_allowed lc) (lc_base lc) (c_tr_name c) in
  (* without a result name nothing is saved, whatever happens *)
  (b_result_name b = [] -> ro_saved R = None)
  (* a case matched: that category's name, the test's match as value, the operand as input *)
  /\ (forall pre c post m x mt cat,
      b_result_name b <> [] ->
      cases = pre ++ c :: post -> Forall (passed_over operand) pre -> matches operand c m x ->
      opt_to_xtext value to_xtext m = Some mt -> category_with b (k_cat c) cat ->
      let r := {| r_name := b_result_name b; r_value := truncate max_result_chars mt; r_category := c_name cat;
                  r_category_localized := localized cat; r_input := truncate_ellipsis max_template_chars input;
                  r_extra := bound_extra (extra_json x) |} in
      ro_saved R = Some r
      /\ ro_res R = RExit (c_exit cat) input
      (* a run_result_changed event is logged (last) exactly when value or category differ from the previous result *)
      /\ ro_events R = (operand_events operand_tpl ++ flat_map (skip_events operand) pre
                        ++ arg_events c ++ extra_events c x)
                       ++ (if result_changed prev r then [EvResultChanged r] else []))
  (* the default category: the operand itself as value *)
  /\ (forall cat,
      b_result_name b <> [] ->
      Forall (passed_over operand) cases -> category_with b default cat ->
      let r := {| r_name := b_result_name b; r_value := truncate max_result_chars input; r_category := c_name cat;
                  r_category_localized := localized cat; r_input := truncate_ellipsis max_template_chars input;
                  r_extra := None |} in
      ro_saved R = Some r /\ ro_res R = RExit (c_exit cat) input)
  (* no category: nothing saved *)
  /\ (Forall (passed_over operand) cases -> default = no_uuid -> ro_saved R = None).
Proof.
  cbn zeta. split; [|split; [|split]].
  - apply route_switch_unnamed.
  - intros pre c post m x mt cat Hn Hc Hpre Hm Hmt Hcat.
    destruct (switch_first_match_spec b operand_tpl cases default prev) as (H1 & _).
    rewrite (H1 pre c post m x mt cat Hc Hpre Hm Hmt Hcat).
    unfold through, result_for, named. destruct (b_result_name b) as [|ch name] eqn:Hname; [contradiction|].
    cbn [ro_saved ro_res ro_events andb].
    repeat split; reflexivity.
  - intros cat Hn Hall Hcat.
    destruct (switch_first_match_spec b operand_tpl cases default prev) as (_ & H2 & _).
    rewrite (H2 cat Hall Hcat).
    unfold through, result_for, named. destruct (b_result_name b) as [|ch name] eqn:Hname; [contradiction|].
    split; reflexivity.
  - intros Hall Hd.
    destruct (switch_first_match_spec b operand_tpl cases default prev) as (_ & _ & H3 & _).
    rewrite (H3 Hall Hd). reflexivity.
Qed.

(* ---- sentence: "a timeout resume leaves by the wait's timeout category" --------------------------------------- *)

(* whatever the router (switch: whatever its cases, operand and default; random: whatever the draw): the node is left
   by the exit of the timeout category; the result (if named) has the time of the timeout as value and no input; the
   segment carries no operand *)
Lemma timeout_spec site flow_nodes nd r d timed_out_on prev u c :
  n_router nd = Some r ->
  b_timeout (router_base r) = Some u -> category_with (router_base r) u c -> c_exit c <> no_uuid ->
  let b := router_base r in
  let res := result_for b c timed_out_on [] None in
  let v := visit' site flow_nodes nd true d timed_out_on prev in
  route_timeout' b timed_out_on prev = through b prev c timed_out_on [] None []
  /\ vo_outcome v = NLeft
  /\ vo_step_exit v = c_exit c
  /\ vo_saved v = (if named b then Some res else None)
  /\ vo_events v = (if named b && result_changed prev res then [EvResultChanged res] else [])
  /\ (forall ex op dest, vo_segment v = Some (ex, op, dest) -> ex = c_exit c /\ op = []).
Proof.
  intros Hr Ht Hcat Hex. cbn zeta.
  apply category_with_find in Hcat. destruct Hcat as [Hne Hf].
  destruct (route_timeout_spec (router_base r) timed_out_on prev) as [_ Hto].
  specialize (Hto u c Ht Hne Hf).
  split; [exact Hto|].
  assert (Hres : ro_res (router_out r true d timed_out_on prev) = RExit (c_exit c) []).
  { unfold router_out. rewrite Hto. reflexivity. }
  unfold visit. rewrite (pick_left nd r true d timed_out_on prev (c_exit c) [] Hr Hres Hex).
  cbn [po_kind po_step_exit po_saved po_events vo_outcome vo_step_exit vo_saved vo_events vo_segment].
  unfold router_out. rewrite Hto. cbn [through ro_saved ro_events app].
  repeat split.
  - unfold segment_of in H. cbn [po_exit po_operand] in H.
    destruct (find_exit (n_exits nd) (c_exit c)) as [e|] eqn:He; [|discriminate].
    destruct (negb (N.eqb (e_dest e) no_uuid) && existsb (N.eqb (e_dest e)) flow_nodes); [|discriminate].
    inversion H; subst. apply find_exit_In in He. apply He.
  - unfold segment_of in H. cbn [po_exit po_operand] in H.
    destruct (find_exit (n_exits nd) (c_exit c)) as [e|] eqn:He; [|discriminate].
    destruct (negb (N.eqb (e_dest e) no_uuid) && existsb (N.eqb (e_dest e)) flow_nodes); [|discriminate].
    inversion H; subst. reflexivity.
Qed.

(* ---- sentence: "a random router [leaves] by category floor(r*n) for its random draw r" ------------------------- *)

Lemma draw_Q_lt_1 d : (draw_Q d < 1)%Q <-> d_mant d < 10 ^ d_scale d.
Proof.
  unfold Qlt, draw_Q. cbn [Qnum Qden]. pose proof (pow10_pos (d_scale d)) as Hp.
  rewrite Z2Pos.id by lia. lia.
Qed.

Lemma draw_Q_nonneg d : (0 <= draw_Q d)%Q.
Proof. unfold Qle, draw_Q. cbn [Qnum Qden]. lia. Qed.

Lemma random_spec b d prev :
  let n := N.of_nat (length (b_categories b)) in
  let idx := random_index d n in
  (0 <= draw_Q d < 1)%Q -> 0 < n ->
  Qfloor (draw_Q d * inject_Z (Z.of_N n)) = Z.of_N idx
  /\ idx < n
  /\ exists c, nth_error (b_categories b) (N.to_nat idx) = Some c
       /\ route_random' b d prev = through b prev c (N_to_text idx) (draw_text d) None [].
Proof.
  intros n idx [_ Hr] Hn. apply draw_Q_lt_1 in Hr.
  destruct (route_random_spec b d prev Hr Hn) as (_ & Hfl & Hlt & c & Hc & Heq).
  fold n in Hfl, Hlt, Hc, Heq. fold idx in Hfl, Hlt, Hc, Heq.
  split; [exact Hfl|]. split; [exact Hlt|]. exists c. split; assumption.
Qed.

(* ---- sentence: "a node without a router [leaves] by its first exit" ---------------------------------------------- *)

Lemma no_router_spec site flow_nodes nd is_timeout d timed_out_on prev :
  n_router nd = None ->
  let v := visit' site flow_nodes nd is_timeout d timed_out_on prev in
  vo_outcome v = NLeft /\ vo_saved v = None /\ vo_events v = []
  /\ match n_exits nd with
     | e :: _ =>
         vo_step_exit v = e_uuid e
         /\ vo_segment v = (if negb (N.eqb (e_dest e) no_uuid) && existsb (N.eqb (e_dest e)) flow_nodes
                            then Some (e_uuid e, [], e_dest e) else None)
     | [] => vo_step_exit v = no_uuid /\ vo_segment v = None
     end.
Proof.
  intros Hr. cbn zeta. unfold visit. rewrite (pick_no_router nd is_timeout d timed_out_on prev Hr).
  destruct (n_exits nd) as [|e rest]; cbn; repeat split; reflexivity.
Qed.

(* ---- sentence: "a router that selects no category fails the run instead of choosing arbitrarily" ----------------- *)

Lemma no_category_fails_spec site flow_nodes nd b operand_tpl cases d timed_out_on prev :
  n_router nd = Some (Switch b operand_tpl cases no_uuid) ->
  Forall (passed_over (operand_of operand_tpl)) cases ->
  let v := visit' site flow_nodes nd false d timed_out_on prev in
  vo_outcome v = NRunFailed /\ vo_step_exit v = no_uuid /\ vo_segment v = None /\ vo_saved v = None
  /\ vo_events v = operand_events operand_tpl ++ flat_map (skip_events (operand_of operand_tpl)) cases ++ [EvFailure].
Proof.
  intros Hr Hall. cbn zeta. unfold visit.
  rewrite (switch_without_category_fails nd b operand_tpl cases d timed_out_on prev Hr Hall).
  cbn. repeat split; reflexivity.
Qed.

(* the same for any router and any way of ending up without a category (the empty exit) *)
Lemma no_category_fails_general site flow_nodes nd r is_timeout d timed_out_on prev operand :
  n_router nd = Some r ->
  ro_res (router_out r is_timeout d timed_out_on prev) = RExit no_uuid operand ->
  let v := visit' site flow_nodes nd is_timeout d timed_out_on prev in
  vo_outcome v = NRunFailed /\ vo_step_exit v = no_uuid /\ vo_segment v = None
  /\ vo_events v = ro_events (router_out r is_timeout d timed_out_on prev) ++ [EvFailure].
Proof. apply visit_without_category_fails. Qed.

(* ---- consistency: exit in the path = exit in the segment = exit of the saved category ---------------------------- *)

Lemma consistency_spec site flow_nodes nd is_timeout d timed_out_on prev :
  let v := visit' site flow_nodes nd is_timeout d timed_out_on prev in
  (* when the node is left *)
  (vo_outcome v = NLeft ->
     (* a logged segment carries the exit of the path and that exit's destination, a node of the flow *)
     (forall ex op dest, vo_segment v = Some (ex, op, dest) ->
        ex = vo_step_exit v /\ dest <> no_uuid /\ In dest flow_nodes
        /\ exists e, exit_with nd ex e /\ e_dest e = dest)
     (* and a segment is logged whenever the exit of the path leads to a node of the flow *)
     /\ (forall e, exit_with nd (vo_step_exit v) e -> e_dest e <> no_uuid -> In (e_dest e) flow_nodes ->
         exists op, vo_segment v = Some (vo_step_exit v, op, e_dest e))
     (* a router never leaves by the empty exit *)
     /\ (n_router nd <> None -> vo_step_exit v <> no_uuid)
     (* the saved result names a category of the router whose exit is the exit of the path *)
     /\ (forall res, vo_saved v = Some res ->
         exists r c, n_router nd = Some r /\ In c (b_categories (router_base r))
           /\ r_category res = c_name c /\ c_exit c = vo_step_exit v
           /\ r_name res = b_result_name (router_base r)
           /\ r_category_localized res
              = category_localized (lc_contact lc) (lc_allowed lc) (lc_base lc) (c_tr_name c)))
  (* when it is not left the path has no exit and no segment is logged *)
  /\ (vo_outcome v <> NLeft -> vo_step_exit v = no_uuid /\ vo_segment v = None).
Proof.
  cbn zeta. unfold visit.
  pose proof (pick_consistency flow_nodes nd is_timeout d timed_out_on prev) as Hpc. cbn zeta in Hpc.
  destruct (po_kind (pick_node_exit' nd is_timeout d timed_out_on prev)) eqn:Hk.
  - destruct site; cbn [vo_outcome vo_step_exit vo_segment]; (split; [discriminate|intros _; split; reflexivity]).
  - cbn [vo_outcome vo_step_exit vo_segment]. split; [discriminate|intros _; split; reflexivity].
  - cbn [vo_outcome vo_step_exit vo_segment]. split; [discriminate|]. intros _. split; [|reflexivity].
    (* PkFailed: the step was not left *)
    unfold pick_node_exit in *. destruct (n_router nd) as [r|].
    + destruct (ro_res (if is_timeout then _ else _)) as [| |u operand]; cbn [po_kind] in Hk; try discriminate.
      destruct (N.eqb u no_uuid); [reflexivity|].
      destruct (find_exit (n_exits nd) u); discriminate.
    + destruct (find_exit (n_exits nd) _); discriminate.
  - cbn [vo_outcome vo_step_exit vo_segment vo_saved]. split; [|intros H; contradiction].
    intros _. destruct (Hpc eq_refl) as (Hseg & Hne & Hsaved).
    split; [|split; [|split]].
    + intros ex op dest H. destruct (Hseg ex op dest H) as (H1 & _ & H3 & H4 & e & He & Hin & Hu & Hd).
      split; [exact H1|]. split; [exact H3|]. split; [exact H4|].
      exists e. split; [|exact Hd].
      (* the exit handed on is the first one with the UUID *)
      apply exit_with_find. subst ex.
      clear - He Hk. unfold pick_node_exit in *. destruct (n_router nd) as [r|].
      * destruct (ro_res (if is_timeout then _ else _)) as [| |u operand]; cbn [po_kind] in Hk; try discriminate.
        destruct (N.eqb u no_uuid); [discriminate|].
        destruct (find_exit (n_exits nd) u) as [e'|] eqn:Hf; cbn [po_exit po_step_exit] in *; [|discriminate].
        inversion He; subst. exact Hf.
      * destruct (n_exits nd) as [|e0 rest]; cbn [find_exit] in *; [discriminate|].
        rewrite N.eqb_refl in *. cbn [po_exit po_step_exit] in *. rewrite N.eqb_refl. exact He.
    + intros e He Hd Hin. apply exit_with_find in He.
      assert (Hpe : po_exit (pick_node_exit' nd is_timeout d timed_out_on prev) = Some e).
      { clear - He Hk. unfold pick_node_exit in *. destruct (n_router nd) as [r|].
        - destruct (ro_res (if is_timeout then _ else _)) as [| |u operand]; cbn [po_kind] in Hk; try discriminate.
          destruct (N.eqb u no_uuid); [discriminate|].
          destruct (find_exit (n_exits nd) u) as [e'|] eqn:Hf; cbn [po_exit po_step_exit] in *;
            rewrite Hf in He; [exact He|discriminate].
        - destruct (n_exits nd) as [|e0 rest]; cbn [find_exit] in *; [discriminate|].
          rewrite N.eqb_refl in *. cbn [po_exit po_step_exit] in *. rewrite N.eqb_refl in He. exact He. }
      unfold segment_of. rewrite Hpe.
      apply N.eqb_neq in Hd. rewrite Hd. cbn [negb andb].
      assert (Hex : existsb (N.eqb (e_dest e)) flow_nodes = true).
      { apply existsb_exists. exists (e_dest e). split; [exact Hin|apply N.eqb_refl]. }
      rewrite Hex. eexists.
      apply find_exit_In in He. destruct He as [_ Hu]. rewrite Hu. reflexivity.
    + intros Hnr. destruct (n_router nd) as [r|] eqn:Hr; [|contradiction]. apply (Hne r eq_refl).
    + exact Hsaved.
Qed.

(* the operand a segment carries: the router's operand text (switch), the draw (random), nothing for a timeout or a
   node without router *)
Lemma route_to_category_operand b prev cat mtch operand extra evs u op :
  ro_res (route_to_category' b prev cat mtch operand extra evs) = RExit u op -> op = operand.
Proof.
  unfold route_to_category. destruct (N.eqb cat no_uuid).
  - cbn [ro_res]. intros H; inversion H; reflexivity.
  - destruct (find_category (b_categories b) cat); [|discriminate].
    unfold route_via. destruct (b_result_name b); cbn [ro_res]; intros H; inversion H; reflexivity.
Qed.

Lemma route_switch_operand b operand_tpl cases default prev u op :
  ro_res (route_switch' b operand_tpl cases default prev) = RExit u op -> op = operand_text operand_tpl.
Proof.
  unfold route_switch, operand_text, operand_of.
  destruct (eval_tpl operand_tpl) as [operand e0]. cbn [fst].
  destruct (match_case' operand cases) as [evs1 m].
  destruct m as [| | |t c0 x]; cbn [ro_res]; try discriminate.
  - destruct (N.eqb no_uuid no_uuid && negb (N.eqb default no_uuid)); apply route_to_category_operand.
  - destruct (N.eqb c0 no_uuid && negb (N.eqb default no_uuid)); apply route_to_category_operand.
Qed.

Lemma segment_operand_spec site flow_nodes nd is_timeout d timed_out_on prev ex op dest :
  vo_segment (visit' site flow_nodes nd is_timeout d timed_out_on prev) = Some (ex, op, dest) ->
  op = match n_router nd with
       | None => []
       | Some r =>
           if is_timeout then []
           else match r with
                | Switch _ operand_tpl _ _ => operand_text operand_tpl
                | Random _ => draw_text d
                end
       end.
Proof.
  unfold visit.
  destruct (po_kind (pick_node_exit' nd is_timeout d timed_out_on prev)) eqn:Hk;
    [destruct site; discriminate | discriminate | discriminate |].
  cbn [vo_segment]. unfold segment_of.
  destruct (po_exit (pick_node_exit' nd is_timeout d timed_out_on prev)) as [e|] eqn:He; [|discriminate].
  destruct (negb (N.eqb (e_dest e) no_uuid) && existsb (N.eqb (e_dest e)) flow_nodes); [|discriminate].
  intros H. inversion H; subst. clear H.
  unfold pick_node_exit in *. destruct (n_router nd) as [r|].
  - destruct (ro_res (if is_timeout then _ else _)) as [| |u operand] eqn:Hres; cbn [po_kind] in Hk; try discriminate.
    destruct (N.eqb u no_uuid); [discriminate|].
    destruct (find_exit (n_exits nd) u) as [e'|]; cbn [po_exit po_operand] in *; [|discriminate].
    destruct is_timeout; [reflexivity|].
    destruct r as [b operand_tpl cases default | b]; cbn [route] in Hres.
    + eapply route_switch_operand. exact Hres.
    + unfold route_random in Hres.
      destruct (nth_error (b_categories b) _) as [c0|]; [|discriminate].
      rewrite route_via_through in Hres. unfold through in Hres. cbn [ro_res] in Hres. inversion Hres. reflexivity.
  - destruct (find_exit (n_exits nd) _); cbn [po_exit po_operand] in *; [reflexivity|discriminate].
Qed.

(* the value of a timeout result: RouteTimeout's scan hands on the time of the run's FIRST wait_timed_out event (not
   of the timeout being handled when the run timed out before; the statement of C07 does not speak about this value) *)
Lemma timeout_value_spec site flow_nodes nd r d times prev u c :
  n_router nd = Some r ->
  b_timeout (router_base r) = Some u -> category_with (router_base r) u c -> c_exit c <> no_uuid ->
  b_result_name (router_base r) <> [] ->
  let v := visit' site flow_nodes nd true d (scan_timeouts times) prev in
  vo_saved v = Some (result_for (router_base r) c (hd zero_time_text times) [] None).
Proof.
  intros Hr Ht Hcat Hex Hn. cbn zeta.
  destruct (timeout_spec site flow_nodes nd r d (scan_timeouts times) prev u c Hr Ht Hcat Hex)
    as (_ & _ & _ & Hs & _).
  rewrite Hs. unfold named. destruct (b_result_name (router_base r)); [contradiction|].
  rewrite scan_timeouts_first. reflexivity.
Qed.

(* "leaves by": whatever exit a router answers is the exit of the step, also when nothing is saved *)
Lemma leaves_spec site flow_nodes nd r is_timeout d timed_out_on prev u op :
  n_router nd = Some r ->
  ro_res (router_out r is_timeout d timed_out_on prev) = RExit u op -> u <> no_uuid ->
  let out := router_out r is_timeout d timed_out_on prev in
  let v := visit' site flow_nodes nd is_timeout d timed_out_on prev in
  vo_outcome v = NLeft /\ vo_step_exit v = u /\ vo_saved v = ro_saved out /\ vo_events v = ro_events out
  /\ (forall e, exit_with nd u e ->
        vo_segment v = if negb (N.eqb (e_dest e) no_uuid) && existsb (N.eqb (e_dest e)) flow_nodes
                       then Some (u, (if is_timeout then [] else op), e_dest e) else None)
  /\ ((forall e, ~ exit_with nd u e) -> vo_segment v = None).
Proof.
  intros Hr Hres Hne. cbn zeta. unfold visit.
  rewrite (pick_left nd r is_timeout d timed_out_on prev u op Hr Hres Hne).
  cbn [po_kind po_step_exit po_saved po_events vo_outcome vo_step_exit vo_saved vo_events vo_segment].
  split; [reflexivity|]. split; [reflexivity|]. split; [reflexivity|]. split; [reflexivity|]. split.
  - intros e He. apply exit_with_find in He. unfold segment_of. cbn [po_exit po_operand]. rewrite He.
    apply find_exit_In in He. destruct He as [_ Hu]. rewrite Hu. reflexivity.
  - intros Hno. unfold segment_of. cbn [po_exit].
    destruct (find_exit (n_exits nd) u) as [e|] eqn:He; [|reflexivity].
    exfalso. apply (Hno e). apply exit_with_find. exact He.
Qed.

(* a deciding case without a category (rejected by Validate): the default is taken with the operand as value, but the
   case's extra survives; without default no category *)
Lemma case_without_category_spec b operand_tpl cases default prev pre c post m x mt :
  let operand := operand_of operand_tpl in
  let input := operand_text operand_tpl in
  let R := route_switch' b operand_tpl cases default prev in
  cases = pre ++ c :: post -> Forall (passed_over operand) pre -> matches operand c m x ->
  opt_to_xtext value to_xtext m = Some mt -> k_cat c = no_uuid ->
  let evs := operand_events operand_tpl ++ flat_map (skip_events operand) pre ++ arg_events c ++ extra_events c x in
  (default = no_uuid -> R = {| ro_res := RExit no_uuid input; ro_saved := None; ro_events := evs |})
  /\ (forall cat, category_with b default cat ->
      R = through b prev cat input input (extra_json x) (evs ++ default_events operand_tpl)).
Proof.
  cbn zeta. intros Hc Hpre Hm Hmt Hk.
  split.
  - intros Hd.
    destruct (route_switch_case_without_category b operand_tpl cases default prev pre c post m x mt
                {| c_uuid := 0; c_name := []; c_exit := 0; c_tr_name := [] |} Hc Hpre Hm Hmt Hk) as [H1 _].
    apply H1. exact Hd.
  - intros cat Hcat. apply category_with_find in Hcat. destruct Hcat as [Hne Hf].
    destruct (route_switch_case_without_category b operand_tpl cases default prev pre c post m x mt cat
                Hc Hpre Hm Hmt Hk) as [_ H2].
    apply H2; assumption.
Qed.

End Proofs.

(* ---- the engine's limits on what a router result keeps (not in the statement of C07; C05's clause) ------------------ *)

(* MaxTemplateChars on the saved input: unchanged when it fits; otherwise the first limit-3 characters and "...",
   or just the first limit characters when there is no room for the ellipsis *)
Lemma truncate_ellipsis_spec (limit : nat) (t : text) :
  ((length t <= limit)%nat -> truncate_ellipsis limit t = t)
  /\ ((limit < length t)%nat -> (3 <= limit)%nat -> truncate_ellipsis limit t = firstn (limit - 3) t ++ [46; 46; 46])
  /\ ((limit < length t)%nat -> (limit < 3)%nat -> truncate_ellipsis limit t = firstn limit t)
  /\ (length (truncate_ellipsis limit t) <= limit)%nat.
Proof.
  unfold truncate_ellipsis, truncate.
  destruct (Nat.ltb limit 3) eqn:E3; [apply Nat.ltb_lt in E3|apply Nat.ltb_ge in E3];
    destruct (Nat.leb (length t) limit) eqn:El; [apply Nat.leb_le in El|apply Nat.leb_gt in El| apply Nat.leb_le in El|apply Nat.leb_gt in El].
  - repeat split; intros; try lia; reflexivity || exact El.
  - repeat split; intros; try lia; try reflexivity. rewrite firstn_length. lia.
  - repeat split; intros; try lia; reflexivity || exact El.
  - repeat split; intros; try lia; try reflexivity. rewrite app_length, firstn_length. cbn [length]. lia.
Qed.

(* the extra is kept iff its marshalled JSON has fewer than 10000 bytes (UTF-8) *)
Lemma bound_extra_spec (x : option text) :
  bound_extra x = match x with
                  | Some j => if N.ltb (utf8_len j) 10000 then Some j else None
                  | None => None
                  end.
Proof.
  destruct x as [j|]; [|reflexivity]. unfold bound_extra, result_extra_max_bytes.
  destruct (N.leb 10000 (utf8_len j)) eqn:E; [apply N.leb_le in E|apply N.leb_gt in E].
  - assert (H : N.ltb (utf8_len j) 10000 = false) by (apply N.ltb_ge; exact E). rewrite H. reflexivity.
  - assert (H : N.ltb (utf8_len j) 10000 = true) by (apply N.ltb_lt; exact E). rewrite H. reflexivity.
Qed.

Lemma utf8_len_ascii t : Forall (fun c => c < 128) t -> utf8_len t = N.of_nat (length t).
Proof.
  induction 1 as [|c rest Hc Hrest IH]; [reflexivity|].
  cbn [utf8_len length]. unfold utf8_len1. apply N.ltb_lt in Hc. rewrite Hc, IH. lia.
Qed.

Example truncate_ellipsis_examples :
  truncate_ellipsis 9 [100;97;114;107;32;114;101;100;32;97;110;100] = [100;97;114;107;32;114;46;46;46]   (* "dark r..." *)
  /\ truncate_ellipsis 2 [100;97;114;107] = [100;97]
  /\ truncate_ellipsis 4 [100;97;114;107] = [100;97;114;107]
  /\ truncate_ellipsis 3 [100;97;114;107] = [46;46;46]
  /\ utf8_len [233; 8364; 128578; 97] = 10.                                 (* 2 + 3 + 4 + 1 bytes *)
Proof. repeat split; reflexivity. Qed.

(* ======================================================================================================== *)
(* The hypotheses of the statements are satisfiable: a concrete instantiation of the oracles and a router     *)
(* with an erroring case, a non-matching case and two matching cases.                                         *)
(* ======================================================================================================== *)

Module Demo.

(* values are numbers; a template evaluates to its first code point; every value converts to a one-letter text *)
Definition ev (t : text) : N * (bool * nat) := (hd 0 t, (false, O)).
Definition tx (v : N) : option text := Some [v].
Definition reg (t : test_id) : bool := true.
(* test 0 always errors; test 1 matches when the operand equals its first argument; any other test matches *)
Definition tst (t : test_id) (op : N) (args : list N) : test_result N :=
  match t with
  | 0 => TError
  | 1 => TObject (N.eqb op (hd 0 args)) (Some op) ExAbsent
  | _ => TObject true (Some 7) ExAbsent
  end.
Definition lc0 : lctx := {| lc_contact := 0; lc_allowed := []; lc_base := 1 |}.

Definition cat (u : uuid) (name : N) (ex : uuid) : category :=
  {| c_uuid := u; c_name := [name]; c_exit := ex; c_tr_name := [] |}.
Definition kase (t : test_id) (arg : N) (c : uuid) : case_def :=
  {| k_test := t; k_args := [[arg]]; k_tr_args := []; k_cat := c |}.

Definition b0 : base_router :=
  {| b_result_name := [82]; b_categories := [cat 11 65 21; cat 12 66 22; cat 13 67 23]; b_timeout := Some 12 |}.
Definition cases0 : list case_def := [kase 0 5 11; kase 1 6 11; kase 1 5 12; kase 2 5 11].
Definition nd0 (default : uuid) : node :=
  {| n_router := Some (Switch b0 [5] cases0 default);
     n_exits := [{| e_uuid := 21; e_dest := 31 |}; {| e_uuid := 22; e_dest := 32 |}; {| e_uuid := 23; e_dest := 0 |}] |}.
Definition d0 : draw := {| d_mant := 7; d_scale := 1 |}.     (* 0.7 *)

Notation passed := (passed_over N ev reg tst lc0 5).

(* first matching case: the erroring case and the non-matching case are passed over, the third case matches (and so
   would the fourth) *)
Example first_match_hypotheses :
  exists pre c post m x mt ct,
    cases0 = pre ++ c :: post /\ Forall passed pre /\ pre <> []
    /\ matches N ev reg tst lc0 5 c m x /\ opt_to_xtext N tx m = Some mt /\ category_with b0 (k_cat c) ct
    /\ (exists c' m' x', In c' post /\ matches N ev reg tst lc0 5 c' m' x')
    /\ ro_res (route_switch N ev tx reg tst lc0 640 2000 b0 [5] cases0 13 None) = RExit 22 [5].
Proof.
  exists [kase 0 5 11; kase 1 6 11], (kase 1 5 12), [kase 2 5 11], (Some 5), ExAbsent, [5], (cat 12 66 22).
  split; [reflexivity|]. split.
  { constructor; [split; [reflexivity|left; reflexivity]|].
    constructor; [split; [reflexivity|right; exists (Some 5), ExAbsent; reflexivity]|constructor]. }
  split; [discriminate|]. split; [split; reflexivity|]. split; [reflexivity|]. split.
  { split; [discriminate|]. exists [cat 11 65 21], [cat 13 67 23]. split; [reflexivity|]. split; [reflexivity|].
    constructor; [discriminate|constructor]. }
  split; [|reflexivity].
  exists (kase 2 5 11), (Some 7), ExAbsent. split; [left; reflexivity|split; reflexivity].
Qed.

(* default / no category: a router all of whose cases are passed over *)
Definition cases1 : list case_def := [kase 0 5 11; kase 1 6 11].

Example default_hypotheses :
  Forall passed cases1 /\ category_with b0 13 (cat 13 67 23)
  /\ ro_res (route_switch N ev tx reg tst lc0 640 2000 b0 [5] cases1 13 None) = RExit 23 [5]
  /\ ro_res (route_switch N ev tx reg tst lc0 640 2000 b0 [5] cases1 no_uuid None) = RExit no_uuid [5].
Proof.
  split.
  { constructor; [split; [reflexivity|left; reflexivity]|].
    constructor; [split; [reflexivity|right; exists (Some 5), ExAbsent; reflexivity]|constructor]. }
  split; [|split; reflexivity].
  split; [discriminate|]. exists [cat 11 65 21; cat 12 66 22], []. split; [reflexivity|]. split; [reflexivity|].
  constructor; [discriminate|]. constructor; [discriminate|constructor].
Qed.

Example well_formed_hypotheses :
  well_formed_switch reg b0 cases0 13 /\ tests_behave N ev tx tst lc0 5 cases0.
Proof.
  assert (H11 : category_with b0 11 (cat 11 65 21)).
  { split; [discriminate|]. exists [], [cat 12 66 22; cat 13 67 23]. repeat split; constructor. }
  assert (H12 : category_with b0 12 (cat 12 66 22)).
  { split; [discriminate|]. exists [cat 11 65 21], [cat 13 67 23]. split; [reflexivity|]. split; [reflexivity|].
    constructor; [discriminate|constructor]. }
  assert (H13 : category_with b0 13 (cat 13 67 23)) by apply default_hypotheses.
  split; [split|].
  - repeat constructor; eexists; eassumption.
  - right. eexists; exact H13.
  - repeat constructor; try discriminate; intros m x H; inversion H; discriminate.
Qed.

(* timeout: the router has a wait with timeout category 12 *)
Example timeout_hypotheses :
  n_router (nd0 13) = Some (Switch b0 [5] cases0 13) /\ b_timeout b0 = Some 12
  /\ category_with b0 12 (cat 12 66 22) /\ c_exit (cat 12 66 22) <> no_uuid.
Proof.
  split; [reflexivity|]. split; [reflexivity|]. split; [|discriminate].
  split; [discriminate|]. exists [cat 11 65 21], [cat 13 67 23]. split; [reflexivity|]. split; [reflexivity|].
  constructor; [discriminate|constructor].
Qed.

(* random: the draw 0.7 over three categories with distinct UUIDs picks category floor(2.1) = 2 *)
Example random_hypotheses :
  (0 <= draw_Q d0 < 1)%Q /\ 0 < N.of_nat (length (b_categories b0))
  /\ NoDup (map c_uuid (b_categories b0))
  /\ random_index d0 3 = 2
  /\ ro_res (route_random lc0 640 2000 b0 d0 None) = RExit 23 [48; 46; 55].
Proof.
  split; [split; [apply draw_Q_nonneg|apply draw_Q_lt_1; reflexivity]|].
  split; [reflexivity|]. split; [|split; reflexivity].
  repeat constructor; cbn; intuition discriminate.
Qed.

(* a node is left with a segment and a saved result; a node whose router finds no category fails the run *)
Example consistency_hypotheses :
  let v := visit N ev tx reg tst lc0 640 2000 AtVisit [31; 32] (nd0 13) false d0 [] None in
  vo_outcome v = NLeft /\ vo_step_exit v = 22 /\ vo_segment v = Some (22, [5], 32)
  /\ exists res, vo_saved v = Some res /\ r_category res = [66].
Proof. cbn zeta. repeat split. eexists. split; reflexivity. Qed.

Example no_category_hypotheses :
  n_router {| n_router := Some (Switch b0 [5] cases1 no_uuid); n_exits := n_exits (nd0 13) |}
  = Some (Switch b0 [5] cases1 no_uuid)
  /\ Forall passed cases1.
Proof. split; [reflexivity|apply default_hypotheses]. Qed.

(* the rejected inputs: test 9 is not registered; test 8 returns something that is no test result; test 7 matches
   with a match that does not convert to text; a case naming a category the router does not have *)
Definition reg' (t : test_id) : bool := negb (N.eqb t 9).
Definition tx' (v : N) : option text := if N.eqb v 99 then None else Some [v].
Definition tst' (t : test_id) (op : N) (args : list N) : test_result N :=
  match t with
  | 8 => TOther
  | 7 => TObject true (Some 99) ExAbsent
  | _ => tst t op args
  end.

Example rejects_hypotheses :
  let R cs := ro_res (route_switch N ev tx' reg' tst' lc0 640 2000 b0 [5] (kase 0 5 11 :: cs) 13 None) in
  Forall (passed_over N ev reg' tst' lc0 5) [kase 0 5 11]
  /\ (reg' (k_test (kase 9 5 11)) = false /\ R [kase 9 5 11] = RError)
  /\ (case_result N ev tst' lc0 5 (kase 8 5 11) = TOther /\ R [kase 8 5 11] = RPanic)
  /\ (matches N ev reg' tst' lc0 5 (kase 7 5 11) (Some 99) ExAbsent /\ opt_to_xtext N tx' (Some 99) = None
      /\ R [kase 7 5 11] = RError)
  /\ (matches N ev reg' tst' lc0 5 (kase 2 5 44) (Some 7) ExAbsent /\ find_category (b_categories b0) 44 = None
      /\ R [kase 2 5 44] = RError).
Proof.
  cbn zeta. split.
  { constructor; [split; [reflexivity|left; reflexivity]|constructor]. }
  repeat split.
Qed.

(* a run that timed out twice: the second timeout result still carries the time of the first timeout *)
Example second_timeout_records_first :
  scan_timeouts [[49]; [50]] = [49]
  /\ vo_saved (visit N ev tx reg tst lc0 640 2000 AtResume [31; 32] (nd0 13) true d0 (scan_timeouts [[49]; [50]]) None)
     = Some (result_for lc0 640 2000 b0 (cat 12 66 22) [49] [] None).
Proof. split; reflexivity. Qed.

(* a node left by a router that saves nothing *)
Example leaves_hypotheses :
  let b := {| b_result_name := []; b_categories := b_categories b0; b_timeout := None |} in
  let r := Switch b [5] cases0 13 in
  ro_res (router_out N ev tx reg tst lc0 640 2000 r false d0 [] None) = RExit 22 [5] /\ 22 <> no_uuid
  /\ ro_saved (router_out N ev tx reg tst lc0 640 2000 r false d0 [] None) = None.
Proof. cbn zeta. repeat split. discriminate. Qed.

(* a deciding case without category *)
Example case_without_category_hypotheses :
  matches N ev reg tst lc0 5 (kase 2 5 no_uuid) (Some 7) ExAbsent /\ k_cat (kase 2 5 no_uuid) = no_uuid
  /\ ro_res (route_switch N ev tx reg tst lc0 640 2000 b0 [5] [kase 2 5 no_uuid] 13 None) = RExit 23 [5].
Proof. repeat split. Qed.

(* the saved input is cut to MaxTemplateChars (here 4: one character and the ellipsis), the operand handed back to the
   engine for the segment is not *)
Definition tx5 (v : N) : option text := Some [v; v; v; v; v].

Example input_cut_in_result :
  let R := route_switch N ev tx5 reg tst lc0 640 4 b0 [5] cases1 13 None in
  option_map r_input (ro_saved R) = Some [5; 46; 46; 46] /\ ro_res R = RExit 23 [5; 5; 5; 5; 5]
  /\ option_map r_value (ro_saved R) = Some [5; 5; 5; 5; 5].
Proof. cbn zeta. repeat split. Qed.

End Demo.

Lemma truncate_spec (limit : nat) (t : text) :
  ((length t <= limit)%nat -> truncate limit t = t) /\ ((limit < length t)%nat -> truncate limit t = firstn limit t).
Proof. split; [apply truncate_short|apply truncate_long]. Qed.

Lemma timeout_value_statement :
  forall (value : Type) (eval_tpl : text -> value * (bool * nat)) (to_xtext : value -> option text)
         (registered : test_id -> bool) (test : test_id -> value -> list value -> test_result value)
         (lc : lctx) (max_result_chars max_template_chars : nat)
         (site : call_site) (flow_nodes : list uuid) (nd : node) (r : router) (d : draw) (times : list text)
         (prev : option result) (u : uuid) (c : category),
  n_router nd = Some r ->
  b_timeout (router_base r) = Some u -> category_with (router_base r) u c -> c_exit c <> no_uuid ->
  b_result_name (router_base r) <> [] ->
  scan_timeouts times = hd zero_time_text times
  /\ vo_saved (visit value eval_tpl to_xtext registered test lc max_result_chars max_template_chars site flow_nodes nd
                     true d
                     (scan_timeouts times) prev)
     = Some (result_for lc max_result_chars max_template_chars (router_base r) c (hd zero_time_text times) [] None).
Proof.
  intros value eval_tpl to_xtext registered test lc max_result_chars max_template_chars site flow_nodes nd r d times prev u c
         Hr Ht Hcat Hex Hn.
  split; [apply scan_timeouts_first|]. eapply timeout_value_spec; eassumption.
Qed.
