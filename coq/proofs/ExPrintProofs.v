(* ExPrintProofs.v — the printer model (model/ExPrinter.v = Expression.String() of tree.go) seen as a list of
   tokens and spaces; normalisation of a tree (what re-parsing the printed text yields); printing is a fixed
   point after one round. *)
From Coq Require Import List NArith Bool Arith Lia.
From Verif Require Import lib.Quote model.ExSyntax model.ExLexer model.ExParser model.ExPrinter gen.GrammarE3.
Import ListNotations.
Open Scope N_scope.

(* ---------------------------------------------------------------------------------------------- *)
(* induction over trees (ECall carries a list of trees) *)

Section ExprInd.
Variable P : expr -> Prop.
Hypothesis HCtx : forall n, P (ECtxRef n).
Hypothesis HDot : forall c l, P c -> P (EDot c l).
Hypothesis HIndex : forall c l, P c -> P l -> P (EIndex c l).
Hypothesis HCall : forall f ps, P f -> Forall P ps -> P (ECall f ps).
Hypothesis HAnon : forall a b, P b -> P (EAnon a b).
Hypothesis HBin : forall o a b, P a -> P b -> P (EBin o a b).
Hypothesis HNeg : forall a, P a -> P (ENeg a).
Hypothesis HParen : forall a, P a -> P (EParen a).
Hypothesis HText : forall v, P (EText v).
Hypothesis HNum : forall l, P (ENum l).
Hypothesis HBool : forall b, P (EBool b).
Hypothesis HNull : P ENull.

Fixpoint expr_ind' (e : expr) : P e :=
  match e with
  | ECtxRef n => HCtx n
  | EDot c l => HDot c l (expr_ind' c)
  | EIndex c l => HIndex c l (expr_ind' c) (expr_ind' l)
  | ECall f ps =>
      HCall f ps (expr_ind' f)
        ((fix go (l : list expr) : Forall P l :=
            match l with
            | [] => Forall_nil P
            | x :: r => Forall_cons x (expr_ind' x) (go r)
            end) ps)
  | EAnon a b => HAnon a b (expr_ind' b)
  | EBin o a b => HBin o a b (expr_ind' a) (expr_ind' b)
  | ENeg a => HNeg a (expr_ind' a)
  | EParen a => HParen a (expr_ind' a)
  | EText v => HText v
  | ENum l => HNum l
  | EBool b => HBool b
  | ENull => HNull
  end.
End ExprInd.

(* ---------------------------------------------------------------------------------------------- *)
(* number rendering is idempotent *)

Lemma drop_zeros_idem l : drop_zeros (drop_zeros l) = drop_zeros l.
Proof.
  induction l as [|c l IH]; [reflexivity|]. cbn [drop_zeros]. destruct (c =? 48) eqn:E; [exact IH|].
  cbn [drop_zeros]. rewrite E. reflexivity.
Qed.

Lemma drop_zeros_no_dot l : ~ In 46 l -> ~ In 46 (drop_zeros l).
Proof.
  induction l as [|c l IH]; intros H; [exact H|]. cbn [drop_zeros]. destruct (c =? 48); [|exact H].
  apply IH. intros H1; apply H; right; exact H1.
Qed.

Lemma int_render_idem l : int_render (int_render l) = int_render l.
Proof.
  unfold int_render. destruct (drop_zeros l) as [|c r] eqn:E; [reflexivity|].
  rewrite <- E, drop_zeros_idem, E. reflexivity.
Qed.

Lemma int_render_no_dot l : ~ In 46 l -> ~ In 46 (int_render l).
Proof.
  intros H. unfold int_render. pose proof (drop_zeros_no_dot l H) as H1.
  destruct (drop_zeros l); [|exact H1]. intros [E|[]]. discriminate.
Qed.

Lemma split_dot_no_dot l : ~ In 46 l -> split_dot l = (l, None).
Proof.
  induction l as [|c l IH]; intros H; [reflexivity|]. cbn [split_dot].
  destruct (N.eqb_spec c 46) as [->|_]; [exfalso; apply H; left; reflexivity|].
  rewrite IH; [reflexivity|]. intros H1; apply H; right; exact H1.
Qed.

Lemma split_dot_app a b : ~ In 46 a -> split_dot (a ++ 46 :: b) = (a, Some b).
Proof.
  induction a as [|c a IH]; intros H; [reflexivity|]. cbn [app split_dot].
  destruct (N.eqb_spec c 46) as [->|_]; [exfalso; apply H; left; reflexivity|].
  rewrite IH; [reflexivity|]. intros H1; apply H; right; exact H1.
Qed.

Lemma split_dot_fst_no_dot l : ~ In 46 (fst (split_dot l)).
Proof.
  induction l as [|c l IH]; [intros []|]. cbn [split_dot]. destruct (N.eqb_spec c 46) as [->|Hc]; [intros []|].
  destruct (split_dot l) as [a b]. cbn [fst] in *. intros [H|H]; [congruence|contradiction].
Qed.

Lemma frac_render_idem l : frac_render (frac_render l) = frac_render l.
Proof. unfold frac_render. rewrite rev_involutive, drop_zeros_idem. reflexivity. Qed.

Theorem num_render_idem l : num_render (num_render l) = num_render l.
Proof.
  pose proof (split_dot_fst_no_dot l) as Hnd.
  assert (Hv : exists ip, ~ In 46 ip /\
            (num_render l = int_render ip \/ exists c fr, num_render l = int_render ip ++ 46 :: c :: fr /\ frac_render (c :: fr) = c :: fr)).
  { unfold num_render. destruct (split_dot l) as [ip [fp|]]; cbn [fst] in Hnd; exists ip; (split; [exact Hnd|]).
    - destruct (frac_render fp) as [|c fr] eqn:E; [left; reflexivity|]. right. exists c, fr. split; [reflexivity|].
      rewrite <- E. apply frac_render_idem.
    - left; reflexivity. }
  destruct Hv as (ip & Hip & [E|(c & fr & E & Hf)]); rewrite E; unfold num_render.
  - rewrite split_dot_no_dot by (apply int_render_no_dot; exact Hip). apply int_render_idem.
  - rewrite split_dot_app by (apply int_render_no_dot; exact Hip). rewrite Hf, int_render_idem. reflexivity.
Qed.

(* ---------------------------------------------------------------------------------------------- *)
(* normalisation: the tree obtained by parsing the printed form *)

Section Norm.
Variable lower : N -> N.
Variable printable : N -> bool.

Fixpoint norm (e : expr) : expr :=
  match e with
  | ECtxRef n => ECtxRef (map lower n)      (* ContextReference.String lower-cases the name *)
  | EDot c l => EDot (norm c) l
  | EIndex c l => EIndex (norm c) (norm l)
  | ECall f ps => ECall (norm f) (map norm ps)
  | EAnon a b => EAnon a (norm b)
  | EBin o a b => EBin o (norm a) (norm b)
  | ENeg a => ENeg (norm a)
  | EParen a => EParen (norm a)
  | EText v => EText v                      (* re-quoted, same value *)
  | ENum l => ENum (num_render l)           (* the literal is re-rendered from its decimal value *)
  | EBool b => EBool b
  | ENull => ENull
  end.

Hypothesis lower_idem : forall c, lower (lower c) = lower c.

(* the separator before a lookup depends only on the printed container and on the lookup text *)

(* "printing is a fixed point after one round", on trees *)
Theorem print_norm : forall e, print lower printable (norm e) = print lower printable e.
Proof.
  induction e as [n|c l IHc|c l IHc IHl|f ps IHf IHps|a b IHb|o a b IHa IHb|a IHa|a IHa|v|l|b|] using expr_ind';
    cbn [norm print]; try congruence.
  - rewrite map_map. apply map_ext. exact lower_idem.
  - rewrite IHf.
    assert (E : map (print lower printable) (map norm ps) = map (print lower printable) ps).
    { induction IHps as [|x r Hx Hr IH]; [reflexivity|]. cbn [map]. rewrite Hx, IH. reflexivity. }
    rewrite E. reflexivity.
  - apply num_render_idem.
Qed.

Theorem norm_idem : forall e, norm (norm e) = norm e.
Proof.
  induction e as [n|c l IHc|c l IHc IHl|f ps IHf IHps|a b IHb|o a b IHa IHb|a IHa|a IHa|v|l|b|] using expr_ind';
    cbn [norm]; try congruence.
  - f_equal. rewrite map_map. apply map_ext. exact lower_idem.
  - rewrite IHf. f_equal.
    induction IHps as [|x r Hx Hr IH]; [reflexivity|]. cbn [map]. rewrite Hx, IH. reflexivity.
  - f_equal. apply num_render_idem.
Qed.

End Norm.
