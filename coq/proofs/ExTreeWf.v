(* ExTreeWf.v — what the lexer and parser guarantee about the trees they build (the [shape_ok] of proofs/ExGlue.v):
   containers of lookups and calls are atoms, number literals carry number lexemes, text values are valid code
   points, parameter lists are not empty.  With it the side condition of the text-level round trip is expressed on the
   source tree. *)
From Coq Require Import List NArith Bool Arith Lia.
From Verif Require Import lib.Quote model.ExSyntax model.ExLexer model.ExParser model.ExPrinter gen.GrammarE3
  proofs.QuoteProofs proofs.ExLexerProofs proofs.ExPrintProofs proofs.ExRoundtrip proofs.ExTokok proofs.ExRender proofs.ExGlue.
Import ListNotations.
Open Scope N_scope.

(* ---------------------------------------------------------------------------------------------- *)
(* DECIMAL tokens are digits '.' digits *)

Definition tokdec (t : token) : Prop := tk t = DECIMAL -> num_lexeme (tx t) = true.

Definition is_SDecimal (sh : shape) : bool := match sh with SDecimal => true | _ => false end.

Lemma rule_decimal sh : In (DECIMAL, sh) lexer_rules -> sh = SDecimal.
Proof.
  intros H.
  assert (Hall : forallb (fun r => negb (kind_eqb (fst r) DECIMAL) || is_SDecimal (snd r)) lexer_rules = true)
    by (vm_compute; reflexivity).
  rewrite forallb_forall in Hall. specialize (Hall _ H). cbn [fst snd] in Hall.
  change (kind_eqb DECIMAL DECIMAL) with true in Hall. cbn [negb orb] in Hall. destruct sh; try discriminate; reflexivity.
Qed.

Lemma firstn_span_digits l : forallb is_digit (firstn (span_len is_digit l) l) = true.
Proof. apply span_firstn_all. Qed.

Lemma firstn_add {A} n m (l : list A) : firstn (n + m) l = firstn n l ++ firstn m (skipn n l).
Proof.
  revert l. induction n as [|n IH]; intros l; [reflexivity|]. destruct l as [|x l]; [cbn; destruct m; reflexivity|].
  cbn [Nat.add firstn skipn app]. rewrite IH. reflexivity.
Qed.

Lemma decimal_tok inp n : m_decimal inp = Some n -> num_lexeme (firstn n inp) = true.
Proof.
  unfold m_decimal. destruct (span_len is_digit inp) as [|n1] eqn:E1; [discriminate|].
  destruct (skipn (S n1) inp) as [|c r] eqn:E2; [discriminate|].
  destruct (N.eqb_spec c 46) as [->|]; [|discriminate].
  destruct (span_len is_digit r) as [|m] eqn:E3; [discriminate|]. intros H; inversion H; subst n. clear H.
  replace (S (n1 + 1 + S m))%nat with (S n1 + (1 + S m))%nat by lia.
  rewrite firstn_add, E2. change (firstn (1 + S m) (46 :: r)) with (46 :: firstn (S m) r).
  assert (H1 : all_digits (firstn (S n1) inp) = true).
  { unfold all_digits. rewrite <- E1, firstn_span_digits. destruct inp; [discriminate|]. rewrite E1. reflexivity. }
  assert (H2 : all_digits (firstn (S m) r) = true).
  { unfold all_digits. rewrite <- E3, firstn_span_digits. destruct r; [discriminate|]. rewrite E3. reflexivity. }
  unfold num_lexeme. rewrite split_dot_app by (apply digits_no_dot, all_digits_forall; exact H1). rewrite H1, H2. reflexivity.
Qed.

Lemma lex_one_tokdec inp k skip lexeme rest :
  lex_one inp = Some (k, skip, lexeme, rest) -> tokdec {| tk := k; tx := lexeme |}.
Proof.
  intros H. rewrite lex_one_unfold in H. apply lex_one_gen in H. destruct H as (sh & n & Hin & Hm & -> & ->).
  unfold tokdec. cbn [tk tx]. intros ->. rewrite (rule_decimal _ Hin) in Hm. apply decimal_tok. exact Hm.
Qed.

Theorem lex_tokdec : forall inp ts, lex inp = LOk ts -> Forall tokdec ts.
Proof.
  intros inp. remember (length inp) as len eqn:Hlen. revert inp Hlen.
  induction len as [len IH] using lt_wf_ind. intros inp Hlen ts H.
  destruct inp as [|c inp']; [inversion H; constructor|].
  apply lex_cons_inv in H. destruct H as (k & skip & lexeme & rest & ts' & E & E2 & ->).
  pose proof (lex_one_tokdec _ _ _ _ _ E) as Ht.
  destruct (lex_one_shorter _ _ _ _ _ E) as [Hs _].
  assert (Hts' : Forall tokdec ts') by (apply (IH (length rest) ltac:(subst len; exact Hs) rest eq_refl ts' E2)).
  destruct skip; [exact Hts'|constructor; assumption].
Qed.

(* ---------------------------------------------------------------------------------------------- *)
(* the trees the parser builds *)

Definition tokwf (t : token) : Prop := tokok t /\ tokdec t.

Definition suffix (r ts : list token) : Prop := exists pre, ts = pre ++ r.

Lemma suffix_refl ts : suffix ts ts.
Proof. exists []. reflexivity. Qed.

Lemma suffix_cons t r ts : suffix (t :: r) ts -> suffix r ts.
Proof. intros [pre ->]. exists (pre ++ [t]). rewrite <- app_assoc. reflexivity. Qed.

Lemma suffix_trans a b c : suffix a b -> suffix b c -> suffix a c.
Proof. intros [p1 ->] [p2 ->]. exists (p2 ++ p1). rewrite app_assoc. reflexivity. Qed.

Lemma suffix_wf r ts : suffix r ts -> Forall tokwf ts -> Forall tokwf r.
Proof. intros [pre ->] H. apply Forall_app in H. tauto. Qed.

Definition W_expr (fuel : nat) : Prop := forall p ts t r,
  Forall tokwf ts -> p_expr fuel p ts = PR (t, r) -> shape_ok t = true /\ suffix r ts.
Definition W_binloop (fuel : nat) : Prop := forall p lhs ts t r,
  Forall tokwf ts -> shape_ok lhs = true -> p_binloop fuel p lhs ts = PR (t, r) -> shape_ok t = true /\ suffix r ts.
Definition W_primary (fuel : nat) : Prop := forall ts t r,
  Forall tokwf ts -> p_primary fuel ts = PR (t, r) -> shape_ok t = true /\ suffix r ts.
Definition W_atom (fuel : nat) : Prop := forall ts t r,
  Forall tokwf ts -> p_atom fuel ts = PR (t, r) -> shape_ok t = true /\ atomic t = true /\ suffix r ts.
Definition W_postfix (fuel : nat) : Prop := forall a ts t r,
  Forall tokwf ts -> shape_ok a = true -> atomic a = true -> p_postfix fuel a ts = PR (t, r) ->
  shape_ok t = true /\ atomic t = true /\ suffix r ts.
Definition W_params (fuel : nat) : Prop := forall ts es r,
  Forall tokwf ts -> p_params fuel ts = PR (es, r) -> forallb shape_ok es = true /\ suffix r ts.

Lemma forallb_valid v : valid_codepoints v -> forallb valid_cp v = true.
Proof. intros H. unfold valid_codepoints in H. apply forallb_forall. rewrite Forall_forall in H. exact H. Qed.

Lemma lit_shape t l : lit_of (tk t) = Some l -> tokwf t -> shape_ok (mk_lit l t) = true.
Proof.
  intros Hl [(Hi & Hn & Hv) Hd]. pose proof (lit_kinds _ _ Hl) as Hk. destruct l; cbn [mk_lit shape_ok]; try reflexivity.
  - apply forallb_valid. apply Hv. exact Hk.
  - destruct Hk as [Hk|Hk].
    + unfold num_lexeme. specialize (Hi Hk).
      rewrite split_dot_no_dot by (apply digits_no_dot, all_digits_forall; exact Hi). exact Hi.
    + apply Hd. exact Hk.
Qed.

Lemma step_W f : W_expr f -> W_binloop f -> W_primary f -> W_atom f -> W_postfix f -> W_params f ->
  W_expr (S f) /\ W_binloop (S f) /\ W_primary (S f) /\ W_atom (S f) /\ W_postfix (S f) /\ W_params (S f).
Proof.
  intros HE HB HP HA HPo HPa.
  assert (TE : W_expr (S f)).
  { intros p ts t r Hok H. rewrite p_expr_eq in H.
    destruct (p_primary f ts) as [[e r0]| |] eqn:E1; try discriminate.
    destruct (HP _ _ _ Hok E1) as [S1 X1].
    destruct (HB _ _ _ _ _ (suffix_wf _ _ X1 Hok) S1 H) as [S2 X2].
    split; [exact S2|exact (suffix_trans _ _ _ X2 X1)]. }
  assert (TB : W_binloop (S f)).
  { intros p lhs ts t r Hok Hl H. rewrite p_binloop_eq in H.
    destruct ts as [|t0 r0]; [inversion H; subst; split; [exact Hl|apply suffix_refl]|].
    destruct (binop_of (tk t0)) as [[prec l]|]; [|inversion H; subst; split; [exact Hl|apply suffix_refl]].
    destruct (Nat.leb p prec); [|inversion H; subst; split; [exact Hl|apply suffix_refl]].
    assert (Hok0 : Forall tokwf r0) by (inversion Hok; assumption).
    destruct (p_expr f (S prec) r0) as [[rhs r']| |] eqn:EQ; try discriminate.
    destruct (HE _ _ _ _ Hok0 EQ) as [S1 X1].
    assert (Hs : shape_ok (EBin (mk_bin l (tk t0)) lhs rhs) = true) by (cbn [shape_ok]; rewrite Hl, S1; reflexivity).
    destruct (HB _ _ _ _ _ (suffix_wf _ _ X1 Hok0) Hs H) as [S2 X2].
    split; [exact S2|]. apply (suffix_trans _ _ _ X2). apply (suffix_trans _ _ _ X1). exists [t0]. reflexivity. }
  assert (TA : W_atom (S f)).
  { intros ts t r Hok H. rewrite p_atom_eq in H. destruct ts as [|t0 r0]; [discriminate|].
    assert (Hok0 : Forall tokwf r0) by (inversion Hok; assumption).
    assert (X0 : suffix r0 (t0 :: r0)) by (exists [t0]; reflexivity).
    destruct (is_k LPAREN t0).
    - destruct (p_expr f 0 r0) as [[e [|c r']]| |] eqn:EQ; try discriminate.
      destruct (is_k RPAREN c); [|discriminate].
      destruct (HE _ _ _ _ Hok0 EQ) as [S1 X1].
      assert (X1' : suffix r' r0) by (apply suffix_cons with c; exact X1).
      destruct (HPo (EParen e) r' t r (suffix_wf _ _ X1' Hok0) S1 eq_refl H) as (S2 & A2 & X2).
      split; [exact S2|]. split; [exact A2|]. exact (suffix_trans _ _ _ X2 (suffix_trans _ _ _ X1' X0)).
    - destruct (is_k NAME t0); [|discriminate].
      destruct (HPo (ECtxRef (tx t0)) r0 t r Hok0 eq_refl eq_refl H) as (S2 & A2 & X2).
      split; [exact S2|]. split; [exact A2|]. exact (suffix_trans _ _ _ X2 X0). }
  assert (TP : W_primary (S f)).
  { intros ts t r Hok H. rewrite p_primary_eq in H. destruct ts as [|t0 r0]; [discriminate|].
    assert (Hok0 : Forall tokwf r0) by (inversion Hok; assumption).
    assert (Hokt : tokwf t0) by (inversion Hok; assumption).
    assert (X0 : suffix r0 (t0 :: r0)) by (exists [t0]; reflexivity).
    destruct (prefix_of (tk t0)) as [prec|].
    { destruct (p_expr f prec r0) as [[e r']| |] eqn:EQ; try discriminate. inversion H; subst.
      destruct (HE _ _ _ _ Hok0 EQ) as [S1 X1]. split; [exact S1|exact (suffix_trans _ _ _ X1 X0)]. }
    destruct (lit_of (tk t0)) as [l|] eqn:EL.
    { inversion H; subst. split; [apply lit_shape; assumption|exact X0]. }
    assert (Hatom : p_atom f (t0 :: r0) = PR (t, r) -> shape_ok t = true /\ suffix r (t0 :: r0)).
    { intros E. destruct (HA _ _ _ Hok E) as (S1 & _ & X1). auto. }
    destruct (if is_k LPAREN t0 then anon_head r0 else None) as [[names r']|] eqn:EH; [|destruct anon_prec; exact (Hatom H)].
    destruct anon_prec as [prec|]; [|exact (Hatom H)].
    destruct (is_k LPAREN t0); [|discriminate].
    destruct (anon_head_some (fun _ => false) eq_refl unit (fun _ nm => nm) (fun a _ => a) (fun _ _ => eq_refl) _ _ _ EH) as (Hne & hd & -> & _).
    assert (X1 : suffix r' (hd ++ r')) by (exists hd; reflexivity).
    destruct (p_expr f prec r') as [[body r'']| |] eqn:EQ; try discriminate. inversion H; subst.
    destruct (HE _ _ _ _ (suffix_wf _ _ X1 Hok0) EQ) as [S1 X2].
    split.
    - cbn [shape_ok]. rewrite S1. destruct names; [congruence|reflexivity].
    - exact (suffix_trans _ _ _ X2 (suffix_trans _ _ _ X1 X0)). }
  assert (TPa : W_params (S f)).
  { intros ts es r Hok H. rewrite p_params_eq in H.
    destruct (p_expr f 0 ts) as [[e [|c r0]]| |] eqn:EQ; try discriminate.
    - inversion H; subst. destruct (HE _ _ _ _ Hok EQ) as [S1 X1]. split; [cbn [forallb]; rewrite S1; reflexivity|exact X1].
    - destruct (HE _ _ _ _ Hok EQ) as [S1 X1]. destruct (is_k COMMA c).
      + destruct (p_params f r0) as [[es' r']| |] eqn:EQ2; try discriminate. inversion H; subst.
        assert (X1' : suffix r0 ts) by (apply suffix_cons with c; exact X1).
        destruct (HPa _ _ _ (suffix_wf _ _ X1' Hok) EQ2) as [S2 X2].
        split; [cbn [forallb]; rewrite S1, S2; reflexivity|exact (suffix_trans _ _ _ X2 X1')].
      + inversion H; subst. split; [cbn [forallb]; rewrite S1; reflexivity|exact X1]. }
  assert (TPo : W_postfix (S f)).
  { intros a ts t r Hok Hs Hat H. rewrite p_postfix_eq in H.
    destruct ts as [|t0 r0]; [inversion H; subst; split; [exact Hs|split; [exact Hat|apply suffix_refl]]|].
    assert (Hok0 : Forall tokwf r0) by (inversion Hok; assumption).
    assert (X0 : suffix r0 (t0 :: r0)) by (exists [t0]; reflexivity).
    destruct (is_k LPAREN t0).
    { destruct r0 as [|c r']; [discriminate|].
      assert (Hok' : Forall tokwf r') by (inversion Hok0; assumption).
      assert (Xc : suffix r' (t0 :: c :: r')) by (exists [t0; c]; reflexivity).
      destruct (is_k RPAREN c).
      - assert (Hs' : shape_ok (ECall a []) = true) by (cbn [shape_ok forallb]; rewrite Hat, Hs; reflexivity).
        destruct (HPo _ _ _ _ Hok' Hs' eq_refl H) as (S2 & A2 & X2).
        split; [exact S2|]. split; [exact A2|exact (suffix_trans _ _ _ X2 Xc)].
      - destruct (p_params f (c :: r')) as [[ps [|c' r'']]| |] eqn:EQ; try discriminate.
        destruct (is_k RPAREN c'); [|discriminate].
        destruct (HPa _ _ _ Hok0 EQ) as [S1 X1].
        assert (X1' : suffix r'' (c :: r')) by (apply suffix_cons with c'; exact X1).
        assert (Hs' : shape_ok (ECall a ps) = true) by (cbn [shape_ok]; rewrite Hat, Hs, S1; reflexivity).
        destruct (HPo _ _ _ _ (suffix_wf _ _ X1' Hok0) Hs' eq_refl H) as (S2 & A2 & X2).
        split; [exact S2|]. split; [exact A2|exact (suffix_trans _ _ _ X2 (suffix_trans _ _ _ X1' X0))]. }
    destruct (is_k DOT t0).
    { destruct r0 as [|n r']; [discriminate|]. destruct (kind_in (tk n) dot_kinds); [|discriminate].
      assert (Hok' : Forall tokwf r') by (inversion Hok0; assumption).
      assert (Xc : suffix r' (t0 :: n :: r')) by (exists [t0; n]; reflexivity).
      assert (Hs' : shape_ok (EDot a (tx n)) = true) by (cbn [shape_ok]; rewrite Hat, Hs; reflexivity).
      destruct (HPo _ _ _ _ Hok' Hs' eq_refl H) as (S2 & A2 & X2).
      split; [exact S2|]. split; [exact A2|exact (suffix_trans _ _ _ X2 Xc)]. }
    destruct (is_k LBRACK t0); [|inversion H; subst; split; [exact Hs|split; [exact Hat|apply suffix_refl]]].
    destruct (p_expr f 0 r0) as [[e [|c r']]| |] eqn:EQ; try discriminate.
    destruct (is_k RBRACK c); [|discriminate].
    destruct (HE _ _ _ _ Hok0 EQ) as [S1 X1].
    assert (X1' : suffix r' r0) by (apply suffix_cons with c; exact X1).
    assert (Hs' : shape_ok (EIndex a e) = true) by (cbn [shape_ok]; rewrite Hat, Hs, S1; reflexivity).
    destruct (HPo _ _ _ _ (suffix_wf _ _ X1' Hok0) Hs' eq_refl H) as (S2 & A2 & X2).
    split; [exact S2|]. split; [exact A2|exact (suffix_trans _ _ _ X2 (suffix_trans _ _ _ X1' X0))]. }
  exact (conj TE (conj TB (conj TP (conj TA (conj TPo TPa))))).
Qed.

Theorem all_W : forall fuel, W_expr fuel /\ W_binloop fuel /\ W_primary fuel /\ W_atom fuel /\ W_postfix fuel /\ W_params fuel.
Proof.
  induction fuel as [|f (HE & HB & HP & HA & HPo & HPa)].
  - unfold W_expr, W_binloop, W_primary, W_atom, W_postfix, W_params. repeat split; intros; discriminate.
  - apply step_W; assumption.
Qed.

(* every tree the parser builds from the lexer's tokens has the guaranteed shape *)
Theorem parsed_shape inp ts t : valid_codepoints inp -> lex inp = LOk ts -> parse_tokens ts = POk t -> shape_ok t = true.
Proof.
  intros Hv HL HP.
  assert (Hwf : Forall tokwf ts).
  { pose proof (lex_tokok _ _ Hv HL) as H1. pose proof (lex_tokdec _ _ HL) as H2.
    apply Forall_forall. intros x Hx. rewrite Forall_forall in H1, H2. split; auto. }
  unfold parse_tokens in HP. destruct (existsb _ ts); [discriminate|].
  destruct (p_expr (parse_fuel ts) 0 ts) as [[e [|x r]]| |] eqn:E; try discriminate. inversion HP; subst e.
  destruct (all_W (parse_fuel ts)) as (HE & _). destruct (HE _ _ _ _ Hwf E) as [S1 _]. exact S1.
Qed.
