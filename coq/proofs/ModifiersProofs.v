(* ModifiersProofs.v — the nine modifiers of model/Modifiers.v against the specification of C03
   (proofs/ModifiersBase.v: replay, has_change_event, same_contact) and of C06 (proofs/GroupsProofs.v).
   Part 1: what one application does (replay, modified flag, visible change, well-formedness). *)
From Coq Require Import List NArith Bool Lia Setoid.
From Verif Require Import model.Contact model.Modifiers proofs.ModifiersBase proofs.GroupsProofs.
Import ListNotations.
Open Scope N_scope.

Definition all_errors (evs : list event) : Prop := Forall (fun e => e = EError) evs.

Lemma all_errors_app : forall a b, all_errors a -> all_errors b -> all_errors (a ++ b).
Proof. intros a b Ha Hb. apply Forall_app. split; assumption. Qed.

(* the groups a groups-modifier names are groups of the assets (in Go they are *flows.Group taken from them) *)
Definition mod_wf (E : menv) (m : modifier) : Prop :=
  match m with MGroups gs _ => incl gs (all_groups E) | _ => True end.

(* a visible difference that re-evaluating query based groups cannot undo *)
Definition lasting_change (E : menv) (c c1 : contact) : Prop :=
  (forall gs, ~ same_contact c (with_groups c1 gs))
  \/ (is_active c1 = true
      /\ exists g, ~ (In g (all_groups E) /\ uses_query E g = true)
                   /\ ~ (In g (c_groups c) <-> In g (c_groups c1))).

Lemma add_group_nodup : forall cur g, NoDup cur -> NoDup (add_group cur g).
Proof.
  intros cur g Hnd. unfold add_group. destruct (gmem g cur) eqn:Hm; [exact Hnd|].
  apply nodup_snoc; [exact Hnd | apply gmem_false; exact Hm].
Qed.

Lemma fold_add_nodup : forall l cur, NoDup cur -> NoDup (fold_left add_group l cur).
Proof.
  induction l as [|x l IH]; intros cur Hnd; [exact Hnd|]. cbn [fold_left]. apply IH. apply add_group_nodup. exact Hnd.
Qed.

Section Inner.
Variable E : menv.

(* ---- URNs ------------------------------------------------------------------------------------------------ *)
Definition urn_step (md : urns_modification) (cur : list curn) (u : N) : list curn :=
  let u' := urn_normalize E u in
  if negb (urn_valid E u') then cur
  else match md with URemove => remove_urn E cur u' | _ => add_urn E cur u' end.

Definition urns_fold (md : urns_modification) (todo : list N) (cur : list curn) : list curn :=
  fold_left (urn_step md) todo cur.

Lemma urns_loop_spec : forall md todo cur evs,
  exists errs, urns_loop E md todo cur evs = (urns_fold md todo cur, evs ++ errs) /\ all_errors errs.
Proof.
  induction todo as [|u todo IH]; intros cur evs.
  - exists []. cbn. rewrite app_nil_r. split; [reflexivity | constructor].
  - change (urns_fold md (u :: todo) cur) with (urns_fold md todo (urn_step md cur u)).
    cbn [urns_loop]. unfold urn_step. destruct (negb (urn_valid E (urn_normalize E u))).
    + destruct (IH cur (evs ++ [EError])) as [errs [H1 H2]]. exists (EError :: errs).
      rewrite H1, <- app_assoc. split; [reflexivity | constructor; [reflexivity | exact H2]].
    + destruct md; apply IH.
Qed.

Lemma apply_urns_inner : forall us md c c1 evs b,
  apply_urns E us md c = (c1, evs, b) ->
  erase (replay evs c) = erase c1 /\ has_change_event evs = b
  /\ (b = false -> erase c1 = erase c)
  /\ (b = true -> forall gs, ~ same_contact c (with_groups c1 gs))
  /\ c_groups c1 = c_groups c /\ c_status c1 = c_status c.
Proof.
  intros us md c c1 evs b H. unfold apply_urns in H.
  destruct (urns_loop_spec md us (match md with USet => [] | _ => c_urns c end) []) as [errs [HL Herr]].
  rewrite HL in H. cbn [app] in H.
  set (cur := urns_fold md us (match md with USet => [] | _ => c_urns c end)) in *.
  destruct (listN_eqb (raw_urns (c_urns c)) (raw_urns cur)) eqn:Heq; cbn [negb] in H; inversion H; subst c1 evs b.
  - apply listN_eqb_eq in Heq.
    assert (He : erase (with_urns c cur) = erase c).
    { transitivity (erase (with_urns c (c_urns c))); [apply erase_eq_iff_raw; symmetry; exact Heq | destruct c; reflexivity]. }
    split; [rewrite replay_errors by exact Herr; symmetry; exact He|].
    split; [apply has_change_errors; exact Herr|]. split; [intros _; exact He|].
    split; [discriminate|]. split; destruct c; reflexivity.
  - split.
    { rewrite replay_app, (replay_errors errs) by exact Herr. cbn [replay fold_left apply_event].
      apply erase_eq_iff_raw. apply raw_bare. }
    split; [rewrite has_change_app, (has_change_errors errs) by exact Herr; reflexivity|].
    split; [discriminate|]. split; [|split; destruct c; reflexivity].
    intros _ gs Hs. destruct Hs as [_ [_ [_ [_ [_ [Hu _]]]]]].
    assert (Hraw : raw_urns (c_urns (with_groups (with_urns c cur) gs)) = raw_urns cur) by (destruct c; reflexivity).
    rewrite Hraw in Hu. rewrite Hu, listN_eqb_refl in Heq. discriminate.
Qed.

(* ---- channel ---------------------------------------------------------------------------------------------- *)
Lemma apply_channel_inner : forall ch c c1 evs b,
  apply_channel E ch c = (c1, evs, b) ->
  erase (replay evs c) = erase c1 /\ has_change_event evs = b
  /\ (b = false -> erase c1 = erase c)
  /\ (b = true -> forall gs, ~ same_contact c (with_groups c1 gs))
  /\ c_groups c1 = c_groups c /\ c_status c1 = c_status c.
Proof.
  intros ch c c1 evs b H. unfold apply_channel in H.
  destruct (match ch with Some k => negb (chan_can_send E k) | None => false end).
  { inversion H; subst. repeat split; try reflexivity; discriminate. }
  destruct (update_preferred_channel E ch (c_urns c)) as [us' changed] eqn:HU.
  assert (Hch : changed = negb (urns_equal (c_urns c) us')).
  { unfold update_preferred_channel in HU. destruct ch as [k|].
    - destruct (negb (chan_can_send E k)); inversion HU; subst.
      + unfold urns_equal. rewrite listN_eqb_refl. reflexivity.
      + reflexivity.
    - inversion HU; subst. reflexivity. }
  destruct changed; inversion H; subst c1 evs b.
  - symmetry in Hch. apply negb_true_iff in Hch. split.
    { cbn [replay fold_left apply_event]. apply erase_eq_iff_raw. apply raw_bare. }
    split; [reflexivity|]. split; [discriminate|]. split; [|split; destruct c; reflexivity].
    intros _ gs Hs. destruct Hs as [_ [_ [_ [_ [_ [Hu _]]]]]].
    assert (Hraw : raw_urns (c_urns (with_groups (with_urns c us') gs)) = raw_urns us') by (destruct c; reflexivity).
    rewrite Hraw in Hu. unfold urns_equal in Hch. rewrite Hu, listN_eqb_refl in Hch. discriminate.
  - symmetry in Hch. apply negb_false_iff in Hch. unfold urns_equal in Hch. apply listN_eqb_eq in Hch.
    assert (He : erase (with_urns c us') = erase c).
    { transitivity (erase (with_urns c (c_urns c))); [apply erase_eq_iff_raw; symmetry; exact Hch | destruct c; reflexivity]. }
    split; [symmetry; exact He|]. split; [reflexivity|]. split; [intros _; exact He|].
    split; [discriminate|]. split; destruct c; reflexivity.
Qed.

(* ---- fields ----------------------------------------------------------------------------------------------- *)
Lemma stored_parse : forall E' fs f raw, stored (parse_value E' fs f raw) = parse_value E' fs f raw.
Proof.
  intros E' fs f raw. unfold parse_value. destruct raw as [|x raw]; [reflexivity|].
  destruct (parse_loc E' (field_type E' f) _ (x :: raw)) as [[st di] wa]. reflexivity.
Qed.

Lemma apply_field_inner : forall f raw c c1 evs b,
  apply_field E f raw c = (c1, evs, b) ->
  erase (replay evs c) = erase c1 /\ has_change_event evs = b
  /\ (b = false -> erase c1 = erase c)
  /\ (b = true -> forall gs, ~ same_contact c (with_groups c1 gs))
  /\ c_groups c1 = c_groups c /\ c_status c1 = c_status c.
Proof.
  intros f raw c c1 evs b H. unfold apply_field in H.
  set (new := parse_value E (c_fields c) f (truncate (max_field_chars E) raw)) in *.
  destruct (ofvalue_eqb new (fget f (c_fields c))) eqn:Heq; cbn [negb] in H; inversion H; subst c1 evs b.
  - repeat split; try reflexivity; discriminate.
  - split; [reflexivity|]. split; [reflexivity|]. split; [discriminate|].
    split; [|split; destruct c; reflexivity].
    intros _ gs Hs. destruct Hs as [_ [_ [_ [_ [_ [_ [_ [Hf _]]]]]]]]. specialize (Hf f).
    assert (Hfs : c_fields (with_groups (with_fields c (fset f new (c_fields c))) gs) = fset f new (c_fields c))
      by (destruct c; reflexivity).
    rewrite Hfs, fget_fset_same in Hf. unfold new in Hf at 1. rewrite stored_parse in Hf. fold new in Hf.
    rewrite Hf in Heq. rewrite (proj2 (ofvalue_eqb_eq _ _) eq_refl) in Heq. discriminate.
Qed.

(* ---- groups ----------------------------------------------------------------------------------------------- *)
Lemma groups_add_loop_spec : forall todo cur diff evs,
  exists d errs, groups_add_loop E todo cur diff evs = (fold_left add_group d cur, diff ++ d, evs ++ errs)
    /\ all_errors errs
    /\ (forall g, In g d -> In g todo /\ uses_query E g = false /\ ~ In g cur)
    /\ (forall g, In g todo -> uses_query E g = false -> In g (fold_left add_group d cur))
    /\ (forall g, In g (fold_left add_group d cur) <-> In g cur \/ In g d).
Proof.
  induction todo as [|h todo IH]; intros cur diff evs; cbn [groups_add_loop].
  - exists [], []. rewrite !app_nil_r. cbn. split; [reflexivity|]. split; [constructor|].
    split; [intros g []|]. split; [intros g []|]. intro g; tauto.
  - destruct (uses_query E h) eqn:Hu.
    + destruct (IH cur diff (evs ++ [EError])) as [d [errs [H1 [H2 [H3 [H4 H5]]]]]].
      exists d, (EError :: errs). rewrite H1, <- app_assoc. split; [reflexivity|].
      split; [constructor; [reflexivity | exact H2]|].
      split; [intros g Hg; destruct (H3 g Hg) as [? [? ?]]; repeat split; [right|..]; assumption|].
      split; [|exact H5]. intros g [Hg|Hg] Hq; [subst; congruence | apply H4; assumption].
    + destruct (gmem h cur) eqn:Hm.
      * apply gmem_In in Hm. destruct (IH cur diff evs) as [d [errs [H1 [H2 [H3 [H4 H5]]]]]].
        exists d, errs. split; [exact H1|]. split; [exact H2|].
        split; [intros g Hg; destruct (H3 g Hg) as [? [? ?]]; repeat split; [right|..]; assumption|].
        split; [|exact H5]. intros g [Hg|Hg] Hq; [subst; apply H5; left; exact Hm | apply H4; assumption].
      * destruct (IH (cur ++ [h]) (diff ++ [h]) evs) as [d [errs [H1 [H2 [H3 [H4 H5]]]]]].
        apply gmem_false in Hm.
        assert (Hadd : add_group cur h = cur ++ [h]) by (unfold add_group; rewrite (proj2 (gmem_false _ _) Hm); reflexivity).
        exists (h :: d), errs. cbn [fold_left]. rewrite Hadd, H1, <- app_assoc. split; [reflexivity|].
        split; [exact H2|]. split.
        { intros g [Hg|Hg]; [subst; repeat split; [left; reflexivity | exact Hu | exact Hm]|].
          destruct (H3 g Hg) as [? [? Hn]]. repeat split; [right; assumption | assumption |].
          intro Hc. apply Hn. apply in_app_iff. left. exact Hc. }
        split.
        { intros g [Hg|Hg] Hq; [subst; apply H5; left; apply in_app_iff; right; left; reflexivity | apply H4; assumption]. }
        intro g. rewrite H5, in_app_iff. cbn [In]. tauto.
Qed.

Lemma groups_remove_loop_spec : forall todo cur diff evs,
  NoDup cur ->
  exists d errs, groups_remove_loop E todo cur diff evs = (fold_left remove_group d cur, diff ++ d, evs ++ errs)
    /\ all_errors errs
    /\ NoDup (fold_left remove_group d cur)
    /\ (forall g, In g d -> In g todo /\ uses_query E g = false /\ In g cur)
    /\ (forall g, In g todo -> uses_query E g = false -> ~ In g (fold_left remove_group d cur))
    /\ (forall g, In g (fold_left remove_group d cur) <-> In g cur /\ ~ In g d).
Proof.
  induction todo as [|h todo IH]; intros cur diff evs Hnd; cbn [groups_remove_loop].
  - exists [], []. rewrite !app_nil_r. cbn. split; [reflexivity|]. split; [constructor|]. split; [exact Hnd|].
    split; [intros g []|]. split; [intros g []|]. intro g; tauto.
  - destruct (uses_query E h) eqn:Hu.
    + destruct (IH cur diff (evs ++ [EError]) Hnd) as [d [errs [H1 [H2 [N1 [H3 [H4 H5]]]]]]].
      exists d, (EError :: errs). rewrite H1, <- app_assoc. split; [reflexivity|].
      split; [constructor; [reflexivity | exact H2]|]. split; [exact N1|].
      split; [intros g Hg; destruct (H3 g Hg) as [? [? ?]]; repeat split; [right|..]; assumption|].
      split; [|exact H5]. intros g [Hg|Hg] Hq; [subst; congruence | apply H4; assumption].
    + destruct (gmem h cur) eqn:Hm; cbn [negb].
      * apply gmem_In in Hm.
        destruct (IH (gremove h cur) (diff ++ [h]) evs (gremove_nodup h cur Hnd)) as [d [errs [H1 [H2 [N1 [H3 [H4 H5]]]]]]].
        exists (h :: d), errs. cbn [fold_left]. unfold remove_group at 2 4 6 8. rewrite H1, <- app_assoc.
        split; [reflexivity|]. split; [exact H2|]. split; [exact N1|]. split.
        { intros g [Hg|Hg]; [subst; repeat split; [left; reflexivity | exact Hu | exact Hm]|].
          destruct (H3 g Hg) as [? [? Hn]]. repeat split; [right; assumption | assumption |].
          eapply gremove_subset. exact Hn. }
        split.
        { intros g [Hg|Hg] Hq; [|apply H4; assumption]. subst. rewrite H5. intros [Hc _].
          exact (gremove_nodup_notin g cur Hnd Hc). }
        intro g. rewrite H5. cbn [In]. destruct (N.eq_dec h g) as [e|ne].
        { subst. split; [intros [Hc _]; exfalso; exact (gremove_nodup_notin g cur Hnd Hc) | intros [_ Hc]; exfalso; apply Hc; left; reflexivity]. }
        rewrite (gremove_other h g cur) by (intro; apply ne; congruence). tauto.
      * apply gmem_false in Hm. destruct (IH cur diff evs Hnd) as [d [errs [H1 [H2 [N1 [H3 [H4 H5]]]]]]].
        exists d, errs. split; [exact H1|]. split; [exact H2|]. split; [exact N1|].
        split; [intros g Hg; destruct (H3 g Hg) as [? [? ?]]; repeat split; [right|..]; assumption|].
        split; [|exact H5]. intros g [Hg|Hg] Hq; [subst; rewrite H5; tauto | apply H4; assumption].
Qed.

Lemma apply_groups_inner : forall gs md c c1 evs b,
  NoDup (c_groups c) ->
  apply_groups E gs md c = (c1, evs, b) ->
  erase (replay evs c) = erase c1 /\ has_change_event evs = b
  /\ (b = false -> erase c1 = erase c)
  /\ (b = true -> is_active c1 = true
                  /\ exists g, ~ (In g (all_groups E) /\ uses_query E g = true)
                               /\ ~ (In g (c_groups c) <-> In g (c_groups c1)))
  /\ c1 = with_groups c (c_groups c1) /\ NoDup (c_groups c1)
  /\ (incl gs (all_groups E) -> incl (c_groups c) (all_groups E) -> incl (c_groups c1) (all_groups E)).
Proof.
  intros gs md c c1 evs b Hnd H. unfold apply_groups in H.
  destruct (status_eqb (c_status c) Active) eqn:Hact; cbn [negb] in H.
  2:{ inversion H; subst. split; [reflexivity|]. split; [reflexivity|]. split; [reflexivity|].
      split; [discriminate|]. split; [destruct c1; reflexivity|]. split; [exact Hnd | auto]. }
  destruct md.
  - destruct (groups_add_loop_spec gs (c_groups c) [] []) as [d [errs [HL [Herr [H3 [H4 H5]]]]]].
    rewrite HL in H. cbn [app] in H. destruct d as [|d0 d].
    + cbn [fold_left] in *. inversion H; subst c1 evs b.
      assert (Hc : with_groups c (c_groups c) = c) by (destruct c; reflexivity). rewrite Hc.
      split; [rewrite replay_errors by exact Herr; reflexivity|].
      split; [apply has_change_errors; exact Herr|]. split; [reflexivity|]. split; [discriminate|].
      split; [symmetry; exact Hc|]. split; [exact Hnd | auto].
    + inversion H; subst c1 evs b.
      split.
      { rewrite replay_app, (replay_errors errs) by exact Herr. cbn [replay fold_left apply_event remove_group]. reflexivity. }
      split; [rewrite has_change_app, (has_change_errors errs) by exact Herr; reflexivity|].
      split; [discriminate|]. split.
      { intros _. split; [destruct c; exact Hact|]. exists d0.
        destruct (H3 d0 (or_introl eq_refl)) as [_ [Hq Hn]].
        split; [intros [_ Hu]; congruence|].
        assert (Hcg : forall x, c_groups (with_groups c x) = x) by (intro x; destruct c; reflexivity).
        intro Hiff. apply Hn. apply Hiff. rewrite Hcg. apply (proj2 (H5 d0)). right. left. reflexivity. }
      assert (Hcg : forall x, c_groups (with_groups c x) = x) by (intro x; destruct c; reflexivity).
      rewrite Hcg. split; [destruct c; reflexivity|]. split.
      { apply (fold_add_nodup (d0 :: d)). exact Hnd. }
      intros Hgs Hinc g Hg. apply (proj1 (H5 g)) in Hg. destruct Hg as [Hg|Hg]; [apply Hinc; exact Hg|].
      apply Hgs. destruct (H3 g Hg) as [Ht _]. exact Ht.
  - destruct (groups_remove_loop_spec gs (c_groups c) [] [] Hnd) as [d [errs [HL [Herr [N1 [H3 [H4 H5]]]]]]].
    rewrite HL in H. cbn [app] in H. destruct d as [|d0 d].
    + cbn [fold_left] in *. inversion H; subst c1 evs b.
      assert (Hc : with_groups c (c_groups c) = c) by (destruct c; reflexivity). rewrite Hc.
      split; [rewrite replay_errors by exact Herr; reflexivity|].
      split; [apply has_change_errors; exact Herr|]. split; [reflexivity|]. split; [discriminate|].
      split; [symmetry; exact Hc|]. split; [exact Hnd | auto].
    + inversion H; subst c1 evs b.
      assert (Hcg : forall x, c_groups (with_groups c x) = x) by (intro x; destruct c; reflexivity).
      rewrite Hcg. split.
      { rewrite replay_app, (replay_errors errs) by exact Herr. cbn [replay fold_left apply_event add_group]. reflexivity. }
      split; [rewrite has_change_app, (has_change_errors errs) by exact Herr; reflexivity|].
      split; [discriminate|]. split.
      { intros _. split; [destruct c; exact Hact|]. exists d0.
        destruct (H3 d0 (or_introl eq_refl)) as [_ [Hq Hin]].
        split; [intros [_ Hu]; congruence|].
        intro Hiff. apply Hiff in Hin. apply (proj1 (H5 d0)) in Hin. destruct Hin as [_ Hn]. apply Hn. left. reflexivity. }
      split; [destruct c; reflexivity|]. split; [exact N1|].
      intros _ Hinc g Hg. apply (proj1 (H5 g)) in Hg. apply Hinc. tauto.
Qed.

End Inner.

(* ---- Part 2: modifiers.Apply ------------------------------------------------------------------------------ *)
Section Apply.
Variable E : menv.

Lemma with_groups_same : forall c, with_groups c (c_groups c) = c.
Proof. destruct c; reflexivity. Qed.

(* one inner application, any modifier *)
Lemma apply_inner_spec : forall fresh m c c1 evs b,
  wf_contact E c -> mod_wf E m ->
  apply_inner E fresh m c = (c1, evs, b) ->
  erase (replay evs c) = erase c1
  /\ has_change_event evs = b
  /\ (b = false -> erase c1 = erase c)
  /\ (b = true -> lasting_change E c c1)
  /\ wf_contact E c1.
Proof.
  intros fresh m c c1 evs b [Hnd Hincl] Hm H. destruct m; cbn [apply_inner] in H.
  - (* name *) unfold apply_name in H.
    destruct (text_eqb (c_name c) (truncate (max_field_chars E) n)) eqn:Heq; cbn [negb] in H; inversion H; subst.
    + repeat split; try reflexivity; try assumption; discriminate.
    + split; [reflexivity|]. split; [reflexivity|]. split; [discriminate|]. split; [|split; destruct c; assumption].
      intros _. left. intros gs [Hs _]. destruct c; cbn in *. rewrite Hs, text_eqb_refl in Heq. discriminate.
  - (* language *) unfold apply_language in H.
    destruct (N.eqb (c_lang c) l) eqn:Heq; cbn [negb] in H; inversion H; subst.
    + repeat split; try reflexivity; try assumption; discriminate.
    + split; [reflexivity|]. split; [reflexivity|]. split; [discriminate|]. split; [|split; destruct c; assumption].
      intros _. left. intros gs [_ [Hs _]]. destruct c; cbn in *. rewrite Hs, N.eqb_refl in Heq. discriminate.
  - (* status *) unfold apply_status in H.
    destruct (status_eqb (c_status c) s) eqn:Heq; cbn [negb] in H; inversion H; subst.
    + repeat split; try reflexivity; try assumption; discriminate.
    + split; [reflexivity|]. split; [reflexivity|]. split; [discriminate|]. split; [|split; destruct c; assumption].
      intros _. left. intros gs [_ [_ [Hs _]]]. destruct c; cbn in *.
      rewrite Hs, (proj2 (status_eqb_eq s s) eq_refl) in Heq. discriminate.
  - (* timezone *) unfold apply_timezone in H.
    destruct (optN_eqb (c_tz c) tz) eqn:Heq; cbn [negb] in H; inversion H; subst.
    + repeat split; try reflexivity; try assumption; discriminate.
    + split; [reflexivity|]. split; [reflexivity|]. split; [discriminate|]. split; [|split; destruct c; assumption].
      intros _. left. intros gs [_ [_ [_ [Hs _]]]]. destruct c; cbn in *.
      rewrite Hs, (proj2 (optN_eqb_eq tz tz) eq_refl) in Heq. discriminate.
  - (* field *)
    destruct (apply_field_inner E f raw c c1 evs b H) as [H1 [H2 [H3 [H4 [H5 H6]]]]].
    split; [exact H1|]. split; [exact H2|]. split; [exact H3|]. split; [intros Hb; left; apply H4; exact Hb|].
    unfold wf_contact. rewrite H5. split; assumption.
  - (* groups *)
    destruct (apply_groups_inner E gs md c c1 evs b Hnd H) as [H1 [H2 [H3 [H4 [H5 [H6 H7]]]]]].
    split; [exact H1|]. split; [exact H2|]. split; [exact H3|]. split; [intros Hb; right; apply H4; exact Hb|].
    split; [exact H6 | apply H7; assumption].
  - (* urns *)
    destruct (apply_urns_inner E us md c c1 evs b H) as [H1 [H2 [H3 [H4 [H5 H6]]]]].
    split; [exact H1|]. split; [exact H2|]. split; [exact H3|]. split; [intros Hb; left; apply H4; exact Hb|].
    unfold wf_contact. rewrite H5. split; assumption.
  - (* channel *)
    destruct (apply_channel_inner E ch c c1 evs b H) as [H1 [H2 [H3 [H4 [H5 H6]]]]].
    split; [exact H1|]. split; [exact H2|]. split; [exact H3|]. split; [intros Hb; left; apply H4; exact Hb|].
    unfold wf_contact. rewrite H5. split; assumption.
  - (* ticket *) unfold apply_ticket in H. destruct (c_ticket c) eqn:Ht; inversion H; subst.
    + repeat split; try reflexivity; try assumption; discriminate.
    + split; [reflexivity|]. split; [reflexivity|]. split; [discriminate|]. split; [|split; destruct c; assumption].
      intros _. left. intros gs [_ [_ [_ [_ [_ [_ [_ [_ Hs]]]]]]]]. destruct c; cbn in *. congruence.
Qed.

Lemma replay_group_events : forall evs c,
  (evs = [] \/ exists a r, evs = [EGroupsChanged a r]) ->
  replay evs c = with_groups c (group_events_sum evs (c_groups c)).
Proof.
  intros evs c [He|[a [r He]]]; subst; cbn; [symmetry; apply with_groups_same | reflexivity].
Qed.

(* C03, first clause, for a directly applied modifier *)
Theorem replay_modifier : forall fresh m c c' evs b,
  wf_contact E c -> mod_wf E m ->
  apply E fresh m c = (c', evs, b) ->
  erase (replay evs c) = erase c'.
Proof.
  intros fresh m c c' evs b Hwf Hm H. unfold apply in H.
  destruct (apply_inner E fresh m c) as [[c1 evs1] b1] eqn:HI.
  destruct (apply_inner_spec fresh m c c1 evs1 b1 Hwf Hm HI) as [H1 [H2 [H3 [H4 Hwf1]]]].
  destruct b1.
  - destruct (reevaluate_groups E c1) as [c2 evs2] eqn:HR. inversion H; subst c' evs b.
    destruct (reevaluate_groups_spec E c1 c2 evs2 Hwf1 HR) as [G1 [G2 [G3 [G4 [G5 [G6 G7]]]]]].
    rewrite replay_app. rewrite (replay_erase evs2 (replay evs1 c) c1 H1).
    rewrite replay_group_events.
    + rewrite G5, <- G1. reflexivity.
    + destruct G7 as [[G7 _]|G7]; [left; exact G7 | right; exact G7].
  - inversion H; subst. exact H1.
Qed.

(* C03, second clause: modified <-> a change event was emitted <-> the contact visibly changed *)
Theorem modified_iff_changed : forall fresh m c c' evs b,
  wf_contact E c -> mod_wf E m ->
  apply E fresh m c = (c', evs, b) ->
  (b = true <-> has_change_event evs = true) /\ (b = true <-> ~ same_contact c c').
Proof.
  intros fresh m c c' evs b Hwf Hm H. unfold apply in H.
  destruct (apply_inner E fresh m c) as [[c1 evs1] b1] eqn:HI.
  destruct (apply_inner_spec fresh m c c1 evs1 b1 Hwf Hm HI) as [H1 [H2 [H3 [H4 Hwf1]]]].
  destruct b1.
  - destruct (reevaluate_groups E c1) as [c2 evs2] eqn:HR. inversion H; subst c' evs b.
    destruct (reevaluate_groups_spec E c1 c2 evs2 Hwf1 HR) as [G1 [G2 [G3 [G4 [G5 [G6 G7]]]]]].
    split; [rewrite has_change_app, H2; cbn; tauto|].
    split; [intros _|reflexivity].
    destruct (H4 eq_refl) as [L|[Hact [g [Hq Hd]]]].
    + rewrite G1. apply L.
    + intros [_ [_ [_ [_ [_ [_ [Hg _]]]]]]]. apply Hd. rewrite Hg. apply G6; assumption.
  - inversion H; subst c' evs b. split; [rewrite H2; tauto|].
    split; [discriminate|]. intro Hn. exfalso. apply Hn. apply erase_same. symmetry. apply H3. reflexivity.
Qed.

End Apply.

(* ---- Part 3: C06 for a directly applied modifier ------------------------------------------------------------- *)
Section AfterModifier.
Variable E : menv.

Lemma replay_groups_sum : forall evs c, c_groups (replay evs c) = group_events_sum evs (c_groups c).
Proof.
  induction evs as [|e evs IH]; intro c; [reflexivity|].
  cbn [replay fold_left group_events_sum]. fold (replay evs (apply_event c e)). rewrite IH.
  f_equal. destruct e; destruct c; reflexivity.
Qed.

Lemma erase_groups : forall a b, erase a = erase b -> c_groups a = c_groups b.
Proof. intros a b H. apply erase_same in H. destruct H as [_ [_ [_ [_ [_ [_ [Hg _]]]]]]]. exact Hg. Qed.

Lemma erase_qualifies : forall a b g, erase a = erase b -> qualifies E g a = qualifies E g b.
Proof.
  intros a b g H. unfold qualifies, is_active, qview.
  assert (Hs : c_status a = c_status b) by (apply erase_same in H; unfold same_contact in H; tauto).
  assert (Hq : erase (with_groups a []) = erase (with_groups b [])).
  { destruct a, b. unfold erase, with_urns, with_groups in *. cbn in *. inversion H; subst. reflexivity. }
  rewrite Hs, Hq. reflexivity.
Qed.

(* an effective modifier: membership is right afterwards, a non-active contact is in no group at all, and the
   groups-changed events add up to the membership change *)
Theorem after_modifier : forall fresh m c c' evs,
  wf_contact E c -> mod_wf E m ->
  apply E fresh m c = (c', evs, true) ->
  Consistent E c'
  /\ (is_active c' = false -> c_groups c' = [])
  /\ group_events_sum evs (c_groups c) = c_groups c'
  /\ wf_contact E c'.
Proof.
  intros fresh m c c' evs Hwf Hm H.
  assert (Hrep := replay_modifier E fresh m c c' evs true Hwf Hm H).
  unfold apply in H. destruct (apply_inner E fresh m c) as [[c1 evs1] b1] eqn:HI.
  destruct (apply_inner_spec E fresh m c c1 evs1 b1 Hwf Hm HI) as [_ [_ [_ [_ Hwf1]]]].
  destruct b1; [|inversion H].
  destruct (reevaluate_groups E c1) as [c2 evs2] eqn:HR. inversion H; subst c' evs.
  destruct (reevaluate_groups_spec E c1 c2 evs2 Hwf1 HR) as [G1 [G2 [G3 [G4 _]]]].
  split; [exact G3|]. split.
  - intro Hact. apply G4. rewrite G1 in Hact. destruct c1; exact Hact.
  - split; [|exact G2]. rewrite <- replay_groups_sum. apply erase_groups. exact Hrep.
Qed.

(* a modifier that changes nothing leaves membership as it was: right if it was right *)
Theorem after_noop_modifier : forall fresh m c c' evs,
  wf_contact E c -> mod_wf E m ->
  apply E fresh m c = (c', evs, false) ->
  erase c' = erase c /\ (Consistent E c -> Consistent E c') /\ wf_contact E c'
  /\ (NoStaticIfInactive E c -> NoStaticIfInactive E c').
Proof.
  intros fresh m c c' evs Hwf Hm H. unfold apply in H.
  destruct (apply_inner E fresh m c) as [[c1 evs1] b1] eqn:HI.
  destruct (apply_inner_spec E fresh m c c1 evs1 b1 Hwf Hm HI) as [_ [_ [H3 [_ Hwf1]]]].
  destruct b1; [destruct (reevaluate_groups E c1); inversion H|]. inversion H; subst c' evs.
  specialize (H3 eq_refl). split; [exact H3|]. split; [|split; [exact Hwf1|]].
  - intros HC g Hall Hu. rewrite (erase_groups _ _ H3), (erase_qualifies _ _ g H3). apply HC; assumption.
  - intros HN Hact g Hin. rewrite (erase_groups _ _ H3) in Hin. apply HN; [|exact Hin].
    assert (Hs := erase_same _ _ H3). unfold same_contact in Hs. unfold is_active in *.
    destruct Hs as [_ [_ [Hs _]]]. rewrite <- Hs. exact Hact.
Qed.

(* any contact visibly equal to one with right membership has right membership (for any evaluator) *)
Lemma consistent_erase : forall c c', erase c' = erase c -> Consistent E c -> Consistent E c'.
Proof.
  intros c c' H3 HC g Hall Hu. rewrite (erase_groups _ _ H3), (erase_qualifies _ _ g H3). apply HC; assumption.
Qed.

End AfterModifier.

(* ---- examples: the hypotheses are satisfiable, and the no-op clause is false without its premise ------------ *)
Definition ex_env : menv :=
  {| max_field_chars := 640;
     urn_norm1 := fun u => u; urn_valid := fun _ => true; urn_identity := fun u => u; urn_scheme := fun _ => 1;
     urn_set_channel := fun _ u => u; urn_channel := fun _ => None; tel_scheme := 1;
     chan_can_send := fun _ => true; chan_supports := fun _ _ => true;
     field_types := [FText];
     parse_num := fun _ => None; parse_dt := fun _ => None; parse_loc := fun _ _ _ => ([], [], []);
     all_groups := [0; 1]; uses_query := fun g => N.eqb g 1;
     matches := fun _ c => text_eqb (c_name c) [98; 111; 98] |}.

Definition ex_contact (name : text) (gs : list N) : contact :=
  {| c_name := name; c_lang := 1; c_status := Active; c_tz := None; c_last_seen := None;
     c_urns := []; c_groups := gs; c_fields := []; c_ticket := None |}.

Example ex_wf : wf_contact ex_env (ex_contact [106] [0; 1]) /\ mod_wf ex_env (MGroups [0] GAdd).
Proof.
  split; [split|].
  - repeat constructor; cbn; intuition discriminate.
  - intros g [H|[H|[]]]; subst; cbn; tauto.
  - intros g [H|[]]; subst; cbn; tauto.
Qed.

(* the modifier changes the name to "bob": the contact joins query group 1, and the events replay *)
Example ex_effective :
  apply ex_env 7 (MName [98; 111; 98]) (ex_contact [106] [0])
  = (ex_contact [98; 111; 98] [0; 1], [ENameChanged [98; 111; 98]; EGroupsChanged [1] []], true).
Proof. reflexivity. Qed.

(* F6b: contact "j" stored as a member of query group 1 (name = "bob"); a language modifier that changes nothing
   reports false, emits nothing, and the wrong membership stays *)
Theorem after_noop_modifier_refuted :
  exists E fresh m c c' evs,
    wf_contact E c /\ mod_wf E m /\ apply E fresh m c = (c', evs, false) /\ ~ Consistent E c'.
Proof.
  exists ex_env, 7, (MLanguage 1), (ex_contact [106] [0; 1]), (ex_contact [106] [0; 1]), [].
  split; [exact (proj1 ex_wf)|]. split; [exact I|]. split; [reflexivity|].
  intro HC. specialize (HC 1 (or_intror (or_introl eq_refl)) eq_refl). cbn in HC.
  destruct HC as [HC _]. specialize (HC (or_intror (or_introl eq_refl))). discriminate.
Qed.

(* the static twin of F6b: a contact stored as blocked and still listed in a static group stays in it after a modifier
   that changes nothing (the clause of the statement speaks of a contact that BECOMES non-active; listed as known
   finding next to F6b) *)
Theorem after_noop_modifier_static_refuted :
  exists E fresh m c c' evs,
    wf_contact E c /\ mod_wf E m /\ apply E fresh m c = (c', evs, false) /\ ~ NoStaticIfInactive E c'.
Proof.
  exists ex_env, 7, (MStatus Blocked), (with_status (ex_contact [106] [0]) Blocked), (with_status (ex_contact [106] [0]) Blocked), [].
  split; [split; [repeat constructor; cbn; intuition discriminate | intros g [H|[]]; subst; cbn; tauto]|].
  split; [exact I|]. split; [reflexivity|].
  intro HN. specialize (HN eq_refl 0 (or_introl eq_refl)). discriminate.
Qed.
