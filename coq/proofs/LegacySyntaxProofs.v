(* LegacySyntaxProofs.v — proofs about model/LegacySyntax.v (property C17).

   Main results
     lex3_print3   : the Excellent3 lexer reads the canonical print of a well-formed, lexically sane tree
                     back as exactly the token sequence flat3 of that tree
     parse3_flat3  : the Excellent3 parser (with the fuel of parse3_toks) rebuilds a precedence-stable tree
                     from its own token sequence
     parse3_print3 : parse3 (print3 t) = Some t
     parse1_wf     : the legacy parser only produces precedence-stable trees *)
From Coq Require Import List NArith Bool Arith Lia.
From Verif Require Import model.LegacyTy gen.LegacyTable model.LegacySyntax proofs.LegacyWf.
Import ListNotations.
Open Scope N_scope.

(* ---------------------------------------------------------------------------------------------- *)
(* induction principle for e3 (nested list in X3Call) *)

Section E3Ind.
  Variable P : e3 -> Prop.
  Hypothesis HText : forall raw, P (X3Text raw).
  Hypothesis HNum : forall raw, P (X3Num raw).
  Hypothesis HTrue : P X3True.
  Hypothesis HFalse : P X3False.
  Hypothesis HNull : P X3Null.
  Hypothesis HRef : forall n, P (X3Ref n).
  Hypothesis HDot : forall c l, P c -> P (X3Dot c l).
  Hypothesis HIndex : forall c i, P c -> P i -> P (X3Index c i).
  Hypothesis HCall : forall f args, P f -> Forall P args -> P (X3Call f args).
  Hypothesis HParen : forall e, P e -> P (X3Paren e).
  Hypothesis HNeg : forall e, P e -> P (X3Neg e).
  Hypothesis HBin : forall o a b, P a -> P b -> P (X3Bin o a b).

  Fixpoint e3_ind' (t : e3) : P t :=
    match t with
    | X3Text raw => HText raw
    | X3Num raw => HNum raw
    | X3True => HTrue
    | X3False => HFalse
    | X3Null => HNull
    | X3Ref n => HRef n
    | X3Dot c l => HDot c l (e3_ind' c)
    | X3Index c i => HIndex c i (e3_ind' c) (e3_ind' i)
    | X3Call f args =>
        HCall f args (e3_ind' f)
          ((fix go (l : list e3) : Forall P l :=
              match l with
              | [] => Forall_nil P
              | x :: r => Forall_cons x (e3_ind' x) (go r)
              end) args)
    | X3Paren e => HParen e (e3_ind' e)
    | X3Neg e => HNeg e (e3_ind' e)
    | X3Bin o a b => HBin o a b (e3_ind' a) (e3_ind' b)
    end.
End E3Ind.

(* the nested fixpoints of print3 / flat3 as top-level functions *)
Fixpoint print_args (l : list e3) : text :=
  match l with
  | [] => []
  | [x] => print3 x
  | x :: r => print3 x ++ comma_space ++ print_args r
  end.

Fixpoint flat_args (l : list e3) : list tok :=
  match l with
  | [] => []
  | [x] => flat3 x
  | x :: r => flat3 x ++ TComma :: flat_args r
  end.

Lemma print3_call : forall f args,
  print3 (X3Call f args) = print3 f ++ 40 :: print_args args ++ [41].
Proof. reflexivity. Qed.

Lemma flat3_call : forall f args,
  flat3 (X3Call f args) = flat3 f ++ TLParen :: flat_args args ++ [TRParen].
Proof. reflexivity. Qed.

(* ---------------------------------------------------------------------------------------------- *)
(* generic list / text facts *)

Lemma text_eqb_eq : forall a b, text_eqb a b = true -> a = b.
Proof.
  induction a as [|x a IH]; destruct b as [|y b]; simpl; intros H; try discriminate; auto.
  apply andb_true_iff in H. destruct H as [H1 H2].
  apply N.eqb_eq in H1. subst y. f_equal. auto.
Qed.

Lemma span_app : forall (p : N -> bool) a rest,
  forallb p a = true ->
  match rest with [] => True | c :: _ => p c = false end ->
  span p (a ++ rest) = (a, rest).
Proof.
  induction a as [|x a IH]; intros rest Ha Hr; simpl in *.
  - destruct rest as [|c r]; simpl; auto. rewrite Hr. reflexivity.
  - apply andb_true_iff in Ha. destruct Ha as [Hx Ha]. rewrite Hx.
    rewrite (IH rest Ha Hr). reflexivity.
Qed.

Lemma span_spec : forall (p : N -> bool) s a b,
  span p s = (a, b) ->
  s = a ++ b /\ forallb p a = true /\ match b with [] => True | c :: _ => p c = false end.
Proof.
  induction s as [|c s IH]; intros a b H; simpl in H.
  - inversion H; subst. simpl. auto.
  - destruct (p c) eqn:Hc.
    + destruct (span p s) as [a' b'] eqn:Hs. inversion H; subst.
      destruct (IH a' b eq_refl) as [E [F G]]. subst s. simpl. rewrite Hc, F. auto.
    + inversion H; subst. simpl. auto.
Qed.

Lemma firstn_len_app : forall (A : Type) (a b : list A), firstn (length a) (a ++ b) = a.
Proof.
  intros A a b. rewrite firstn_app, Nat.sub_diag, firstn_all. simpl. apply app_nil_r.
Qed.

(* the skip counter of the lexer loop *)
Lemma lex_loop_skip : forall tk (a r : text), lex_loop tk (length a) (a ++ r) = lex_loop tk 0 r.
Proof.
  induction a as [|x a IH]; intros r; simpl.
  - destruct r; reflexivity.
  - apply IH.
Qed.

Lemma lex_loop_cons0 : forall tk c r,
  lex_loop tk 0 (c :: r) =
  if is_ws c then lex_loop tk 0 r else let (t, n) := tk c r in t :: lex_loop tk n r.
Proof. reflexivity. Qed.

(* ---------------------------------------------------------------------------------------------- *)
(* code-point classes *)

Lemma digit_range : forall c, ascii_digit c = true -> 48 <= c /\ c <= 57.
Proof.
  intros c H. unfold ascii_digit in H. apply andb_true_iff in H. destruct H as [H1 H2].
  apply N.leb_le in H1. apply N.leb_le in H2. auto.
Qed.

Lemma digit_udigit : forall c, ascii_digit c = true -> udigit c = true.
Proof.
  intros c H. destruct (digit_range c H) as [H1 H2]. unfold udigit.
  assert (E : (c <? 128) = true) by (apply N.ltb_lt; lia). rewrite E. exact H.
Qed.

Lemma digit_name_char : forall c, ascii_digit c = true -> name_char3 c = true.
Proof.
  intros c H. unfold name_char3. rewrite (digit_udigit c H). rewrite orb_true_r. reflexivity.
Qed.

Lemma digit_not_name_start : forall c, ascii_digit c = true -> name_start3 c = false.
Proof.
  intros c H. destruct (digit_range c H) as [H1 H2]. unfold name_start3, uletter.
  assert (E : (c <? 128) = true) by (apply N.ltb_lt; lia). rewrite E.
  unfold ascii_letter, ascii_upper, ascii_lower.
  destruct (N.leb_spec 65 c); destruct (N.leb_spec c 90); destruct (N.leb_spec 97 c);
    destruct (N.leb_spec c 122); destruct (N.eqb_spec c 95); simpl; try reflexivity; lia.
Qed.

Lemma name_start_not_digit : forall c, name_start3 c = true -> ascii_digit c = false.
Proof.
  intros c H. destruct (ascii_digit c) eqn:E; [|reflexivity].
  rewrite (digit_not_name_start c E) in H. discriminate H.
Qed.

(* [c] is none of the listed constants because the class [H] is false on each of them *)
Ltac kill_consts H c :=
  repeat match goal with
  | |- context [N.eqb c ?k] =>
      destruct (N.eqb_spec c k) as [->|_]; [vm_compute in H; discriminate H|]
  end.

Lemma name_start_not_ws : forall c, name_start3 c = true -> is_ws c = false.
Proof. intros c H. unfold is_ws. kill_consts H c. reflexivity. Qed.

Lemma digit_not_ws : forall c, ascii_digit c = true -> is_ws c = false.
Proof. intros c H. unfold is_ws. kill_consts H c. reflexivity. Qed.

Lemma tok_at3_name : forall c r, name_start3 c = true ->
  tok_at3 c r = (let (w, _) := span name_char3 r in (classify3 (c :: w), length w)).
Proof.
  intros c r H. unfold tok_at3. kill_consts H c. cbv iota.
  rewrite (name_start_not_digit c H), H. reflexivity.
Qed.

Lemma tok_at3_digit : forall c r, ascii_digit c = true ->
  tok_at3 c r = (let (n, frac) := number_len r in
                 (if frac then TDec (c :: firstn n r) else TInt (c :: firstn n r), n)).
Proof.
  intros c r H. unfold tok_at3. kill_consts H c. cbv iota. rewrite H. reflexivity.
Qed.

(* what may follow a printed token *)
Definition follow_gen (rest : text) : Prop :=
  match rest with [] => True | c :: _ => name_char3 c = false end.
Definition nodot (rest : text) : Prop :=
  match rest with [] => True | c :: _ => c <> 46 end.

Lemma follow_gen_digit : forall rest, follow_gen rest ->
  match rest with [] => True | c :: _ => ascii_digit c = false end.
Proof.
  intros [|c r] H; simpl in *; auto.
  destruct (ascii_digit c) eqn:E; [|reflexivity].
  rewrite (digit_name_char c E) in H. discriminate H.
Qed.

(* ---------------------------------------------------------------------------------------------- *)
(* per-token lexer lemmas *)

Lemma lex_word : forall c r rest,
  name_start3 c = true -> forallb name_char3 r = true -> follow_gen rest ->
  lex3 (c :: r ++ rest) = classify3 (c :: r) :: lex3 rest.
Proof.
  intros c r rest Hc Hr Hf. unfold lex3.
  rewrite lex_loop_cons0, (name_start_not_ws c Hc), (tok_at3_name c _ Hc).
  rewrite (span_app name_char3 r rest Hr Hf).
  rewrite lex_loop_skip. reflexivity.
Qed.

Lemma lex_name : forall n rest, name_ok3 n = true -> follow_gen rest ->
  lex3 (n ++ rest) = TName n :: lex3 rest.
Proof.
  intros [|c r] rest H Hf; [discriminate H|].
  unfold name_ok3 in H. apply andb_true_iff in H. destruct H as [H Hk].
  apply andb_true_iff in H. destruct H as [Hc Hr].
  change ((c :: r) ++ rest) with (c :: r ++ rest).
  rewrite (lex_word c r rest Hc Hr Hf). f_equal.
  unfold classify3 in *.
  destruct (text_eqb (lower_ascii (c :: r)) t_true); [discriminate Hk|].
  destruct (text_eqb (lower_ascii (c :: r)) t_false); [discriminate Hk|].
  destruct (text_eqb (lower_ascii (c :: r)) t_null); [discriminate Hk|].
  reflexivity.
Qed.

Lemma lex_true : forall rest, follow_gen rest -> lex3 (t_true ++ rest) = TTrue :: lex3 rest.
Proof.
  intros rest Hf. unfold t_true. change ([116; 114; 117; 101] ++ rest) with (116 :: [114; 117; 101] ++ rest).
  rewrite lex_word; [reflexivity | vm_compute; reflexivity | vm_compute; reflexivity | exact Hf].
Qed.

Lemma lex_false : forall rest, follow_gen rest -> lex3 (t_false ++ rest) = TFalse :: lex3 rest.
Proof.
  intros rest Hf. unfold t_false.
  change ([102; 97; 108; 115; 101] ++ rest) with (102 :: [97; 108; 115; 101] ++ rest).
  rewrite lex_word; [reflexivity | vm_compute; reflexivity | vm_compute; reflexivity | exact Hf].
Qed.

Lemma lex_NULL : forall rest, follow_gen rest -> lex3 (t_NULL ++ rest) = TNull :: lex3 rest.
Proof.
  intros rest Hf. unfold t_NULL.
  change ([78; 85; 76; 76] ++ rest) with (78 :: [85; 76; 76] ++ rest).
  rewrite lex_word; [reflexivity | vm_compute; reflexivity | vm_compute; reflexivity | exact Hf].
Qed.

Lemma digits_no_dot : forall s, forallb ascii_digit s = true -> has_dot s = false.
Proof.
  induction s as [|c s IH]; simpl; intros H; [reflexivity|].
  apply andb_true_iff in H. destruct H as [Hc Hs].
  destruct (digit_range c Hc) as [H1 H2].
  destruct (N.eqb_spec c 46) as [E|_]; [lia|]. simpl. apply IH. exact Hs.
Qed.

Lemma lex_num : forall raw rest, num_ok raw = true -> follow_gen rest -> nodot rest ->
  lex3 (raw ++ rest) = num_tok raw :: lex3 rest.
Proof.
  intros raw rest H Hf Hd. unfold num_ok in H.
  destruct (span ascii_digit raw) as [ip r] eqn:Hs.
  destruct (span_spec _ _ _ _ Hs) as [Eraw [Hip Hr]].
  apply andb_true_iff in H. destruct H as [Hne H].
  destruct ip as [|d ip]; [discriminate Hne|]. clear Hne.
  simpl in Hip. apply andb_true_iff in Hip. destruct Hip as [Hd0 Hip].
  subst raw. unfold lex3.
  destruct r as [|c fp].
  - (* integer *)
    rewrite app_nil_r. change ((d :: ip) ++ rest) with (d :: ip ++ rest).
    rewrite lex_loop_cons0, (digit_not_ws d Hd0), (tok_at3_digit d _ Hd0).
    assert (En : number_len (ip ++ rest) = (length ip, false)).
    { unfold number_len. rewrite (span_app ascii_digit ip rest Hip (follow_gen_digit rest Hf)).
      destruct rest as [|c1 [|c2 r2]]; try reflexivity.
      simpl in Hd. destruct (N.eqb_spec c1 46) as [E|_]; [contradiction|]. reflexivity. }
    rewrite En. rewrite firstn_len_app, lex_loop_skip.
    unfold num_tok. rewrite digits_no_dot; [reflexivity|].
    simpl. rewrite Hd0, Hip. reflexivity.
  - (* decimal *)
    apply andb_true_iff in H. destruct H as [H Hfp].
    apply andb_true_iff in H. destruct H as [Hc Hne].
    apply N.eqb_eq in Hc. subst c.
    destruct fp as [|f1 fp]; [discriminate Hne|]. clear Hne.
    simpl in Hfp. apply andb_true_iff in Hfp. destruct Hfp as [Hf1 Hfp].
    replace (((d :: ip) ++ 46 :: f1 :: fp) ++ rest) with (d :: ip ++ 46 :: f1 :: fp ++ rest)
      by (simpl; rewrite <- app_assoc; reflexivity).
    rewrite lex_loop_cons0, (digit_not_ws d Hd0), (tok_at3_digit d _ Hd0).
    assert (En : number_len (ip ++ 46 :: f1 :: fp ++ rest)
                 = (length (ip ++ 46 :: f1 :: fp), true)).
    { unfold number_len.
      rewrite (span_app ascii_digit ip (46 :: f1 :: fp ++ rest) Hip eq_refl).
      rewrite Hf1. simpl andb. cbv iota.
      rewrite (span_app ascii_digit fp rest Hfp (follow_gen_digit rest Hf)).
      f_equal. rewrite app_length. simpl. lia. }
    rewrite En.
    replace (ip ++ 46 :: f1 :: fp ++ rest) with ((ip ++ 46 :: f1 :: fp) ++ rest)
      by (rewrite <- app_assoc; reflexivity).
    rewrite firstn_len_app, lex_loop_skip.
    unfold num_tok.
    assert (Ed : has_dot ((d :: ip) ++ 46 :: f1 :: fp) = true).
    { unfold has_dot. rewrite existsb_app. simpl. rewrite orb_true_r. reflexivity. }
    rewrite Ed. reflexivity.
Qed.

Lemma text3_len_body : forall body pb rest,
  quotes_escaped pb body = true ->
  text3_len (body ++ c_dquote :: rest) pb = Some (S (length body)).
Proof.
  induction body as [|c body IH]; intros pb rest H; simpl in H.
  - destruct pb; [discriminate H|]. reflexivity.
  - change ((c :: body) ++ c_dquote :: rest) with (c :: body ++ c_dquote :: rest).
    simpl text3_len. destruct (c =? c_dquote).
    + apply andb_true_iff in H. destruct H as [Hp H]. subst pb.
      rewrite (IH false rest H). reflexivity.
    + rewrite (IH _ rest H). reflexivity.
Qed.

Lemma lex_text : forall raw rest, text_ok raw = true ->
  lex3 (raw ++ rest) = TText raw :: lex3 rest.
Proof.
  intros raw rest H. unfold text_ok in H. apply andb_true_iff in H. destruct H as [He Hq].
  apply text_eqb_eq in He. set (body := removelast (tl raw)) in *.
  rewrite He. unfold lex3.
  replace ((c_dquote :: body ++ [c_dquote]) ++ rest) with (c_dquote :: body ++ c_dquote :: rest)
    by (simpl; rewrite <- app_assoc; reflexivity).
  rewrite lex_loop_cons0. change (is_ws c_dquote) with false. cbv iota.
  assert (Et : tok_at3 c_dquote (body ++ c_dquote :: rest)
               = (TText (c_dquote :: body ++ [c_dquote]), S (length body))).
  { unfold tok_at3. change (c_dquote =? 44) with false. cbv iota.
    change (c_dquote =? c_dquote) with true.
    change (c_dquote =? 40) with false. change (c_dquote =? 41) with false.
    change (c_dquote =? 91) with false. change (c_dquote =? 93) with false.
    change (c_dquote =? 46) with false. change (c_dquote =? 43) with false.
    change (c_dquote =? 45) with false. change (c_dquote =? 42) with false.
    change (c_dquote =? 47) with false. change (c_dquote =? 94) with false.
    change (c_dquote =? 38) with false. change (c_dquote =? 61) with false.
    change (c_dquote =? 33) with false. change (c_dquote =? 60) with false.
    change (c_dquote =? 62) with false. cbv iota.
    rewrite (text3_len_body body false rest Hq).
    replace (body ++ c_dquote :: rest) with ((body ++ [c_dquote]) ++ rest)
      by (rewrite <- app_assoc; reflexivity).
    replace (S (length body)) with (length (body ++ [c_dquote]))
      by (rewrite app_length; simpl; lia).
    rewrite firstn_len_app. reflexivity. }
  rewrite Et.
  replace (body ++ c_dquote :: rest) with ((body ++ [c_dquote]) ++ rest)
    by (rewrite <- app_assoc; reflexivity).
  replace (S (length body)) with (length (body ++ [c_dquote]))
    by (rewrite app_length; simpl; lia).
  rewrite lex_loop_skip. reflexivity.
Qed.

Lemma lex_op : forall o X, lex3 (32 :: op_text o ++ 32 :: X) = TOp o :: lex3 X.
Proof. intros o X. destruct o; reflexivity. Qed.

(* ---------------------------------------------------------------------------------------------- *)
(* the lexer reads a printed tree back as its token sequence *)

Ltac norm_app := repeat first [rewrite <- app_assoc | progress cbn [app]].

Definition lex_stmt (t : e3) : Prop :=
  wf3b t = true -> lex_ok t = true ->
  forall rest, follow_gen rest -> (is_atom t = false -> nodot rest) ->
  lex3 (print3 t ++ rest) = flat3 t ++ lex3 rest.

Lemma follow_gen_const : forall c r, name_char3 c = false -> follow_gen (c :: r).
Proof. intros c r H. exact H. Qed.

Lemma lex_args : forall args,
  Forall lex_stmt args -> forallb wf3b args = true -> forallb lex_ok args = true ->
  forall rest, lex3 (print_args args ++ 41 :: rest) = flat_args args ++ TRParen :: lex3 rest.
Proof.
  induction args as [|x args IH]; intros HF Hw Hl rest.
  - reflexivity.
  - inversion HF as [|x' l' Hx HF']; subst.
    simpl in Hw, Hl. apply andb_true_iff in Hw. destruct Hw as [Hwx Hw].
    apply andb_true_iff in Hl. destruct Hl as [Hlx Hl].
    destruct args as [|y ys].
    + simpl print_args. simpl flat_args.
      rewrite (Hx Hwx Hlx (41 :: rest)); [reflexivity | vm_compute; reflexivity | intros _; simpl; discriminate].
    + change (print_args (x :: y :: ys)) with (print3 x ++ comma_space ++ print_args (y :: ys)).
      change (flat_args (x :: y :: ys)) with (flat3 x ++ TComma :: flat_args (y :: ys)).
      rewrite <- !app_assoc. unfold comma_space.
      change ([44; 32] ++ print_args (y :: ys) ++ 41 :: rest)
        with (44 :: 32 :: print_args (y :: ys) ++ 41 :: rest).
      rewrite (Hx Hwx Hlx); [| vm_compute; reflexivity | intros _; simpl; discriminate].
      change (lex3 (44 :: 32 :: print_args (y :: ys) ++ 41 :: rest))
        with (TComma :: lex3 (print_args (y :: ys) ++ 41 :: rest)).
      rewrite (IH HF' Hw Hl rest). reflexivity.
Qed.

Lemma lex3_print3_gen : forall t, lex_stmt t.
Proof.
  induction t using e3_ind'; unfold lex_stmt; intros Hw Hl rest Hf Hd.
  - (* Text *) simpl. apply lex_text. exact Hl.
  - (* Num *) simpl. apply lex_num; auto.
  - simpl print3. simpl flat3. apply lex_true. exact Hf.
  - simpl print3. simpl flat3. apply lex_false. exact Hf.
  - simpl print3. simpl flat3. apply lex_NULL. exact Hf.
  - (* Ref *) simpl. apply lex_name; auto.
  - (* Dot *)
    simpl in Hw, Hl. apply andb_true_iff in Hw. destruct Hw as [Ha Hw].
    apply andb_true_iff in Hl. destruct Hl as [Hlc Hll].
    simpl print3. simpl flat3. norm_app.
    rewrite (IHt Hw Hlc (46 :: l ++ rest));
      [| vm_compute; reflexivity | intros E; rewrite E in Ha; discriminate Ha].
    change (lex3 (46 :: l ++ rest)) with (TDot :: lex3 (l ++ rest)).
    rewrite (lex_name l rest Hll Hf).
    assert (El : lookup_tok l = TName l).
    { destruct l as [|c r]; [reflexivity|]. unfold name_ok3 in Hll.
      apply andb_true_iff in Hll. destruct Hll as [Hll _].
      apply andb_true_iff in Hll. destruct Hll as [Hc _].
      unfold lookup_tok. rewrite (name_start_not_digit c Hc). reflexivity. }
    rewrite El. reflexivity.
  - (* Index *)
    simpl in Hw, Hl. apply andb_true_iff in Hw. destruct Hw as [Hw Hwi].
    apply andb_true_iff in Hw. destruct Hw as [Ha Hwc].
    apply andb_true_iff in Hl. destruct Hl as [Hlc Hli].
    simpl print3. simpl flat3. norm_app.
    rewrite (IHt1 Hwc Hlc);
      [| vm_compute; reflexivity | intros E; rewrite E in Ha; discriminate Ha].
    change (lex3 (91 :: print3 t2 ++ 93 :: rest)) with (TLBrack :: lex3 (print3 t2 ++ 93 :: rest)).
    rewrite (IHt2 Hwi Hli (93 :: rest)); [| vm_compute; reflexivity | intros _; simpl; discriminate].
    reflexivity.
  - (* Call *)
    simpl in Hw, Hl. apply andb_true_iff in Hw. destruct Hw as [Hw Hwa].
    apply andb_true_iff in Hw. destruct Hw as [Ha Hwf].
    apply andb_true_iff in Hl. destruct Hl as [Hlf Hla].
    rewrite print3_call, flat3_call. norm_app.
    rewrite (IHt Hwf Hlf);
      [| vm_compute; reflexivity | intros E; rewrite E in Ha; discriminate Ha].
    change (lex3 (40 :: print_args args ++ 41 :: rest))
      with (TLParen :: lex3 (print_args args ++ 41 :: rest)).
    rewrite (lex_args args H Hwa Hla rest). reflexivity.
  - (* Paren *)
    simpl in Hw, Hl. simpl print3. simpl flat3.
    norm_app.
    change (lex3 (40 :: print3 t ++ 41 :: rest)) with (TLParen :: lex3 (print3 t ++ 41 :: rest)).
    rewrite (IHt Hw Hl (41 :: rest)); [| vm_compute; reflexivity | intros _; simpl; discriminate].
    reflexivity.
  - (* Neg *)
    simpl in Hw, Hl. apply andb_true_iff in Hw. destruct Hw as [_ Hw].
    simpl print3. simpl flat3.
    change ((45 :: print3 t) ++ rest) with (45 :: print3 t ++ rest).
    change (lex3 (45 :: print3 t ++ rest)) with (TOp OSub :: lex3 (print3 t ++ rest)).
    rewrite (IHt Hw Hl rest Hf); [reflexivity|]. intros _. apply Hd. reflexivity.
  - (* Bin *)
    simpl in Hw, Hl. apply andb_true_iff in Hw. destruct Hw as [Hw Hwb].
    apply andb_true_iff in Hw. destruct Hw as [_ Hwa].
    apply andb_true_iff in Hl. destruct Hl as [Hla Hlb].
    simpl print3. simpl flat3. norm_app.
    rewrite (IHt1 Hwa Hla); [| vm_compute; reflexivity | intros _; simpl; discriminate].
    rewrite lex_op.
    rewrite (IHt2 Hwb Hlb rest Hf); [reflexivity|]. intros _. apply Hd. reflexivity.
Qed.

Theorem lex3_print3 : forall t, wf3b t = true -> lex_ok t = true -> lex3 (print3 t) = flat3 t.
Proof.
  intros t Hw Hl.
  assert (H := lex3_print3_gen t Hw Hl [] I (fun _ => I)).
  rewrite !app_nil_r in H. exact H.
Qed.

(* ---------------------------------------------------------------------------------------------- *)
(* the Excellent3 parser: unfolding equations and fuel monotonicity *)

Lemma pexpr3_S : forall f p ts,
  pexpr3 (S f) p ts =
  match pprim3 f ts with
  | Some (l, r) => ploop3 f p l r
  | None => None
  end.
Proof. reflexivity. Qed.

Lemma pprim3_S : forall f ts,
  pprim3 (S f) ts =
  match ts with
  | TOp OSub :: r =>
      match pexpr3 f neg_prec r with
      | Some (e, r') => Some (X3Neg e, r')
      | None => None
      end
  | TText raw :: r => Some (X3Text raw, r)
  | TInt raw :: r => Some (X3Num raw, r)
  | TDec raw :: r => Some (X3Num raw, r)
  | TTrue :: r => Some (X3True, r)
  | TFalse :: r => Some (X3False, r)
  | TNull :: r => Some (X3Null, r)
  | TName n :: r => psuffix3 f (X3Ref n) r
  | TLParen :: r =>
      match pexpr3 f O r with
      | Some (e, TRParen :: r') => psuffix3 f (X3Paren e) r'
      | _ => None
      end
  | _ => None
  end.
Proof. reflexivity. Qed.

Lemma psuffix3_S : forall f a ts,
  psuffix3 (S f) a ts =
  match ts with
  | TLParen :: TRParen :: r => psuffix3 f (X3Call a []) r
  | TLParen :: r =>
      match pargs3 f r with
      | Some (args, r') => psuffix3 f (X3Call a args) r'
      | None => None
      end
  | TDot :: TName n :: r => psuffix3 f (X3Dot a n) r
  | TDot :: TInt n :: r => psuffix3 f (X3Dot a n) r
  | TLBrack :: r =>
      match pexpr3 f O r with
      | Some (i, TRBrack :: r') => psuffix3 f (X3Index a i) r'
      | _ => None
      end
  | _ => Some (a, ts)
  end.
Proof. reflexivity. Qed.

Lemma pargs3_S : forall f ts,
  pargs3 (S f) ts =
  match pexpr3 f O ts with
  | Some (e, TComma :: r) =>
      match pargs3 f r with
      | Some (es, r') => Some (e :: es, r')
      | None => None
      end
  | Some (e, TRParen :: r) => Some ([e], r)
  | _ => None
  end.
Proof. reflexivity. Qed.

Lemma ploop3_S : forall f p l ts,
  ploop3 (S f) p l ts =
  match ts with
  | TOp o :: r =>
      if Nat.leb p (prec o) then
        match pexpr3 f (S (prec o)) r with
        | Some (b, r') => ploop3 f p (X3Bin o l b) r'
        | None => None
        end
      else Some (l, ts)
  | _ => Some (l, ts)
  end.
Proof. reflexivity. Qed.

Definition mono3_at (n : nat) : Prop :=
  (forall p ts R, pexpr3 n p ts = Some R -> pexpr3 (S n) p ts = Some R) /\
  (forall ts R, pprim3 n ts = Some R -> pprim3 (S n) ts = Some R) /\
  (forall a ts R, psuffix3 n a ts = Some R -> psuffix3 (S n) a ts = Some R) /\
  (forall ts R, pargs3 n ts = Some R -> pargs3 (S n) ts = Some R) /\
  (forall p l ts R, ploop3 n p l ts = Some R -> ploop3 (S n) p l ts = Some R).

Lemma mono3_step : forall n, mono3_at n.
Proof.
  induction n as [|n IH]; unfold mono3_at.
  - repeat split; intros; discriminate.
  - destruct IH as (IHe & IHp & IHs & IHa & IHl). repeat split.
    + intros p ts R H. rewrite pexpr3_S in H |- *.
      destruct (pprim3 n ts) as [[l r]|] eqn:E; [|discriminate H].
      rewrite (IHp _ _ E). apply IHl. exact H.
    + intros ts R H. rewrite pprim3_S in H |- *.
      destruct ts as [|t ts]; [discriminate H|].
      destruct t; try discriminate H; try exact H.
      * destruct (pexpr3 n 0 ts) as [[e r]|] eqn:E; [|discriminate H].
        rewrite (IHe _ _ _ E). destruct r as [|[] r']; try discriminate H. apply IHs. exact H.
      * destruct o; try discriminate H.
        destruct (pexpr3 n neg_prec ts) as [[e r]|] eqn:E; [|discriminate H].
        rewrite (IHe _ _ _ E). exact H.
      * apply IHs. exact H.
    + intros a ts R H. rewrite psuffix3_S in H |- *.
      destruct ts as [|t ts]; [exact H|].
      destruct t; try exact H.
      * destruct ts as [|[] ts2]; try (apply IHs; exact H);
          (destruct (pargs3 n _) as [[args r']|] eqn:E; [|discriminate H];
           rewrite (IHa _ _ E); apply IHs; exact H).
      * destruct (pexpr3 n 0 ts) as [[i r]|] eqn:E; [|discriminate H].
        rewrite (IHe _ _ _ E). destruct r as [|[] r']; try discriminate H. apply IHs. exact H.
      * destruct ts as [|[] ts2]; try exact H; apply IHs; exact H.
    + intros ts R H. rewrite pargs3_S in H |- *.
      destruct (pexpr3 n 0 ts) as [[e r]|] eqn:E; [|discriminate H].
      rewrite (IHe _ _ _ E). destruct r as [|[] r']; try discriminate H; try exact H.
      destruct (pargs3 n r') as [[es r'']|] eqn:E2; [|discriminate H].
      rewrite (IHa _ _ E2). exact H.
    + intros p l ts R H. rewrite ploop3_S in H |- *.
      destruct ts as [|[] ts']; try exact H.
      destruct (Nat.leb p (prec o)); [|exact H].
      destruct (pexpr3 n (S (prec o)) ts') as [[b r']|] eqn:E; [|discriminate H].
      rewrite (IHe _ _ _ E). apply IHl. exact H.
Qed.

Lemma pexpr3_mono : forall n m p ts R, (n <= m)%nat -> pexpr3 n p ts = Some R -> pexpr3 m p ts = Some R.
Proof.
  intros n m p ts R Hle. induction Hle as [|m Hle IH]; intros H; [exact H|].
  apply (proj1 (mono3_step m)). apply IH. exact H.
Qed.

Lemma psuffix3_mono : forall n m a ts R, (n <= m)%nat ->
  psuffix3 n a ts = Some R -> psuffix3 m a ts = Some R.
Proof.
  intros n m a ts R Hle. induction Hle as [|m Hle IH]; intros H; [exact H|].
  apply (proj1 (proj2 (proj2 (mono3_step m)))). apply IH. exact H.
Qed.

Lemma ploop3_mono : forall n m p l ts R, (n <= m)%nat ->
  ploop3 n p l ts = Some R -> ploop3 m p l ts = Some R.
Proof.
  intros n m p l ts R Hle. induction Hle as [|m Hle IH]; intros H; [exact H|].
  apply (proj2 (proj2 (proj2 (proj2 (mono3_step m))))). apply IH. exact H.
Qed.

Lemma ploop3_pos : forall m p l ts R, ploop3 m p l ts = Some R -> (1 <= m)%nat.
Proof. intros [|m] p l ts R H; [discriminate H | lia]. Qed.

Lemma psuffix3_pos : forall m a ts R, psuffix3 m a ts = Some R -> (1 <= m)%nat.
Proof. intros [|m] a ts R H; [discriminate H | lia]. Qed.

(* ---------------------------------------------------------------------------------------------- *)
(* token sequences of trees *)

Lemma flat3_len : forall t, (1 <= length (flat3 t))%nat.
Proof.
  destruct t; simpl; try lia; rewrite app_length; simpl; lia.
Qed.

Definition not_rparen (ts : list tok) : Prop :=
  match ts with TRParen :: _ => False | _ => True end.

Lemma flat3_head : forall t r, not_rparen (flat3 t ++ r).
Proof.
  induction t; intros r; simpl; try exact I;
    try (rewrite <- app_assoc; auto; fail).
  unfold num_tok. destruct (has_dot raw); exact I.
Qed.

Lemma flat_args_head : forall x xs r, not_rparen (flat_args (x :: xs) ++ r).
Proof.
  intros x [|y ys] r.
  - apply flat3_head.
  - change (flat_args (x :: y :: ys)) with (flat3 x ++ TComma :: flat_args (y :: ys)).
    rewrite <- app_assoc. apply flat3_head.
Qed.

Definition nosuffix (rest : list tok) : Prop :=
  match rest with TLParen :: _ | TDot :: _ | TLBrack :: _ => False | _ => True end.

Definition nohigher (q : nat) (rest : list tok) : Prop :=
  match rest with TOp o :: _ => (prec o <= q)%nat | _ => True end.

Lemma psuffix3_stop : forall k a rest, nosuffix rest -> psuffix3 (S k) a rest = Some (a, rest).
Proof. intros k a [|[] r] H; simpl in H; try contradiction; reflexivity. Qed.

Lemma ploop3_stop : forall k p l rest,
  match rest with TOp o :: _ => (prec o < p)%nat | _ => True end ->
  ploop3 (S k) p l rest = Some (l, rest).
Proof.
  intros k p l [|[] r] H; try reflexivity.
  rewrite ploop3_S. destruct (Nat.leb_spec p (prec o)); [lia | reflexivity].
Qed.

Lemma psuffix3_call : forall f a ts,
  not_rparen ts ->
  psuffix3 (S f) a (TLParen :: ts) =
  match pargs3 f ts with
  | Some (args, r') => psuffix3 f (X3Call a args) r'
  | None => None
  end.
Proof. intros f a [|[] ts] H; simpl in H; try contradiction; reflexivity. Qed.

(* ---------------------------------------------------------------------------------------------- *)
(* the parser rebuilds a precedence-stable tree; fuel 3 per token suffices *)

Definition S_stmt (t : e3) : Prop :=
  forall n m p rest R,
    (p <= lvl3 t)%nat -> nosuffix rest -> nohigher (lvl3 t) rest ->
    (m + 3 * length (flat3 t) <= n)%nat ->
    ploop3 m p t rest = Some R ->
    pexpr3 n p (flat3 t ++ rest) = Some R.

Definition A_stmt (t : e3) : Prop :=
  forall n m rest R,
    (m + 3 * length (flat3 t) <= S n)%nat ->
    psuffix3 m t rest = Some R ->
    pprim3 n (flat3 t ++ rest) = Some R.

Definition P_stmt (t : e3) : Prop :=
  wf3b t = true -> S_stmt t /\ (is_atom t = true -> A_stmt t).

Lemma S_of_prim : forall t,
  (forall n rest, nosuffix rest -> (3 * length (flat3 t) <= n)%nat ->
     pprim3 n (flat3 t ++ rest) = Some (t, rest)) ->
  S_stmt t.
Proof.
  intros t Hprim n m p rest R Hp Hns Hnh Hn Hl.
  pose proof (ploop3_pos _ _ _ _ _ Hl) as Hm.
  pose proof (flat3_len t) as HL.
  destruct n as [|n]; [lia|].
  rewrite pexpr3_S. rewrite (Hprim n rest Hns) by lia.
  apply ploop3_mono with m; [lia | exact Hl].
Qed.

Lemma S_of_A : forall t, A_stmt t -> S_stmt t.
Proof.
  intros t HA. apply S_of_prim. intros n rest Hns Hn.
  apply (HA n 1%nat); [lia|]. apply psuffix3_stop. exact Hns.
Qed.

Lemma S_lit : forall t,
  (forall f rest, pprim3 (S f) (flat3 t ++ rest) = Some (t, rest)) -> S_stmt t.
Proof.
  intros t H. apply S_of_prim. intros n rest _ Hn.
  pose proof (flat3_len t). destruct n as [|f]; [lia|]. apply H.
Qed.

Lemma pargs3_flat : forall args,
  Forall P_stmt args -> forallb wf3b args = true -> args <> [] ->
  forall n rest, (3 * length (flat_args args) + 2 <= n)%nat ->
  pargs3 n (flat_args args ++ TRParen :: rest) = Some (args, rest).
Proof.
  induction args as [|x args IH]; intros HF Hw Hne n rest Hn; [congruence|].
  inversion HF as [|x' l' Hx HF']; subst.
  simpl in Hw. apply andb_true_iff in Hw. destruct Hw as [Hwx Hw].
  destruct (Hx Hwx) as [HS _].
  destruct n as [|f]; [lia|]. rewrite pargs3_S.
  destruct args as [|y ys].
  - simpl flat_args in *.
    rewrite (HS f 1%nat 0%nat (TRParen :: rest) (x, TRParen :: rest));
      [reflexivity | lia | exact I | exact I | lia | reflexivity].
  - change (flat_args (x :: y :: ys)) with (flat3 x ++ TComma :: flat_args (y :: ys)) in *.
    rewrite app_length in Hn. cbn [length] in Hn.
    rewrite <- app_assoc. cbn [app].
    rewrite (HS f 1%nat 0%nat (TComma :: flat_args (y :: ys) ++ TRParen :: rest)
               (x, TComma :: flat_args (y :: ys) ++ TRParen :: rest));
      [| lia | exact I | exact I | lia | reflexivity].
    rewrite (IH HF' Hw ltac:(discriminate) f rest) by lia.
    reflexivity.
Qed.

Lemma parse3_gen : forall t, P_stmt t.
Proof.
  induction t using e3_ind'; unfold P_stmt; intros Hw.
  - split; [|discriminate]. apply S_lit. reflexivity.
  - split; [|discriminate]. apply S_lit. intros f rest. simpl. unfold num_tok.
    destruct (has_dot raw); reflexivity.
  - split; [|discriminate]. apply S_lit. reflexivity.
  - split; [|discriminate]. apply S_lit. reflexivity.
  - split; [|discriminate]. apply S_lit. reflexivity.
  - (* Ref *)
    assert (HA : A_stmt (X3Ref n)).
    { intros k m rest R Hk Hs. simpl in *. destruct k as [|f]; [lia|].
      rewrite pprim3_S. apply psuffix3_mono with m; [lia | exact Hs]. }
    split; [apply S_of_A; exact HA | intros _; exact HA].
  - (* Dot *)
    cbn [wf3b] in Hw. apply andb_true_iff in Hw. destruct Hw as [Ha Hw].
    destruct (IHt Hw) as [_ HAc]. specialize (HAc Ha).
    assert (HA : A_stmt (X3Dot t l)).
    { intros k m rest R Hk Hs. simpl flat3 in *. rewrite app_length in Hk. cbn [length] in Hk.
      rewrite <- app_assoc. cbn [app].
      apply (HAc k (S m)); [lia|]. rewrite psuffix3_S.
      unfold lookup_tok. destruct l as [|c0 l0]; [exact Hs|].
      destruct (ascii_digit c0); exact Hs. }
    split; [apply S_of_A; exact HA | intros _; exact HA].
  - (* Index *)
    cbn [wf3b] in Hw. apply andb_true_iff in Hw. destruct Hw as [Hw Hwi].
    apply andb_true_iff in Hw. destruct Hw as [Ha Hwc].
    destruct (IHt1 Hwc) as [_ HAc]. specialize (HAc Ha).
    destruct (IHt2 Hwi) as [HSi _].
    assert (HA : A_stmt (X3Index t1 t2)).
    { intros k m rest R Hk Hs. simpl flat3 in *.
      rewrite !app_length in Hk. cbn [length] in Hk. rewrite app_length in Hk. cbn [length] in Hk.
      norm_app.
      pose proof (psuffix3_pos _ _ _ _ Hs) as Hm.
      apply (HAc k (S (m + 1 + 3 * length (flat3 t2)))); [lia|]. rewrite psuffix3_S.
      rewrite (HSi _ 1%nat 0%nat (TRBrack :: rest) (t2, TRBrack :: rest));
        [| lia | exact I | exact I | lia | reflexivity].
      apply psuffix3_mono with m; [lia | exact Hs]. }
    split; [apply S_of_A; exact HA | intros _; exact HA].
  - (* Call *)
    cbn [wf3b] in Hw. apply andb_true_iff in Hw. destruct Hw as [Hw Hwa].
    apply andb_true_iff in Hw. destruct Hw as [Ha Hwf].
    destruct (IHt Hwf) as [_ HAf]. specialize (HAf Ha).
    assert (HA : A_stmt (X3Call t args)).
    { intros k m rest R Hk Hs. rewrite flat3_call in *.
      rewrite !app_length in Hk. cbn [length] in Hk. rewrite app_length in Hk. cbn [length] in Hk.
      norm_app.
      pose proof (psuffix3_pos _ _ _ _ Hs) as Hm.
      apply (HAf k (S (m + 3 * length (flat_args args) + 2))); [lia|].
      destruct args as [|x xs].
      - simpl flat_args. cbn [app]. rewrite psuffix3_S.
        apply psuffix3_mono with m; [lia | exact Hs].
      - rewrite psuffix3_call by apply flat_args_head.
        rewrite (pargs3_flat (x :: xs) H Hwa ltac:(discriminate)) by lia.
        apply psuffix3_mono with m; [lia | exact Hs]. }
    split; [apply S_of_A; exact HA | intros _; exact HA].
  - (* Paren *)
    cbn [wf3b] in Hw. destruct (IHt Hw) as [HSe _].
    assert (HA : A_stmt (X3Paren t)).
    { intros k m rest R Hk Hs. simpl flat3 in *.
      cbn [length] in Hk. rewrite app_length in Hk. cbn [length] in Hk.
      norm_app.
      pose proof (psuffix3_pos _ _ _ _ Hs) as Hm.
      destruct k as [|f]; [lia|]. rewrite pprim3_S.
      rewrite (HSe f 1%nat 0%nat (TRParen :: rest) (t, TRParen :: rest));
        [| lia | exact I | exact I | lia | reflexivity].
      apply psuffix3_mono with m; [lia | exact Hs]. }
    split; [apply S_of_A; exact HA | intros _; exact HA].
  - (* Neg *)
    cbn [wf3b] in Hw. apply andb_true_iff in Hw. destruct Hw as [Hlv Hw].
    apply Nat.leb_le in Hlv.
    destruct (IHt Hw) as [HSe _].
    split; [|discriminate]. apply S_of_prim. intros n rest Hns Hn.
    simpl flat3 in *. cbn [length] in Hn. cbn [app].
    destruct n as [|f]; [lia|]. rewrite pprim3_S.
    rewrite (HSe f 1%nat neg_prec rest (t, rest)); [reflexivity | exact Hlv | exact Hns | | lia | ].
    + destruct rest as [|[] r]; simpl; auto. unfold neg_prec in Hlv. destruct o; simpl; lia.
    + apply ploop3_stop. destruct rest as [|[] r]; auto. unfold neg_prec. destruct o; simpl; lia.
  - (* Bin *)
    cbn [wf3b] in Hw. apply andb_true_iff in Hw. destruct Hw as [Hw Hwb].
    apply andb_true_iff in Hw. destruct Hw as [Hw Hwa].
    apply andb_true_iff in Hw. destruct Hw as [Hla Hlb].
    apply Nat.leb_le in Hla. apply Nat.leb_le in Hlb.
    destruct (IHt1 Hwa) as [HSa _]. destruct (IHt2 Hwb) as [HSb _].
    split; [|discriminate].
    intros n m p rest R Hp Hns Hnh Hn Hl. simpl lvl3 in *. simpl flat3 in *.
    rewrite app_length in Hn. cbn [length] in Hn.
    norm_app.
    pose proof (ploop3_pos _ _ _ _ _ Hl) as Hm.
    apply (HSa n (S (m + 3 * length (flat3 t2) + 1)) p); [lia | exact I | exact Hla | lia |].
    rewrite ploop3_S.
    assert (Ep : Nat.leb p (prec o) = true) by (apply Nat.leb_le; exact Hp).
    rewrite Ep.
    rewrite (HSb _ 1%nat (S (prec o)) rest (t2, rest)); [| exact Hlb | exact Hns | | lia | ].
    + apply ploop3_mono with m; [lia | exact Hl].
    + destruct rest as [|[] r]; simpl; auto. simpl in Hnh. lia.
    + apply ploop3_stop. destruct rest as [|[] r]; auto. simpl in Hnh. lia.
Qed.

Theorem parse3_flat3 : forall t, wf3b t = true -> parse3_toks (flat3 t) = Some t.
Proof.
  intros t Hw. destruct (parse3_gen t Hw) as [HS _].
  unfold parse3_toks.
  assert (H : pexpr3 (parse_fuel (flat3 t)) 0 (flat3 t ++ []) = Some (t, [])).
  { apply (HS _ 1%nat 0%nat [] (t, [])); [lia | exact I | exact I | unfold parse_fuel; lia | reflexivity]. }
  rewrite app_nil_r in H. rewrite H. reflexivity.
Qed.

Theorem parse3_print3 : forall t, wf3b t = true -> lex_ok t = true -> parse3 (print3 t) = Some t.
Proof.
  intros t Hw Hl. unfold parse3. rewrite (lex3_print3 t Hw Hl). apply parse3_flat3. exact Hw.
Qed.

(* ---------------------------------------------------------------------------------------------- *)
(* the legacy parser only produces precedence-stable trees *)

Definition call1 (f : nat) (name : text) (r : list tok) : option (e1 * list tok) :=
  match r with
  | TRParen :: r' => Some (E1Call name [], r')
  | _ => match pargs1 f r with
         | Some (args, r') => Some (E1Call name args, r')
         | None => None
         end
  end.

Lemma pexpr1_S : forall f p ts,
  pexpr1 (S f) p ts =
  match pprim1 f ts with
  | Some (l, r) => ploop1 f p l r
  | None => None
  end.
Proof. reflexivity. Qed.

Lemma pprim1_S : forall f ts,
  pprim1 (S f) ts =
  match ts with
  | TName n :: TLParen :: r => call1 f n r
  | TTrue :: TLParen :: r => call1 f t_true r
  | TFalse :: TLParen :: r => call1 f t_false r
  | TOp OSub :: r =>
      match pexpr1 f neg_prec r with
      | Some (e, r') => Some (E1Neg e, r')
      | None => None
      end
  | TText raw :: r => Some (E1Str raw, r)
  | TInt raw :: r => Some (E1Dec raw, r)
  | TDec raw :: r => Some (E1Dec raw, r)
  | TTrue :: r => Some (E1True, r)
  | TFalse :: r => Some (E1False, r)
  | TName n :: r => Some (E1Ref n, r)
  | TLParen :: r =>
      match pexpr1 f O r with
      | Some (e, TRParen :: r') => Some (E1Paren e, r')
      | _ => None
      end
  | _ => None
  end.
Proof. reflexivity. Qed.

Lemma pargs1_S : forall f ts,
  pargs1 (S f) ts =
  match pexpr1 f O ts with
  | Some (e, TComma :: r) =>
      match pargs1 f r with
      | Some (es, r') => Some (e :: es, r')
      | None => None
      end
  | Some (e, TRParen :: r) => Some ([e], r)
  | _ => None
  end.
Proof. reflexivity. Qed.

Lemma ploop1_S : forall f p l ts,
  ploop1 (S f) p l ts =
  match ts with
  | TOp o :: r =>
      if Nat.leb p (prec o) then
        match pexpr1 f (S (prec o)) r with
        | Some (b, r') => ploop1 f p (E1Bin o l b) r'
        | None => None
        end
      else Some (l, ts)
  | _ => Some (l, ts)
  end.
Proof. reflexivity. Qed.

Definition stop1 (p : nat) (r : list tok) : Prop :=
  match r with TOp o :: _ => (prec o < p)%nat | _ => True end.

Definition wf1_at (n : nat) : Prop :=
  (forall p ts e r, (p <= 7)%nat -> pexpr1 n p ts = Some (e, r) ->
     wf1b e = true /\ (p <= lvl1 e)%nat /\ stop1 p r) /\
  (forall ts e r, pprim1 n ts = Some (e, r) -> wf1b e = true /\ (7 <= lvl1 e)%nat) /\
  (forall ts es r, pargs1 n ts = Some (es, r) -> forallb wf1b es = true) /\
  (forall p l ts e r, ploop1 n p l ts = Some (e, r) ->
     wf1b l = true -> (p <= lvl1 l)%nat -> stop1 (S (lvl1 l)) ts ->
     wf1b e = true /\ (p <= lvl1 e)%nat /\ stop1 p r).

Lemma prec_le_6 : forall o, (prec o <= 6)%nat.
Proof. destruct o; simpl; lia. Qed.

Lemma call1_wf : forall f name r e r0,
  (forall ts es r, pargs1 f ts = Some (es, r) -> forallb wf1b es = true) ->
  call1 f name r = Some (e, r0) -> wf1b e = true /\ (7 <= lvl1 e)%nat.
Proof.
  intros f name r e r0 IHa H. unfold call1 in H.
  assert (G : forall ts, match pargs1 f ts with
                         | Some (args, r') => Some (E1Call name args, r')
                         | None => None
                         end = Some (e, r0) -> wf1b e = true /\ (7 <= lvl1 e)%nat).
  { intros ts H'. destruct (pargs1 f ts) as [[args r']|] eqn:E; [|discriminate H'].
    inversion H'; subst. simpl. split; [exact (IHa _ _ _ E) | lia]. }
  destruct r as [|[] r']; try (apply (G _ H)).
  inversion H; subst. simpl. split; [reflexivity | lia].
Qed.

Lemma wf1_all : forall n, wf1_at n.
Proof.
  induction n as [|n IH]; unfold wf1_at.
  - repeat split; intros; discriminate.
  - destruct IH as (IHe & IHp & IHa & IHl). split; [|split; [|split]].
    + intros p ts e r Hp H. rewrite pexpr1_S in H.
      destruct (pprim1 n ts) as [[l r1]|] eqn:E; [|discriminate H].
      destruct (IHp _ _ _ E) as [Hwl Hll].
      apply (IHl _ _ _ _ _ H Hwl); [lia|].
      destruct r1 as [|[] r2]; simpl; auto. pose proof (prec_le_6 o). lia.
    + intros ts e r H. rewrite pprim1_S in H.
      destruct ts as [|t ts]; [discriminate H|].
      destruct t; try discriminate H.
      * (* ( e ) *)
        destruct (pexpr1 n 0 ts) as [[e0 r0]|] eqn:E; [|discriminate H].
        destruct r0 as [|[] r1]; try discriminate H.
        inversion H; subst. destruct (IHe 0%nat _ _ _ (Nat.le_0_l 7) E) as [Hw _].
        simpl. split; [exact Hw | lia].
      * (* - e *)
        destruct o; try discriminate H.
        destruct (pexpr1 n neg_prec ts) as [[e0 r0]|] eqn:E; [|discriminate H].
        inversion H; subst. destruct (IHe neg_prec _ _ _ (le_n 7) E) as [Hw [Hl _]].
        cbn [wf1b lvl1]. split; [|unfold neg_prec; lia].
        apply andb_true_iff. split; [apply Nat.leb_le; exact Hl | exact Hw].
      * inversion H; subst. simpl. split; [reflexivity | lia].
      * inversion H; subst. simpl. split; [reflexivity | lia].
      * inversion H; subst. simpl. split; [reflexivity | lia].
      * destruct ts as [|[] ts2]; try (inversion H; subst; simpl; split; [reflexivity | lia]).
        exact (call1_wf _ _ _ _ _ IHa H).
      * destruct ts as [|[] ts2]; try (inversion H; subst; simpl; split; [reflexivity | lia]).
        exact (call1_wf _ _ _ _ _ IHa H).
      * destruct ts as [|[] ts2]; try (inversion H; subst; simpl; split; [reflexivity | lia]).
        exact (call1_wf _ _ _ _ _ IHa H).
    + intros ts es r H. rewrite pargs1_S in H.
      destruct (pexpr1 n 0 ts) as [[e0 r0]|] eqn:E; [|discriminate H].
      destruct (IHe 0%nat _ _ _ (Nat.le_0_l 7) E) as [Hw _].
      destruct r0 as [|[] r1]; try discriminate H.
      * destruct (pargs1 n r1) as [[es' r']|] eqn:E2; [|discriminate H].
        inversion H; subst. simpl. rewrite Hw. exact (IHa _ _ _ E2).
      * inversion H; subst. simpl. rewrite Hw. reflexivity.
    + intros p l ts e r H Hwl Hpl Hst. rewrite ploop1_S in H.
      destruct ts as [|t ts']; [inversion H; subst; simpl; auto|].
      destruct t; try (inversion H; subst; simpl; auto; fail).
      simpl in Hst.
      destruct (Nat.leb_spec p (prec o)) as [Hle|Hlt].
      * destruct (pexpr1 n (S (prec o)) ts') as [[b r']|] eqn:E; [|discriminate H].
        pose proof (prec_le_6 o) as H6.
        assert (H7 : (S (prec o) <= 7)%nat) by lia.
        destruct (IHe _ _ _ _ H7 E) as [Hwb [Hlb Hsb]].
        apply (IHl _ _ _ _ _ H).
        -- cbn [wf1b]. rewrite Hwl, Hwb.
           assert (E1 : Nat.leb (prec o) (lvl1 l) = true) by (apply Nat.leb_le; lia).
           assert (E2 : Nat.leb (S (prec o)) (lvl1 b) = true) by (apply Nat.leb_le; exact Hlb).
           rewrite E1, E2. reflexivity.
        -- simpl. exact Hle.
        -- simpl lvl1. exact Hsb.
      * inversion H; subst. simpl. auto.
Qed.

Theorem parse1_wf : forall s e, parse1 s = Some e -> wf1b e = true.
Proof.
  intros s e H. unfold parse1, parse1_toks in H.
  destruct (pexpr1 (parse_fuel (lex1 s)) 0 (lex1 s)) as [[e0 r]|] eqn:E; [|discriminate H].
  destruct r; [|discriminate H]. inversion H; subst.
  destruct (proj1 (wf1_all _) 0%nat _ _ _ (Nat.le_0_l 7) E) as [Hw _]. exact Hw.
Qed.

(* ---------------------------------------------------------------------------------------------- *)
(* the hypotheses of the theorems are satisfiable on non-trivial trees *)

Import String.StringSyntax.

Definition ex_src3 : text :=
  s2t "legacy_add(10, -2 ^ 2) + foo.bar[1](3, ""a\""b"") * -x.y & NULL <= (f() != 1.50)"%string.

Definition ex_tree3 : e3 :=
  Eval vm_compute in match parse3 ex_src3 with Some t => t | None => X3Null end.

Example ex_tree3_parse : parse3 ex_src3 = Some ex_tree3.
Proof. vm_compute. reflexivity. Qed.

Example ex_tree3_nontrivial : print3 ex_tree3 = ex_src3.
Proof. vm_compute. reflexivity. Qed.

Example ex_tree3_hyps : wf3b ex_tree3 = true /\ lex_ok ex_tree3 = true.
Proof. vm_compute. split; reflexivity. Qed.

Example ex_tree3_lex : lex3 (print3 ex_tree3) = flat3 ex_tree3.
Proof. exact (lex3_print3 ex_tree3 (proj1 ex_tree3_hyps) (proj2 ex_tree3_hyps)). Qed.

Example ex_tree3_flat : parse3_toks (flat3 ex_tree3) = Some ex_tree3.
Proof. exact (parse3_flat3 ex_tree3 (proj1 ex_tree3_hyps)). Qed.

Example ex_tree3_roundtrip : parse3 (print3 ex_tree3) = Some ex_tree3.
Proof. exact (parse3_print3 ex_tree3 (proj1 ex_tree3_hyps) (proj2 ex_tree3_hyps)). Qed.

Definition ex_src1 : text :=
  s2t "SUM(contact.age, -2 ^ 2) + (1 <> 2) * TRUE() & ""a""""b"" >= word(flow.x_1, 2 - -1, false)"%string.

Definition ex_tree1 : e1 :=
  Eval vm_compute in match parse1 ex_src1 with Some t => t | None => E1True end.

Example ex_tree1_parse : parse1 ex_src1 = Some ex_tree1.
Proof. vm_compute. reflexivity. Qed.

Example ex_tree1_wf : wf1b ex_tree1 = true.
Proof. exact (parse1_wf ex_src1 ex_tree1 ex_tree1_parse). Qed.
