(* LegacySyntaxProofs.v — proofs about model/LegacySyntax.v (property C17).

   Main results
     lex3_print3   : the Excellent3 lexer reads the canonical print of a well-formed, lexically sane tree
                     back as exactly the token sequence flat3 of that tree
     parse3_flat3  : the Excellent3 parser (with the fuel of parse3_toks) rebuilds a precedence-stable tree
                     from its own token sequence
     parse3_print3 : parse3 (print3 t) = Some t
     parse1_wf     : the legacy parser only produces precedence-stable trees *)
From Coq Require Import List NArith Bool Arith Lia.
From Verif Require Import model.LegacyTy gen.LegacyTable model.LegacySyntax proofs.LegacyWf.
Import ListNotations.
Open Scope N_scope.

(* ---------------------------------------------------------------------------------------------- *)
(* induction principle for e3 (nested list in X3Call) *)

Section E3Ind.
  Variable P : e3 -> Prop.
  Hypothesis HText : forall raw, P (X3Text raw).
  Hypothesis HNum : forall raw, P (X3Num raw).
  Hypothesis HTrue : P X3True.
  Hypothesis HFalse : P X3False.
  Hypothesis HNull : P X3Null.
  Hypothesis HRef : forall n, P (X3Ref n).
  Hypothesis HDot : forall c l, P c -> P (X3Dot c l).
  Hypothesis HIndex : forall c i, P c -> P i -> P (X3Index c i).
  Hypothesis HCall : forall f args, P f -> Forall P args -> P (X3Call f args).
  Hypothesis HParen : forall e, P e -> P (X3Paren e).
  Hypothesis HNeg : forall e, P e -> P (X3Neg e).
  Hypothesis HBin : forall o a b, P a -> P b -> P (X3Bin o a b).

  Fixpoint e3_ind' (t : e3) : P t :=
    match t with
    | X3Text raw => HText raw
    | X3Num raw => HNum raw
    | X3True => HTrue
    | X3False => HFalse
    | X3Null => HNull
    | X3Ref n => HRef n
    | X3Dot c l => HDot c l (e3_ind' c)
    | X3Index c i => HIndex c i (e3_ind' c) (e3_ind' i)
    | X3Call f args =>
        HCall f args (e3_ind' f)
          ((fix go (l : list e3) : Forall P l :=
              match l with
              | [] => Forall_nil P
              | x :: r => Forall_cons x (e3_ind' x) (go r)
              end) args)
    | X3Paren e => HParen e (e3_ind' e)
    | X3Neg e => HNeg e (e3_ind' e)
    | X3Bin o a b => HBin o a b (e3_ind' a) (e3_ind' b)
    end.
End E3Ind.

(* the nested fixpoints of print3 / flat3 as top-level functions *)
Fixpoint print_args (l : list e3) : text :=
  match l with
  | [] => []
  | [x] => print3 x
  | x :: r => print3 x ++ comma_space ++ print_args r
  end.

Fixpoint flat_args (l : list e3) : list tok :=
  match l with
  | [] => []
  | [x] => flat3 x
  | x :: r => flat3 x ++ TComma :: flat_args r
  end.

Lemma print3_call : forall f args,
  print3 (X3Call f args) = print3 f ++ 40 :: print_args args ++ [41].
Proof. reflexivity. Qed.

Lemma flat3_call : forall f args,
  flat3 (X3Call f args) = flat3 f ++ TLParen :: flat_args args ++ [TRParen].
Proof. reflexivity. Qed.

(* ---------------------------------------------------------------------------------------------- *)
(* generic list / text facts *)

Lemma text_eqb_eq : forall a b, text_eqb a b = true -> a = b.
Proof.
  induction a as [|x a IH]; destruct b as [|y b]; simpl; intros H; try discriminate; auto.
  apply andb_true_iff in H. destruct H as [H1 H2].
  apply N.eqb_eq in H1. subst y. f_equal. auto.
Qed.

Lemma span_app : forall (p : N -> bool) a rest,
  forallb p a = true ->
  match rest with [] => True | c :: _ => p c = false end ->
  span p (a ++ rest) = (a, rest).
Proof.
  induction a as [|x a IH]; intros rest Ha Hr; simpl in *.
  - destruct rest as [|c r]; simpl; auto. rewrite Hr. reflexivity.
  - apply andb_true_iff in Ha. destruct Ha as [Hx Ha]. rewrite Hx.
    rewrite (IH rest Ha Hr). reflexivity.
Qed.

Lemma span_spec : forall (p : N -> bool) s a b,
  span p s = (a, b) ->
  s = a ++ b /\ forallb p a = true /\ match b with [] => True | c :: _ => p c = false end.
Proof.
  induction s as [|c s IH]; intros a b H; simpl in H.
  - inversion H; subst. simpl. auto.
  - destruct (p c) eqn:Hc.
    + destruct (span p s) as [a' b'] eqn:Hs. inversion H; subst.
      destruct (IH a' b eq_refl) as [E [F G]]. subst s. simpl. rewrite Hc, F. auto.
    + inversion H; subst. simpl. auto.
Qed.

Lemma firstn_len_app : forall (A : Type) (a b : list A), firstn (length a) (a ++ b) = a.
Proof.
  intros A a b. rewrite firstn_app, Nat.sub_diag, firstn_all. simpl. apply app_nil_r.
Qed.

(* the skip counter of the lexer loop *)
Lemma lex_loop_skip : forall tk (a r : text), lex_loop tk (length a) (a ++ r) = lex_loop tk 0 r.
Proof.
  induction a as [|x a IH]; intros r; simpl.
  - destruct r; reflexivity.
  - apply IH.
Qed.

Lemma lex_loop_cons0 : forall tk c r,
  lex_loop tk 0 (c :: r) =
  if is_ws c then lex_loop tk 0 r else let (t, n) := tk c r in t :: lex_loop tk n r.
Proof. reflexivity. Qed.

(* ---------------------------------------------------------------------------------------------- *)
(* code-point classes *)

Lemma digit_range : forall c, ascii_digit c = true -> 48 <= c /\ c <= 57.
Proof.
  intros c H. unfold ascii_digit in H. apply andb_true_iff in H. destruct H as [H1 H2].
  apply N.leb_le in H1. apply N.leb_le in H2. auto.
Qed.

Lemma digit_udigit : forall c, ascii_digit c = true -> udigit c = true.
Proof.
  intros c H. destruct (digit_range c H) as [H1 H2]. unfold udigit.
  assert (E : (c <? 128) = true) by (apply N.ltb_lt; lia). rewrite E. exact H.
Qed.

Lemma digit_name_char : forall c, ascii_digit c = true -> name_char3 c = true.
Proof.
  intros c H. unfold name_char3. rewrite (digit_udigit c H). rewrite orb_true_r. reflexivity.
Qed.

Lemma digit_not_name_start : forall c, ascii_digit c = true -> name_start3 c = false.
Proof.
  intros c H. destruct (digit_range c H) as [H1 H2]. unfold name_start3, uletter.
  assert (E : (c <? 128) = true) by (apply N.ltb_lt; lia). rewrite E.
  unfold ascii_letter, ascii_upper, ascii_lower.
  destruct (N.leb_spec 65 c); destruct (N.leb_spec c 90); destruct (N.leb_spec 97 c);
    destruct (N.leb_spec c 122); destruct (N.eqb_spec c 95); simpl; try reflexivity; lia.
Qed.

Lemma name_start_not_digit : forall c, name_start3 c = true -> ascii_digit c = false.
Proof.
  intros c H. destruct (ascii_digit c) eqn:E; [|reflexivity].
  rewrite (digit_not_name_start c E) in H. discriminate H.
Qed.

(* [c] is none of the listed constants because the class [H] is false on each of them *)
Ltac kill_consts H c :=
  repeat match goal with
  | |- context [N.eqb c ?k] =>
      destruct (N.eqb_spec c k) as [->|_]; [vm_compute in H; discriminate H|]
  end.

Lemma name_start_not_ws : forall c, name_start3 c = true -> is_ws c = false.
Proof. intros c H. unfold is_ws. kill_consts H c. reflexivity. Qed.

Lemma digit_not_ws : forall c, ascii_digit c = true -> is_ws c = false.
Proof. intros c H. unfold is_ws. kill_consts H c. reflexivity. Qed.

Lemma tok_at3_name : forall c r, name_start3 c = true ->
  tok_at3 c r = (let (w, _) := span name_char3 r in (classify3 (c :: w), length w)).
Proof.
  intros c r H. unfold tok_at3. kill_consts H c. cbv iota.
  rewrite (name_start_not_digit c H), H. reflexivity.
Qed.

Lemma tok_at3_digit : forall c r, ascii_digit c = true ->
  tok_at3 c r = (let (n, frac) := number_len r in
                 (if frac then TDec (c :: firstn n r) else TInt (c :: firstn n r), n)).
Proof.
  intros c r H. unfold tok_at3. kill_consts H c. cbv iota. rewrite H. reflexivity.
Qed.

(* what may follow a printed token *)
Definition follow_gen (rest : text) : Prop :=
  match rest with [] => True | c :: _ => name_char3 c = false end.
Definition nodot (rest : text) : Prop :=
  match rest with [] => True | c :: _ => c <> 46 end.

Lemma follow_gen_digit : forall rest, follow_gen rest ->
  match rest with [] => True | c :: _ => ascii_digit c = false end.
Proof.
  intros [|c r] H; simpl in *; auto.
  destruct (ascii_digit c) eqn:E; [|reflexivity].
  rewrite (digit_name_char c E) in H. discriminate H.
Qed.

(* ---------------------------------------------------------------------------------------------- *)
(* per-token lexer lemmas *)

Lemma lex_word : forall c r rest,
  name_start3 c = true -> forallb name_char3 r = true -> follow_gen rest ->
  lex3 (c :: r ++ rest) = classify3 (c :: r) :: lex3 rest.
Proof.
  intros c r rest Hc Hr Hf. unfold lex3.
  rewrite lex_loop_cons0, (name_start_not_ws c Hc), (tok_at3_name c _ Hc).
  rewrite (span_app name_char3 r rest Hr Hf).
  rewrite lex_loop_skip. reflexivity.
Qed.

Lemma lex_name : forall n rest, name_ok3 n = true -> follow_gen rest ->
  lex3 (n ++ rest) = TName n :: lex3 rest.
Proof.
  intros [|c r] rest H Hf; [discriminate H|].
  unfold name_ok3 in H. apply andb_true_iff in H. destruct H as [H Hk].
  apply andb_true_iff in H. destruct H as [Hc Hr].
  change ((c :: r) ++ rest) with (c :: r ++ rest).
  rewrite (lex_word c r rest Hc Hr Hf). f_equal.
  unfold classify3 in *.
  destruct (text_eqb (lower_ascii (c :: r)) t_true); [discriminate Hk|].
  destruct (text_eqb (lower_ascii (c :: r)) t_false); [discriminate Hk|].
  destruct (text_eqb (lower_ascii (c :: r)) t_null); [discriminate Hk|].
  reflexivity.
Qed.

Lemma lex_true : forall rest, follow_gen rest -> lex3 (t_true ++ rest) = TTrue :: lex3 rest.
Proof.
  intros rest Hf. unfold t_true. change ([116; 114; 117; 101] ++ rest) with (116 :: [114; 117; 101] ++ rest).
  rewrite lex_word; [reflexivity | vm_compute; reflexivity | vm_compute; reflexivity | exact Hf].
Qed.

Lemma lex_false : forall rest, follow_gen rest -> lex3 (t_false ++ rest) = TFalse :: lex3 rest.
Proof.
  intros rest Hf. unfold t_false.
  change ([102; 97; 108; 115; 101] ++ rest) with (102 :: [97; 108; 115; 101] ++ rest).
  rewrite lex_word; [reflexivity | vm_compute; reflexivity | vm_compute; reflexivity | exact Hf].
Qed.

Lemma lex_NULL : forall rest, follow_gen rest -> lex3 (t_NULL ++ rest) = TNull :: lex3 rest.
Proof.
  intros rest Hf. unfold t_NULL.
  change ([78; 85; 76; 76] ++ rest) with (78 :: [85; 76; 76] ++ rest).
  rewrite lex_word; [reflexivity | vm_compute; reflexivity | vm_compute; reflexivity | exact Hf].
Qed.

Lemma digits_no_dot : forall s, forallb ascii_digit s = true -> has_dot s = false.
Proof.
  induction s as [|c s IH]; simpl; intros H; [reflexivity|].
  apply andb_true_iff in H. destruct H as [Hc Hs].
  destruct (digit_range c Hc) as [H1 H2].
  destruct (N.eqb_spec c 46) as [E|_]; [lia|]. simpl. apply IH. exact Hs.
Qed.

Lemma lex_num : forall raw rest, num_ok raw = true -> follow_gen rest -> nodot rest ->
  lex3 (raw ++ rest) = num_tok raw :: lex3 rest.
Proof.
  intros raw rest H Hf Hd. unfold num_ok in H.
  destruct (span ascii_digit raw) as [ip r] eqn:Hs.
  destruct (span_spec _ _ _ _ Hs) as [Eraw [Hip Hr]].
  apply andb_true_iff in H. destruct H as [Hne H].
  destruct ip as [|d ip]; [discriminate Hne|]. clear Hne.
  simpl in Hip. apply andb_true_iff in Hip. destruct Hip as [Hd0 Hip].
  subst raw. unfold lex3.
  destruct r as [|c fp].
  - (* integer *)
    rewrite app_nil_r. change ((d :: ip) ++ rest) with (d :: ip ++ rest).
    rewrite lex_loop_cons0, (digit_not_ws d Hd0), (tok_at3_digit d _ Hd0).
    assert (En : number_len (ip ++ rest) = (length ip, false)).
    { unfold number_len. rewrite (span_app ascii_digit ip rest Hip (follow_gen_digit rest Hf)).
      destruct rest as [|c1 [|c2 r2]]; try reflexivity.
      simpl in Hd. destruct (N.eqb_spec c1 46) as [E|_]; [contradiction|]. reflexivity. }
    rewrite En. rewrite firstn_len_app, lex_loop_skip.
    unfold num_tok. rewrite digits_no_dot; [reflexivity|].
    simpl. rewrite Hd0, Hip. reflexivity.
  - (* decimal *)
    apply andb_true_iff in H. destruct H as [H Hfp].
    apply andb_true_iff in H. destruct H as [Hc Hne].
    apply N.eqb_eq in Hc. subst c.
    destruct fp as [|f1 fp]; [discriminate Hne|]. clear Hne.
    simpl in Hfp. apply andb_true_iff in Hfp. destruct Hfp as [Hf1 Hfp].
    replace (((d :: ip) ++ 46 :: f1 :: fp) ++ rest) with (d :: ip ++ 46 :: f1 :: fp ++ rest)
      by (simpl; rewrite <- app_assoc; reflexivity).
    rewrite lex_loop_cons0, (digit_not_ws d Hd0), (tok_at3_digit d _ Hd0).
    assert (En : number_len (ip ++ 46 :: f1 :: fp ++ rest)
                 = (length (ip ++ 46 :: f1 :: fp), true)).
    { unfold number_len.
      rewrite (span_app ascii_digit ip (46 :: f1 :: fp ++ rest) Hip eq_refl).
      rewrite Hf1. simpl andb. cbv iota.
      rewrite (span_app ascii_digit fp rest Hfp (follow_gen_digit rest Hf)).
      f_equal. rewrite app_length. simpl. lia. }
    rewrite En.
    replace (ip ++ 46 :: f1 :: fp ++ rest) with ((ip ++ 46 :: f1 :: fp) ++ rest)
      by (rewrite <- app_assoc; reflexivity).
    rewrite firstn_len_app, lex_loop_skip.
    unfold num_tok.
    assert (Ed : has_dot ((d :: ip) ++ 46 :: f1 :: fp) = true).
    { unfold has_dot. rewrite existsb_app. simpl. rewrite orb_true_r. reflexivity. }
    rewrite Ed. reflexivity.
Qed.

Lemma text3_len_body : forall body pb rest,
  quotes_escaped pb body = true ->
  text3_len (body ++ c_dquote :: rest) pb = Some (S (length body)).
Proof.
  induction body as [|c body IH]; intros pb rest H; simpl in H.
  - destruct pb; [discriminate H|]. reflexivity.
  - change ((c :: body) ++ c_dquote :: rest) with (c :: body ++ c_dquote :: rest).
    simpl text3_len. destruct (c =? c_dquote).
    + apply andb_true_iff in H. destruct H as [Hp H]. subst pb.
      rewrite (IH false rest H). reflexivity.
    + rewrite (IH _ rest H). reflexivity.
Qed.

Lemma lex_text : forall raw rest, text_ok raw = true ->
  lex3 (raw ++ rest) = TText raw :: lex3 rest.
Proof.
  intros raw rest H. unfold text_ok in H. apply andb_true_iff in H. destruct H as [He Hq].
  apply text_eqb_eq in He. set (body := removelast (tl raw)) in *.
  rewrite He. unfold lex3.
  replace ((c_dquote :: body ++ [c_dquote]) ++ rest) with (c_dquote :: body ++ c_dquote :: rest)
    by (simpl; rewrite <- app_assoc; reflexivity).
  rewrite lex_loop_cons0. change (is_ws c_dquote) with false. cbv iota.
  assert (Et : tok_at3 c_dquote (body ++ c_dquote :: rest)
               = (TText (c_dquote :: body ++ [c_dquote]), S (length body))).
  { unfold tok_at3. change (c_dquote =? 44) with false. cbv iota.
    change (c_dquote =? c_dquote) with true.
    change (c_dquote =? 40) with false. change (c_dquote =? 41) with false.
    change (c_dquote =? 91) with false. change (c_dquote =? 93) with false.
    change (c_dquote =? 46) with false. change (c_dquote =? 43) with false.
    change (c_dquote =? 45) with false. change (c_dquote =? 42) with false.
    change (c_dquote =? 47) with false. change (c_dquote =? 94) with false.
    change (c_dquote =? 38) with false. change (c_dquote =? 61) with false.
    change (c_dquote =? 33) with false. change (c_dquote =? 60) with false.
    change (c_dquote =? 62) with false. cbv iota.
    rewrite (text3_len_body body false rest Hq).
    replace (body ++ c_dquote :: rest) with ((body ++ [c_dquote]) ++ rest)
      by (rewrite <- app_assoc; reflexivity).
    replace (S (length body)) with (length (body ++ [c_dquote]))
      by (rewrite app_length; simpl; lia).
    rewrite firstn_len_app. reflexivity. }
  rewrite Et.
  replace (body ++ c_dquote :: rest) with ((body ++ [c_dquote]) ++ rest)
    by (rewrite <- app_assoc; reflexivity).
  replace (S (length body)) with (length (body ++ [c_dquote]))
    by (rewrite app_length; simpl; lia).
  rewrite lex_loop_skip. reflexivity.
Qed.

Lemma lex_op : forall o X, lex3 (32 :: op_text o ++ 32 :: X) = TOp o :: lex3 X.
Proof. intros o X. destruct o; reflexivity. Qed.

(* ---------------------------------------------------------------------------------------------- *)
(* the lexer reads a printed tree back as its token sequence *)

Ltac norm_app := repeat first [rewrite <- app_assoc | progress cbn [app]].

Definition lex_stmt (t : e3) : Prop :=
  wf3b t = true -> lex_ok t = true ->
  forall rest, follow_gen rest -> (is_atom t = false -> nodot rest) ->
  lex3 (print3 t ++ rest) = flat3 t ++ lex3 rest.

Lemma follow_gen_const : forall c r, name_char3 c = false -> follow_gen (c :: r).
Proof. intros c r H. exact H. Qed.

Lemma lex_args : forall args,
  Forall lex_stmt args -> forallb wf3b args = true -> forallb lex_ok args = true ->
  forall rest, lex3 (print_args args ++ 41 :: rest) = flat_args args ++ TRParen :: lex3 rest.
Proof.
  induction args as [|x args IH]; intros HF Hw Hl rest.
  - reflexivity.
  - inversion HF as [|x' l' Hx HF']; subst.
    simpl in Hw, Hl. apply andb_true_iff in Hw. destruct Hw as [Hwx Hw].
    apply andb_true_iff in Hl. destruct Hl as [Hlx Hl].
    destruct args as [|y ys].
    + simpl print_args. simpl flat_args.
      rewrite (Hx Hwx Hlx (41 :: rest)); [reflexivity | vm_compute; reflexivity | intros _; simpl; discriminate].
    + change (print_args (x :: y :: ys)) with (print3 x ++ comma_space ++ print_args (y :: ys)).
      change (flat_args (x :: y :: ys)) with (flat3 x ++ TComma :: flat_args (y :: ys)).
      rewrite <- !app_assoc. unfold comma_space.
      change ([44; 32] ++ print_args (y :: ys) ++ 41 :: rest)
        with (44 :: 32 :: print_args (y :: ys) ++ 41 :: rest).
      rewrite (Hx Hwx Hlx); [| vm_compute; reflexivity | intros _; simpl; discriminate].
      change (lex3 (44 :: 32 :: print_args (y :: ys) ++ 41 :: rest))
        with (TComma :: lex3 (print_args (y :: ys) ++ 41 :: rest)).
      rewrite (IH HF' Hw Hl rest). reflexivity.
Qed.

Lemma lex3_print3_gen : forall t, lex_stmt t.
Proof.
  induction t using e3_ind'; unfold lex_stmt; intros Hw Hl rest Hf Hd.
  - (* Text *) simpl. apply lex_text. exact Hl.
  - (* Num *) simpl. apply lex_num; auto.
  - simpl print3. simpl flat3. apply lex_true. exact Hf.
  - simpl print3. simpl flat3. apply lex_false. exact Hf.
  - simpl print3. simpl flat3. apply lex_NULL. exact Hf.
  - (* Ref *) simpl. apply lex_name; auto.
  - (* Dot *)
    simpl in Hw, Hl. apply andb_true_iff in Hw. destruct Hw as [Ha Hw].
    apply andb_true_iff in Hl. destruct Hl as [Hlc Hll].
    simpl print3. simpl flat3. norm_app.
    rewrite (IHt Hw Hlc (46 :: l ++ rest));
      [| vm_compute; reflexivity | intros E; rewrite E in Ha; discriminate Ha].
    change (lex3 (46 :: l ++ rest)) with (TDot :: lex3 (l ++ rest)).
    rewrite (lex_name l rest Hll Hf).
    assert (El : lookup_tok l = TName l).
    { destruct l as [|c r]; [reflexivity|]. unfold name_ok3 in Hll.
      apply andb_true_iff in Hll. destruct Hll as [Hll _].
      apply andb_true_iff in Hll. destruct Hll as [Hc _].
      unfold lookup_tok. rewrite (name_start_not_digit c Hc). reflexivity. }
    rewrite El. reflexivity.
  - (* Index *)
    simpl in Hw, Hl. apply andb_true_iff in Hw. destruct Hw as [Hw Hwi].
    apply andb_true_iff in Hw. destruct Hw as [Ha Hwc].
    apply andb_true_iff in Hl. destruct Hl as [Hlc Hli].
    simpl print3. simpl flat3. norm_app.
    rewrite (IHt1 Hwc Hlc);
      [| vm_compute; reflexivity | intros E; rewrite E in Ha; discriminate Ha].
    change (lex3 (91 :: print3 t2 ++ 93 :: rest)) with (TLBrack :: lex3 (print3 t2 ++ 93 :: rest)).
    rewrite (IHt2 Hwi Hli (93 :: rest)); [| vm_compute; reflexivity | intros _; simpl; discriminate].
    reflexivity.
  - (* Call *)
    simpl in Hw, Hl. apply andb_true_iff in Hw. destruct Hw as [Hw Hwa].
    apply andb_true_iff in Hw. destruct Hw as [Ha Hwf].
    apply andb_true_iff in Hl. destruct Hl as [Hlf Hla].
    rewrite print3_call, flat3_call. norm_app.
    rewrite (IHt Hwf Hlf);
      [| vm_compute; reflexivity | intros E; rewrite E in Ha; discriminate Ha].
    change (lex3 (40 :: print_args args ++ 41 :: rest))
      with (TLParen :: lex3 (print_args args ++ 41 :: rest)).
    rewrite (lex_args args H Hwa Hla rest). reflexivity.
  - (* Paren *)
    simpl in Hw, Hl. simpl print3. simpl flat3.
    norm_app.
    change (lex3 (40 :: print3 t ++ 41 :: rest)) with (TLParen :: lex3 (print3 t ++ 41 :: rest)).
    rewrite (IHt Hw Hl (41 :: rest)); [| vm_compute; reflexivity | intros _; simpl; discriminate].
    reflexivity.
  - (* Neg *)
    simpl in Hw, Hl. apply andb_true_iff in Hw. destruct Hw as [_ Hw].
    simpl print3. simpl flat3.
    change ((45 :: print3 t) ++ rest) with (45 :: print3 t ++ rest).
    change (lex3 (45 :: print3 t ++ rest)) with (TOp OSub :: lex3 (print3 t ++ rest)).
    rewrite (IHt Hw Hl rest Hf); [reflexivity|]. intros _. apply Hd. reflexivity.
  - (* Bin *)
    simpl in Hw, Hl. apply andb_true_iff in Hw. destruct Hw as [Hw Hwb].
    apply andb_true_iff in Hw. destruct Hw as [_ Hwa].
    apply andb_true_iff in Hl. destruct Hl as [Hla Hlb].
    simpl print3. simpl flat3. norm_app.
    rewrite (IHt1 Hwa Hla); [| vm_compute; reflexivity | intros _; simpl; discriminate].
    rewrite lex_op.
    rewrite (IHt2 Hwb Hlb rest Hf); [reflexivity|]. intros _. apply Hd. reflexivity.
Qed.

Theorem lex3_print3 : forall t, wf3b t = true -> lex_ok t = true -> lex3 (print3 t) = flat3 t.
Proof.
  intros t Hw Hl.
  assert (H := lex3_print3_gen t Hw Hl [] I (fun _ => I)).
  rewrite !app_nil_r in H. exact H.
Qed.
