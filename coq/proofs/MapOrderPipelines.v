(* MapOrderPipelines.v -- property C08: the goflow pipelines transcribed in model/MapOrder.v (Part 5) return the
   same output for every order in which the Go runtime visits their input map; and the same pipelines WITHOUT
   their sort (the code before the round-1 fix commits, or after somebody removes the sort again) do not. *)
From Coq Require Import List String NArith ZArith Bool Permutation Lia RelationClasses.
From Verif Require Import model.MapOrder proofs.MapOrderProofs.
Import ListNotations.

(* ================================================================================================ *)
(** * Maps built by upserts, observed through their sorted entries *)

Section Canon.
  Context {K V : Type}.
  Variable keq : K -> K -> bool.
  Hypothesis keq_spec : forall a b, keq a b = true <-> a = b.

  Lemma upsert_keys : forall k v (m : list (K * V)) x,
    In x (map fst (upsert keq k v m)) <-> x = k \/ In x (map fst m).
  Proof.
    intros k v m x. induction m as [|[k0 v0] t IH]; simpl.
    - intuition.
    - destruct (keq k k0) eqn:E; simpl.
      + apply keq_spec in E. subst k0. intuition.
      + rewrite IH. intuition.
  Qed.

  Lemma upsert_nodup : forall k v (m : list (K * V)),
    NoDup (map fst m) -> NoDup (map fst (upsert keq k v m)).
  Proof.
    intros k v m. induction m as [|[k0 v0] t IH]; simpl; intro Hnd.
    - constructor. intros []. constructor.
    - inversion Hnd as [|? ? Hnot Hnd']; subst. destruct (keq k k0) eqn:E; simpl.
      + apply keq_spec in E. subst k0. constructor; assumption.
      + constructor.
        * rewrite upsert_keys. intros [H|H]. subst k0. rewrite (keq_refl keq keq_spec) in E. discriminate. contradiction.
        * apply IH. exact Hnd'.
  Qed.

  Lemma in_lookup_iff : forall (m : list (K * V)) k v,
    NoDup (map fst m) -> (In (k, v) m <-> lookup keq k m = Some v).
  Proof.
    intros m k v. induction m as [|[k0 v0] t IH]; simpl; intro Hnd.
    - split. intros []. discriminate.
    - inversion Hnd as [|? ? Hnot Hnd']; subst. destruct (keq k k0) eqn:E.
      + apply keq_spec in E. subst k0. split.
        * intros [H|H]. inversion H; reflexivity. exfalso. apply Hnot. change k with (fst (k, v)). apply in_map. exact H.
        * intro H. inversion H. left. reflexivity.
      + rewrite <- (IH Hnd'). split.
        * intros [H|H]. inversion H; subst. rewrite (keq_refl keq keq_spec) in E. discriminate. exact H.
        * intro H. right. exact H.
  Qed.

  Lemma nodup_keys_nodup : forall (m : list (K * V)), NoDup (map fst m) -> NoDup m.
  Proof.
    induction m as [|x t IH]; intro H. constructor. simpl in H. inversion H as [|? ? Hnot Hnd]; subst.
    constructor. intro Hin. apply Hnot. apply in_map. exact Hin. apply IH. exact Hnd.
  Qed.

  (* two association lists that answer every lookup alike hold the same entries *)
  Lemma map_equiv_perm : forall (m1 m2 : list (K * V)),
    NoDup (map fst m1) -> NoDup (map fst m2) -> map_equiv keq m1 m2 -> Permutation m1 m2.
  Proof.
    intros m1 m2 H1 H2 He. apply NoDup_Permutation.
    - apply nodup_keys_nodup. exact H1.
    - apply nodup_keys_nodup. exact H2.
    - intros [k v]. rewrite (in_lookup_iff m1 k v H1), (in_lookup_iff m2 k v H2), (He k). reflexivity.
  Qed.

  (* a map built by writes `acc[key kv] = val kv` (for the visited pairs that pass a filter), key depending on
     the loop key only and injective on it *)
  Definition build_step (keep : K * V -> bool) (val : K * V -> V) (acc : list (K * V)) (kv : K * V) : list (K * V) :=
    if keep kv then upsert keq (fst kv) (val kv) acc else acc.

  Lemma build_step_nodup : forall keep val l acc,
    NoDup (map fst acc) -> NoDup (map fst (fold_left (build_step keep val) l acc)).
  Proof.
    intros keep val l. induction l as [|x t IH]; intros acc H; simpl. exact H.
    apply IH. unfold build_step. destruct (keep x). apply upsert_nodup. exact H. exact H.
  Qed.
End Canon.

Section CanonHetero.
  (* the same with a value type different from the visited one *)
  Context {V W : Type}.

  Definition build_step_str (keep : str * V -> bool) (val : str * V -> W) (acc : list (str * W)) (kv : str * V) : list (str * W) :=
    if keep kv then upsert str_eqb (fst kv) (val kv) acc else acc.

  Lemma build_step_str_nodup : forall keep val l acc,
    NoDup (map fst acc) -> NoDup (map fst (fold_left (build_step_str keep val) l acc)).
  Proof.
    intros keep val l. induction l as [|x t IH]; intros acc H; simpl. exact H.
    apply IH. unfold build_step_str. destruct (keep x). apply upsert_nodup. exact str_eqb_spec. exact H. exact H.
  Qed.

  Lemma build_step_str_equiv : forall keep val l1 l2 acc,
    NoDup (map fst l1) -> Permutation l1 l2 ->
    map_equiv str_eqb (fold_left (build_step_str keep val) l1 acc) (fold_left (build_step_str keep val) l2 acc).
  Proof.
    intros keep val l1 l2 acc Hnd Hp.
    apply (fold_left_perm_nodup (map_equiv str_eqb) (build_step_str keep val)).
    - apply map_equiv_Equivalence.
    - intros s s' x H. unfold build_step_str. destruct (keep x). apply upsert_cong. exact str_eqb_spec. exact H. exact H.
    - intros s x y Hne. unfold build_step_str. destruct (keep x); destruct (keep y); try reflexivity.
      apply upsert_comm. exact str_eqb_spec. exact Hne.
    - exact Hp.
    - exact Hnd.
  Qed.

  (* observed through sorted entries, the built map is the same list for every visiting order *)
  Theorem built_map_sorted_perm_invariant : forall keep val l1 l2 acc,
    NoDup (map fst acc) -> NoDup (map fst l1) -> Permutation l1 l2 ->
    sorted_entries (fold_left (build_step_str keep val) l1 acc) = sorted_entries (fold_left (build_step_str keep val) l2 acc).
  Proof.
    intros keep val l1 l2 acc Ha Hnd Hp.
    apply sorted_entries_perm_invariant.
    - apply build_step_str_nodup. exact Ha.
    - apply (map_equiv_perm str_eqb str_eqb_spec).
      + apply build_step_str_nodup. exact Ha.
      + apply build_step_str_nodup. exact Ha.
      + apply build_step_str_equiv; assumption.
  Qed.
End CanonHetero.

Lemma sorted_entries_equiv : forall {W : Type} (m1 m2 : list (str * W)),
  NoDup (map fst m1) -> NoDup (map fst m2) -> map_equiv str_eqb m1 m2 -> sorted_entries m1 = sorted_entries m2.
Proof.
  intros W m1 m2 H1 H2 He. apply sorted_entries_perm_invariant. exact H1.
  apply (map_equiv_perm str_eqb str_eqb_spec); assumption.
Qed.

Lemma fold_app_flat_map : forall {A B : Type} (f : A -> list B) l acc,
  fold_left (fun acc x => acc ++ f x) l acc = acc ++ flat_map f l.
Proof.
  intros A B f l. induction l as [|x t IH]; intro acc; simpl. rewrite app_nil_r. reflexivity.
  rewrite IH. rewrite app_assoc. reflexivity.
Qed.

Lemma flat_map_perm : forall {A B : Type} (f : A -> list B) l1 l2,
  Permutation l1 l2 -> Permutation (flat_map f l1) (flat_map f l2).
Proof.
  intros A B f l1 l2 Hp. induction Hp; simpl.
  - apply Permutation_refl.
  - apply Permutation_app_head. assumption.
  - rewrite !app_assoc. apply Permutation_app_tail. apply Permutation_app_comm.
  - eapply Permutation_trans; eassumption.
Qed.

Lemma filter_perm : forall {A : Type} (p : A -> bool) l1 l2,
  Permutation l1 l2 -> Permutation (filter p l1) (filter p l2).
Proof.
  intros A p l1 l2 Hp. induction Hp; simpl.
  - apply Permutation_refl.
  - destruct (p x). apply perm_skip. assumption. assumption.
  - destruct (p x); destruct (p y); try apply Permutation_refl. apply perm_swap.
  - eapply Permutation_trans; eassumption.
Qed.

(* ================================================================================================ *)
(** * excellent/types/object.go *)

Theorem xobject_properties_perm_invariant : forall {V : Type} (l1 l2 : list (str * V)),
  Permutation l1 l2 -> xobject_properties l1 = xobject_properties l2.
Proof.
  intros V l1 l2 Hp. unfold xobject_properties, append_in_order. apply sort_strings_perm_invariant.
  apply Permutation_map. exact Hp.
Qed.

Theorem xobject_entries_perm_invariant : forall {V : Type} (l1 l2 : list (str * V)),
  NoDup (map fst l1) -> Permutation l1 l2 -> xobject_entries l1 = xobject_entries l2.
Proof.
  intros V l1 l2 Hnd Hp. unfold xobject_entries. rewrite (xobject_properties_perm_invariant l1 l2 Hp).
  apply map_ext. intro k. f_equal. apply lookup_perm_invariant. exact str_eqb_spec. exact Hnd. exact Hp.
Qed.

Theorem xobject_marshal_perm_invariant : forall {V J : Type} keep (tojson : V -> J) (l1 l2 : list (str * V)),
  NoDup (map fst l1) -> Permutation l1 l2 -> xobject_marshal keep tojson l1 = xobject_marshal keep tojson l2.
Proof.
  intros V J keep tojson l1 l2 Hnd Hp. unfold xobject_marshal.
  apply (built_map_sorted_perm_invariant (fun kv => keep (fst kv) (snd kv)) (fun kv => tojson (snd kv))).
  constructor. exact Hnd. exact Hp.
Qed.

(* Get: the smallest matching name *)
Definition smin (a : option str) (p : str) : option str :=
  match a with None => Some p | Some m => if str_ltb p m then Some p else a end.

Lemma str_ltb_false_leb : forall a b, str_ltb a b = false -> str_leb b a = true.
Proof. intros a b H. unfold str_ltb in H. apply negb_false_iff in H. exact H. Qed.

Lemma str_ltb_true_leb : forall a b, str_ltb a b = true -> str_leb a b = true /\ a <> b.
Proof.
  intros a b H. unfold str_ltb in H. apply negb_true_iff in H. split.
  - destruct (str_leb_total a b) as [T|T]. exact T. rewrite T in H. discriminate.
  - intro E. subst. rewrite str_leb_refl in H. discriminate.
Qed.

Ltac str_order :=
  repeat match goal with
         | H : str_ltb _ _ = true |- _ => apply str_ltb_true_leb in H; destruct H
         | H : str_ltb _ _ = false |- _ => apply str_ltb_false_leb in H
         end.

Lemma smin_comm : forall a x y, smin (smin a x) y = smin (smin a y) x.
Proof.
  intros a x y. destruct a as [m|]; simpl.
  - destruct (str_ltb x m) eqn:Exm; destruct (str_ltb y m) eqn:Eym; simpl;
      try rewrite Exm; try rewrite Eym; try reflexivity.
    + destruct (str_ltb y x) eqn:Eyx; destruct (str_ltb x y) eqn:Exy; try reflexivity; str_order.
      * exfalso. match goal with H : y <> x |- _ => apply H end. apply str_leb_antisym; assumption.
      * f_equal. apply str_leb_antisym; assumption.
    + destruct (str_ltb y x) eqn:Eyx; try reflexivity. str_order.
      (* y < x < m but not y < m *)
      exfalso. match goal with H : y <> x |- _ => apply H end.
      apply str_leb_antisym. assumption. eapply str_leb_trans; eassumption.
    + destruct (str_ltb x y) eqn:Exy; try reflexivity. str_order.
      exfalso. match goal with H : x <> y |- _ => apply H end.
      apply str_leb_antisym. assumption. eapply str_leb_trans; eassumption.
  - destruct (str_ltb y x) eqn:Eyx; destruct (str_ltb x y) eqn:Exy; try reflexivity; str_order.
    + exfalso. match goal with H : y <> x |- _ => apply H end. apply str_leb_antisym; assumption.
    + f_equal. apply str_leb_antisym; assumption.
Qed.

Lemma get_step_comm : forall lower key a x y,
  xobject_get_step lower key (xobject_get_step lower key a x) y
  = xobject_get_step lower key (xobject_get_step lower key a y) x.
Proof.
  intros lower key a x y. unfold xobject_get_step.
  destruct (str_eqb (lower x) key); destruct (str_eqb (lower y) key); try reflexivity.
  apply (smin_comm a x y).
Qed.

Lemma fold_left_comm_perm : forall {S X : Type} (step : S -> X -> S),
  (forall s x y, step (step s x) y = step (step s y) x) ->
  forall l1 l2, Permutation l1 l2 -> forall s, fold_left step l1 s = fold_left step l2 s.
Proof.
  intros S X step Hc l1 l2 Hp. induction Hp; intro s; simpl.
  - reflexivity.
  - apply IHHp.
  - rewrite Hc. reflexivity.
  - rewrite IHHp1. apply IHHp2.
Qed.

(* for every case mapping `lower`, every key and every visiting order XObject.Get finds the same property *)
Theorem xobject_get_perm_invariant : forall {V : Type} (lower : str -> str) key (l1 l2 : list (str * V)),
  NoDup (map fst l1) -> Permutation l1 l2 -> xobject_get lower key l1 = xobject_get lower key l2.
Proof.
  intros V lower key l1 l2 Hnd Hp. unfold xobject_get.
  rewrite (fold_left_comm_perm (xobject_get_step lower (lower key)) (get_step_comm lower (lower key))
             (map fst l1) (map fst l2) (Permutation_map fst Hp) None).
  destruct (fold_left (xobject_get_step lower (lower key)) (map fst l2) None) as [m|]; [|reflexivity].
  f_equal. f_equal. apply lookup_perm_invariant. exact str_eqb_spec. exact Hnd. exact Hp.
Qed.

(* what Get finds is a property whose lower-cased name is the lower-cased key, and no matching property is smaller *)
Lemma get_fold_spec : forall lower key l a,
  match fold_left (xobject_get_step lower key) l a with
  | Some m => (a = Some m \/ (In m l /\ str_eqb (lower m) key = true))
              /\ (forall p, In p l -> str_eqb (lower p) key = true -> str_leb m p = true)
              /\ (forall m0, a = Some m0 -> str_leb m m0 = true)
  | None => a = None /\ forall p, In p l -> str_eqb (lower p) key = false
  end.
Proof.
  intros lower key l. induction l as [|x t IH]; intro a; simpl.
  - destruct a as [m|]. split. left; reflexivity. split. intros p []. intros m0 E. inversion E. apply str_leb_refl.
    split. reflexivity. intros p [].
  - specialize (IH (xobject_get_step lower key a x)).
    destruct (fold_left (xobject_get_step lower key) t (xobject_get_step lower key a x)) as [m|].
    + destruct IH as [Hsrc [Hmin Hacc]]. unfold xobject_get_step in *.
      destruct (str_eqb (lower x) key) eqn:Ex.
      * destruct a as [m0|].
        -- destruct (str_ltb x m0) eqn:Elt.
           ++ split. destruct Hsrc as [Hs|[Hs1 Hs2]]. inversion Hs; subst. right. split. left; reflexivity. exact Ex.
              right. split. right; exact Hs1. exact Hs2.
              split. intros p [Hp|Hp] Hm. subst p. apply Hacc. reflexivity. apply Hmin; assumption.
              intros m1 E. inversion E; subst. apply str_ltb_true_leb in Elt. destruct Elt as [Elt _].
              eapply str_leb_trans. apply Hacc. reflexivity. exact Elt.
           ++ split. destruct Hsrc as [Hs|[Hs1 Hs2]]. left; exact Hs. right. split. right; exact Hs1. exact Hs2.
              split. intros p [Hp|Hp] Hm. subst p. apply str_ltb_false_leb in Elt.
              eapply str_leb_trans. apply Hacc. reflexivity. exact Elt. apply Hmin; assumption.
              intros m1 E. apply Hacc. exact E.
        -- split. destruct Hsrc as [Hs|[Hs1 Hs2]]. inversion Hs; subst. right. split. left; reflexivity. exact Ex.
           right. split. right; exact Hs1. exact Hs2.
           split. intros p [Hp|Hp] Hm. subst p. apply Hacc. reflexivity. apply Hmin; assumption.
           intros m1 E. discriminate.
      * split. destruct Hsrc as [Hs|[Hs1 Hs2]]. left; exact Hs. right. split. right; exact Hs1. exact Hs2.
        split. intros p [Hp|Hp] Hm. subst p. rewrite Ex in Hm. discriminate. apply Hmin; assumption.
        exact Hacc.
    + destruct IH as [Hn Hall]. unfold xobject_get_step in Hn.
      destruct (str_eqb (lower x) key) eqn:Ex.
      * destruct a as [m0|]. destruct (str_ltb x m0); discriminate. discriminate.
      * split. exact Hn. intros p [Hp|Hp]. subst p. exact Ex. apply Hall. exact Hp.
Qed.

Theorem xobject_get_spec : forall {V : Type} (lower : str -> str) key (props : list (str * V)),
  match xobject_get lower key props with
  | Some (m, _) => In m (map fst props) /\ lower m = lower key
                   /\ forall p, In p (map fst props) -> lower p = lower key -> str_leb m p = true
  | None => forall p, In p (map fst props) -> lower p <> lower key
  end.
Proof.
  intros V lower key props. unfold xobject_get.
  generalize (get_fold_spec lower (lower key) (map fst props) None).
  destruct (fold_left (xobject_get_step lower (lower key)) (map fst props) None) as [m|].
  - intros [Hsrc [Hmin _]]. destruct Hsrc as [Hs|[Hs1 Hs2]]. discriminate.
    split. exact Hs1. split. apply str_eqb_spec. exact Hs2.
    intros p Hp E. apply Hmin. exact Hp. apply str_eqb_spec. exact E.
  - intros [_ Hall] p Hp E. specialize (Hall p Hp). apply str_eqb_spec in E. rewrite E in Hall. discriminate.
Qed.

(* Get as it was before fix c2f4026 (return at the first match): two properties differing only in case, two
   visiting orders, two answers *)
Theorem xobject_get_first_refuted :
  exists (lower : str -> str) key (l1 l2 : list (str * N)),
    NoDup (map fst l1) /\ Permutation l1 l2 /\ xobject_get_first lower key l1 <> xobject_get_first lower key l2.
Proof.
  exists (fun _ => [97]%N), [97]%N, [([97], 1); ([65], 2)]%N, [([65], 2); ([97], 1)]%N.
  split; [|split].
  - simpl. constructor. intros [H|[]]. discriminate. constructor. intros []. constructor.
  - apply perm_swap.
  - vm_compute. discriminate.
Qed.

(* ================================================================================================ *)
(** * flows/results.go, flows/field.go *)

Theorem results_format_perm_invariant : forall (l1 l2 : list (str * result)),
  Permutation l1 l2 -> results_format l1 = results_format l2.
Proof.
  intros l1 l2 Hp. unfold results_format, append_in_order. f_equal. apply sort_strings_perm_invariant.
  apply Permutation_map. exact Hp.
Qed.

Theorem results_context_perm_invariant : forall {X : Type} (ctx : result -> X) (of_text : str -> X) (l1 l2 : list (str * result)),
  NoDup (map fst l1) -> Permutation l1 l2 -> results_context ctx of_text l1 = results_context ctx of_text l2.
Proof.
  intros X ctx of_text l1 l2 Hnd Hp. unfold results_context. rewrite (results_format_perm_invariant l1 l2 Hp).
  apply (built_map_sorted_perm_invariant (fun _ => true) (fun kv => ctx (snd kv))).
  - simpl. constructor. intros []. constructor.
  - exact Hnd.
  - exact Hp.
Qed.

Theorem field_values_context_perm_invariant :
  forall {Val X : Type} (to_x : Val -> option X) field_name render of_text (l1 l2 : list (str * Val)),
  NoDup (map fst l1) -> Permutation l1 l2 ->
  field_values_context to_x field_name render of_text l1 = field_values_context to_x field_name render of_text l2.
Proof.
  intros Val X to_x field_name render of_text l1 l2 Hnd Hp. unfold field_values_context.
  set (line := fun kv : str * Val => match to_x (snd kv) with
                                      | Some x => [field_name (snd kv) ++ colon_space ++ render x]
                                      | None => [] end).
  assert (Hg : forall l acc, fold_left (fun acc kv => match to_x (snd kv) with
                                                   | Some x => acc ++ [field_name (snd kv) ++ colon_space ++ render x]
                                                   | None => acc end) l acc = acc ++ flat_map line l).
  { induction l as [|y t IH]; intro acc; simpl. symmetry. apply app_nil_r.
    assert (Hy : line y = match to_x (snd y) with
                          | Some x => [field_name (snd y) ++ colon_space ++ render x]
                          | None => [] end) by reflexivity.
    rewrite Hy. destruct (to_x (snd y)); rewrite IH. rewrite <- app_assoc. reflexivity. reflexivity. }
  assert (Hl : forall l, fold_left (fun acc kv => match to_x (snd kv) with
                                                   | Some x => acc ++ [field_name (snd kv) ++ colon_space ++ render x]
                                                   | None => acc end) l [] = flat_map line l).
  { intro l. rewrite Hg. reflexivity. }
  rewrite !Hl.
  rewrite (sort_strings_perm_invariant (flat_map line l1) (flat_map line l2) (flat_map_perm line l1 l2 Hp)).
  apply sorted_entries_equiv.
  - apply upsert_nodup. exact str_eqb_spec.
    apply (build_step_str_nodup (fun _ => true) (fun kv => to_x (snd kv))). constructor.
  - apply upsert_nodup. exact str_eqb_spec.
    apply (build_step_str_nodup (fun _ => true) (fun kv => to_x (snd kv))). constructor.
  - apply upsert_cong. exact str_eqb_spec.
    apply (build_step_str_equiv (fun _ => true) (fun kv => to_x (snd kv))); assumption.
Qed.

(* ================================================================================================ *)
(** * flows/runs/legacy.go *)

Theorem legacy_add_results_perm_invariant : forall snakify values (l1 l2 : list (str * result)),
  NoDup (map fst l1) -> Permutation l1 l2 ->
  legacy_add_results snakify values l1 = legacy_add_results snakify values l2.
Proof.
  intros snakify values l1 l2 Hnd Hp. unfold legacy_add_results.
  rewrite (sorted_entries_perm_invariant l1 l2 Hnd Hp). reflexivity.
Qed.

Definition mk_result (name value : str) (created : N) (extra : list (str * str)) : result :=
  {| r_name := name; r_value := value; r_created := created; r_extra := Some extra |}.

(* without the preliminary key order (before fix 068cff8): two results created at the same instant whose extras
   share a key: the one visited last wins *)
Theorem legacy_add_results_unsorted_refuted :
  exists (l1 l2 : list (str * result)),
    NoDup (map fst l1) /\ Permutation l1 l2 /\
    legacy_add_results_unsorted (fun s => s) [] l1 <> legacy_add_results_unsorted (fun s => s) [] l2.
Proof.
  exists [([97], mk_result [97] [49] 5 [([120], [49])]); ([98], mk_result [98] [50] 5 [([120], [50])])]%N,
         [([98], mk_result [98] [50] 5 [([120], [50])]); ([97], mk_result [97] [49] 5 [([120], [49])])]%N.
  split; [|split].
  - simpl. constructor. intros [H|[]]. discriminate. constructor. intros []. constructor.
  - apply perm_swap.
  - vm_compute. discriminate.
Qed.

(* ================================================================================================ *)
(** * flows/definition/localization.go, flows/inspect *)

Theorem localization_languages_perm_invariant : forall {T : Type} (l1 l2 : list (str * T)),
  Permutation l1 l2 -> localization_languages l1 = localization_languages l2.
Proof.
  intros T l1 l2 Hp. unfold localization_languages, append_in_order. apply sort_strings_perm_invariant.
  apply Permutation_map. exact Hp.
Qed.

Theorem inspect_translations_perm_invariant : forall {T : Type} (item : T -> list str) (l1 l2 : list (str * T)),
  NoDup (map fst l1) -> Permutation l1 l2 -> inspect_translations item l1 = inspect_translations item l2.
Proof.
  intros T item l1 l2 Hnd Hp. unfold inspect_translations.
  rewrite (localization_languages_perm_invariant l1 l2 Hp).
  apply flat_map_ext. intro lang. rewrite (lookup_perm_invariant str_eqb str_eqb_spec l1 l2 lang Hnd Hp). reflexivity.
Qed.

Theorem inspect_dependencies_perm_invariant : forall {T : Type} (item : T -> list str) ref_key (l1 l2 : list (str * T)),
  NoDup (map fst l1) -> Permutation l1 l2 -> inspect_dependencies item ref_key l1 = inspect_dependencies item ref_key l2.
Proof.
  intros T item ref_key l1 l2 Hnd Hp. unfold inspect_dependencies.
  rewrite (inspect_translations_perm_invariant item l1 l2 Hnd Hp). reflexivity.
Qed.

(* over the unsorted language list (before fix 86ca973, F7): two languages, two orders of the extracted values *)
Theorem inspect_translations_unsorted_refuted :
  exists (l1 l2 : list (str * list str)),
    NoDup (map fst l1) /\ Permutation l1 l2 /\
    inspect_translations_unsorted (fun t => t) l1 <> inspect_translations_unsorted (fun t => t) l2.
Proof.
  exists [([101], [[49]]); ([102], [[50]])]%N, [([102], [[50]]); ([101], [[49]])]%N.
  split; [|split].
  - simpl. constructor. intros [H|[]]. discriminate. constructor. intros []. constructor.
  - apply perm_swap.
  - vm_compute. discriminate.
Qed.

Theorem issues_check_perm_invariant : forall {Issue : Type} (node_pos : Issue -> N) (l1 l2 : list (str * list Issue)),
  NoDup (map fst l1) -> Permutation l1 l2 -> issues_check node_pos l1 = issues_check node_pos l2.
Proof.
  intros Issue node_pos l1 l2 Hnd Hp. unfold issues_check.
  rewrite (sorted_entries_perm_invariant l1 l2 Hnd Hp). reflexivity.
Qed.

(* the registered checks visited in map order (before fix 86ca973): two issue types on one node *)
Theorem issues_check_unsorted_refuted :
  exists (l1 l2 : list (str * list (N * N))),
    NoDup (map fst l1) /\ Permutation l1 l2 /\
    issues_check_unsorted fst l1 <> issues_check_unsorted fst l2.
Proof.
  exists [([97], [(0, 1)]); ([98], [(0, 2)])]%N, [([98], [(0, 2)]); ([97], [(0, 1)])]%N.
  split; [|split].
  - simpl. constructor. intros [H|[]]. discriminate. constructor. intros []. constructor.
  - apply perm_swap.
  - vm_compute. discriminate.
Qed.

(* ================================================================================================ *)
(** * flows/definition/migrations/base.go *)

Lemma version_ltb_spec : forall a1 a2 a3 b1 b2 b3,
  version_ltb (a1, a2, a3) (b1, b2, b3) = true <->
  (a1 < b1 \/ (a1 = b1 /\ (a2 < b2 \/ (a2 = b2 /\ a3 < b3))))%N.
Proof.
  intros. unfold version_ltb.
  rewrite !orb_true_iff, !andb_true_iff, !orb_true_iff, !andb_true_iff, !N.ltb_lt, !N.eqb_eq. reflexivity.
Qed.

Lemma version_leb_spec : forall a1 a2 a3 b1 b2 b3,
  version_leb (a1, a2, a3) (b1, b2, b3) = true <->
  ~ (b1 < a1 \/ (b1 = a1 /\ (b2 < a2 \/ (b2 = a2 /\ b3 < a3))))%N.
Proof.
  intros. unfold version_leb. rewrite negb_true_iff. rewrite <- version_ltb_spec.
  destruct (version_ltb (b1, b2, b3) (a1, a2, a3)); split; intro H; try reflexivity; try discriminate.
  exfalso. apply H. reflexivity.
Qed.

Lemma version_leb_total : forall a b, version_leb a b = true \/ version_leb b a = true.
Proof.
  intros [[a1 a2] a3] [[b1 b2] b3]. rewrite !version_leb_spec. lia.
Qed.

Lemma version_leb_antisym : forall a b, version_leb a b = true -> version_leb b a = true -> a = b.
Proof.
  intros [[a1 a2] a3] [[b1 b2] b3]. rewrite !version_leb_spec. intros Hx Hy.
  assert (a1 = b1) by lia. assert (a2 = b2) by lia. assert (a3 = b3) by lia. subst. reflexivity.
Qed.

Lemma version_leb_trans : forall a b c, version_leb a b = true -> version_leb b c = true -> version_leb a c = true.
Proof.
  intros [[a1 a2] a3] [[b1 b2] b3] [[c1 c2] c3]. rewrite !version_leb_spec. lia.
Qed.

Theorem migrate_versions_perm_invariant : forall {F : Type} from to (l1 l2 : list (version * F)),
  Permutation l1 l2 -> migrate_versions from to l1 = migrate_versions from to l2.
Proof.
  intros F from to l1 l2 Hp. unfold migrate_versions. apply isort_perm_invariant.
  - exact version_leb_total.
  - exact version_leb_trans.
  - apply Permutation_map. apply filter_perm. exact Hp.
  - intros x y _ _. apply version_leb_antisym.
Qed.

Theorem object_properties_perm_invariant : forall {V : Type} (l1 l2 : list (str * V)),
  Permutation l1 l2 -> object_properties l1 = object_properties l2.
Proof.
  intros V l1 l2 Hp. unfold object_properties, append_in_order. apply sort_strings_perm_invariant.
  apply Permutation_map. exact Hp.
Qed.

Theorem remap_copy_perm_invariant : forall (l1 l2 : list (str * str)),
  NoDup (map fst l1) -> Permutation l1 l2 -> forall k, lookup str_eqb k (remap_copy l1) = lookup str_eqb k (remap_copy l2).
Proof.
  intros l1 l2 Hnd Hp. unfold remap_copy.
  apply (build_map_perm_invariant str_eqb str_eqb_spec (fun k => k) (fun _ v => v) l1 l2).
  - intros a b _ _ E. exact E.
  - exact Hnd.
  - exact Hp.
Qed.

(* ================================================================================================ *)
(** * services *)

Theorem luis_intents_perm_invariant : forall (l1 l2 : list (str * N)),
  NoDup (map fst l1) -> Permutation l1 l2 -> luis_intents l1 = luis_intents l2.
Proof.
  intros l1 l2 Hnd Hp. unfold luis_intents. rewrite (sorted_entries_perm_invariant l1 l2 Hnd Hp). reflexivity.
Qed.

(* before fix 2c75f12: two intents with equal scores *)
Theorem luis_intents_unsorted_refuted :
  exists (l1 l2 : list (str * N)),
    NoDup (map fst l1) /\ Permutation l1 l2 /\ luis_intents_unsorted l1 <> luis_intents_unsorted l2.
Proof.
  exists [([97], 21); ([98], 21)]%N, [([98], 21); ([97], 21)]%N.
  split; [|split].
  - simpl. constructor. intros [H|[]]. discriminate. constructor. intros []. constructor.
  - apply perm_swap.
  - vm_compute. discriminate.
Qed.

Theorem wit_entities_perm_invariant : forall {E : Type} base_name (l1 l2 : list (str * E)),
  NoDup (map fst l1) -> Permutation l1 l2 -> wit_entities base_name l1 = wit_entities base_name l2.
Proof.
  intros E base_name l1 l2 Hnd Hp. unfold wit_entities. rewrite (sorted_entries_perm_invariant l1 l2 Hnd Hp). reflexivity.
Qed.

(* before fix 2c75f12: one entity in two roles, both filed under the entity name *)
Theorem wit_entities_unsorted_refuted :
  exists (l1 l2 : list (str * N)),
    NoDup (map fst l1) /\ Permutation l1 l2 /\
    wit_entities_unsorted (fun _ => [108]%N) l1 <> wit_entities_unsorted (fun _ => [108]%N) l2.
Proof.
  exists [([108; 58; 97], 1); ([108; 58; 98], 2)]%N, [([108; 58; 98], 2); ([108; 58; 97], 1)]%N.
  split; [|split].
  - simpl. constructor. intros [H|[]]. discriminate. constructor. intros []. constructor.
  - apply perm_swap.
  - vm_compute. discriminate.
Qed.

Theorem dtone_pick_perm_invariant : forall {A P : Type} (matching : str -> A -> option P) (l1 l2 : list (str * A)),
  NoDup (map fst l1) -> Permutation l1 l2 -> dtone_pick matching l1 = dtone_pick matching l2.
Proof.
  intros A P matching l1 l2 Hnd Hp. unfold dtone_pick. rewrite (sorted_entries_perm_invariant l1 l2 Hnd Hp). reflexivity.
Qed.

(* before fix 2c75f12: products in two of the configured currencies *)
Theorem dtone_pick_unsorted_refuted :
  exists (l1 l2 : list (str * N)),
    NoDup (map fst l1) /\ Permutation l1 l2 /\
    dtone_pick_unsorted (fun _ a => Some a) l1 <> dtone_pick_unsorted (fun _ a => Some a) l2.
Proof.
  exists [([82], 3000); ([85], 1)]%N, [([85], 1); ([82], 3000)]%N.
  split; [|split].
  - simpl. constructor. intros [H|[]]. discriminate. constructor. intros []. constructor.
  - apply perm_swap.
  - vm_compute. discriminate.
Qed.

(* the hypotheses (duplicate-free keys, two different visiting orders) are satisfiable: a three-entry map *)
Example perm_hypotheses_satisfiable :
  exists l1 l2 : list (str * N),
    NoDup (map fst l1) /\ Permutation l1 l2 /\ l1 <> l2 /\ xobject_properties l1 = [[65]; [97]; [98]]%N.
Proof.
  exists [([98], 1); ([65], 2); ([97], 3)]%N, [([97], 3); ([98], 1); ([65], 2)]%N.
  split; [|split; [|split]].
  - simpl. repeat constructor; simpl; intuition discriminate.
  - apply (Permutation_app_comm [([98], 1); ([65], 2)]%N [([97], 3)]%N).
  - discriminate.
  - reflexivity.
Qed.
