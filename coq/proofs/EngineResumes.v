(* EngineResumes.v — the resume bound of C05: a session cannot be resumed more often than
   MaxResumesPerSession.  countWaits() (the number of *_wait events of all runs) never decreases and
   grows by at least one in every sprint that ends waiting; a resume goes through only while it is below
   the limit. *)

From Coq Require Import List NArith ZArith Bool Lia.
From Verif Require Import model.Lang model.Engine proofs.EngineProofs proofs.EngineInv.
Import ListNotations.
Open Scope N_scope.

Definition nwaits (r : run) : nat := length (filter (fun e => is_wait_event (ev_kind e)) (r_events r)).
Definition cwl (rs : list run) : nat := fold_right (fun r acc => (nwaits r + acc)%nat) O rs.
Definition cw (x : st) : nat := cwl (s_runs (session_ x)).

Lemma count_waits_cwl : forall s, count_waits s = cwl (s_runs s).
Proof. reflexivity. Qed.

Lemma cwl_update_le : forall rs k g, (forall r, (nwaits r <= nwaits (g r))%nat) -> (cwl rs <= cwl (update_nth rs k g))%nat.
Proof.
  induction rs; intros [|k] g H; simpl; auto.
  - specialize (H a). lia.
  - specialize (IHrs k g H). lia.
Qed.

Lemma cwl_update_plus : forall rs k g, (k < length rs)%nat -> (forall r, nwaits (g r) = S (nwaits r)) ->
  cwl (update_nth rs k g) = S (cwl rs).
Proof.
  induction rs; intros [|k] g Hk H; simpl in *; try lia.
  - rewrite H. reflexivity.
  - rewrite IHrs by (auto; lia). lia.
Qed.

Lemma cwl_map_same : forall rs g, (forall r, nwaits (g r) = nwaits r) -> cwl (map g rs) = cwl rs.
Proof. induction rs; intros g H; simpl; auto. Qed.

Lemma cwl_app : forall r1 r2, cwl (r1 ++ r2) = (cwl r1 + cwl r2)%nat.
Proof. induction r1 as [|r0 r1 IH]; intros; simpl; [reflexivity|]. rewrite IH. lia. Qed.

Lemma cw_upd_same : forall x k g, (forall r, r_events (g r) = r_events r) -> cw (with_session x (fun s => upd_run s k g)) = cw x.
Proof.
  intros x k g H. unfold cw, upd_run; simpl. apply Nat.le_antisymm.
  - assert (K : forall rs, (cwl (update_nth rs k g) <= cwl rs)%nat).
    { induction rs as [|r rs IH]; simpl; auto. destruct k; simpl. + unfold nwaits. rewrite H. lia. + clear IH.
      revert k. induction rs as [|r' rs IH']; intros [|k]; simpl; try lia.
      * unfold nwaits. rewrite H. lia. * specialize (IH' k). lia. }
    apply K.
  - apply cwl_update_le. intros r. unfold nwaits. rewrite H. lia.
Qed.

Lemma nwaits_add_event : forall e r, nwaits (run_add_event e r) = (nwaits r + if is_wait_event (ev_kind e) then 1 else 0)%nat.
Proof.
  intros. unfold nwaits, run_add_event; simpl. rewrite filter_app, app_length. simpl.
  destruct (is_wait_event (ev_kind e)); simpl; lia.
Qed.

Lemma cw_log_event_le : forall x ri sr k, (cw x <= cw (log_event x ri sr k))%nat.
Proof.
  intros. unfold cw, log_event, upd_run; simpl. apply cwl_update_le. intros r. rewrite nwaits_add_event. lia.
Qed.

Lemma cw_log_wait : forall x ri sr k, is_wait_event k = true -> (ri < length (s_runs (session_ x)))%nat ->
  cw (log_event x ri sr k) = S (cw x).
Proof.
  intros x ri sr k Hk H. unfold cw, log_event, upd_run; simpl. apply cwl_update_plus; auto.
  intros r. rewrite nwaits_add_event. simpl. rewrite Hk. lia.
Qed.

Lemma cw_fail_run_le : forall x ri sr c, (cw x <= cw (fail_run x ri sr c))%nat.
Proof.
  intros. unfold fail_run. eapply Nat.le_trans; [|apply cw_log_event_le]. rewrite cw_upd_same; auto.
Qed.

Ltac cw_chain :=
  repeat first
    [ apply Nat.le_refl
    | eapply Nat.le_trans; [|apply cw_log_event_le]
    | eapply Nat.le_trans; [|apply cw_fail_run_le]
    | rewrite cw_upd_same by reflexivity ].

Lemma save_and_log_cw : forall a x ri sr name value cat nid input x' v,
  save_and_log a x ri sr name value cat nid input = Done x' v -> (cw x <= cw x')%nat.
Proof.
  intros a x ri sr name value cat nid input x' v. unfold save_and_log.
  destruct (trunc value _); [|discriminate]. destruct (trunc_ellipsis input _) as [kept|]; [|discriminate]. destruct (get_run (session_ x) ri).
  - destruct (save_result _ _) as [rs ch]. intros H; inversion H; subst. destruct ch; cw_chain.
  - intros H; inversion H; subst. lia.
Qed.

Lemma route_to_category_cw : forall a x ri sr n rt cat m op x' v,
  route_to_category a x ri sr n rt cat m op = Done x' v -> (cw x <= cw x')%nat.
Proof.
  intros a x ri sr n rt cat m op x' v. unfold route_to_category.
  destruct cat; [|intros H; inversion H; lia].
  destruct (nth_error _ _); [|discriminate].
  destruct (rt_result rt); [|intros H; inversion H; lia].
  destruct (save_and_log _ _ _ _ _ _ _ _ _) eqn:E; try discriminate.
  intros H; inversion H; subst. eapply save_and_log_cw; eauto.
Qed.

Lemma pick_node_exit_cw : forall a x ri n pos it tmo x' v,
  pick_node_exit a x ri n pos it tmo = Done x' v -> (cw x <= cw x')%nat.
Proof.
  intros a x ri n pos it tmo x' v. unfold pick_node_exit.
  destruct (n_router n) as [rt|].
  - destruct it.
    + unfold route_timeout. destruct (rt_wait rt) as [[wt [[? ci]|]]|]; try discriminate.
      destruct (route_to_category a x ri (Some (ri, pos)) n rt (Some ci) tmo []) as [y w| |] eqn:E; try discriminate.
      pose proof (route_to_category_cw _ _ _ _ _ _ _ _ _ _ _ E) as Hy.
      destruct w; intros H; inversion H; subst; (eapply Nat.le_trans; [exact Hy|]); cw_chain.
    + unfold route.
      match goal with |- context [route_to_category ?A ?X ?R ?S ?N ?RT ?C ?M ?O] =>
        destruct (route_to_category A X R S N RT C M O) as [y w| |] eqn:E end; try discriminate.
      pose proof (route_to_category_cw _ _ _ _ _ _ _ _ _ _ _ E) as Hy.
      destruct w; intros H; inversion H; subst; (eapply Nat.le_trans; [exact Hy|]); cw_chain.
  - destruct (n_exits n); intros H; inversion H; subst; cw_chain.
Qed.

Lemma find_resume_exit_cw : forall a x ri it tmo,
  match find_resume_exit a x ri it tmo with
  | FreOk x' _ _ => (cw x <= cw x')%nat
  | FreErr x' => x' = x
  | _ => True
  end.
Proof.
  intros. unfold find_resume_exit. destruct (run_status (session_ x) ri) as [[]|]; auto.
  destruct (path_location a (session_ x) ri) as [[pos n]|]; auto.
  destruct (pick_node_exit a x ri n pos it tmo) as [x' [e op]|x'|] eqn:E; auto.
  - eapply pick_node_exit_cw; eauto.
  - eapply pick_node_exit_goerr; eauto.
Qed.

Lemma exec_actions_cw : forall a acts x ri pos n x' b, exec_actions a x ri pos n acts = Done x' b -> (cw x <= cw x')%nat.
Proof.
  induction acts as [|act acts IH]; intros x ri pos n x' b; simpl.
  - intros H; inversion H; lia.
  - destruct (exec_action a x ri pos n act) as [y v| |] eqn:E; try discriminate.
    assert (Hy : (cw x <= cw y)%nat).
    { revert E. unfold exec_action. destruct act.
      - destruct (trunc_ellipsis _ _); [|discriminate]. intros H; inversion H; subst. cw_chain.
      - destruct (trunc_ellipsis _ _); [|discriminate]. apply save_and_log_cw.
      - destruct (get_flow a flow); [destruct (negb _)|]; intros H; inversion H; subst; cw_chain. }
    destruct (run_status (session_ y) ri) as [[]|]; try (intros H; specialize (IH _ _ _ _ _ _ H); lia).
    intros H; inversion H; subst. exact Hy.
Qed.

Lemma exec_actions_status : forall a acts x ri pos n x' b,
  exec_actions a x ri pos n acts = Done x' b ->
  s_status (session_ x') = s_status (session_ x) /\ length (s_runs (session_ x')) = length (s_runs (session_ x)).
Proof.
  induction acts as [|act acts IH]; intros x ri pos n x' b; simpl.
  - intros H; inversion H; auto.
  - destruct (exec_action a x ri pos n act) as [y v| |] eqn:E; try discriminate.
    assert (Hy : s_status (session_ y) = s_status (session_ x) /\ length (s_runs (session_ y)) = length (s_runs (session_ x))).
    { destruct (exec_action_shape _ _ _ _ _ _ _ _ E) as [[Hs Ht _ _ _]|[Hs Ht _ _ _]]; split; auto;
        rewrite <- !shape_length, Hs; auto. unfold fail_at. apply update_nth_length. }
    destruct Hy as [Hy1 Hy2].
    destruct (run_status (session_ y) ri) as [[]|]; try (intros H; destruct (IH _ _ _ _ _ _ H); split; congruence).
    intros H; inversion H; subst. simpl. auto.
Qed.

(* visitNode never loses wait events, and gains one when it makes the session wait *)
Lemma visit_node_cw : forall a x ri n wt x' v,
  visit_node a x ri n wt = Done x' v ->
  (cw x <= cw x')%nat /\
  (s_status (session_ x) <> SWaiting -> s_status (session_ x') = SWaiting -> (S (cw x) <= cw x')%nat).
Proof.
  intros a x ri n wt x' v. unfold visit_node.
  destruct (get_run (session_ x) ri) as [r0|] eqn:Er; [|discriminate].
  assert (Hlt : (ri < length (s_runs (session_ x)))%nat) by (apply nth_error_Some; unfold get_run in Er; congruence).
  set (x1 := with_session x (fun s => upd_run s ri (run_add_step {| st_node := n_id n; st_exit := None |}))).
  assert (H1 : cw x1 = cw x) by (apply cw_upd_same; reflexivity).
  match goal with |- context [exec_actions a ?X ri ?P n ?A] => set (x2 := X) end.
  assert (H2 : (cw x <= cw x2)%nat /\ s_status (session_ x2) = s_status (session_ x) /\
               length (s_runs (session_ x2)) = length (s_runs (session_ x))).
  { unfold x2. destruct wt; [destruct (s_trigger (session_ x1))|]; simpl; rewrite ?update_nth_length; repeat split; try lia.
    eapply Nat.le_trans; [|apply cw_log_event_le]. unfold cw in *; simpl in *. lia. }
  destruct H2 as (H2 & S2 & L2).
  destruct (exec_actions a x2 ri (length (r_path r0)) n (n_actions n)) as [x3 b| |] eqn:Ea; try discriminate.
  pose proof (exec_actions_cw _ _ _ _ _ _ _ _ Ea) as H3.
  destruct (exec_actions_status _ _ _ _ _ _ _ _ Ea) as [S3 L3].
  destruct b; [intros H; inversion H; subst; split; [lia|intros A B; exfalso; apply A; congruence]|].
  destruct (s_pushed (session_ x3)); [intros H; inversion H; subst; split; [lia|intros A B; exfalso; apply A; congruence]|].
  match goal with |- context [match ?bw with Some _ => _ | None => match pick_node_exit ?A ?X ?R ?N ?P ?I ?T with _ => _ end end] =>
    destruct bw as [x4|] eqn:Ebw end.
  - intros H; inversion H; subst.
    assert (H4 : cw x4 = S (cw x3)).
    { destruct (n_router n) as [rt|]; [|discriminate]. destruct (rt_wait rt) as [[[] tmo]|]; try discriminate; try (dmatch_hyp Ebw; [discriminate|]); inversion Ebw; subst.
      all: (apply cw_log_wait; [reflexivity|lia]). }
    assert (H5 : cw (with_session x4 (fun s => set_status (upd_run s ri (run_set_status RWaiting)) SWaiting)) = cw x4).
    { change (cw (with_session x4 (fun s => upd_run s ri (run_set_status RWaiting))) = cw x4). apply cw_upd_same. reflexivity. }
    rewrite H5. split; [lia|intros; lia].
  - destruct (pick_node_exit a x3 ri n (length (r_path r0)) false []) as [x5 [e5 op5]| |] eqn:Epk; try discriminate.
    intros H; inversion H; subst. pose proof (pick_node_exit_cw _ _ _ _ _ _ _ _ _ Epk) as H5.
    split; [lia|]. intros A B. exfalso. apply A.
    destruct (pick_node_exit_shape _ _ _ _ _ _ _ _ _ _ Epk) as [[]|[_ []]]; congruence.
Qed.

(* ---- the loop ---------------------------------------------------------------------------------------------- *)

Definition iter_cw (x : st) (r : iter) : Prop :=
  match r with
  | ICont x' _ => (cw x <= cw x')%nat
  | IStop (ROk x') => (cw x <= cw x')%nat /\ (s_status (session_ x') = SWaiting -> (S (cw x) <= cw x')%nat)
  | IStop _ => True
  end.

Lemma pick_dest_cw : forall a x l x1 l1 dest, pick_dest a x l = (x1, l1, dest) -> cw x1 = cw x.
Proof.
  intros a x l x1 l1 dest. unfold pick_dest.
  destruct (s_pushed (session_ x)) as [p|].
  - intros H; inversion H; subst; clear H. unfold cw; simpl. rewrite cwl_app; simpl.
    destruct (p_terminal p); simpl; [rewrite cwl_map_same by reflexivity|]; unfold nwaits; simpl; lia.
  - destruct (l_exit l) as [e|]; [|intros H; inversion H; reflexivity].
    repeat dmatch; intros H; inversion H; subst; reflexivity.
Qed.

Lemma goto_node_cw : forall a x l c d r, s_status (session_ x) <> SWaiting -> goto_node a x l c d = r -> iter_cw x r.
Proof.
  intros a x l c d r Hns. unfold goto_node. cbv zeta. cbn [l_trigger l_steps l_cur l_exit l_step l_node l_operand].
  destruct (l_steps l + 1 >? max_steps (a_opts a))%Z; [intros <-; simpl; apply cw_fail_run_le|].
  destruct (get_run (session_ x) c) as [r0|]; [|intros <-; exact I].
  destruct (get_flow a (r_flow r0)) as [f|]; [|intros <-; exact I].
  destruct (get_node f d) as [n|]; [|intros <-; exact I].
  destruct (visit_node a x c n (l_trigger l)) as [y [[pos e] op]|y|] eqn:Ev; try (intros <-; exact I).
  destruct (visit_node_cw _ _ _ _ _ _ _ Ev) as [Hle Hw].
  destruct (sstatus_eqb (s_status (session_ y)) SWaiting) eqn:Es; intros <-; simpl; auto.
Qed.

Lemma finish_run_cw : forall a x l c r, finish_run a x l c = r -> iter_cw x r.
Proof.
  intros a x l c r. unfold finish_run.
  destruct (get_run (session_ x) c) as [r0|] eqn:Er0; [destruct (r_exited r0) eqn:Ex0|];
  repeat (first
    [ match goal with
      | H : find_resume_exit ?a ?X ?pi ?b ?t = _ |- _ =>
          let K := fresh "K" in pose proof (find_resume_exit_cw a X pi b t) as K; rewrite H in K; clear H
      end
    | dmatch ]); intros <-; subst; unfold iter_cw; auto;
    try (split; [|simpl; intros C; discriminate]);
    try (eapply Nat.le_trans; [|eassumption]);
    try (change (cw (with_session (with_session x (fun s => upd_run s c (run_exit RCompleted))) (fun s => set_status s SFailed)))
           with (cw (with_session x (fun s => upd_run s c (run_exit RCompleted)))));
    try (change (cw (with_session (with_session x (fun s => upd_run s c (run_exit RCompleted))) (fun s => set_status s SCompleted)))
           with (cw (with_session x (fun s => upd_run s c (run_exit RCompleted)))));
    cw_chain.
Qed.

Lemma cuw_iter_cw : forall a x l, loop_inv x l -> iter_cw x (cuw_iter a x l).
Proof.
  intros a x l HL. rewrite cuw_iter_phases.
  destruct (pick_dest a x l) as [[x1 l1] dest] eqn:Epd.
  pose proof (pick_dest_cw _ _ _ _ _ _ Epd) as E1.
  destruct (pick_dest_inv _ _ _ _ _ _ HL Epd) as (c & M & _).
  rewrite (mi_cur _ _ _ _ M).
  assert (K : forall r, iter_cw x1 r -> iter_cw x r).
  { intros [[]|] Hr; simpl in *; auto; rewrite <- E1; auto. }
  apply K. destruct dest as [d|].
  - eapply goto_node_cw; [|reflexivity]. rewrite (mi_status _ _ _ _ M). discriminate.
  - eapply finish_run_cw; reflexivity.
Qed.

Lemma cuw_cw : forall a fuel x l x',
  loop_inv x l -> continue_until_wait fuel a x l = ROk x' ->
  (cw x <= cw x')%nat /\ (s_status (session_ x') = SWaiting -> (S (cw x) <= cw x')%nat).
Proof.
  intros a fuel x l x' HL Hr.
  pose proof (cuw_induct a (fun x1 l1 => loop_inv x1 l1 /\ (cw x <= cw x1)%nat)
                (fun r => match r with ROk x2 => (cw x <= cw x2)%nat /\ (s_status (session_ x2) = SWaiting -> (S (cw x) <= cw x2)%nat) | _ => True end)) as P.
  specialize (P ltac:(intros x1 l1 x2 l2 [H1 F1] E; pose proof (cuw_iter_inv a x1 l1 H1) as K;
                      pose proof (cuw_iter_cw a x1 l1 H1) as F; rewrite E in K, F; simpl in F; split; [exact K|lia])).
  specialize (P ltac:(intros x1 l1 r [H1 F1] E; pose proof (cuw_iter_cw a x1 l1 H1) as F; rewrite E in F;
                      destruct r; auto; simpl in F; destruct F as [Fa Fb]; split; [lia|intros C; specialize (Fb C); lia])).
  specialize (P I fuel x l (conj HL (Nat.le_refl _))). rewrite Hr in P. exact P.
Qed.

(* ---- engine calls ------------------------------------------------------------------------------------------ *)

Theorem start_waits : forall a t f x', start a t f = ROk x' ->
  s_status (session_ x') = SWaiting -> (1 <= count_waits (session_ x'))%nat.
Proof.
  intros a t f x'. unfold start. destruct (get_flow a f) as [fl|]; [|discriminate].
  intros H Hw. destruct (cuw_cw _ _ _ _ _ (loop_inv_start t f (f_type fl)) H) as [_ K]. specialize (K Hw).
  unfold cw in K. simpl in K. rewrite count_waits_cwl. lia.
Qed.

Lemma apply_resume_cw : forall x wi sr r, (cw x <= cw (apply_resume x wi sr r))%nat.
Proof.
  intros x wi sr r.
  assert (Hbase : forall y, cw (with_session (with_session y (fun s => match run_status s wi with
                                                                   | Some RWaiting => upd_run s wi (run_set_status RActive)
                                                                   | _ => s end)) (fun s => set_input s None)) = cw y).
  { intros y. unfold cw; simpl. destruct (run_status (session_ y) wi) as [[]|]; try reflexivity.
    change (cw (with_session y (fun s => upd_run s wi (run_set_status RActive))) = cw y). apply cw_upd_same. reflexivity. }
  destruct r; unfold apply_resume; cbv zeta.
  - eapply Nat.le_trans; [|apply cw_log_event_le]. specialize (Hbase x). unfold cw in *; simpl in *. lia.
  - rewrite Hbase. apply cw_log_event_le.
  - rewrite Hbase. eapply Nat.le_trans; [|apply cw_log_event_le]. rewrite cw_upd_same by reflexivity. lia.
  - rewrite Hbase. apply cw_log_event_le.
Qed.

Lemma fail_session_cw : forall x wi c, (cw x <= cw (fail_session x wi c))%nat.
Proof.
  intros. unfold fail_session. unfold cw at 2. cbn [session_ with_session s_runs set_status set_runs].
  rewrite cwl_map_same by (intros r; destruct (r_status r); reflexivity). apply cw_fail_run_le.
Qed.

Theorem resume_waits : forall a s r tmo x',
  post_inv s -> resume_session a s r tmo = Resumed (ROk x') ->
  (count_waits s <= count_waits (session_ x'))%nat /\
  (s_status (session_ x') = SWaiting -> (S (count_waits s) <= count_waits (session_ x'))%nat).
Proof.
  intros a s r tmo x' Hpost H. rewrite !count_waits_cwl.
  change (cwl (s_runs s)) with (cw (resume_x0 s)). change (cwl (s_runs (session_ x'))) with (cw x').
  destruct (resume_decompose _ _ _ _ _ Hpost H) as [(y & wi & c & E & _ & _ & _ & _ & Hy)|(x2 & l & E & HL & Hs & _ & _ & wi & pos & e & op & _ & _ & _ & Hfre & _)].
  - inversion E; subst. split.
    + eapply Nat.le_trans; [|apply fail_session_cw]. destruct Hy as [->|(pos & n0 & _ & ->)]; [unfold cw; simpl; lia|apply apply_resume_cw].
    + simpl. discriminate.
  - pose proof (find_resume_exit_cw a (apply_resume (resume_x0 s) wi (Some (wi, pos)) r) wi (is_timeout r) tmo) as Ht.
    rewrite Hfre in Ht. pose proof (apply_resume_cw (resume_x0 s) wi (Some (wi, pos)) r) as Ha.
    symmetry in E. destruct (cuw_cw _ _ _ _ _ HL E) as [K1 K2]. split; [lia|intros C; specialize (K2 C); lia].
Qed.

(* ---- histories: the number of resumes that go through ------------------------------------------------------- *)

(* [history a k s]: s was started and then resumed, all against the asset store a; k counts the resumes
   that went through, i.e. were neither rejected (those leave the session as it is) nor answered by
   failing the session for having reached the resume limit *)
Inductive history (a : assets) : nat -> session -> Prop :=
| h_start : forall t f x, start a t f = ROk x -> history a 0 (session_ x)
| h_resume : forall k s r tmo x, history a k s -> resume_session a s r tmo = Resumed (ROk x) ->
             ~ resume_limit_reached a s -> history a (S k) (session_ x)
| h_limit : forall k s r tmo x, history a k s -> resume_session a s r tmo = Resumed (ROk x) ->
            resume_limit_reached a s -> history a k (session_ x).

Lemma history_reachable : forall a k s, history a k s -> reachable s.
Proof. induction 1; eauto using reachable. Qed.

Lemma history_waits : forall a k s, history a k s -> s_status s = SWaiting -> (k + 1 <= count_waits s)%nat.
Proof.
  induction 1; intros Hw.
  - pose proof (start_waits _ _ _ _ H Hw). lia.
  - assert (Hs : s_status s = SWaiting).
    { destruct (s_status s) eqn:E; auto; unfold resume_session in H0; rewrite E in H0; discriminate. }
    destruct (resume_waits _ _ _ _ _ (reachable_post _ (history_reachable _ _ _ H)) H0) as [_ K].
    specialize (K Hw). specialize (IHhistory Hs). lia.
  - exfalso. destruct (waiting_run s) as [wi|] eqn:Ew.
    + assert (Hs : s_status s = SWaiting).
      { destruct (s_status s) eqn:E; auto; unfold resume_session in H0; rewrite E in H0; discriminate. }
      destruct (impossible_fails a s r tmo wi Hs Ew (or_intror (or_introl H1))) as (x0 & E0 & F0).
      rewrite H0 in E0. inversion E0; subst. destruct F0 as [F0 _]. congruence.
    + unfold resume_session in H0. destruct (sstatus_eqb (s_status s) SWaiting); simpl in H0; [rewrite Ew in H0|]; discriminate.
Qed.

(* a session cannot be resumed more often than the configured maximum *)
Theorem resume_bound : forall a k s, history a k s -> (Z.of_nat k <= Z.max 0 (max_resumes (a_opts a)))%Z.
Proof.
  induction 1; try lia.
  assert (Hs : s_status s = SWaiting).
  { destruct (s_status s) eqn:E; auto; unfold resume_session in H0; rewrite E in H0; discriminate. }
  pose proof (history_waits _ _ _ H Hs) as Hk. unfold resume_limit_reached in H1. lia.
Qed.
