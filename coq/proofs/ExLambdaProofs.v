(* ExLambdaProofs.v — C04: application of function values (model/ExLambda.v).
   (1) WITHOUT the limits of f1d4764 termination is false: ((f) => f(f))((f) => f(f)) exhausts every fuel.
   (2) WITH a depth limit D every evaluation returns: fuel (D + 2) * (H + 2) suffices, H = height of the expression
       (and of the bodies of the closures in its scope); the returned state shows at most max_calls calls. *)
From Coq Require Import ZArith NArith List Bool Lia.
From Verif Require Import model.ExLambda.
Import ListNotations.

(* ------------------------------------------------------------------------------------------------ *)
(* (1) no limit, no termination *)

Definition self_body : lexpr := LApp (LVar 0%N) (ACons (LVar 0%N) ANil).
Definition self_clo : lval := LVClo [0%N] self_body ENil.
Definition self_env : lenv := ECons 0%N self_clo ENil.

Lemma leval_var : forall md mc f st env x,
  leval md mc (S f) st env (LVar x) = (LRet (match lookup env x with Some v => v | None => LVErr end), st).
Proof. reflexivity. Qed.

(* one unfolding of the application f(f) in the scope where f is the self-applying closure *)
Lemma self_body_step : forall f st,
  leval None None (S (S (S f))) st self_env self_body
  = (fst (leval None None (S (S f)) (LState (N.succ (calls st)) (S (depth st))) self_env self_body),
     LState (calls (snd (leval None None (S (S f)) (LState (N.succ (calls st)) (S (depth st))) self_env self_body))) (depth st)).
Proof.
  intros f st.
  change (leval None None (S (S (S f))) st self_env self_body) with
    (match leval None None (S (S f)) st self_env (LVar 0%N) with
     | (LRet fv, st1) =>
         if is_lerr fv then (LRet fv, st1) else
         match fv with
         | LVClo ps body cenv =>
             match leval_args None None (S (S f)) st1 self_env (ACons (LVar 0%N) ANil) with
             | (Some vs, st2) =>
                 if negb (Nat.eqb (length vs) (length ps)) then (LRet LVErr, st2)
                 else if over None (depth st2) then (LRet LVErr, st2)
                 else if over_calls None (calls st2) then (LRet LVErr, st2)
                 else match leval None None (S (S f)) (LState (N.succ (calls st2)) (S (depth st2))) (bind ps vs cenv) body with
                      | (r, st3) => (r, LState (calls st3) (depth st2))
                      end
             | (None, st2) => (LNoFuel, st2)
             end
         | _ => (LRet LVErr, st1)
         end
     | other => other
     end).
  unfold self_env, self_clo. rewrite leval_var. cbn [lookup N.eqb Pos.eqb is_lerr].
  assert (Ha : leval_args None None (S (S f)) st (ECons 0%N (LVClo [0%N] self_body ENil) ENil) (ACons (LVar 0%N) ANil)
               = (Some [LVClo [0%N] self_body ENil], st)) by reflexivity.
  rewrite Ha. cbn [length negb Nat.eqb over over_calls bind].
  destruct (leval None None (S (S f)) (LState (N.succ (calls st)) (S (depth st))) (ECons 0%N (LVClo [0%N] self_body ENil) ENil) self_body) as [r st3].
  reflexivity.
Qed.

Lemma self_body_diverges : forall fuel st, fst (leval None None fuel st self_env self_body) = LNoFuel.
Proof.
  induction fuel as [|f IH]; intros st; [reflexivity|].
  destruct f as [|f2]; [reflexivity|].
  destruct f2 as [|f3]; [reflexivity|].
  rewrite self_body_step. simpl fst. apply IH.
Qed.

Theorem omega_never_returns : forall fuel st, fst (leval_unlimited fuel st ENil omega) = LNoFuel.
Proof.
  intros fuel st. unfold leval_unlimited. destruct fuel as [|f]; [reflexivity|].
  destruct f as [|f2]; [reflexivity|]. destruct f2 as [|f3]; [reflexivity|].
  change (leval None None (S (S (S f3))) st ENil omega) with
    (match leval None None (S (S f3)) (LState (N.succ (calls st)) (S (depth st))) self_env self_body with
     | (r, st3) => (r, LState (calls st3) (depth st))
     end).
  pose proof (self_body_diverges (S (S f3)) (LState (N.succ (calls st)) (S (depth st)))) as H.
  destruct (leval None None (S (S f3)) (LState (N.succ (calls st)) (S (depth st))) self_env self_body) as [r st3].
  simpl in H. subst r. reflexivity.
Qed.

(* the same expression under the limits: an error VALUE *)
Example omega_limited_is_error :
  fst (leval_limited 500 (LState 0 0) ENil omega) = LRet LVErr.
Proof. vm_compute. reflexivity. Qed.

(* ------------------------------------------------------------------------------------------------ *)
(* (2) with a depth limit: fuel (D + 2) * (H + 2) suffices *)

Section Total.

Variable D : nat.                       (* the depth limit *)
Variable max_calls : option N.
Variable H : nat.                       (* bound on the height of every body that can be entered *)

Fixpoint wf_val (v : lval) : Prop :=
  match v with
  | LVClo _ body env => height body <= H /\ wf_env env
  | _ => True
  end
with wf_env (e : lenv) : Prop :=
  match e with
  | ENil => True
  | ECons _ v r => wf_val v /\ wf_env r
  end.

Lemma lookup_wf : forall env x v, wf_env env -> lookup env x = Some v -> wf_val v.
Proof.
  induction env as [|y w r IH]; intros x v Hw Hl; simpl in *; [discriminate|].
  destruct Hw as [Hv Hr]. destruct (N.eqb x y); [injection Hl as <-; exact Hv|eapply IH; eauto].
Qed.

Lemma bind_wf : forall ps vs env, Forall wf_val vs -> wf_env env -> wf_env (bind ps vs env).
Proof.
  induction ps as [|p ps IH]; intros vs env Hvs He; simpl; [exact He|].
  destruct vs as [|v vs]; [exact He|]. inversion Hvs; subst. apply IH; [assumption|]. simpl. split; assumption.
Qed.

Definition need (h : nat) (st : lstate) : nat := h + (D - depth st) * (H + 2).

Lemma need_same : forall h st st', depth st' = depth st -> need h st' = need h st.
Proof. intros h st st' E. unfold need. rewrite E. reflexivity. Qed.

Lemma need_mono : forall h h' st, h <= h' -> need h st <= need h' st.
Proof. intros. unfold need. lia. Qed.

Lemma need_call : forall h (c : N) st, depth st < D -> need h (LState c (S (depth st))) + (H + 2) = h + need 0 st.
Proof.
  intros h c st Hd. unfold need. simpl depth.
  replace (D - depth st) with (S (D - S (depth st))) by lia. simpl. lia.
Qed.

Lemma need_split : forall h st, need h st = h + need 0 st.
Proof. intros. unfold need. lia. Qed.

Lemma eval_returns : forall fuel,
  (forall e st env, wf_env env -> height e <= H -> depth st <= D -> need (height e) st < fuel ->
     exists v st', leval (Some D) max_calls fuel st env e = (LRet v, st') /\ wf_val v /\ depth st' = depth st) /\
  (forall a st env, wf_env env -> height_args a <= H -> depth st <= D -> need (height_args a) st < fuel ->
     exists vs st', leval_args (Some D) max_calls fuel st env a = (Some vs, st') /\ Forall wf_val vs /\ depth st' = depth st).
Proof.
  induction fuel as [|f [IHe IHa]]; [split; intros; exfalso; eapply Nat.nlt_0_r; eassumption|]. split.
  - intros e st env Henv Hh Hd Hf. rewrite need_split in Hf.
    destruct e as [z|x|a b|ps body|fn args]; simpl in Hh, Hf.
    + simpl. eexists _, _. repeat split; exact I.
    + simpl. eexists _, _. repeat split. destruct (lookup env x) eqn:El; [eapply lookup_wf; eauto|exact I].
    + simpl.
      destruct (IHe a st env Henv ltac:(lia) Hd ltac:(rewrite need_split; lia)) as [va [st1 [Ea [_ Hd1]]]]. rewrite Ea.
      destruct (IHe b st1 env Henv ltac:(lia) ltac:(lia) ltac:(rewrite need_split, (need_same 0 st st1 Hd1); lia))
        as [vb [st2 [Eb [_ Hd2]]]]. rewrite Eb.
      eexists _, _. repeat split; [destruct va, vb; exact I|lia].
    + simpl. eexists _, _. repeat split; [lia|assumption].
    + simpl.
      destruct (IHe fn st env Henv ltac:(lia) Hd ltac:(rewrite need_split; lia)) as [fv [st1 [Ef [Hwf Hd1]]]]. rewrite Ef.
      destruct (is_lerr fv) eqn:Eerr; [eexists _, _; repeat split; [destruct fv; simpl in Eerr; try discriminate Eerr; exact I|assumption]|].
      destruct fv as [z| |cps cbody cenv]; try (eexists _, _; repeat split; solve [exact I|assumption]).
      destruct Hwf as [Hcb Hce].
      destruct (IHa args st1 env Henv ltac:(lia) ltac:(lia) ltac:(rewrite need_split, (need_same 0 st st1 Hd1); lia))
        as [vs [st2 [Eargs [Hvs Hd2]]]]. rewrite Eargs.
      destruct (negb (Nat.eqb (length vs) (length cps))); [eexists _, _; repeat split; solve [exact I|lia]|].
      unfold over. destruct (Nat.leb D (depth st2)) eqn:Eov; [eexists _, _; repeat split; solve [exact I|lia]|].
      apply Nat.leb_gt in Eov.
      destruct (over_calls max_calls (calls st2));
        [eexists _, _; repeat split; solve [exact I|lia]|].
      assert (Hd20 : depth st2 = depth st) by lia.
      pose proof (need_call (height cbody) (N.succ (calls st2)) st2 Eov) as Hk.
      rewrite (need_same 0 st st2 Hd20) in Hk.
      destruct (IHe cbody (LState (N.succ (calls st2)) (S (depth st2))) (bind cps vs cenv)) as [v [st3 [Eb [Hv Hd3]]]];
        [apply bind_wf; assumption|assumption|simpl; lia|lia|].
      rewrite Eb. eexists _, _. repeat split; [assumption|simpl; lia].
  - intros a st env Henv Hh Hd Hf. rewrite need_split in Hf. destruct a as [|e rest]; simpl in Hh, Hf.
    + simpl. eexists _, _. repeat split. constructor.
    + simpl.
      destruct (IHe e st env Henv ltac:(lia) Hd ltac:(rewrite need_split; lia)) as [v [st1 [Ee [Hv Hd1]]]]. rewrite Ee.
      destruct (IHa rest st1 env Henv ltac:(lia) ltac:(lia) ltac:(rewrite need_split, (need_same 0 st st1 Hd1); lia))
        as [vs [st2 [Er [Hvs Hd2]]]]. rewrite Er.
      eexists _, _. repeat split; [constructor; assumption|lia].
Qed.

End Total.

(* closed expressions, the limits of the repaired code: the fuel (100 + 2) * (height + 2) is always enough *)
Theorem limited_eval_returns : forall e,
  exists v st', leval_limited ((max_anon_function_depth + 2) * (height e + 2)) (LState 0 0) ENil e = (LRet v, st').
Proof.
  intros e.
  destruct (eval_returns max_anon_function_depth (Some max_anon_function_calls) (height e)
              ((max_anon_function_depth + 2) * (height e + 2))) as [He _].
  destruct (He e (LState 0 0) ENil) as [v [st' [E _]]]; try (simpl; lia).
  - exact I.
  - unfold need. simpl depth. unfold max_anon_function_depth. lia.
  - exists v, st'. exact E.
Qed.

(* the number of calls an evaluation makes never passes the limit: the counter only grows through the guarded branch *)
Lemma calls_bounded : forall md mc fuel,
  (forall e st env, (calls st <= mc)%N -> (calls (snd (leval md (Some mc) fuel st env e)) <= mc)%N) /\
  (forall a st env, (calls st <= mc)%N -> (calls (snd (leval_args md (Some mc) fuel st env a)) <= mc)%N).
Proof.
  intros md mc. induction fuel as [|f [IHe IHa]]; [split; intros; simpl; assumption|]. split.
  - intros e st env Hc. destruct e as [z|x|a b|ps body|fn args]; simpl; try assumption.
    + pose proof (IHe a st env Hc) as H1. destruct (leval md (Some mc) f st env a) as [[va|] st1]; simpl in *; [|assumption].
      pose proof (IHe b st1 env H1) as H2. destruct (leval md (Some mc) f st1 env b) as [[vb|] st2]; simpl in *; assumption.
    + pose proof (IHe fn st env Hc) as H1. destruct (leval md (Some mc) f st env fn) as [[fv|] st1]; simpl in *; [|assumption].
      destruct (is_lerr fv); [assumption|]. destruct fv as [z| |cps cbody cenv]; try assumption.
      pose proof (IHa args st1 env H1) as H2. destruct (leval_args md (Some mc) f st1 env args) as [[vs|] st2]; simpl in *; [|assumption].
      destruct (negb _); [assumption|]. destruct (over md (depth st2)); [assumption|].
      destruct (N.leb mc (calls st2)) eqn:Eov; [assumption|]. apply N.leb_gt in Eov.
      pose proof (IHe cbody (LState (N.succ (calls st2)) (S (depth st2))) (bind cps vs cenv)) as H3. simpl in H3.
      destruct (leval md (Some mc) f (LState (N.succ (calls st2)) (S (depth st2))) (bind cps vs cenv) cbody) as [r st3].
      simpl in *. apply H3. lia.
  - intros a st env Hc. destruct a as [|e rest]; simpl; [assumption|].
    pose proof (IHe e st env Hc) as H1. destruct (leval md (Some mc) f st env e) as [[v|] st1]; simpl in *; [|assumption].
    pose proof (IHa rest st1 env H1) as H2. destruct (leval_args md (Some mc) f st1 env rest) as [[vs|] st2]; simpl in *; assumption.
Qed.

Theorem limited_eval_calls_bounded : forall fuel e,
  (calls (snd (leval_limited fuel (LState 0 0) ENil e)) <= max_anon_function_calls)%N.
Proof. intros fuel e. apply (proj1 (calls_bounded _ _ fuel)). simpl. unfold max_anon_function_calls. lia. Qed.
