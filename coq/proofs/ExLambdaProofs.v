(* ExLambdaProofs.v — C04: application of function values (model/ExLambda.v).
   (1) WITHOUT the limits of f1d4764 termination is false: ((f) => f(f))((f) => f(f)) exhausts every fuel.
   (2) WITH a depth limit D every evaluation returns: fuel (D + 2) * (H + 2) suffices, H = height of the expression
       (and of the bodies of the closures in its scope); the returned state shows at most max_calls calls.
   (3) WITH the work budget of e14c6f8 every call made has been paid for: 100 * calls <= the budget. *)
From Coq Require Import ZArith NArith List Bool Lia.
From Verif Require Import model.ExLambda.
Import ListNotations.

(* ------------------------------------------------------------------------------------------------ *)
(* (1) no limit, no termination *)

Definition self_body : lexpr := LApp (LVar 0%N) (ACons (LVar 0%N) ANil).
Definition self_clo : lval := LVClo [0%N] self_body ENil.
Definition self_env : lenv := ECons 0%N self_clo ENil.

Lemma leval_var : forall md mc ch f st env x,
  leval md mc ch (S f) st env (LVar x) = (LRet (match lookup env x with Some v => v | None => LVErr end), st).
Proof. reflexivity. Qed.

(* without a budget nothing is charged *)
Lemma spend_uncharged : forall v st, spend false v st = (v, st).
Proof. reflexivity. Qed.
Lemma spend_work_uncharged : forall n st, spend_work false n st = (true, st).
Proof. reflexivity. Qed.

(* one unfolding of the application f(f) in the scope where f is the self-applying closure *)
Lemma self_body_step : forall f st,
  leval None None false (S (S (S f))) st self_env self_body
  = (fst (leval None None false (S (S f)) (LState (N.succ (calls st)) (S (depth st)) (wleft st)) self_env self_body),
     LState (calls (snd (leval None None false (S (S f)) (LState (N.succ (calls st)) (S (depth st)) (wleft st)) self_env self_body)))
            (depth st)
            (wleft (snd (leval None None false (S (S f)) (LState (N.succ (calls st)) (S (depth st)) (wleft st)) self_env self_body)))).
Proof.
  intros f st.
  change (leval None None false (S (S (S f))) st self_env self_body) with
    (match leval None None false (S (S f)) st self_env (LVar 0%N) with
     | (LRet fv, st1) =>
         if is_lerr fv then (LRet fv, st1) else
         match fv with
         | LVClo ps body cenv =>
             match leval_args None None false (S (S f)) st1 self_env (ACons (LVar 0%N) ANil) with
             | (Some vs, st2a) =>
                 let (covered, st2) := spend_work false function_call_work st2a in
                 if negb covered then (LRet LVErr, st2)
                 else
                   match (if negb (Nat.eqb (length vs) (length ps)) then (LRet LVErr, st2)
                          else if over None (depth st2) then (LRet LVErr, st2)
                          else if over_calls None (calls st2) then (LRet LVErr, st2)
                          else match leval None None false (S (S f)) (LState (N.succ (calls st2)) (S (depth st2)) (wleft st2)) (bind ps vs cenv) body with
                               | (r, st3) => (r, LState (calls st3) (depth st2) (wleft st3))
                               end) with
                   | (LRet r0, st3) => let (r, st4) := spend false r0 st3 in (LRet r, st4)
                   | other => other
                   end
             | (None, st2) => (LNoFuel, st2)
             end
         | _ => (LRet LVErr, st1)
         end
     | other => other
     end).
  unfold self_env, self_clo. rewrite leval_var. cbn [lookup N.eqb Pos.eqb is_lerr].
  assert (Ha : leval_args None None false (S (S f)) st (ECons 0%N (LVClo [0%N] self_body ENil) ENil) (ACons (LVar 0%N) ANil)
               = (Some [LVClo [0%N] self_body ENil], st)) by reflexivity.
  rewrite Ha. rewrite spend_work_uncharged. cbn [length negb Nat.eqb over over_calls bind].
  destruct (leval None None false (S (S f)) (LState (N.succ (calls st)) (S (depth st)) (wleft st)) (ECons 0%N (LVClo [0%N] self_body ENil) ENil) self_body) as [[r0|] st3];
    [rewrite spend_uncharged|]; reflexivity.
Qed.

Lemma self_body_diverges : forall fuel st, fst (leval None None false fuel st self_env self_body) = LNoFuel.
Proof.
  induction fuel as [|f IH]; intros st; [reflexivity|].
  destruct f as [|f2]; [reflexivity|].
  destruct f2 as [|f3]; [reflexivity|].
  rewrite self_body_step. simpl fst. apply IH.
Qed.

Theorem omega_never_returns : forall fuel st, fst (leval_unlimited fuel st ENil omega) = LNoFuel.
Proof.
  intros fuel st. unfold leval_unlimited. destruct fuel as [|f]; [reflexivity|].
  destruct f as [|f2]; [reflexivity|]. destruct f2 as [|f3]; [reflexivity|].
  change (leval None None false (S (S (S f3))) st ENil omega) with
    (match (match leval None None false (S (S f3)) (LState (N.succ (calls st)) (S (depth st)) (wleft st)) self_env self_body with
            | (r, st3) => (r, LState (calls st3) (depth st) (wleft st3))
            end) with
     | (LRet r0, st3) => let (r, st4) := spend false r0 st3 in (LRet r, st4)
     | other => other
     end).
  pose proof (self_body_diverges (S (S f3)) (LState (N.succ (calls st)) (S (depth st)) (wleft st))) as H.
  destruct (leval None None false (S (S f3)) (LState (N.succ (calls st)) (S (depth st)) (wleft st)) self_env self_body) as [r st3].
  simpl in H. subst r. reflexivity.
Qed.

(* the same expression under the limits: an error VALUE *)
Example omega_limited_is_error :
  fst (leval_limited 500 lstate0 ENil omega) = LRet LVErr.
Proof. vm_compute. reflexivity. Qed.

(* ------------------------------------------------------------------------------------------------ *)
(* (2) with a depth limit: fuel (D + 2) * (H + 2) suffices *)

(* charging changes neither the depth nor the calls *)
Lemma spend_work_depth : forall ch n st, depth (snd (spend_work ch n st)) = depth st.
Proof. intros ch n st. unfold spend_work. destruct (negb ch); [reflexivity|]. destruct (wleft st <? 0)%Z; reflexivity. Qed.
Lemma spend_work_calls : forall ch n st, calls (snd (spend_work ch n st)) = calls st.
Proof. intros ch n st. unfold spend_work. destruct (negb ch); [reflexivity|]. destruct (wleft st <? 0)%Z; reflexivity. Qed.
Lemma spend_depth : forall ch v st, depth (snd (spend ch v st)) = depth st.
Proof.
  intros ch v st. unfold spend. pose proof (spend_work_depth ch (lcost v) st) as H.
  destruct (spend_work ch (lcost v) st) as [[|] st']; exact H.
Qed.
Lemma spend_calls : forall ch v st, calls (snd (spend ch v st)) = calls st.
Proof.
  intros ch v st. unfold spend. pose proof (spend_work_calls ch (lcost v) st) as H.
  destruct (spend_work ch (lcost v) st) as [[|] st']; exact H.
Qed.
Lemma spend_value : forall ch v st, fst (spend ch v st) = v \/ fst (spend ch v st) = LVErr.
Proof. intros ch v st. unfold spend. destruct (spend_work ch (lcost v) st) as [[|] st']; [left|right]; reflexivity. Qed.

Section Total.

Variable D : nat.                       (* the depth limit *)
Variable max_calls : option N.
Variable ch : bool.                     (* with or without the work budget *)
Variable H : nat.                       (* bound on the height of every body that can be entered *)

Fixpoint wf_val (v : lval) : Prop :=
  match v with
  | LVClo _ body env => height body <= H /\ wf_env env
  | _ => True
  end
with wf_env (e : lenv) : Prop :=
  match e with
  | ENil => True
  | ECons _ v r => wf_val v /\ wf_env r
  end.

Lemma lookup_wf : forall env x v, wf_env env -> lookup env x = Some v -> wf_val v.
Proof.
  induction env as [|y w r IH]; intros x v Hw Hl; simpl in *; [discriminate|].
  destruct Hw as [Hv Hr]. destruct (N.eqb x y); [injection Hl as <-; exact Hv|eapply IH; eauto].
Qed.

Lemma bind_wf : forall ps vs env, Forall wf_val vs -> wf_env env -> wf_env (bind ps vs env).
Proof.
  induction ps as [|p ps IH]; intros vs env Hvs He; simpl; [exact He|].
  destruct vs as [|v vs]; [exact He|]. inversion Hvs; subst. apply IH; [assumption|]. simpl. split; assumption.
Qed.

Lemma spend_wf : forall v st, wf_val v -> wf_val (fst (spend ch v st)).
Proof. intros v st Hv. destruct (spend_value ch v st) as [E|E]; rewrite E; [assumption|exact I]. Qed.

Definition need (h : nat) (st : lstate) : nat := h + (D - depth st) * (H + 2).

Lemma need_same : forall h st st', depth st' = depth st -> need h st' = need h st.
Proof. intros h st st' E. unfold need. rewrite E. reflexivity. Qed.

Lemma need_mono : forall h h' st, h <= h' -> need h st <= need h' st.
Proof. intros. unfold need. lia. Qed.

Lemma need_call : forall h (c : N) w st, depth st < D -> need h (LState c (S (depth st)) w) + (H + 2) = h + need 0 st.
Proof.
  intros h c w st Hd. unfold need. simpl depth.
  replace (D - depth st) with (S (D - S (depth st))) by lia. simpl. lia.
Qed.

Lemma need_split : forall h st, need h st = h + need 0 st.
Proof. intros. unfold need. lia. Qed.

Lemma eval_returns : forall fuel,
  (forall e st env, wf_env env -> height e <= H -> depth st <= D -> need (height e) st < fuel ->
     exists v st', leval (Some D) max_calls ch fuel st env e = (LRet v, st') /\ wf_val v /\ depth st' = depth st) /\
  (forall a st env, wf_env env -> height_args a <= H -> depth st <= D -> need (height_args a) st < fuel ->
     exists vs st', leval_args (Some D) max_calls ch fuel st env a = (Some vs, st') /\ Forall wf_val vs /\ depth st' = depth st).
Proof.
  induction fuel as [|f [IHe IHa]]; [split; intros; exfalso; eapply Nat.nlt_0_r; eassumption|]. split.
  - intros e st env Henv Hh Hd Hf. rewrite need_split in Hf.
    destruct e as [z|x|a b|ps body|fn args]; simpl in Hh, Hf.
    + simpl. eexists _, _. repeat split; exact I.
    + simpl. eexists _, _. repeat split. destruct (lookup env x) eqn:El; [eapply lookup_wf; eauto|exact I].
    + simpl.
      destruct (IHe a st env Henv ltac:(lia) Hd ltac:(rewrite need_split; lia)) as [va0 [st1 [Ea [_ Hd1]]]]. rewrite Ea.
      pose proof (spend_depth ch va0 st1) as Hs1. destruct (spend ch va0 st1) as [va st1']. simpl in Hs1.
      destruct (IHe b st1' env Henv ltac:(lia) ltac:(lia)
                  ltac:(rewrite need_split, (need_same 0 st st1' ltac:(lia)); lia))
        as [vb0 [st2 [Eb [_ Hd2]]]]. rewrite Eb.
      pose proof (spend_depth ch vb0 st2) as Hs2. destruct (spend ch vb0 st2) as [vb st2']. simpl in Hs2.
      match goal with |- context [spend ch ?r st2'] =>
        pose proof (spend_depth ch r st2') as Hs3; pose proof (spend_value ch r st2') as Hv3;
        destruct (spend ch r st2') as [r3 st3] end.
      simpl in Hs3, Hv3. eexists _, _. repeat split; [|lia].
      destruct Hv3 as [-> | ->]; [destruct va, vb; exact I|exact I].
    + simpl. eexists _, _. repeat split; [lia|assumption].
    + simpl.
      destruct (IHe fn st env Henv ltac:(lia) Hd ltac:(rewrite need_split; lia)) as [fv [st1 [Ef [Hwf Hd1]]]]. rewrite Ef.
      destruct (is_lerr fv) eqn:Eerr; [eexists _, _; repeat split; [destruct fv; simpl in Eerr; try discriminate Eerr; exact I|assumption]|].
      destruct fv as [z| |cps cbody cenv]; try (eexists _, _; repeat split; solve [exact I|assumption]).
      destruct Hwf as [Hcb Hce].
      destruct (IHa args st1 env Henv ltac:(lia) ltac:(lia) ltac:(rewrite need_split, (need_same 0 st st1 Hd1); lia))
        as [vs [st2a [Eargs [Hvs Hd2a]]]]. rewrite Eargs.
      pose proof (spend_work_depth ch function_call_work st2a) as Hsw.
      destruct (spend_work ch function_call_work st2a) as [covered st2]. simpl in Hsw.
      destruct covered; cbn [negb]; [|eexists _, _; repeat split; solve [exact I|lia]].
      assert (Hd20 : depth st2 = depth st) by lia.
      (* the result of the call proper: a value and a state of the same depth *)
      assert (Hcall : exists r0 st3,
                (if negb (Nat.eqb (length vs) (length cps)) then (LRet LVErr, st2)
                 else if Nat.leb D (depth st2) then (LRet LVErr, st2)
                 else if over_calls max_calls (calls st2) then (LRet LVErr, st2)
                 else match leval (Some D) max_calls ch f (LState (N.succ (calls st2)) (S (depth st2)) (wleft st2)) (bind cps vs cenv) cbody with
                      | (r, st3) => (r, LState (calls st3) (depth st2) (wleft st3))
                      end) = (LRet r0, st3) /\ wf_val r0 /\ depth st3 = depth st).
      { destruct (negb (Nat.eqb (length vs) (length cps))); [eexists _, _; repeat split; solve [exact I|lia]|].
        destruct (Nat.leb D (depth st2)) eqn:Eov; [eexists _, _; repeat split; solve [exact I|lia]|].
        apply Nat.leb_gt in Eov.
        destruct (over_calls max_calls (calls st2)); [eexists _, _; repeat split; solve [exact I|lia]|].
        pose proof (need_call (height cbody) (N.succ (calls st2)) (wleft st2) st2 Eov) as Hk.
        rewrite (need_same 0 st st2 Hd20) in Hk.
        destruct (IHe cbody (LState (N.succ (calls st2)) (S (depth st2)) (wleft st2)) (bind cps vs cenv)) as [v [st3 [Eb [Hv Hd3]]]];
          [apply bind_wf; assumption|assumption|simpl; lia|lia|].
        rewrite Eb. eexists _, _. repeat split; [assumption|simpl; lia]. }
      destruct Hcall as [r0 [st3 [Ec [Hr0 Hd3]]]]. rewrite Ec.
      pose proof (spend_depth ch r0 st3) as Hs4. pose proof (spend_wf r0 st3 Hr0) as Hw4.
      destruct (spend ch r0 st3) as [r st4]. simpl in Hs4, Hw4.
      eexists _, _. repeat split; [assumption|lia].
  - intros a st env Henv Hh Hd Hf. rewrite need_split in Hf. destruct a as [|e rest]; simpl in Hh, Hf.
    + simpl. eexists _, _. repeat split. constructor.
    + simpl.
      destruct (IHe e st env Henv ltac:(lia) Hd ltac:(rewrite need_split; lia)) as [v0 [st1 [Ee [Hv Hd1]]]]. rewrite Ee.
      pose proof (spend_depth ch v0 st1) as Hs1. pose proof (spend_wf v0 st1 Hv) as Hw1.
      destruct (spend ch v0 st1) as [v st1']. simpl in Hs1, Hw1.
      destruct (IHa rest st1' env Henv ltac:(lia) ltac:(lia)
                  ltac:(rewrite need_split, (need_same 0 st st1' ltac:(lia)); lia))
        as [vs [st2 [Er [Hvs Hd2]]]]. rewrite Er.
      eexists _, _. repeat split; [constructor; assumption|lia].
Qed.

End Total.

(* closed expressions, the limits of the repaired code: the fuel (100 + 2) * (height + 2) is always enough, whatever
   is left of the work budget *)
Theorem limited_eval_returns : forall e w,
  exists v st', leval_limited ((max_anon_function_depth + 2) * (height e + 2)) (LState 0 0 w) ENil e = (LRet v, st').
Proof.
  intros e w.
  destruct (eval_returns max_anon_function_depth (Some max_anon_function_calls) true (height e)
              ((max_anon_function_depth + 2) * (height e + 2))) as [He _].
  destruct (He e (LState 0 0 w) ENil) as [v [st' [E _]]]; try (simpl; lia).
  - exact I.
  - unfold need. simpl depth. unfold max_anon_function_depth. lia.
  - exists v, st'. exact E.
Qed.

(* the number of calls an evaluation makes never passes the limit: the counter only grows through the guarded branch *)
Lemma calls_bounded : forall md mc ch fuel,
  (forall e st env, (calls st <= mc)%N -> (calls (snd (leval md (Some mc) ch fuel st env e)) <= mc)%N) /\
  (forall a st env, (calls st <= mc)%N -> (calls (snd (leval_args md (Some mc) ch fuel st env a)) <= mc)%N).
Proof.
  intros md mc ch. induction fuel as [|f [IHe IHa]]; [split; intros; simpl; assumption|]. split.
  - intros e st env Hc. destruct e as [z|x|a b|ps body|fn args]; simpl; try assumption.
    + pose proof (IHe a st env Hc) as H1. destruct (leval md (Some mc) ch f st env a) as [[va0|] st1]; simpl in *; [|assumption].
      pose proof (spend_calls ch va0 st1) as S1. destruct (spend ch va0 st1) as [va st1']. simpl in S1.
      pose proof (IHe b st1' env ltac:(rewrite S1; assumption)) as H2.
      destruct (leval md (Some mc) ch f st1' env b) as [[vb0|] st2]; simpl in *; [|assumption].
      pose proof (spend_calls ch vb0 st2) as S2. destruct (spend ch vb0 st2) as [vb st2']. simpl in S2.
      match goal with |- context [spend ch ?r st2'] => pose proof (spend_calls ch r st2') as S3; destruct (spend ch r st2') as [r3 st3] end.
      simpl in *. rewrite S3, S2. assumption.
    + pose proof (IHe fn st env Hc) as H1. destruct (leval md (Some mc) ch f st env fn) as [[fv|] st1]; simpl in *; [|assumption].
      destruct (is_lerr fv); [assumption|]. destruct fv as [z| |cps cbody cenv]; try assumption.
      pose proof (IHa args st1 env H1) as H2. destruct (leval_args md (Some mc) ch f st1 env args) as [[vs|] st2a]; simpl in *; [|assumption].
      pose proof (spend_work_calls ch function_call_work st2a) as Sw.
      destruct (spend_work ch function_call_work st2a) as [covered st2]. simpl in Sw.
      assert (H2' : (calls st2 <= mc)%N) by (rewrite Sw; assumption).
      destruct covered; cbn [negb]; [|assumption].
      assert (Hcall : (calls (snd (if negb (Nat.eqb (length vs) (length cps)) then (LRet LVErr, st2)
                 else if over md (depth st2) then (LRet LVErr, st2)
                 else if N.leb mc (calls st2) then (LRet LVErr, st2)
                 else match leval md (Some mc) ch f (LState (N.succ (calls st2)) (S (depth st2)) (wleft st2)) (bind cps vs cenv) cbody with
                      | (r, st3) => (r, LState (calls st3) (depth st2) (wleft st3))
                      end)) <= mc)%N).
      { destruct (negb _); [assumption|]. destruct (over md (depth st2)); [assumption|].
        destruct (N.leb mc (calls st2)) eqn:Eov; [assumption|]. apply N.leb_gt in Eov.
        pose proof (IHe cbody (LState (N.succ (calls st2)) (S (depth st2)) (wleft st2)) (bind cps vs cenv)) as H3. simpl in H3.
        destruct (leval md (Some mc) ch f (LState (N.succ (calls st2)) (S (depth st2)) (wleft st2)) (bind cps vs cenv) cbody) as [r st3].
        simpl in *. apply H3. lia. }
      match type of Hcall with context [snd ?X] => destruct X as [[r0|] st3] end;
        simpl in Hcall; [|assumption].
      pose proof (spend_calls ch r0 st3) as S4. destruct (spend ch r0 st3) as [r st4]. simpl in *. rewrite S4. assumption.
  - intros a st env Hc. destruct a as [|e rest]; simpl; [assumption|].
    pose proof (IHe e st env Hc) as H1. destruct (leval md (Some mc) ch f st env e) as [[v0|] st1]; simpl in *; [|assumption].
    pose proof (spend_calls ch v0 st1) as S1. destruct (spend ch v0 st1) as [v st1']. simpl in S1.
    pose proof (IHa rest st1' env ltac:(rewrite S1; assumption)) as H2.
    destruct (leval_args md (Some mc) ch f st1' env rest) as [[vs|] st2]; simpl in *; assumption.
Qed.

Theorem limited_eval_calls_bounded : forall fuel e w,
  (calls (snd (leval_limited fuel (LState 0 0 w) ENil e)) <= max_anon_function_calls)%N.
Proof. intros fuel e w. apply (proj1 (calls_bounded _ _ _ fuel)). simpl. unfold max_anon_function_calls. lia. Qed.

(* ------------------------------------------------------------------------------------------------ *)
(* (3) with the work budget every call has been paid for *)

Lemma bit_len_nonneg : forall z, (0 <= ExValues.bit_len z)%Z.
Proof. intros z. unfold ExValues.bit_len. destruct (z =? 0)%Z; [lia|]. pose proof (Z.log2_nonneg (Z.abs z)). lia. Qed.

Lemma lcost_pos : forall v, (1 <= lcost v)%Z.
Proof.
  intros v. destruct v; unfold lcost; try lia. pose proof (bit_len_nonneg z) as H0.
  pose proof (Z.div_pos (ExValues.bit_len z) 3 H0 ltac:(lia)). lia.
Qed.

(* what is left of the budget, as far as it is there *)
Definition left (st : lstate) : Z := Z.max (wleft st) 0.

(* between two states: 100 for every call made, out of what was left *)
Definition paid (st st' : lstate) : Prop :=
  (function_call_work * (Z.of_N (calls st') - Z.of_N (calls st)) + left st' <= left st)%Z.

Arguments paid : simpl never.

Lemma paid_refl : forall st, paid st st.
Proof. intros st. unfold paid. lia. Qed.

Lemma paid_trans : forall a b c, paid a b -> paid b c -> paid a c.
Proof. intros a b c. unfold paid, function_call_work. lia. Qed.

Lemma spend_work_paid : forall n st, (0 <= n)%Z -> paid st (snd (spend_work true n st)).
Proof.
  intros n st Hn. unfold spend_work. cbn [negb]. destruct (wleft st <? 0)%Z eqn:E; [apply paid_refl|].
  apply Z.ltb_ge in E. unfold paid, left, function_call_work. cbn [snd calls wleft depth]. lia.
Qed.

Lemma spend_paid : forall v st, paid st (snd (spend true v st)).
Proof.
  intros v st. unfold spend. pose proof (spend_work_paid (lcost v) st ltac:(pose proof (lcost_pos v); lia)) as H.
  destruct (spend_work true (lcost v) st) as [[|] st']; exact H.
Qed.

(* a call that the budget covers: 100 of what was left are gone *)
Lemma spend_work_covered : forall st st', spend_work true function_call_work st = (true, st') ->
  calls st' = calls st /\ depth st' = depth st /\ (function_call_work + left st' <= left st)%Z.
Proof.
  intros st st'. unfold spend_work. cbn [negb]. destruct (wleft st <? 0)%Z eqn:E; [discriminate|].
  apply Z.ltb_ge in E. destruct (0 <=? wleft st - function_call_work)%Z eqn:E2; [|discriminate].
  intros H. injection H as <-. apply Z.leb_le in E2. unfold left, function_call_work in *. cbn [calls wleft depth]. lia.
Qed.

Lemma calls_paid : forall md mc fuel,
  (forall e st env, paid st (snd (leval md mc true fuel st env e))) /\
  (forall a st env, paid st (snd (leval_args md mc true fuel st env a))).
Proof.
  intros md mc. induction fuel as [|f [IHe IHa]]; [split; intros; simpl; apply paid_refl|]. split.
  - intros e st env. destruct e as [z|x|a b|ps body|fn args]; simpl; try apply paid_refl.
    + pose proof (IHe a st env) as H1. destruct (leval md mc true f st env a) as [[va0|] st1]; simpl in *; [|assumption].
      pose proof (spend_paid va0 st1) as S1. destruct (spend true va0 st1) as [va st1']. simpl in S1.
      pose proof (IHe b st1' env) as H2. destruct (leval md mc true f st1' env b) as [[vb0|] st2]; simpl in *;
        [|eapply paid_trans; [eapply paid_trans; eassumption|assumption]].
      pose proof (spend_paid vb0 st2) as S2. destruct (spend true vb0 st2) as [vb st2']. simpl in S2.
      match goal with |- context [spend true ?r st2'] => pose proof (spend_paid r st2') as S3; destruct (spend true r st2') as [r3 st3] end.
      simpl in *. exact (paid_trans _ _ _ (paid_trans _ _ _ (paid_trans _ _ _ (paid_trans _ _ _ H1 S1) H2) S2) S3).
    + pose proof (IHe fn st env) as H1. destruct (leval md mc true f st env fn) as [[fv|] st1]; simpl in *; [|assumption].
      destruct (is_lerr fv); [assumption|]. destruct fv as [z| |cps cbody cenv]; try assumption.
      pose proof (IHa args st1 env) as H2. destruct (leval_args md mc true f st1 env args) as [[vs|] st2a]; simpl in *;
        [|eapply paid_trans; eassumption].
      pose proof (spend_work_paid function_call_work st2a ltac:(unfold function_call_work; lia)) as Sw.
      pose proof (spend_work_covered st2a) as Sc.
      destruct (spend_work true function_call_work st2a) as [covered st2]. simpl in Sw.
      assert (H12 : paid st st2a) by (eapply paid_trans; eassumption).
      destruct covered; cbn [negb]; [|eapply paid_trans; eassumption].
      destruct (Sc st2 eq_refl) as [Sc1 [Sc2 Sc3]].
      assert (Hcall : paid st2a (snd (if negb (Nat.eqb (length vs) (length cps)) then (LRet LVErr, st2)
                 else if over md (depth st2) then (LRet LVErr, st2)
                 else if over_calls mc (calls st2) then (LRet LVErr, st2)
                 else match leval md mc true f (LState (N.succ (calls st2)) (S (depth st2)) (wleft st2)) (bind cps vs cenv) cbody with
                      | (r, st3) => (r, LState (calls st3) (depth st2) (wleft st3))
                      end))).
      { destruct (negb _); [assumption|]. destruct (over md (depth st2)); [assumption|].
        destruct (over_calls mc (calls st2)); [assumption|].
        pose proof (IHe cbody (LState (N.succ (calls st2)) (S (depth st2)) (wleft st2)) (bind cps vs cenv)) as H3.
        destruct (leval md mc true f (LState (N.succ (calls st2)) (S (depth st2)) (wleft st2)) (bind cps vs cenv) cbody) as [r st3].
        cbn [snd] in *. unfold paid, left, function_call_work in *. cbn [calls wleft depth] in *. lia. }
      match type of Hcall with context [snd ?X] => destruct X as [[r0|] st3] end;
        simpl in Hcall; [|eapply paid_trans; eassumption].
      pose proof (spend_paid r0 st3) as S4. destruct (spend true r0 st3) as [r st4]. simpl in *.
      eapply paid_trans; [eassumption|]. eapply paid_trans; eassumption.
  - intros a st env. destruct a as [|e rest]; simpl; [apply paid_refl|].
    pose proof (IHe e st env) as H1. destruct (leval md mc true f st env e) as [[v0|] st1]; simpl in *; [|assumption].
    pose proof (spend_paid v0 st1) as S1. destruct (spend true v0 st1) as [v st1']. simpl in S1.
    pose proof (IHa rest st1' env) as H2.
    destruct (leval_args md mc true f st1' env rest) as [[vs|] st2]; simpl in *;
      (eapply paid_trans; [eassumption|]; eapply paid_trans; eassumption).
Qed.

(* an evaluation makes at most budget / 100 calls of anonymous functions: 50000, fewer than the call limit allows *)
Theorem limited_eval_calls_paid : forall fuel e,
  (function_call_work * Z.of_N (calls (snd (leval_limited fuel lstate0 ENil e))) <= max_evaluation_work)%Z.
Proof.
  intros fuel e. unfold leval_limited.
  pose proof (proj1 (calls_paid (Some max_anon_function_depth) (Some max_anon_function_calls) fuel) e lstate0 ENil) as H.
  unfold paid, left in H.
  change (calls lstate0) with 0%N in H. change (wleft lstate0) with max_evaluation_work in H. change (Z.of_N 0) with 0%Z in H.
  unfold max_evaluation_work, function_call_work in *. lia.
Qed.
