(* proofs/CqlQuoteProofs.v — facts about contactql.QuoteValue (model/CqlPrinter.v [quote_value]) on top of the
   strconv.Quote / Unquote lemmas of proofs/QuoteProofs.v. *)
From Coq Require Import List Arith NArith Bool Lia ZifyBool ZifyN ZifyNat.
From Verif Require Import lib.Quote proofs.QuoteProofs model.CqlSyntax model.CqlPrinter.
Import ListNotations.
Open Scope N_scope.

Lemma is_prefix_app : forall a b, is_prefix a (a ++ b) = true.
Proof. induction a as [|x a IH]; intros b; [reflexivity|]. cbn [app is_prefix]. rewrite N.eqb_refl, IH. reflexivity. Qed.

(* every list is empty or ends in some element *)
Lemma list_end {A} (l : list A) : l = [] \/ exists l' x, l = l' ++ [x].
Proof.
  destruct l as [|a l]; [left; reflexivity|right].
  destruct (exists_last (l := a :: l)) as (l' & x & E); [discriminate|]. eauto.
Qed.

(* the escaped form of a character other than the backslash does not end in a backslash *)
Lemma esc_end p c : c <> 92 -> exists t z, esc p c = t ++ [z] /\ z <> 92.
Proof.
  intros Hc. destruct (list_end (esc p c)) as [E|(t & z & E)].
  - exfalso. exact (esc_nonempty p c E).
  - exists t, z. split; [exact E|].
    pose proof (esc_last_bs p c) as H. rewrite E in H.
    rewrite last_app_nonempty in H by discriminate. cbn [last] in H. lia.
Qed.

(* QuoteValue by cases on the end of the value *)
Lemma quote_value_not_bs p s : (s = [] \/ exists s' c, s = s' ++ [c] /\ c <> 92) -> quote_value p s = quote p s.
Proof.
  intros H. unfold quote_value, has_suffix.
  assert (E : is_prefix (rev [92; 92; 34]) (rev (quote p s)) = false).
  { destruct H as [->|(s' & c & -> & Hc)]; [reflexivity|].
    unfold quote. rewrite quote_body_app. cbn [quote_body flat_map]. rewrite app_nil_r.
    destruct (esc_end p c Hc) as (t & z & -> & Hz).
    cbn [rev]. rewrite !rev_app_distr. cbn [rev app is_prefix].
    replace (92 =? z) with false by lia. rewrite andb_false_r. reflexivity. }
  rewrite E. reflexivity.
Qed.

Lemma quote_value_bs p s : quote_value p (s ++ [92]) = 34 :: quote_body p s ++ [92; 120; 53; 99; 34].
Proof.
  unfold quote_value, has_suffix, quote.
  rewrite quote_body_app. cbn [quote_body flat_map]. rewrite app_nil_r.
  change (esc p 92) with [92; 92].
  assert (E : 34 :: (quote_body p s ++ [92; 92]) ++ [34] = (34 :: quote_body p s) ++ [92; 92; 34]).
  { cbn [app]. rewrite <- app_assoc. reflexivity. }
  rewrite E. rewrite rev_app_distr. rewrite is_prefix_app.
  rewrite app_length. cbn [length]. replace (S (length (quote_body p s)) + 3 - 3)%nat with (length (34 :: quote_body p s)) by (cbn [length]; lia).
  rewrite firstn_app, firstn_all, Nat.sub_diag. cbn [firstn]. rewrite app_nil_r. reflexivity.
Qed.

(* shape: an opening quote, a body, a closing quote; every quote inside the body is directly preceded by a
   backslash and the body does not end in a backslash — for EVERY code-point list and IsPrint table *)
Lemma quote_value_shape p s :
  exists body, quote_value p s = 34 :: body ++ [34]
               /\ quotes_preceded 34 body = true /\ last body 34 <> 92.
Proof.
  destruct (list_end s) as [->|(s' & c & ->)].
  - exists []. repeat split; discriminate.
  - destruct (N.eq_dec c 92) as [->|Hc].
    + rewrite quote_value_bs. exists (quote_body p s' ++ [92; 120; 53; 99]).
      split; [|split].
      * rewrite <- app_assoc. reflexivity.
      * rewrite quotes_preceded_app by apply quote_body_quotes_preceded. reflexivity.
      * rewrite last_app_nonempty by discriminate. discriminate.
    + rewrite quote_value_not_bs by (right; eauto).
      exists (quote_body p (s' ++ [c])). split; [reflexivity|]. split.
      * apply quote_body_quotes_preceded.
      * pose proof (quote_body_ends_bs p (s' ++ [c])) as H. unfold ends_bs in H.
        rewrite (last_app_nonempty s' [c]) in H by discriminate. change (last [c] 0) with c in H.
        assert (Hne : quote_body p (s' ++ [c]) <> []).
        { rewrite quote_body_app. cbn [quote_body flat_map]. rewrite app_nil_r.
          intros E. apply app_eq_nil in E. destruct E as [_ E]. exact (esc_nonempty p c E). }
        rewrite (last_default_irrelevant _ 34 0 Hne). lia.
Qed.

Lemma loop_x5c_tail k acc : unquote_loop (S (S k)) [92; 120; 53; 99; 34] acc false = UOk (rev (92 :: acc)).
Proof. reflexivity. Qed.

(* strconv.Unquote inverts QuoteValue on every valid code-point list *)
Theorem unquote_quote_value : forall p s,
  p 10 = false -> valid_codepoints s -> unquote (quote_value p s) = UOk s.
Proof.
  intros p s Hnl Hs.
  destruct (list_end s) as [->|(s' & c & ->)]; [reflexivity|].
  destruct (N.eq_dec c 92) as [->|Hc].
  - rewrite quote_value_bs. unfold unquote.
    assert (Hs' : valid_codepoints s').
    { unfold valid_codepoints in *. apply Forall_app in Hs. tauto. }
    destruct (quote_body p s' ++ [92; 120; 53; 99; 34]) as [|x l] eqn:E.
    { destruct (quote_body p s'); discriminate. }
    rewrite <- E. change (34 =? 34) with true. cbv iota.
    pose proof (quote_body_length p s') as HL.
    assert (HF : exists k, S (length (quote_body p s' ++ [92; 120; 53; 99; 34])) = (length s' + S (S k))%nat).
    { exists (length (quote_body p s') - length s' + 4)%nat. rewrite app_length. cbn [length]. lia. }
    destruct HF as [k ->]. rewrite (loop_body p Hnl s' Hs').
    rewrite loop_x5c_tail. rewrite app_nil_r. cbn [rev]. rewrite rev_involutive. reflexivity.
  - rewrite quote_value_not_bs by (right; eauto). apply unquote_quote; assumption.
Qed.

Example unquote_quote_value_witness :
  let p := fun c => (32 <=? c) && (c <? 127) in
  let s := [97; 34; 92; 10; 233; 0x1F600; 92; 92] in
  p 10 = false /\ valid_codepoints s /\ quote_value p s <> quote p s /\ unquote (quote_value p s) = UOk s.
Proof. cbv zeta. split; [reflexivity|]. split; [repeat constructor|]. split; [vm_compute; discriminate|vm_compute; reflexivity]. Qed.
