(* proofs/CqlLexProofs.v — the tokenizer of lib/RegexLM.v on the token rules of gen/GrammarCQL.v:
   general facts about [lex] (fuel, one step), the STRING rule as a four-state automaton, and the lexing of a
   quoted value at the head of any text (the injection clause of C14). *)
From Coq Require Import List Arith NArith Bool Lia ZifyBool ZifyN ZifyNat.
From Verif Require Import lib.Quote lib.RegexLM proofs.QuoteProofs model.CqlSyntax gen.GrammarCQL
  model.CqlPrinter model.CqlParser proofs.CqlQuoteProofs.
Import ListNotations.
Open Scope N_scope.

(* ---- general facts about lm / pick / lex ------------------------------------------------------------ *)

Lemma lm_dead : forall r c s i best, is_Empty (deriv c r) = true ->
  lm r (c :: s) i best = if nullable r then Some i else best.
Proof. intros r c s i best H. cbn [lm]. rewrite H. reflexivity. Qed.

Lemma longest_dead : forall r c s, nullable r = false -> is_Empty (deriv c r) = true -> longest r (c :: s) = None.
Proof. intros r c s Hn H. unfold longest. rewrite lm_dead by exact H. rewrite Hn. reflexivity. Qed.

Section LexFacts.
  Context {kind : Type}.
  Variable rules : list (rule kind).

  Definition cur_pos (cur : option (rule kind * nat)) : Prop :=
    match cur with Some (_, n) => (1 <= n)%nat | None => True end.

  Lemma pick_pos : forall rs s cur ru n, cur_pos cur -> pick rs s cur = Some (ru, n) -> (1 <= n)%nat.
  Proof.
    induction rs as [|r rs IH]; intros s cur ru n Hc H; cbn [pick] in H.
    - subst cur. exact Hc.
    - eapply IH; [|exact H]. destruct (longest (r_re r) s) as [[|m]|]; auto.
      destruct cur as [[r0 m0]|]; cbn [cur_pos] in *; [|lia].
      destruct (Nat.ltb m0 (S m)); cbn [cur_pos]; lia.
  Qed.

  (* more fuel than characters changes nothing *)
  Lemma lex_loop_fuel : forall n s f1 f2 acc, (length s <= n)%nat -> (length s <= f1)%nat -> (length s <= f2)%nat ->
    lex_loop f1 rules s acc = lex_loop f2 rules s acc.
  Proof.
    induction n as [|n IH]; intros s f1 f2 acc Hn H1 H2.
    - destruct s; [|cbn [length] in Hn; lia]. destruct f1, f2; reflexivity.
    - destruct s as [|c s]; [destruct f1, f2; reflexivity|].
      destruct f1 as [|f1]; [cbn [length] in H1; lia|]. destruct f2 as [|f2]; [cbn [length] in H2; lia|].
      cbn [lex_loop]. destruct (pick rules (c :: s) None) as [[ru m]|] eqn:P; [|reflexivity].
      assert (Hm : (1 <= m)%nat) by (eapply pick_pos; [|exact P]; exact I).
      assert (Hl : (length (skipn m (c :: s)) <= length s)%nat).
      { rewrite skipn_length. cbn [length]. lia. }
      cbn [length] in *. apply IH; lia.
  Qed.

  Definition push (acc : list (kind * list N)) (r : lexres kind) : lexres kind :=
    match r with LexOk ts => LexOk (rev acc ++ ts) | o => o end.

  Lemma lex_loop_acc : forall f s acc, lex_loop f rules s acc = push acc (lex_loop f rules s []).
  Proof.
    induction f as [|f IH]; intros s acc.
    - destruct s; cbn [lex_loop push]; [rewrite app_nil_r|]; reflexivity.
    - destruct s as [|c s]; [cbn [lex_loop push]; rewrite app_nil_r; reflexivity|].
      cbn [lex_loop]. destruct (pick rules (c :: s) None) as [[ru m]|]; [|reflexivity].
      destruct (r_skip ru).
      + apply IH.
      + rewrite IH. rewrite (IH _ [_]).
        destruct (lex_loop f rules (skipn m (c :: s)) []); cbn [push]; try reflexivity.
        cbn [rev app]. rewrite <- app_assoc. reflexivity.
  Qed.

  (* one step of the tokenizer *)
  Lemma lex_step : forall s ru n, s <> [] -> pick rules s None = Some (ru, n) ->
    lex rules s =
    match lex rules (skipn n s) with
    | LexOk ts => LexOk (if r_skip ru then ts else (r_kind ru, firstn n s) :: ts)
    | o => o
    end.
  Proof.
    intros s ru n Hs P. unfold lex.
    destruct s as [|c s]; [congruence|].
    assert (Hn : (1 <= n)%nat) by (eapply pick_pos; [|exact P]; exact I).
    cbn [length lex_loop]. rewrite P.
    assert (Hl : (length (skipn n (c :: s)) <= length s)%nat).
    { rewrite skipn_length. cbn [length]. lia. }
    rewrite (lex_loop_fuel (length s) _ (length s) (length (skipn n (c :: s)))) by lia.
    destruct (r_skip ru).
    - destruct (lex_loop (length (skipn n (c :: s))) rules (skipn n (c :: s)) []); reflexivity.
    - rewrite lex_loop_acc.
      destruct (lex_loop (length (skipn n (c :: s))) rules (skipn n (c :: s)) []); reflexivity.
  Qed.
End LexFacts.

(* ---- the STRING rule as an automaton ------------------------------------------------------------------- *)

Definition reQ : re := Chr (CRanges [(34, 34)]).
Definition reNQ : re := Chr (CNot (CRanges [(34, 34)])).
Definition reBSQ : re := Cat (Chr (CRanges [(92, 92)])) reQ.
Definition reA : re := Alt reNQ reBSQ.
Definition reSTRING : re := Cat reQ (Cat (Star reA) reQ).
Definition reR1 : re := Cat (Star reA) reQ.
Definition reR2 : re := Cat (Cat (Alt Eps reQ) (Star reA)) reQ.
Definition reR3 : re := Alt reR1 Eps.

Inductive sst := S1 | S2 | S3 | SE | SD.

Definition sre (s : sst) : re :=
  match s with S1 => reR1 | S2 => reR2 | S3 => reR3 | SE => Eps | SD => Empty end.

Definition sstep (s : sst) (c : N) : sst :=
  match s with
  | S1 | S3 => if c =? 34 then SE else if c =? 92 then S2 else S1
  | S2 => if c =? 34 then S3 else if c =? 92 then S2 else S1
  | SE | SD => SD
  end.

Definition sacc (s : sst) : bool := match s with S3 | SE => true | _ => false end.
Definition sdead (s : sst) : bool := match s with SD => true | _ => false end.

Lemma in_ranges_1 c a : in_ranges c [(a, a)] = (c =? a).
Proof. cbn [in_ranges]. rewrite orb_false_r. lia. Qed.

Lemma deriv_sre : forall s c, deriv c (sre s) = sre (sstep s c).
Proof.
  intros s c.
  destruct s; cbn [sre sstep]; try reflexivity;
    unfold reR3, reR2, reR1, reA, reBSQ, reNQ, reQ;
    cbn [deriv nullable andb orb in_cset]; rewrite ?in_ranges_1;
    destruct (N.eqb_spec c 34) as [->|H34]; try reflexivity;
    destruct (N.eqb_spec c 92) as [->|H92]; try reflexivity.
Qed.

Lemma nullable_sre : forall s, nullable (sre s) = sacc s.
Proof. destruct s; reflexivity. Qed.

Lemma is_Empty_sre : forall s, is_Empty (sre s) = sdead s.
Proof. destruct s; reflexivity. Qed.

(* the automaton run that [lm] performs *)
Fixpoint alm (s : sst) (inp : list N) (i : nat) (best : option nat) : option nat :=
  let best' := if sacc s then Some i else best in
  match inp with
  | [] => best'
  | c :: r => if sdead (sstep s c) then best' else alm (sstep s c) r (S i) best'
  end.

Lemma lm_alm : forall inp s i best, lm (sre s) inp i best = alm s inp i best.
Proof.
  induction inp as [|c r IH]; intros s i best; cbn [lm alm]; rewrite nullable_sre; [reflexivity|].
  rewrite deriv_sre, is_Empty_sre. destruct (sdead (sstep s c)); [reflexivity|]. apply IH.
Qed.

(* the state after a body character, in terms of the character before *)
Definition st_of (prev : N) (s : sst) : Prop :=
  (s = S2 /\ prev = 92) \/ ((s = S1 \/ s = S3) /\ prev <> 92).

Lemma alm_string : forall body s prev i best tail,
  st_of prev s -> quotes_preceded prev body = true -> last body prev <> 92 ->
  alm s (body ++ 34 :: tail) i best = Some (i + length body + 1)%nat.
Proof.
  induction body as [|c b IH]; intros s prev i best tail Hst Hq Hl.
  - cbn [app last length] in *.
    assert (Hs : s = S1 \/ s = S3) by (destruct Hst as [[_ E]|[Hs _]]; [congruence|exact Hs]).
    replace (i + 0 + 1)%nat with (S i) by lia.
    destruct Hs as [-> | ->]; cbn [alm sstep sacc sdead]; change (34 =? 34) with true; cbv iota;
      destruct tail; reflexivity.
  - cbn [app quotes_preceded] in *. apply andb_prop in Hq. destruct Hq as [Hc Hq].
    rewrite last_cons in Hl.
    assert (Hnext : st_of c (sstep s c) /\ sdead (sstep s c) = false).
    { destruct (N.eqb_spec c 34) as [->|H34].
      - (* a quote inside the body: the character before is a backslash, the state is S2 *)
        destruct Hst as [[-> Hp]|[_ Hp]]; [|exfalso; cbn in Hc; lia].
        split; [right; split; [right; reflexivity|discriminate]|reflexivity].
      - destruct (N.eqb_spec c 92) as [->|H92].
        + split; [left|]; destruct Hst as [[-> _]|[[-> | ->] _]]; auto.
        + assert (E : sstep s c = S1).
          { destruct Hst as [[-> _]|[[-> | ->] _]]; cbn [sstep];
              replace (c =? 34) with false by lia; replace (c =? 92) with false by lia; reflexivity. }
          rewrite E. split; [right; split; [left; reflexivity|exact H92]|reflexivity]. }
    destruct Hnext as [Hst' Hd].
    cbn [alm]. rewrite Hd. rewrite (IH _ c _ _ tail Hst' Hq Hl). cbn [length]. f_equal. lia.
Qed.

(* the STRING rule on a text that starts with a literal of the shape QuoteValue produces: exactly the literal *)
Lemma longest_string : forall body tail,
  quotes_preceded 34 body = true -> last body 34 <> 92 ->
  longest reSTRING (34 :: body ++ 34 :: tail) = Some (length body + 2)%nat.
Proof.
  intros body tail Hq Hl. unfold longest. cbn [lm].
  change (nullable reSTRING) with false. change (deriv 34 reSTRING) with (sre S1).
  change (is_Empty (sre S1)) with false. cbv iota.
  rewrite lm_alm. rewrite (alm_string body S1 34 1 None tail); [f_equal; lia| |exact Hq|exact Hl].
  right. split; [left; reflexivity|discriminate].
Qed.

(* ---- the token rules of the grammar on a text that starts with a double quote ------------------------ *)

Definition rule_at (i : nat) : rule tkind := nth i lexer_rules (Build_rule ERROR Empty false).

(* the grammar (as regenerated from ContactQL.g4) has the STRING rule the automaton above is about, in sixth
   position, after LPAREN RPAREN AND OR COMPARATOR and before PROPERTY TEXT WS ERROR *)
Lemma grammar_string_rule :
  map (fun r => r_kind r) lexer_rules = [LPAREN; RPAREN; AND; OR; COMPARATOR; STRING; PROPERTY; TEXT; WS; ERROR]
  /\ r_re (rule_at 5) = reSTRING /\ r_skip (rule_at 5) = false.
Proof. repeat split. Qed.

Lemma other_rules_dead_on_quote : forall i, (i < 9)%nat -> i <> 5%nat ->
  nullable (r_re (rule_at i)) = false /\ is_Empty (deriv 34 (r_re (rule_at i))) = true.
Proof.
  intros i Hi H5.
  do 9 (destruct i as [|i]; [try (exfalso; apply H5; reflexivity); split; vm_compute; reflexivity|]).
  lia.
Qed.

Lemma error_rule : r_re (rule_at 9) = Chr CAny /\ length lexer_rules = 10%nat.
Proof. split; reflexivity. Qed.

Lemma lexer_rules_split :
  lexer_rules = [rule_at 0; rule_at 1; rule_at 2; rule_at 3; rule_at 4; rule_at 5; rule_at 6; rule_at 7; rule_at 8; rule_at 9].
Proof. reflexivity. Qed.

Lemma pick_cons_none {kind} (r : rule kind) rs s cur :
  longest (r_re r) s = None -> pick (r :: rs) s cur = pick rs s cur.
Proof. intros H. cbn [pick]. rewrite H. reflexivity. Qed.

Lemma pick10 {kind} (r0 r1 r2 r3 r4 r5 r6 r7 r8 r9 : rule kind) s n :
  longest (r_re r0) s = None -> longest (r_re r1) s = None -> longest (r_re r2) s = None ->
  longest (r_re r3) s = None -> longest (r_re r4) s = None ->
  longest (r_re r5) s = Some (S (S n)) ->
  longest (r_re r6) s = None -> longest (r_re r7) s = None -> longest (r_re r8) s = None ->
  longest (r_re r9) s = Some 1%nat ->
  pick [r0; r1; r2; r3; r4; r5; r6; r7; r8; r9] s None = Some (r5, S (S n)).
Proof.
  intros H0 H1 H2 H3 H4 H5 H6 H7 H8 H9.
  rewrite !pick_cons_none by assumption.
  cbn [pick]. rewrite H5, H6, H7, H8, H9. reflexivity.
Qed.

Lemma pick_string : forall body tail,
  quotes_preceded 34 body = true -> last body 34 <> 92 ->
  pick lexer_rules (34 :: body ++ 34 :: tail) None = Some (rule_at 5, (length body + 2)%nat).
Proof.
  intros body tail Hq Hl. rewrite lexer_rules_split.
  assert (D : forall i, (i <=? 8)%nat = true -> (i =? 5)%nat = false ->
              longest (r_re (rule_at i)) (34 :: body ++ 34 :: tail) = None).
  { intros i Hi H5. apply Nat.leb_le in Hi. apply Nat.eqb_neq in H5.
    destruct (other_rules_dead_on_quote i ltac:(lia) H5) as [A B]. apply longest_dead; assumption. }
  replace (length body + 2)%nat with (S (S (length body))) by lia.
  apply pick10; try (apply D; reflexivity).
  - destruct grammar_string_rule as (_ & -> & _).
    rewrite longest_string by assumption. f_equal. lia.
  - destruct error_rule as [-> _]. destruct body; reflexivity.
Qed.

(* ---- lexing a quoted value at the head of a text ---------------------------------------------------------- *)

Theorem lex_quoted_value : forall p v rest,
  cql_lex (quote_value p v ++ rest) =
  match cql_lex rest with
  | LexOk ts => LexOk ((STRING, quote_value p v) :: ts)
  | o => o
  end.
Proof.
  intros p v rest. unfold cql_lex.
  destruct (quote_value_shape p v) as (body & E & Hq & Hl).
  assert (P : pick lexer_rules (quote_value p v ++ rest) None = Some (rule_at 5, length (quote_value p v))).
  { rewrite E. cbn [app]. rewrite <- app_assoc. cbn [app].
    rewrite pick_string by assumption. f_equal. f_equal. cbn [length]. rewrite app_length. cbn [length]. lia. }
  assert (Hne : quote_value p v ++ rest <> []) by (rewrite E; discriminate).
  rewrite (lex_step lexer_rules _ _ _ Hne P).
  rewrite skipn_app, skipn_all, Nat.sub_diag. cbn [skipn app].
  rewrite firstn_app, firstn_all, Nat.sub_diag. cbn [firstn]. rewrite app_nil_r.
  destruct grammar_string_rule as (_ & _ & ->).
  reflexivity.
Qed.

(* the visitor reads the token back as the value *)
Lemma literal_value_quoted : forall p v,
  p 10 = false -> valid_codepoints v -> literal_value (STRING, quote_value p v) = LVal v.
Proof.
  intros p v Hnl Hv. unfold literal_value.
  change (find (fun q => tkind_eqb (fst q) STRING) literal_alts) with (Some (STRING, LitString)).
  cbv iota. rewrite unquote_quote_value by assumption. reflexivity.
Qed.

(* both facts together: whatever follows, the escaped value becomes exactly one STRING token, read back as v *)
Theorem no_injection_head : forall p v rest,
  p 10 = false -> valid_codepoints v ->
  cql_lex (quote_value p v ++ rest) =
    match cql_lex rest with
    | LexOk ts => LexOk ((STRING, quote_value p v) :: ts)
    | o => o
    end
  /\ literal_value (STRING, quote_value p v) = LVal v.
Proof. intros p v rest Hnl Hv. split; [apply lex_quoted_value|apply literal_value_quoted; assumption]. Qed.

(* the printer's hypothesis in the theorem above is needed: before the repair of F11 (strconv.Quote alone) a value
   ending in a backslash swallowed what followed — the lexer model reproduces it *)
Example plain_quote_swallows :
  let p := fun c => (32 <=? c) && (c <? 127) in
  cql_lex (quote p [97; 92] ++ [32; 65; 78; 68; 32; 34; 98; 34])
  = LexOk [(STRING, [34; 97; 92; 92; 34; 32; 65; 78; 68; 32; 34]); (PROPERTY, [98]); (ERROR, [34])]
  /\ cql_lex (quote_value p [97; 92] ++ [32; 65; 78; 68; 32; 34; 98; 34])
  = LexOk [(STRING, [34; 97; 92; 120; 53; 99; 34]); (AND, [65; 78; 68]); (STRING, [34; 98; 34])].
Proof. split; vm_compute; reflexivity. Qed.
