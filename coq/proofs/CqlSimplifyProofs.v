(* proofs/CqlSimplifyProofs.v — the normal form of BoolCombination.Simplify (model/CqlPrinter.v [simplify]):
   what ParseQuery returns is in normal form, and Simplify leaves a normal form alone. *)
From Coq Require Import List Arith NArith Bool Lia.
From Verif Require Import model.CqlSyntax model.CqlPrinter.
Import ListNotations.
Close Scope N_scope.

Section NodeInd.
  Variable P : node -> Prop.
  Hypothesis Hc : forall pt k o v, P (Cond pt k o v).
  Hypothesis Hb : forall b ch, Forall P ch -> P (Comb b ch).
  Fixpoint node_ind' (q : node) : P q :=
    match q with
    | Cond pt k o v => Hc pt k o v
    | Comb b ch =>
        Hb b ch ((fix go (l : list node) : Forall P l :=
                    match l with
                    | [] => Forall_nil P
                    | x :: r => Forall_cons x (node_ind' x) (go r)
                    end) ch)
    end.
End NodeInd.

Definition not_comb (b : boolop) (c : node) : Prop := forall gc, c <> Comb b gc.

(* normal form: every combination has at least two children, none of which is a combination with the same
   operator *)
Inductive simplified : node -> Prop :=
| simp_cond : forall pt k o v, simplified (Cond pt k o v)
| simp_comb : forall b ch, (2 <= length ch)%nat -> Forall simplified ch -> Forall (not_comb b) ch ->
    simplified (Comb b ch).

Lemma boolop_eqb_eq a b : boolop_eqb a b = true <-> a = b.
Proof. destruct a, b; simpl; split; congruence. Qed.

Lemma promote_not_comb b c : not_comb b c -> promote b c = [c].
Proof.
  intros H. destruct c as [pt k o v|b' gc]; [reflexivity|]. simpl.
  destruct (boolop_eqb b' b) eqn:E; [|reflexivity].
  apply boolop_eqb_eq in E. subst b'. exfalso. exact (H gc eq_refl).
Qed.

Lemma flat_map_promote_id b ch : Forall (not_comb b) ch -> flat_map (promote b) ch = ch.
Proof.
  induction 1 as [|c ch Hc _ IH]; [reflexivity|]. simpl. rewrite promote_not_comb by exact Hc. rewrite IH. reflexivity.
Qed.

Lemma keep_some_map_Some {A} (l : list A) : keep_some (map Some l) = l.
Proof. induction l; simpl; congruence. Qed.

Lemma simplify_fixed : forall q, simplified q -> simplify q = Some q.
Proof.
  induction q as [pt k o v|b ch IH] using node_ind'; intros Hs; [reflexivity|].
  inversion Hs as [|? ? Hlen Hch Hnc]; subst.
  assert (E : map simplify ch = map Some ch).
  { clear Hlen Hnc Hs. induction ch as [|c ch IHch]; [reflexivity|].
    inversion IH; subst. inversion Hch; subst. simpl. f_equal; auto. }
  simpl. rewrite E, keep_some_map_Some, flat_map_promote_id by exact Hnc.
  destruct ch as [|x [|y ch']]; simpl in Hlen; try lia. reflexivity.
Qed.

(* the elements that [promote] yields from simplified children are simplified and are not b-combinations *)
Lemma promote_elements b cs : Forall simplified cs ->
  Forall (fun x => simplified x /\ not_comb b x) (flat_map (promote b) cs).
Proof.
  induction 1 as [|c cs Hc _ IH]; [constructor|]. simpl. apply Forall_app. split; [|exact IH].
  destruct c as [pt k o v|b' gc]; simpl.
  - constructor; [|constructor]. split; [exact Hc|intros gc; discriminate].
  - destruct (boolop_eqb b' b) eqn:E.
    + apply boolop_eqb_eq in E. subst b'. inversion Hc as [|? ? _ H1 H2]; subst.
      rewrite Forall_forall in *. intros x Hx. split; [apply H1|apply H2]; exact Hx.
    + constructor; [|constructor]. split; [exact Hc|].
      intros gc' E'. inversion E'; subst. destruct b; discriminate.
Qed.

Lemma simplify_simplified : forall q q', simplify q = Some q' -> simplified q'.
Proof.
  induction q as [pt k o v|b ch IH] using node_ind'; intros q' H.
  - inversion H. constructor.
  - simpl in H.
    assert (Hcs : Forall simplified (keep_some (map simplify ch))).
    { clear H. induction ch as [|c ch IHch]; [constructor|].
      inversion IH; subst. simpl. destruct (simplify c) eqn:E; [constructor|]; auto. }
    pose proof (promote_elements b _ Hcs) as He.
    destruct (flat_map (promote b) (keep_some (map simplify ch))) as [|x [|y nc]]; simpl in H; [discriminate| |].
    + inversion H; subst. inversion He as [|? ? [Hx _] _]. exact Hx.
    + inversion H; subst. constructor.
      * simpl. lia.
      * eapply Forall_impl; [|exact He]. intros a [Ha _]. exact Ha.
      * eapply Forall_impl; [|exact He]. intros a [_ Ha]. exact Ha.
Qed.

(* Simplify is idempotent *)
Theorem simplify_idem : forall q q', simplify q = Some q' -> simplify q' = Some q'.
Proof. intros q q' H. apply simplify_fixed. eapply simplify_simplified. exact H. Qed.

(* a tree whose combinations are all non-empty (what the parser builds) does not simplify to nil *)
Inductive nonempty_combs : node -> Prop :=
| ne_cond : forall pt k o v, nonempty_combs (Cond pt k o v)
| ne_comb : forall b ch, ch <> [] -> Forall nonempty_combs ch -> nonempty_combs (Comb b ch).

Lemma promote_length b cs : Forall simplified cs -> (length cs <= length (flat_map (promote b) cs))%nat.
Proof.
  induction 1 as [|c cs Hc _ IH]; [simpl; lia|]. simpl. rewrite app_length.
  destruct c as [pt k o v|b' gc]; simpl; [lia|].
  destruct (boolop_eqb b' b); simpl; [|lia].
  inversion Hc; subst. lia.
Qed.

Lemma simplify_some : forall q, nonempty_combs q -> exists q', simplify q = Some q'.
Proof.
  induction q as [pt k o v|b ch IH] using node_ind'; intros Hn; [eexists; reflexivity|].
  inversion Hn as [|? ? Hne Hch]; subst.
  assert (Hcs : length (keep_some (map simplify ch)) = length ch /\ Forall simplified (keep_some (map simplify ch))).
  { clear Hne Hn. induction ch as [|c ch IHch]; [split; [reflexivity|constructor]|].
    inversion IH; subst. inversion Hch; subst.
    destruct (H1 H3) as [c' Ec]. destruct (IHch H2 H4) as [L F]. simpl. rewrite Ec. simpl. split; [lia|].
    constructor; [eapply simplify_simplified; exact Ec|exact F]. }
  destruct Hcs as [L F]. pose proof (promote_length b _ F) as PL. simpl.
  destruct (flat_map (promote b) (keep_some (map simplify ch))) as [|x [|y nc]]; simpl; eauto.
  destruct ch; [congruence|]. simpl in *. lia.
Qed.

Example simplified_example :
  simplified (Comb BOr [Cond PAttr [110%N] OpEqual [97%N]; Comb BAnd [Cond PField [120%N] OpEqual [49%N]; Cond PURN [116%N] OpContains [50%N]]]).
Proof.
  constructor; [simpl; lia| |].
  - repeat constructor; try (simpl; lia); intros gc; discriminate.
  - repeat constructor; intros gc; discriminate.
Qed.
