(* MigrateProofs.v -- lemmas about model/Migrate.v: version selection, what a migration leaves alone at the top level
   of a definition and of a node, the version stamp, and the finite obligations over the generated registration table.
   The theorems of props/C16.v are these lemmas. *)
From Coq Require Import List NArith ZArith Bool String Lia.
From Verif Require Import lib.Json gen.MigrationTable model.Migrate.
Import ListNotations.
Open Scope N_scope.

(* ---- the order on versions ---------------------------------------------------------------------------------- *)

Definition vlt_prop (a b : version) : Prop :=
  let '(a1, a2, a3) := a in let '(b1, b2, b3) := b in
  a1 < b1 \/ (a1 = b1 /\ (a2 < b2 \/ (a2 = b2 /\ a3 < b3))).

Lemma vcmp_lt : forall a b, vcmp a b = Lt <-> vlt_prop a b.
Proof.
  intros [[a1 a2] a3] [[b1 b2] b3]. unfold vcmp, vlt_prop.
  destruct (N.compare_spec a1 b1); destruct (N.compare_spec a2 b2); destruct (N.compare_spec a3 b3);
    split; intro H'; try discriminate; try reflexivity; try lia.
Qed.

Lemma vcmp_gt : forall a b, vcmp a b = Gt <-> vlt_prop b a.
Proof.
  intros [[a1 a2] a3] [[b1 b2] b3]. unfold vcmp, vlt_prop.
  destruct (N.compare_spec a1 b1); destruct (N.compare_spec a2 b2); destruct (N.compare_spec a3 b3);
    split; intro H'; try discriminate; try reflexivity; try lia.
Qed.

Lemma vcmp_eq : forall a b, vcmp a b = Eq <-> a = b.
Proof.
  intros [[a1 a2] a3] [[b1 b2] b3]. unfold vcmp.
  destruct (N.compare_spec a1 b1); destruct (N.compare_spec a2 b2); destruct (N.compare_spec a3 b3);
    split; intro H'; try discriminate; try reflexivity; try (inversion H'; lia); subst; reflexivity.
Qed.

Lemma vlt_true : forall a b, vlt a b = true <-> vlt_prop a b.
Proof.
  intros a b. unfold vlt. rewrite <- vcmp_lt. destruct (vcmp a b); split; intro H; try discriminate; reflexivity.
Qed.

Lemma vle_true : forall a b, vle a b = true <-> ~ vlt_prop b a.
Proof.
  intros a b. unfold vle. rewrite <- vcmp_gt.
  destruct (vcmp a b); split; intro H; try reflexivity; try discriminate;
    try (intro; discriminate); try (exfalso; apply H; reflexivity).
Qed.

Lemma vlt_false_vle : forall a b, vlt a b = false <-> vle b a = true.
Proof.
  intros a b. rewrite vle_true. rewrite <- vlt_true.
  destruct (vlt a b); split; intro H; try reflexivity; try discriminate;
    try (intro; discriminate); try (exfalso; apply H; reflexivity).
Qed.

Lemma vlt_prop_trans : forall a b c, vlt_prop a b -> vlt_prop b c -> vlt_prop a c.
Proof. intros [[a1 a2] a3] [[b1 b2] b3] [[c1 c2] c3]. unfold vlt_prop. lia. Qed.

Lemma vlt_prop_irrefl : forall a, ~ vlt_prop a a.
Proof. intros [[a1 a2] a3]. unfold vlt_prop. lia. Qed.

Lemma vle_lt_trans : forall a b c, vle a b = true -> vlt_prop b c -> vlt_prop a c.
Proof.
  intros [[a1 a2] a3] [[b1 b2] b3] [[c1 c2] c3] H. apply vle_true in H. revert H. unfold vlt_prop. lia.
Qed.

Lemma vlt_le_trans : forall a b c, vlt_prop a b -> vle b c = true -> vlt_prop a c.
Proof.
  intros [[a1 a2] a3] [[b1 b2] b3] [[c1 c2] c3] H1 H. apply vle_true in H. revert H1 H. unfold vlt_prop. lia.
Qed.

Lemma vle_trans : forall a b c, vle a b = true -> vle b c = true -> vle a c = true.
Proof.
  intros [[a1 a2] a3] [[b1 b2] b3] [[c1 c2] c3] H1 H2. apply vle_true in H1, H2. apply vle_true.
  revert H1 H2. unfold vlt_prop. lia.
Qed.

Lemma vle_refl : forall a, vle a a = true.
Proof. intro a. apply vle_true. apply vlt_prop_irrefl. Qed.

Lemma vlt_vle : forall a b, vlt_prop a b -> vle a b = true.
Proof.
  intros [[a1 a2] a3] [[b1 b2] b3] H. apply vle_true. revert H. unfold vlt_prop. lia.
Qed.

(* ---- insertion sort ------------------------------------------------------------------------------------------- *)

Section Sorting.
  Context {A : Type}.
  Implicit Types (l : list (version * A)) (x : version * A).

  Fixpoint sorted l : Prop :=
    match l with
    | [] => True
    | x :: r => (match r with [] => True | y :: _ => vle (fst x) (fst y) = true end) /\ sorted r
    end.

  Lemma insert_In : forall x l y, In y (insert_version x l) <-> y = x \/ In y l.
  Proof.
    intros x l y. induction l as [|z l IH]; cbn [insert_version].
    - cbn. intuition.
    - destruct (vlt (fst z) (fst x)); cbn [In]; [rewrite IH|]; intuition.
  Qed.

  Lemma sort_In : forall l y, In y (sort_versions l) <-> In y l.
  Proof.
    intros l y. induction l as [|x l IH]; cbn [sort_versions fold_right]; [reflexivity|].
    fold (sort_versions l). rewrite insert_In, IH. cbn [In]. intuition.
  Qed.

  Lemma insert_sorted : forall x l, sorted l -> sorted (insert_version x l).
  Proof.
    intros x l. induction l as [|z l IH]; intro Hs; cbn [insert_version].
    - cbn. auto.
    - destruct (vlt (fst z) (fst x)) eqn:E.
      + destruct Hs as [Hz Hs]. specialize (IH Hs). cbn [sorted]. split; [|exact IH].
        destruct l as [|w l]; cbn [insert_version].
        * apply vlt_vle. now apply vlt_true.
        * destruct (vlt (fst w) (fst x)); [exact Hz | apply vlt_vle; now apply vlt_true].
      + cbn [sorted]. split; [now apply vlt_false_vle | exact Hs].
  Qed.

  Lemma sort_sorted : forall l, sorted (sort_versions l).
  Proof.
    induction l as [|x l IH]; cbn [sort_versions fold_right]; [exact I|]. now apply insert_sorted.
  Qed.

  (* the last element of a sorted list is the greatest *)
  Lemma sorted_last_max : forall l d y, sorted l -> In y l -> vle (fst y) (fst (last l d)) = true.
  Proof.
    induction l as [|x l IH]; intros d y Hs Hy; [contradiction|].
    destruct Hs as [Hx Hs]. destruct l as [|z l].
    - destruct Hy as [<-|[]]. cbn. apply vle_refl.
    - change (last (x :: z :: l) d) with (last (z :: l) d).
      destruct Hy as [<-|Hy].
      + eapply vle_trans; [exact Hx|]. apply IH; [exact Hs | now left].
      + now apply IH.
  Qed.

  Lemma last_In : forall l d, l <> [] -> In (last l d) l.
  Proof.
    induction l as [|x l IH]; intros d H; [congruence|]. destruct l as [|z l]; [now left|].
    right. apply IH. discriminate.
  Qed.
End Sorting.

Lemma select_In : forall {A} (table : list (version * A)) from to y,
  In y (select_versions table from to) <->
  In y table /\ vlt from (fst y) = true /\ match to with None => True | Some t => vle (fst y) t = true end.
Proof.
  intros A table from to y. unfold select_versions. rewrite sort_In, filter_In, andb_true_iff.
  destruct to; intuition.
Qed.

Lemma select_sorted : forall {A} (table : list (version * A)) from to, sorted (select_versions table from to).
Proof. intros. apply sort_sorted. Qed.

(* nothing registered is newer than [from]: nothing is selected *)
Lemma select_nil : forall {A} (table : list (version * A)) from to,
  (forall r, In r table -> vle (fst r) from = true) -> select_versions table from to = [].
Proof.
  intros A table from to H. destruct (select_versions table from to) as [|y l] eqn:E; [reflexivity|].
  assert (Hy : In y (select_versions table from to)) by (rewrite E; now left).
  apply select_In in Hy. destruct Hy as [Hy [Hlt _]]. apply H in Hy. apply vlt_false_vle in Hy. congruence.
Qed.

(* ---- keys ------------------------------------------------------------------------------------------------------- *)

Ltac key_neq := apply str_eqb_neq; reflexivity.

Lemma olookup_oset : forall k k' v o, olookup k' (oset k v o) = if str_eqb k' k then Some v else olookup k' o.
Proof.
  intros k k' v o. destruct (str_eqb k' k) eqn:E.
  - apply str_eqb_eq in E. subst. apply olookup_oset_same.
  - apply olookup_oset_other. apply str_eqb_neq in E. congruence.
Qed.

(* ---- what the traversals leave alone ------------------------------------------------------------------------- *)

Lemma on_array_member_other : forall {S} k (f : S -> obj -> S * obj) st o k',
  k' <> k -> olookup k' (snd (on_array_member k f st o)) = olookup k' o.
Proof.
  intros S k f st o k' Hne. unfold on_array_member.
  destruct (olookup k o) as [[| | | |l|]|]; try reflexivity.
  destruct (on_objects f st l) as [st' l']. cbn [snd]. apply olookup_oset_other. congruence.
Qed.

Lemma on_object_member_other : forall {S} k (f : S -> obj -> S * obj) st o k',
  k' <> k -> olookup k' (snd (on_object_member k f st o)) = olookup k' o.
Proof.
  intros S k f st o k' Hne. unfold on_object_member.
  destruct (olookup k o) as [[| | | | |x]|]; try reflexivity.
  destruct (f st x) as [st' x']. cbn [snd]. apply olookup_oset_other. congruence.
Qed.

Lemma with_localization_other : forall body fr f k',
  k' <> k_localization ->
  (forall st, olookup k' (snd (body st f)) = olookup k' f) ->
  olookup k' (fst (with_localization body fr f)) = olookup k' f.
Proof.
  intros body fr f k' Hne Hb. unfold with_localization.
  specialize (Hb (fr, get_obj k_localization f)).
  destruct (body (fr, get_obj k_localization f) f) as [[fr' loc'] f']. cbn [snd] in Hb. cbn [fst].
  destruct loc' as [l|]; [|exact Hb]. rewrite olookup_oset_other by congruence. exact Hb.
Qed.

(* ---- nodes keep their skeleton ---------------------------------------------------------------------------------- *)

(* a node transformer that leaves uuid and exits where they are *)
Definition keeps_skeleton {S} (step : S -> obj -> S * obj) : Prop :=
  forall st o, olookup k_uuid (snd (step st o)) = olookup k_uuid o
            /\ olookup k_exits (snd (step st o)) = olookup k_exits o.

Lemma on_objects_skeleton : forall {S} (step : S -> obj -> S * obj) st l,
  keeps_skeleton step -> map node_skeleton (snd (on_objects step st l)) = map node_skeleton l.
Proof.
  intros S step st l Hk. unfold on_objects. revert st.
  induction l as [|x l IH]; intro st; [reflexivity|].
  cbn [map_st]. destruct x as [| | | | |o].
  1-5: (specialize (IH st); destruct (map_st _ st l) as [st2 r']; cbn [snd map] in *; now rewrite IH).
  destruct (step st o) as [st1 o'] eqn:E.
  specialize (IH st1). destruct (map_st _ st1 l) as [st2 r'].
  cbn [snd map] in *. rewrite IH. f_equal. unfold node_skeleton.
  destruct (Hk st o) as [H1 H2]. rewrite E in H1, H2. cbn [snd] in H1, H2. now rewrite H1, H2.
Qed.

Lemma nodes_loop_graph : forall {S} (step : S -> obj -> S * obj) st f,
  keeps_skeleton step -> graph (JObj (snd (on_array_member k_nodes step st f))) = graph (JObj f).
Proof.
  intros S step st f Hk. unfold graph.
  rewrite on_array_member_other by key_neq. f_equal.
  unfold on_array_member. destruct (olookup k_nodes f) as [[| | | |l|]|] eqn:E; cbn [snd]; try (rewrite E; reflexivity).
  pose proof (on_objects_skeleton step st l Hk) as Hs.
  destruct (on_objects step st l) as [st' l']. cbn [snd] in *. rewrite olookup_oset_same. now rewrite Hs.
Qed.

Lemma graph_oset_other : forall k v f, k <> k_uuid -> k <> k_nodes -> graph (JObj (oset k v f)) = graph (JObj f).
Proof.
  intros k v f H1 H2. unfold graph. rewrite !olookup_oset_other by assumption. reflexivity.
Qed.

Lemma with_localization_graph : forall body fr f,
  (forall st, graph (JObj (snd (body st f))) = graph (JObj f)) ->
  graph (JObj (fst (with_localization body fr f))) = graph (JObj f).
Proof.
  intros body fr f Hb. unfold with_localization. specialize (Hb (fr, get_obj k_localization f)).
  destruct (body (fr, get_obj k_localization f) f) as [[fr' loc'] f']. cbn [snd fst] in *.
  destruct loc' as [l|]; [|exact Hb]. rewrite graph_oset_other by key_neq. exact Hb.
Qed.

Lemma actions_loop_keeps : forall {S} (step : S -> obj -> S * obj), keeps_skeleton (on_array_member k_actions step).
Proof. intros S step st o. split; apply on_array_member_other; key_neq. Qed.

Lemma actions_router_keeps : forall {S} (fa fr : S -> obj -> S * obj),
  keeps_skeleton (fun st n => let '(st1, n1) := on_array_member k_actions fa st n in on_object_member k_router fr st1 n1).
Proof.
  intros S fa fr st o.
  pose proof (on_array_member_other k_actions fa st o) as Ha.
  destruct (on_array_member k_actions fa st o) as [st1 n1]. cbn [snd] in Ha.
  split; rewrite on_object_member_other by key_neq; apply Ha; key_neq.
Qed.

(* ---- every transcribed migration: top-level members other than nodes, localization, language stay; so does the graph *)

Definition preserves (m : migration) : Prop :=
  forall tx fr f,
    graph (JObj (fst (m tx fr f))) = graph (JObj f)
    /\ forall k, k <> k_nodes -> k <> k_localization -> k <> k_language ->
                 olookup k (fst (m tx fr f)) = olookup k f.

Lemma nodes_migration_preserves : forall (step : mstate -> obj -> mstate * obj),
  keeps_skeleton step ->
  forall fr f,
    graph (JObj (fst (with_localization (on_array_member k_nodes step) fr f))) = graph (JObj f)
    /\ forall k, k <> k_nodes -> k <> k_localization -> k <> k_language ->
                 olookup k (fst (with_localization (on_array_member k_nodes step) fr f)) = olookup k f.
Proof.
  intros step Hk fr f. split.
  - apply with_localization_graph. intro st. now apply nodes_loop_graph.
  - intros k H1 H2 _. apply with_localization_other; [assumption|]. intro st. now apply on_array_member_other.
Qed.

Lemma migrate_13_1_preserves : preserves migrate_13_1.
Proof. intros tx fr f. apply nodes_migration_preserves. apply actions_loop_keeps. Qed.

Lemma migrate_13_4_preserves : preserves migrate_13_4.
Proof. intros tx fr f. apply nodes_migration_preserves. apply actions_loop_keeps. Qed.

Lemma migrate_13_5_preserves : preserves migrate_13_5.
Proof. intros tx fr f. apply nodes_migration_preserves. apply actions_loop_keeps. Qed.

Lemma migrate_13_3_preserves : preserves migrate_13_3.
Proof. intros tx fr f. apply nodes_migration_preserves. apply actions_router_keeps. Qed.

Lemma migrate_13_6_preserves : preserves migrate_13_6.
Proof. intros tx fr f. apply nodes_migration_preserves. apply actions_router_keeps. Qed.

Lemma migrate_13_2_preserves : preserves migrate_13_2.
Proof.
  intros tx fr f. unfold migrate_13_2.
  destruct (Nat.eqb _ 3); cbn [fst]; [split; reflexivity|].
  destruct (get_obj k_localization (oset k_language (JStr und) f)) as [l|]; split.
  - rewrite !graph_oset_other by key_neq. reflexivity.
  - intros k _ H2 H3. rewrite !olookup_oset_other by congruence. reflexivity.
  - rewrite graph_oset_other by key_neq. reflexivity.
  - intros k _ _ H3. rewrite olookup_oset_other by congruence. reflexivity.
Qed.

Lemma known_migration_preserves : forall name m, migration_of_name name = Some m -> preserves m.
Proof.
  intros name m. unfold migration_of_name.
  repeat (match goal with |- context [String.eqb name ?x] => destruct (String.eqb name x) end;
          [intro H; inversion H; subst;
           first [apply migrate_13_1_preserves | apply migrate_13_2_preserves | apply migrate_13_3_preserves
                 | apply migrate_13_4_preserves | apply migrate_13_5_preserves | apply migrate_13_6_preserves]|]).
  discriminate.
Qed.

(* ---- the loop of migrate(): graph, header members, stamp ---------------------------------------------------------- *)

Definition no_step : version * string := ((0, 0, 0), EmptyString).

Lemma apply_versions_out : forall tx steps fr f j' fr',
  apply_versions tx steps fr f = (MOut j', fr') ->
  exists f', j' = JObj f'
    /\ graph (JObj f') = graph (JObj f)
    /\ olookup k_uuid f' = olookup k_uuid f
    /\ olookup k_name f' = olookup k_name f
    /\ (steps = [] -> f' = f)
    /\ (steps <> [] -> olookup k_spec_version f' = Some (JStr (version_text (fst (last steps no_step))))).
Proof.
  intros tx steps. induction steps as [|[v name] rest IH]; intros fr f j' fr' H; cbn [apply_versions] in H.
  - inversion H; subst. exists f. repeat split; try reflexivity. congruence.
  - destruct (migration_of_name name) as [m|] eqn:Em; [|discriminate].
    destruct (known_migration_preserves _ _ Em tx fr f) as [Hg Hk].
    destruct (m tx fr f) as [f1 fr1]. cbn [fst] in Hg, Hk.
    apply IH in H. destruct H as [f' [-> [Hg' [Hu [Hn [He Hv]]]]]].
    exists f'. split; [reflexivity|]. split; [|split; [|split; [|split]]].
    + rewrite Hg', graph_oset_other by key_neq. exact Hg.
    + rewrite Hu, olookup_oset_other by key_neq. apply Hk; key_neq.
    + rewrite Hn, olookup_oset_other by key_neq. apply Hk; key_neq.
    + discriminate.
    + intros _. destruct rest as [|r rest'].
      * rewrite (He eq_refl). cbn [last fst]. apply olookup_oset_same.
      * change (last ((v, name) :: r :: rest') no_step) with (last (r :: rest') no_step). apply Hv. discriminate.
Qed.

(* ---- finite obligations over the generated registration table (re-checked whenever the table changes) ------------ *)

(* every registered Go function has a transcription in model/Migrate.v *)
Definition registered_known : bool :=
  forallb (fun r : version * string => match migration_of_name (snd r) with Some _ => true | None => false end) registered.
(* nothing is registered above definition.CurrentSpecVersion, and CurrentSpecVersion itself is registered *)
Definition registered_le_current : bool :=
  forallb (fun r : version * string => vle (fst r) current_spec_version) registered
  && existsb (fun r : version * string => veqb (fst r) current_spec_version) registered.
(* the stamp of every registered version reads back as that version *)
Definition registered_roundtrip : bool :=
  forallb (fun r : version * string =>
             match parse_version (version_text (fst r)) with Some v => veqb v (fst r) | None => false end) registered.

Lemma registered_known_true : registered_known = true.
Proof. vm_compute. reflexivity. Qed.
Lemma registered_le_current_true : registered_le_current = true.
Proof. vm_compute. reflexivity. Qed.
Lemma registered_roundtrip_true : registered_roundtrip = true.
Proof. vm_compute. reflexivity. Qed.

Lemma registered_le : forall r : version * string, In r registered -> vle (fst r) current_spec_version = true.
Proof.
  pose proof registered_le_current_true as H. unfold registered_le_current in H.
  apply andb_true_iff in H. destruct H as [H _]. rewrite forallb_forall in H. exact H.
Qed.

Lemma registered_rt : forall r : version * string, In r registered -> parse_version (version_text (fst r)) = Some (fst r).
Proof.
  pose proof registered_roundtrip_true as H. unfold registered_roundtrip in H. rewrite forallb_forall in H. intros r Hr. specialize (H r Hr). cbv beta in H.
  destruct (parse_version (version_text (fst r))) as [v|]; [|discriminate H].
  unfold veqb in H. destruct (vcmp v (fst r)) eqn:E; try discriminate H. apply vcmp_eq in E. now subst.
Qed.

(* ---- a definition already at (or beyond) the current version is returned as it is -------------------------------- *)

Lemma header_is_object : forall j v, header_version j = Some v -> exists f, j = JObj f.
Proof. intros j v H. destruct j; try discriminate. eauto. Qed.

Lemma untouched : forall tx j to fr v,
  header_version j = Some v -> vle current_spec_version v = true -> migrate_to tx j to fr = (MSame, fr).
Proof.
  intros tx j to fr v Hh Hv. destruct (header_is_object _ _ Hh) as [f ->].
  unfold migrate_to, migrate_with. rewrite Hh.
  rewrite select_nil; [reflexivity|]. intros r Hr. eapply vle_trans; [now apply registered_le | exact Hv].
Qed.

(* ---- the result carries the stamp of the last version applied; its header reads as that version ---------------------- *)

Lemma header_after : forall f f' from v,
  header_version (JObj f) = Some from ->
  olookup k_uuid f' = olookup k_uuid f -> olookup k_name f' = olookup k_name f ->
  olookup k_spec_version f' = Some (JStr (version_text v)) ->
  header_version (JObj f') = parse_version (version_text v).
Proof.
  intros f f' from v Hh Hu Hn Hs. unfold header_version in *. rewrite Hu, Hn, Hs.
  destruct (olookup k_uuid f) as [[| | |u| |]|]; try discriminate.
  destruct (olookup k_spec_version f) as [[| | |sv| |]|]; try discriminate.
  destruct (is_uuid4 u && _); [reflexivity | discriminate].
Qed.

Lemma migrate_out : forall tx j to fr j' fr',
  migrate_to tx j to fr = (MOut j', fr') ->
  exists from f f' step,
    j = JObj f /\ j' = JObj f' /\ header_version j = Some from
    /\ In step (select_versions registered from to)
    /\ (forall r, In r (select_versions registered from to) -> vle (fst r) (fst step) = true)
    /\ header_version j' = Some (fst step)
    /\ graph j' = graph j.
Proof.
  intros tx j to fr j' fr' H. unfold migrate_to, migrate_with in H.
  destruct (header_version j) as [from|] eqn:Hh; [|destruct j; discriminate].
  destruct (header_is_object _ _ Hh) as [f ->].
  destruct (select_versions registered from to) as [|s0 steps] eqn:Es; [discriminate|].
  apply apply_versions_out in H. destruct H as [f' [-> [Hg [Hu [Hn [_ Hv]]]]]].
  specialize (Hv ltac:(discriminate)).
  set (step := last (s0 :: steps) no_step) in *.
  assert (Hin : In step (s0 :: steps)) by (apply last_In; discriminate).
  exists from, f, f', step. rewrite Es.
  split; [reflexivity|]. split; [reflexivity|]. split; [reflexivity|]. split; [exact Hin|].
  split; [|split; [|exact Hg]].
  - intros r Hr. apply sorted_last_max; [|exact Hr]. rewrite <- Es. apply select_sorted.
  - rewrite (header_after f f' from (fst step) Hh Hu Hn Hv). apply registered_rt.
    rewrite <- Es in Hin. apply select_In in Hin. tauto.
Qed.

(* the version stamp: the result's header names a registered version newer than the source's and within the target *)
Lemma stamped : forall tx j to fr j' fr',
  migrate_to tx j to fr = (MOut j', fr') ->
  exists from v, header_version j = Some from /\ header_version j' = Some v
    /\ In v (map fst registered) /\ vlt from v = true
    /\ match to with None => v = current_spec_version | Some t => vle v t = true end.
Proof.
  intros tx j to fr j' fr' H. apply migrate_out in H.
  destruct H as [from [f [f' [step [-> [-> [Hh [Hin [Hmax [Hh' _]]]]]]]]]].
  exists from, (fst step). pose proof Hin as Hin'. apply select_In in Hin'. destruct Hin' as [Hr [Hlt Hto]].
  split; [exact Hh|]. split; [exact Hh'|]. split; [now apply in_map|]. split; [exact Hlt|].
  - destruct to as [t|]; [exact Hto|].
    (* latest: the current version is registered and newer than the source, so it was selected; it is the greatest *)
    pose proof registered_le_current_true as Hc. unfold registered_le_current in Hc. apply andb_true_iff in Hc. destruct Hc as [_ Hc].
    apply existsb_exists in Hc. destruct Hc as [c [Hc Hceq]].
    unfold veqb in Hceq. destruct (vcmp (fst c) current_spec_version) eqn:E; try discriminate. apply vcmp_eq in E.
    assert (Hcsel : In c (select_versions registered from None)).
    { apply select_In. repeat split; [exact Hc|]. apply vlt_true. eapply vlt_le_trans; [apply vlt_true; exact Hlt|].
      rewrite E. now apply registered_le. }
    apply Hmax in Hcsel. rewrite E in Hcsel.
    pose proof (registered_le _ Hr) as Hle.
    apply vle_true in Hcsel, Hle. destruct (vcmp (fst step) current_spec_version) eqn:E2.
    + now apply vcmp_eq in E2.
    + apply vcmp_lt in E2. contradiction.
    + apply vcmp_gt in E2. contradiction.
Qed.

(* ---- migrating again changes nothing ---------------------------------------------------------------------------------- *)

Lemma idempotent : forall tx j fr j' fr',
  migrate_to_latest tx j fr = (MOut j', fr') ->
  forall tx' to fr2, migrate_to tx' j' to fr2 = (MSame, fr2).
Proof.
  intros tx j fr j' fr' H tx' to fr2. apply stamped in H.
  destruct H as [from [v [_ [Hh' [_ [_ Hv]]]]]]. subst v.
  eapply untouched; [exact Hh' | apply vle_refl].
Qed.

(* ---- the graph: flow uuid, nodes in order, every node's uuid and whole exits array ------------------------------------ *)

Lemma graph_preserved : forall tx j to fr j' fr',
  migrate_to tx j to fr = (MOut j', fr') -> graph j' = graph j.
Proof.
  intros tx j to fr j' fr' H. apply migrate_out in H.
  destruct H as [from [f [f' [step [_ [_ [_ [_ [_ [_ Hg]]]]]]]]]]. exact Hg.
Qed.

(* ---- a definition with a readable header is never refused by the 13.x migrations ------------------------------------ *)

Lemma apply_versions_total : forall tx steps fr f,
  (forall r, In r steps -> exists m, migration_of_name (snd r) = Some m) ->
  exists j' fr', apply_versions tx steps fr f = (MOut j', fr').
Proof.
  intros tx steps. induction steps as [|[v name] rest IH]; intros fr f Hk; cbn [apply_versions]; [eauto|].
  destruct (Hk (v, name) (or_introl eq_refl)) as [m Hm]. cbn [snd] in Hm. rewrite Hm.
  destruct (m tx fr f) as [f1 fr1]. apply IH. intros r Hr. apply Hk. now right.
Qed.

Lemma migrates : forall tx j to fr v,
  header_version j = Some v ->
  migrate_to tx j to fr = (MSame, fr) \/ exists j' fr', migrate_to tx j to fr = (MOut j', fr').
Proof.
  intros tx j to fr v Hh. destruct (header_is_object _ _ Hh) as [f ->].
  unfold migrate_to, migrate_with. rewrite Hh.
  destruct (select_versions registered v to) as [|s0 steps] eqn:Es; [now left|right].
  apply apply_versions_total. intros r Hr. rewrite <- Es in Hr. apply select_In in Hr. destruct Hr as [Hr _].
  pose proof registered_known_true as Hk. unfold registered_known in Hk. rewrite forallb_forall in Hk.
  specialize (Hk r Hr). destruct (migration_of_name (snd r)) as [m|]; [eauto | discriminate].
Qed.

(* ---- the template catalog: every path parses, and to at least one step (jsonpath.visit indexes path[0]) ------------- *)

Definition catalog_paths_nonempty : bool :=
  forallb (fun row : string * list string =>
             forallb (fun p => match parse_path (dollar ++ trim_suffix star_suffix (s p)) with
                               | Some (_ :: _) => true
                               | _ => false
                               end) (snd row))
          (catalog_actions ++ catalog_routers).

Lemma catalog_paths_nonempty_true : catalog_paths_nonempty = true.
Proof. vm_compute. reflexivity. Qed.

(* the translations a path could not reach are rewritten in the localization only: the action / router is what the
   transform made of it *)
Lemma rewrite_path_snd : forall tx loc o p, snd (rewrite_path tx loc o p) = snd (rewrite_templates tx loc o p).
Proof. intros tx loc o p. unfold rewrite_path. destruct (rewrite_templates tx loc o p) as [loc1 o1]. reflexivity. Qed.

(* every catalogue path has a dot (rewriteOrphanTranslations slices the path at its last dot) *)
Definition catalog_paths_dotted : bool :=
  forallb (fun row : string * list string =>
             forallb (fun p => match split_last_dot (trim_suffix star_suffix (s p)) with Some _ => true | None => false end)
                     (snd row))
          (catalog_actions ++ catalog_routers).

Lemma catalog_paths_dotted_true : catalog_paths_dotted = true.
Proof. vm_compute. reflexivity. Qed.
