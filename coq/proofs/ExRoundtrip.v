(* ExRoundtrip.v — C11, token level: the tokens the printer writes for a tree that the parser built are parsed
   back to the normalised tree.  One simultaneous induction on the fuel of the six mutually recursive parser
   functions (model/ExParser.v): if the FIRST parse (of any well-formed token list) returned tree t and rest r,
   then (a) the tokens it consumed are, kind by kind, the tokens [ptoks t] the printer writes for t (Lemma A), and
   (b) the SECOND parse, of [ptoks t] followed by any rest that is kind-wise like r, returns [norm t] and that rest.
   No characterisation of the parser's image (precedence-correct trees) is needed.
   The grammar tables (gen/GrammarE3.v, regenerated from the .g4 on every run) enter through small computed
   lemmas (binop_rt, kinds_prefix, lit_cases, ...). *)
From Coq Require Import List NArith Bool Arith Lia.
From Verif Require Import lib.Quote model.ExSyntax model.ExLexer model.ExParser model.ExPrinter gen.GrammarE3
  proofs.QuoteProofs proofs.ExPrintProofs.
Import ListNotations.
Open Scope N_scope.

Definition tokc (k : kind) (s : text) : token := {| tk := k; tx := s |}.
Definition LP := tokc LPAREN [40].
Definition RP := tokc RPAREN [41].
Definition LB := tokc LBRACK [91].
Definition RB := tokc RBRACK [93].
Definition DOTt := tokc DOT [46].
Definition COMMAt := tokc COMMA [44].
Definition ARROWt := tokc ARROW [61; 62].
Definition MINUSt := tokc MINUS [45].

Definition op_kind (o : binop) : kind :=
  match o with
  | OConcat => AMPERSAND | OAdd => PLUS | OSub => MINUS | OMul => TIMES | ODiv => DIVIDE | OExp => EXPONENT
  | OEq => EQ | ONeq => NEQ | OLt => LT | OLte => LTE | OGt => GT | OGte => GTE
  end.
Definition op_tok (o : binop) : token := tokc (op_kind o) (op_symbol o).

Definition all_digits (l : text) : bool := forallb is_digit l && match l with [] => false | _ => true end.
Definition lookup_tok (l : text) : token := tokc (if all_digits l then INTEGER else NAME) l.
Definition num_tok (r : text) : token := tokc (if existsb (N.eqb 46) r then DECIMAL else INTEGER) r.

Fixpoint names_toks (a : list text) : list token :=
  match a with
  | [] => []
  | n :: r => match r with [] => [tokc NAME n] | _ => tokc NAME n :: COMMAt :: names_toks r end
  end.

Section Roundtrip.
Variable lower : N -> N.
Variable printable : N -> bool.
Hypothesis printable_nl : printable 10 = false.
(* the state of a name map: [ref nm] is the map on the names of context references, [push a nm] the state under the
   parameter list a of an anonymous function (identity for plain printing; "stop renaming" under a parameter named like
   the renamed reference), [pa a nm] the parameter list that is printed for a (a itself, except when parameters are
   given new names to avoid capture) *)
Variable St : Type.
Variable ref : St -> text -> text.
Variable push : list text -> St -> St.
Variable pa : list text -> St -> list text.
Hypothesis pa_len : forall a nm, length (pa a nm) = length a.

(* the tokens Expression.String() writes (spaces are added in proofs/ExRender) *)
Fixpoint ptoks (e : expr) : list token :=
  match e with
  | ECtxRef n => [tokc NAME (map lower n)]
  | EDot c l => ptoks c ++ [DOTt; lookup_tok l]
  | EIndex c l => ptoks c ++ [LB] ++ ptoks l ++ [RB]
  | ECall f ps =>
      ptoks f ++ [LP] ++
      (fix go (l : list expr) : list token :=
         match l with
         | [] => []
         | x :: r => match r with [] => ptoks x | _ => ptoks x ++ COMMAt :: go r end
         end) ps ++ [RP]
  | EAnon a b => [LP] ++ names_toks a ++ [RP; ARROWt] ++ ptoks b
  | EBin o a b => ptoks a ++ [op_tok o] ++ ptoks b
  | ENeg a => MINUSt :: ptoks a
  | EParen a => LP :: ptoks a ++ [RP]
  | EText v => [tokc TEXT (quote printable v)]
  | ENum l => [num_tok (num_render l)]
  | EBool b => [if b then tokc TRUE [116; 114; 117; 101] else tokc FALSE [102; 97; 108; 115; 101]]
  | ENull => [tokc NULL [110; 117; 108; 108]]
  end.

Fixpoint ptoks_list (l : list expr) : list token :=
  match l with
  | [] => []
  | x :: r => match r with [] => ptoks x | _ => ptoks x ++ COMMAt :: ptoks_list r end
  end.

Lemma ptoks_call f ps : ptoks (ECall f ps) = ptoks f ++ [LP] ++ ptoks_list ps ++ [RP].
Proof. reflexivity. Qed.

Lemma ptoks_list_cons e es : es <> [] -> ptoks_list (e :: es) = ptoks e ++ COMMAt :: ptoks_list es.
Proof. destruct es; [congruence|reflexivity]. Qed.

Notation norm := (norm lower).

(* the same with an arbitrary map on the names of context references, which may change under parameter lists:
   [nm] = map lower gives ptoks / norm; [nm] = rename-then-lower gives the printed tokens of a renamed tree *)
Fixpoint gtoks (nm : St) (e : expr) : list token :=
  match e with
  | ECtxRef n => [tokc NAME (ref nm n)]
  | EDot c l => gtoks nm c ++ [DOTt; lookup_tok l]
  | EIndex c l => gtoks nm c ++ [LB] ++ gtoks nm l ++ [RB]
  | ECall f ps =>
      gtoks nm f ++ [LP] ++
      (fix go (l : list expr) : list token :=
         match l with
         | [] => []
         | x :: r => match r with [] => gtoks nm x | _ => gtoks nm x ++ COMMAt :: go r end
         end) ps ++ [RP]
  | EAnon a b => [LP] ++ names_toks (pa a nm) ++ [RP; ARROWt] ++ gtoks (push a nm) b
  | EBin o a b => gtoks nm a ++ [op_tok o] ++ gtoks nm b
  | ENeg a => MINUSt :: gtoks nm a
  | EParen a => LP :: gtoks nm a ++ [RP]
  | EText v => [tokc TEXT (quote printable v)]
  | ENum l => [num_tok (num_render l)]
  | EBool b => [if b then tokc TRUE [116; 114; 117; 101] else tokc FALSE [102; 97; 108; 115; 101]]
  | ENull => [tokc NULL [110; 117; 108; 108]]
  end.

Definition gtoks_list (nm : St) : list expr -> list token :=
  fix go (l : list expr) : list token :=
    match l with
    | [] => []
    | x :: r => match r with [] => gtoks nm x | _ => gtoks nm x ++ COMMAt :: go r end
    end.

Lemma gtoks_call nm f ps : gtoks nm (ECall f ps) = gtoks nm f ++ [LP] ++ gtoks_list nm ps ++ [RP].
Proof. reflexivity. Qed.

Lemma gtoks_list_cons nm e es : es <> [] -> gtoks_list nm (e :: es) = gtoks nm e ++ COMMAt :: gtoks_list nm es.
Proof. destruct es; [congruence|reflexivity]. Qed.

Fixpoint gnorm (nm : St) (e : expr) : expr :=
  match e with
  | ECtxRef n => ECtxRef (ref nm n)
  | EDot c l => EDot (gnorm nm c) l
  | EIndex c l => EIndex (gnorm nm c) (gnorm nm l)
  | ECall f ps => ECall (gnorm nm f) (map (gnorm nm) ps)
  | EAnon a b => EAnon (pa a nm) (gnorm (push a nm) b)
  | EBin o a b => EBin o (gnorm nm a) (gnorm nm b)
  | ENeg a => ENeg (gnorm nm a)
  | EParen a => EParen (gnorm nm a)
  | EText v => EText v
  | ENum l => ENum (num_render l)
  | EBool b => EBool b
  | ENull => ENull
  end.

(* ---------------------------------------------------------------------------------------------- *)
(* tokens *)

Definition numk (k : kind) : bool := kind_eqb k INTEGER || kind_eqb k DECIMAL.

(* kind-wise alike: same kind, or both number kinds (1.0 is printed 1) *)
Definition krel (a b : token) : Prop := tk a = tk b \/ (numk (tk a) = true /\ numk (tk b) = true).

(* well-formed as the lexer produces them: an INTEGER is a run of digits, a NAME is not; the value of a TEXT
   token is a list of valid code points *)
Definition tokok (t : token) : Prop :=
  (tk t = INTEGER -> all_digits (tx t) = true) /\
  (tk t = NAME -> all_digits (tx t) = false) /\
  (tk t = TEXT -> valid_codepoints (match text_value (tx t) with Some v => v | None => [] end)).

Definition tokgood (t : token) : Prop := tk t = TEXT -> exists v, text_value (tx t) = Some v.

Lemma kind_eqb_eq a b : kind_eqb a b = true <-> a = b.
Proof. destruct a, b; vm_compute; split; intros H; try reflexivity; try discriminate. Qed.

Lemma is_k_eq k t : is_k k t = true <-> tk t = k.
Proof. unfold is_k. apply kind_eqb_eq. Qed.

Lemma krel_refl a : krel a a.
Proof. left; reflexivity. Qed.

Lemma krel_is_k k a b : numk k = false -> krel a b -> is_k k a = is_k k b.
Proof.
  intros Hk [E|[H1 H2]]; unfold is_k; [rewrite E; reflexivity|].
  assert (Ha : kind_eqb (tk a) k = false).
  { destruct (kind_eqb (tk a) k) eqn:E; [|reflexivity]. apply kind_eqb_eq in E. rewrite E in H1. congruence. }
  assert (Hb : kind_eqb (tk b) k = false).
  { destruct (kind_eqb (tk b) k) eqn:E; [|reflexivity]. apply kind_eqb_eq in E. rewrite E in H2. congruence. }
  rewrite Ha, Hb. reflexivity.
Qed.

Lemma numk_cases k : numk k = true -> k = INTEGER \/ k = DECIMAL.
Proof. unfold numk. intros H. apply orb_prop in H. destruct H as [H|H]; apply kind_eqb_eq in H; auto. Qed.

Lemma krel_binop a b : krel a b -> binop_of (tk a) = binop_of (tk b).
Proof.
  intros [E|[H1 H2]]; [rewrite E; reflexivity|].
  apply numk_cases in H1. apply numk_cases in H2. destruct H1 as [-> | ->], H2 as [-> | ->]; reflexivity.
Qed.

Lemma krel_of_kind k t s : tk t = k -> krel t (tokc k s).
Proof. intros H. left. exact H. Qed.

(* ---------------------------------------------------------------------------------------------- *)
(* facts computed from the grammar tables *)

Lemma kinds_prefix k prec : prefix_of k = Some prec -> k = MINUS.
Proof. destruct k; vm_compute; intros H; try discriminate; reflexivity. Qed.

Lemma binop_rt k prec l : binop_of k = Some (prec, l) ->
  binop_of (op_kind (mk_bin l k)) = Some (prec, l) /\ mk_bin l (op_kind (mk_bin l k)) = mk_bin l k
  /\ tk (op_tok (mk_bin l k)) = k.
Proof. destruct k; vm_compute; intros H; try discriminate; inversion H; subst; repeat split. Qed.

Lemma lit_kinds k l : lit_of k = Some l ->
  match l with
  | LText => k = TEXT
  | LNumber => k = INTEGER \/ k = DECIMAL
  | LTrue => k = TRUE
  | LFalse => k = FALSE
  | LNull => k = NULL
  end.
Proof. destruct k; vm_compute; intros H; try discriminate; inversion H; auto. Qed.

Lemma anon_prec_val : exists prec, anon_prec = Some prec.
Proof. eexists; reflexivity. Qed.

Lemma dot_kinds_cases k : kind_in k dot_kinds = true -> k = NAME \/ k = INTEGER.
Proof. destruct k; vm_compute; intros H; try discriminate; auto. Qed.

(* ---------------------------------------------------------------------------------------------- *)
(* equations of the parser functions *)

Lemma p_expr_eq f p ts : p_expr (S f) p ts =
  match p_primary f ts with PR (e, r) => p_binloop f p e r | PErr => PErr | PFuel => PFuel end.
Proof. reflexivity. Qed.

Lemma p_binloop_eq f p lhs ts : p_binloop (S f) p lhs ts =
  match ts with
  | t :: r =>
      match binop_of (tk t) with
      | Some (prec, l) =>
          if Nat.leb p prec then
            match p_expr f (S prec) r with
            | PR (rhs, r') => p_binloop f p (EBin (mk_bin l (tk t)) lhs rhs) r'
            | PErr => PErr
            | PFuel => PFuel
            end
          else PR (lhs, ts)
      | None => PR (lhs, ts)
      end
  | [] => PR (lhs, ts)
  end.
Proof. reflexivity. Qed.

Lemma p_primary_eq f ts : p_primary (S f) ts =
  match ts with
  | [] => PErr
  | t :: r =>
      match prefix_of (tk t) with
      | Some prec =>
          match p_expr f prec r with PR (e, r') => PR (ENeg e, r') | PErr => PErr | PFuel => PFuel end
      | None =>
          match lit_of (tk t) with
          | Some l => PR (mk_lit l t, r)
          | None =>
              match (if is_k LPAREN t then anon_head r else None), anon_prec with
              | Some (names, r'), Some prec =>
                  match p_expr f prec r' with
                  | PR (body, r'') => PR (EAnon names body, r'')
                  | PErr => PErr
                  | PFuel => PFuel
                  end
              | _, _ => p_atom f ts
              end
          end
      end
  end.
Proof. reflexivity. Qed.

Lemma p_atom_eq f ts : p_atom (S f) ts =
  match ts with
  | [] => PErr
  | t :: r =>
      if is_k LPAREN t then
        match p_expr f 0 r with
        | PR (e, c :: r') => if is_k RPAREN c then p_postfix f (EParen e) r' else PErr
        | PR (_, []) => PErr
        | PErr => PErr
        | PFuel => PFuel
        end
      else if is_k NAME t then p_postfix f (ECtxRef (tx t)) r
      else PErr
  end.
Proof. reflexivity. Qed.

Lemma p_postfix_eq f a ts : p_postfix (S f) a ts =
  match ts with
  | [] => PR (a, ts)
  | t :: r =>
      if is_k LPAREN t then
        match r with
        | c :: r' =>
            if is_k RPAREN c then p_postfix f (ECall a []) r'
            else
              match p_params f r with
              | PR (ps, c' :: r'') => if is_k RPAREN c' then p_postfix f (ECall a ps) r'' else PErr
              | PR (_, []) => PErr
              | PErr => PErr
              | PFuel => PFuel
              end
        | [] => PErr
        end
      else if is_k DOT t then
        match r with
        | n :: r' => if kind_in (tk n) dot_kinds then p_postfix f (EDot a (tx n)) r' else PErr
        | [] => PErr
        end
      else if is_k LBRACK t then
        match p_expr f 0 r with
        | PR (e, c :: r') => if is_k RBRACK c then p_postfix f (EIndex a e) r' else PErr
        | PR (_, []) => PErr
        | PErr => PErr
        | PFuel => PFuel
        end
      else PR (a, ts)
  end.
Proof. reflexivity. Qed.

Lemma p_params_eq f ts : p_params (S f) ts =
  match p_expr f 0 ts with
  | PR (e, c :: r) =>
      if is_k COMMA c then
        match p_params f r with
        | PR (es, r') => PR (e :: es, r')
        | PErr => PErr
        | PFuel => PFuel
        end
      else PR ([e], c :: r)
  | PR (e, []) => PR ([e], [])
  | PErr => PErr
  | PFuel => PFuel
  end.
Proof. reflexivity. Qed.


(* ---------------------------------------------------------------------------------------------- *)
(* the head of an anonymous function *)

Lemma anon_head_names : forall names rest, names <> [] ->
  anon_head (names_toks names ++ RP :: ARROWt :: rest) = Some (names, rest).
Proof.
  induction names as [|n r IH]; intros rest H; [congruence|].
  destruct r as [|n2 r'].
  - reflexivity.
  - change (names_toks (n :: n2 :: r')) with (tokc NAME n :: COMMAt :: names_toks (n2 :: r')).
    cbn [app anon_head]. change (is_k NAME (tokc NAME n)) with true. change (is_k COMMA COMMAt) with true. cbv iota.
    rewrite IH by discriminate. reflexivity.
Qed.

(* what a successful anon_head consumed *)
Lemma anon_head_some : forall ts names rest, anon_head ts = Some (names, rest) ->
  names <> [] /\ exists hd, ts = hd ++ rest /\ Forall2 krel hd (names_toks names ++ [RP; ARROWt]).
Proof.
  intros ts. remember (length ts) as len eqn:Hlen. revert ts Hlen.
  induction len as [len IHn] using lt_wf_ind. intros ts Hlen.
  assert (IH : forall y : list token, (length y < length ts)%nat -> forall names rest,
            anon_head y = Some (names, rest) ->
            names <> [] /\ exists hd, y = hd ++ rest /\ Forall2 krel hd (names_toks names ++ [RP; ARROWt])).
  { intros y Hy. apply (IHn (length y)); [lia|reflexivity]. }
  clear IHn. intros names rest H. destruct ts as [|n [|t2 r]]; try discriminate.
  cbn [anon_head] in H. destruct (is_k NAME n) eqn:EN; [|discriminate]. apply is_k_eq in EN.
  destruct (is_k COMMA t2) eqn:EC.
  - apply is_k_eq in EC. destruct (anon_head r) as [[ns r']|] eqn:EA; [|discriminate]. inversion H; subst.
    destruct (IH r ltac:(cbn; lia) _ _ EA) as (Hne & hd & -> & HF).
    split; [discriminate|]. exists (n :: t2 :: hd). split; [reflexivity|].
    destruct ns as [|n2 ns']; [congruence|].
    change (names_toks (tx n :: n2 :: ns')) with (tokc NAME (tx n) :: COMMAt :: names_toks (n2 :: ns')).
    cbn [app]. constructor; [left; exact EN|]. constructor; [left; exact EC|]. exact HF.
  - destruct (is_k RPAREN t2) eqn:ER; [|discriminate]. apply is_k_eq in ER.
    destruct r as [|a r']; [discriminate|]. destruct (is_k ARROW a) eqn:EW; [|discriminate]. apply is_k_eq in EW.
    inversion H; subst. split; [discriminate|]. exists [n; t2; a]. split; [reflexivity|].
    cbn. repeat constructor; assumption.
Qed.

(* kind-wise alike token lists are alike for anon_head *)
Lemma anon_head_krel_none : forall s1 s2, Forall2 krel s1 s2 -> anon_head s1 = None -> anon_head s2 = None.
Proof.
  intros s1. remember (length s1) as len eqn:Hlen. revert s1 Hlen.
  induction len as [len IHn] using lt_wf_ind. intros s1 Hlen.
  assert (IH : forall y : list token, (length y < length s1)%nat -> forall s2,
            Forall2 krel y s2 -> anon_head y = None -> anon_head s2 = None).
  { intros y Hy. apply (IHn (length y)); [lia|reflexivity]. }
  clear IHn. intros s2 HF H. destruct HF as [|n n' r1 r2 Hn HF]; [reflexivity|].
  destruct HF as [|t2 t2' r1 r2 Ht HF]; [reflexivity|].
  cbn [anon_head] in *. rewrite <- (krel_is_k NAME _ _ eq_refl Hn).
  destruct (is_k NAME n); [|reflexivity].
  rewrite <- (krel_is_k COMMA _ _ eq_refl Ht), <- (krel_is_k RPAREN _ _ eq_refl Ht).
  destruct (is_k COMMA t2).
  - destruct (anon_head r1) as [[ns r']|] eqn:EA; [discriminate|].
    rewrite (IH r1 ltac:(cbn; lia) r2 HF EA). reflexivity.
  - destruct (is_k RPAREN t2); [|reflexivity].
    destruct HF as [|a a' r1 r2 Ha HF]; [reflexivity|].
    rewrite <- (krel_is_k ARROW _ _ eq_refl Ha). destruct (is_k ARROW a); [discriminate|reflexivity].
Qed.


(* ---------------------------------------------------------------------------------------------- *)
(* parameter lists of the same length print kind-wise alike *)
Lemma names_toks_alike : forall a b : list text, length a = length b -> Forall2 krel (names_toks a) (names_toks b).
Proof.
  induction a as [|x [|x2 a'] IH]; intros [|y [|y2 b']] H; try discriminate; cbn [names_toks].
  - constructor.
  - constructor; [left; reflexivity|constructor].
  - constructor; [left; reflexivity|]. constructor; [left; reflexivity|]. apply (IH (y2 :: b')). cbn in *. lia.
Qed.

Lemma krel_trans_same (x y z : token) : krel x y -> tk y = tk z -> krel x z.
Proof. intros [H|[H1 H2]] E; [left; congruence|right; rewrite <- E; auto]. Qed.

Lemma Forall2_krel_trans_names hd (a b : list text) :
  Forall2 krel hd (names_toks a ++ [RP; ARROWt]) -> length b = length a ->
  Forall2 krel hd (names_toks b ++ [RP; ARROWt]).
Proof.
  intros H E.
  assert (HK : Forall2 (fun y z : token => tk y = tk z) (names_toks a ++ [RP; ARROWt]) (names_toks b ++ [RP; ARROWt])).
  { apply Forall2_app; [|repeat constructor]. clear H. revert b E.
    induction a as [|x [|x2 a'] IH]; intros [|y [|y2 b']] E; try discriminate; cbn [names_toks]; repeat constructor.
    apply (IH (y2 :: b')). cbn in *. lia. }
  revert H HK. generalize (names_toks a ++ [RP; ARROWt]) (names_toks b ++ [RP; ARROWt]). intros l1 l2 H. revert l2.
  induction H as [|x y hd' l1' Hxy H IH]; intros l2 HK; inversion HK; subst; constructor.
  - eapply krel_trans_same; eassumption.
  - apply IH. assumption.
Qed.

(* small facts about gtoks nm *)

Definition alike (r1 r2 : list token) : Prop := Forall2 krel r1 r2.

Lemma alike_app a b c d : alike a b -> alike c d -> alike (a ++ c) (b ++ d).
Proof. apply Forall2_app. Qed.

Lemma alike_length a b : alike a b -> length a = length b.
Proof. induction 1; cbn [length]; congruence. Qed.

Lemma gtoks_nonempty nm e : gtoks nm e <> [].
Proof.
  destruct e; cbn [gtoks]; try discriminate;
    try (intros H; apply app_eq_nil in H; destruct H as [_ H]; discriminate).
Qed.

Lemma gtoks_list_nonempty nm es : es <> [] -> gtoks_list nm es <> [].
Proof.
  destruct es as [|e es]; [congruence|]. intros _. destruct es.
  - apply gtoks_nonempty.
  - cbn [gtoks_list]. intros H. apply app_eq_nil in H. destruct H as [H _]. exact (gtoks_nonempty nm e H).
Qed.

Lemma text_value_quote v : valid_codepoints v -> text_value (quote printable v) = Some v.
Proof. intros H. unfold text_value. rewrite unquote_quote by assumption. reflexivity. Qed.

Lemma all_digits_no_dot l : all_digits l = true -> existsb (N.eqb 46) l = false.
Proof.
  unfold all_digits. intros H. apply andb_prop in H. destruct H as [H _].
  induction l as [|c l IH]; [reflexivity|]. cbn [forallb existsb] in *. apply andb_prop in H. destruct H as [H1 H2].
  rewrite (IH H2), orb_false_r. unfold is_digit in H1. lia.
Qed.

(* a literal token and the token the printer writes for the literal it denotes *)
Lemma lit_case nm t l : lit_of (tk t) = Some l -> tokok t ->
  exists tl, gtoks nm (mk_lit l t) = [tl] /\ krel t tl /\ tokgood tl /\ prefix_of (tk tl) = None /\ lit_of (tk tl) = Some l
             /\ mk_lit l tl = gnorm nm (mk_lit l t).
Proof.
  intros Hl (Hi & Hn & Hv). pose proof (lit_kinds _ _ Hl) as Hk. destruct l.
  - (* text *)
    set (v := match text_value (tx t) with Some v => v | None => [] end) in *.
    exists (tokc TEXT (quote printable v)). specialize (Hv Hk).
    repeat split; try reflexivity.
    + left. exact Hk.
    + intros _. exists v. apply text_value_quote. exact Hv.
    + unfold mk_lit. cbn [tx tokc]. rewrite (text_value_quote v Hv). reflexivity.
  - (* number *)
    exists (num_tok (num_render (tx t))). repeat split; try reflexivity.
    + right. split.
      * destruct Hk as [-> | ->]; reflexivity.
      * unfold num_tok. cbn [tk tokc]. destruct (existsb _ _); reflexivity.
    + intros H. exfalso. unfold num_tok in H. cbn [tk tokc] in H. destruct (existsb _ _); discriminate.
    + unfold num_tok. cbn [tk tokc]. destruct (existsb _ _); reflexivity.
    + unfold num_tok. cbn [tk tokc]. destruct (existsb _ _); reflexivity.
  - exists (tokc TRUE [116; 114; 117; 101]). repeat split; try reflexivity; [left; exact Hk|intros H; discriminate].
  - exists (tokc FALSE [102; 97; 108; 115; 101]). repeat split; try reflexivity; [left; exact Hk|intros H; discriminate].
  - exists (tokc NULL [110; 117; 108; 108]). repeat split; try reflexivity; [left; exact Hk|intros H; discriminate].
Qed.

(* ---------------------------------------------------------------------------------------------- *)
(* the statements, by fuel *)

Definition S_expr (fuel : nat) : Prop := forall nm p ts t1 r1,
  Forall tokok ts -> p_expr fuel p ts = PR (t1, r1) ->
  exists consumed, ts = consumed ++ r1 /\ alike consumed (gtoks nm t1) /\ Forall tokgood (gtoks nm t1) /\
    forall r2, alike r1 r2 -> p_expr fuel p (gtoks nm t1 ++ r2) = PR (gnorm nm t1, r2).

Definition S_primary (fuel : nat) : Prop := forall nm ts t1 r1,
  Forall tokok ts -> p_primary fuel ts = PR (t1, r1) ->
  exists consumed, ts = consumed ++ r1 /\ alike consumed (gtoks nm t1) /\ Forall tokgood (gtoks nm t1) /\
    forall r2, alike r1 r2 -> p_primary fuel (gtoks nm t1 ++ r2) = PR (gnorm nm t1, r2).

Definition S_atom (fuel : nat) : Prop := forall nm ts t1 r1,
  Forall tokok ts -> p_atom fuel ts = PR (t1, r1) ->
  (exists t r h tl, ts = t :: r /\ gtoks nm t1 = h :: tl /\ tk h = tk t) /\
  exists consumed, ts = consumed ++ r1 /\ alike consumed (gtoks nm t1) /\ Forall tokgood (gtoks nm t1) /\
    forall r2, alike r1 r2 -> p_atom fuel (gtoks nm t1 ++ r2) = PR (gnorm nm t1, r2).

Definition S_binloop (fuel : nat) : Prop := forall nm p lhs ts t1 r1,
  Forall tokok ts -> p_binloop fuel p lhs ts = PR (t1, r1) ->
  exists consumed suffix, ts = consumed ++ r1 /\ gtoks nm t1 = gtoks nm lhs ++ suffix /\ alike consumed suffix
    /\ Forall tokgood suffix /\
    forall r2, alike r1 r2 -> p_binloop fuel p (gnorm nm lhs) (suffix ++ r2) = PR (gnorm nm t1, r2).

Definition S_postfix (fuel : nat) : Prop := forall nm a ts t1 r1,
  Forall tokok ts -> p_postfix fuel a ts = PR (t1, r1) ->
  exists consumed suffix, ts = consumed ++ r1 /\ gtoks nm t1 = gtoks nm a ++ suffix /\ alike consumed suffix
    /\ Forall tokgood suffix /\
    forall r2, alike r1 r2 -> p_postfix fuel (gnorm nm a) (suffix ++ r2) = PR (gnorm nm t1, r2).

Definition S_params (fuel : nat) : Prop := forall nm ts es r1,
  Forall tokok ts -> p_params fuel ts = PR (es, r1) ->
  es <> [] /\
  exists consumed, ts = consumed ++ r1 /\ alike consumed (gtoks_list nm es) /\ Forall tokgood (gtoks_list nm es) /\
    forall r2, alike r1 r2 -> p_params fuel (gtoks_list nm es ++ r2) = PR (map (gnorm nm) es, r2).

Lemma tokok_tail a b : Forall tokok (a ++ b) -> Forall tokok b.
Proof. intros H. apply Forall_app in H. tauto. Qed.

(* p_expr *)
Lemma step_expr f : S_primary f -> S_binloop f -> S_expr (S f).
Proof.
  intros HP HB nm p ts t1 r1 Hok H. rewrite p_expr_eq in H.
  destruct (p_primary f ts) as [[e r]| |] eqn:E1; try discriminate.
  destruct (HP nm _ _ _ Hok E1) as (c1 & -> & A1 & G1 & K1).
  destruct (HB nm _ _ _ _ _ (tokok_tail _ _ Hok) H) as (c2 & suf & -> & Ep & A2 & G2 & K2).
  exists (c1 ++ c2). split; [rewrite app_assoc; reflexivity|]. rewrite Ep.
  split; [apply alike_app; assumption|]. split; [apply Forall_app; split; assumption|].
  intros r2 A. rewrite p_expr_eq, <- app_assoc.
  rewrite (K1 (suf ++ r2)) by (apply alike_app; assumption). apply K2. exact A.
Qed.

(* p_binloop *)
Lemma step_binloop f : S_expr f -> S_binloop f -> S_binloop (S f).
Proof.
  intros HE HB nm p lhs ts t1 r1 Hok H. rewrite p_binloop_eq in H.
  assert (Hexit : PR (lhs, ts) = PR (t1, r1) ->
            (forall t r, ts = t :: r -> match binop_of (tk t) with Some (prec, _) => Nat.leb p prec = false | None => True end) ->
            exists consumed suffix, ts = consumed ++ r1 /\ gtoks nm t1 = gtoks nm lhs ++ suffix /\ alike consumed suffix
              /\ Forall tokgood suffix /\
              forall r2, alike r1 r2 -> p_binloop (S f) p (gnorm nm lhs) (suffix ++ r2) = PR (gnorm nm t1, r2)).
  { intros E Hx. inversion E; subst. exists [], []. rewrite app_nil_r.
    split; [reflexivity|]. split; [reflexivity|]. split; [constructor|]. split; [constructor|].
    intros r2 A. cbn [app]. rewrite p_binloop_eq. destruct A as [|t t2 r r2' Ht A]; [reflexivity|].
    specialize (Hx t r eq_refl). rewrite <- (krel_binop _ _ Ht).
    destruct (binop_of (tk t)) as [[prec l]|]; [rewrite Hx|]; reflexivity. }
  destruct ts as [|t r]; [apply Hexit; [exact H|intros; discriminate]|].
  destruct (binop_of (tk t)) as [[prec l]|] eqn:EB.
  2:{ apply Hexit; [exact H|]. intros t' r' E; inversion E; subst. rewrite EB. exact I. }
  destruct (Nat.leb p prec) eqn:EL.
  2:{ apply Hexit; [exact H|]. intros t' r' E; inversion E; subst. rewrite EB. exact EL. }
  destruct (p_expr f (S prec) r) as [[rhs r']| |] eqn:E1; try discriminate.
  assert (Hokr : Forall tokok r) by (inversion Hok; assumption).
  destruct (HE nm _ _ _ _ Hokr E1) as (c1 & -> & A1 & G1 & K1).
  destruct (HB nm _ _ _ _ _ (tokok_tail _ _ Hokr) H) as (c2 & suf & -> & Ep & A2 & G2 & K2).
  destruct (binop_rt _ _ _ EB) as (B1 & B2 & B3).
  set (o := mk_bin l (tk t)) in *.
  exists (t :: c1 ++ c2), (op_tok o :: gtoks nm rhs ++ suf).
  split; [cbn [app]; rewrite app_assoc; reflexivity|].
  split; [rewrite Ep; cbn [gtoks]; rewrite <- !app_assoc; reflexivity|].
  split.
  { constructor; [left; symmetry; exact B3|]. apply alike_app; assumption. }
  split.
  { constructor; [intros Ht; exfalso; rewrite B3 in Ht; rewrite Ht in EB; discriminate|].
    apply Forall_app; split; assumption. }
  intros r2 A. cbn [app]. rewrite p_binloop_eq. change (tk (op_tok o)) with (op_kind o).
  rewrite B1, EL, <- app_assoc.
  rewrite (K1 (suf ++ r2)) by (apply alike_app; assumption).
  rewrite B2. apply (K2 r2 A).
Qed.


(* p_primary *)
Lemma step_primary f : S_expr f -> S_atom f -> S_primary (S f).
Proof.
  intros HE HA nm ts t1 r1 Hok H. rewrite p_primary_eq in H.
  destruct ts as [|t r]; [discriminate|].
  assert (Hokr : Forall tokok r) by (inversion Hok; assumption).
  assert (Hokt : tokok t) by (inversion Hok; assumption).
  destruct (prefix_of (tk t)) as [prec|] eqn:EP.
  { (* negation *)
    destruct (p_expr f prec r) as [[e r']| |] eqn:E1; try discriminate. inversion H; subst.
    destruct (HE nm _ _ _ _ Hokr E1) as (c1 & -> & A1 & G1 & K1).
    pose proof (kinds_prefix _ _ EP) as Hk.
    exists (t :: c1). split; [reflexivity|]. cbn [gtoks].
    split; [constructor; [left; exact Hk|exact A1]|].
    split; [constructor; [intros Ht; discriminate|exact G1]|].
    intros r2 A. cbn [app]. rewrite p_primary_eq. change (tk MINUSt) with MINUS. rewrite <- Hk, EP.
    rewrite (K1 r2 A). reflexivity. }
  destruct (lit_of (tk t)) as [l|] eqn:EL.
  { (* literal *)
    inversion H; subst. destruct (lit_case nm t l EL Hokt) as (tl & E1 & A1 & G1 & P1 & L1 & M1).
    exists [t]. split; [reflexivity|]. rewrite E1.
    split; [constructor; [exact A1|constructor]|]. split; [constructor; [exact G1|constructor]|].
    intros r2 A. cbn [app]. rewrite p_primary_eq, P1, L1, M1. reflexivity. }
  (* anonymous function or atom *)
  assert (Hatom : p_atom f (t :: r) = PR (t1, r1) ->
            (is_k LPAREN t = true -> anon_head r = None \/ anon_prec = None) ->
            exists consumed, t :: r = consumed ++ r1 /\ alike consumed (gtoks nm t1) /\ Forall tokgood (gtoks nm t1) /\
              forall r2, alike r1 r2 -> p_primary (S f) (gtoks nm t1 ++ r2) = PR (gnorm nm t1, r2)).
  { intros E1 Hno. destruct (HA nm _ _ _ Hok E1) as ((t' & r' & h & tl & Ets & Eh & Hh) & c1 & Ec & A1 & G1 & K1).
    inversion Ets; subst t' r'.
    exists c1. split; [exact Ec|]. split; [exact A1|]. split; [exact G1|].
    intros r2 A. rewrite p_primary_eq. rewrite Eh. cbn [app]. rewrite Hh, EP, EL.
    assert (Hlp : is_k LPAREN h = is_k LPAREN t) by (unfold is_k; rewrite Hh; reflexivity).
    rewrite Hlp.
    assert (Hsel : match (if is_k LPAREN t then anon_head (tl ++ r2) else None), anon_prec with
                   | Some (names, r'), Some prec =>
                       match p_expr f prec r' with
                       | PR (body, r'') => PR (EAnon names body, r'')
                       | PErr => PErr
                       | PFuel => PFuel
                       end
                   | _, _ => p_atom f (h :: tl ++ r2)
                   end = p_atom f (h :: tl ++ r2)).
    { destruct (is_k LPAREN t) eqn:ELP; [|reflexivity].
      destruct (Hno eq_refl) as [Hn|Hn].
      - (* the rest of the second stream is kind-wise like r *)
        assert (Hal : alike r (tl ++ r2)).
        { assert (Hall : alike (t :: r) (h :: tl ++ r2)).
          { rewrite Ec. change (h :: tl ++ r2) with ((h :: tl) ++ r2). rewrite <- Eh. apply alike_app; assumption. }
          inversion Hall; assumption. }
        rewrite (anon_head_krel_none _ _ Hal Hn). reflexivity.
      - rewrite Hn. destruct (anon_head (tl ++ r2)) as [[? ?]|]; reflexivity. }
    rewrite Hsel. change (h :: tl ++ r2) with ((h :: tl) ++ r2). rewrite <- Eh. apply K1. exact A. }
  destruct (is_k LPAREN t) eqn:ELP.
  2:{ apply Hatom; [|intros; discriminate]. destruct anon_prec; exact H. }
  destruct (anon_head r) as [[names r']|] eqn:EA.
  2:{ apply Hatom; [|intros _; left; reflexivity]. destruct anon_prec; exact H. }
  destruct anon_prec as [prec|] eqn:EAP.
  2:{ apply Hatom; [exact H|intros _; right; reflexivity]. }
  (* anonymous function *)
  destruct (p_expr f prec r') as [[body r'']| |] eqn:E1; try discriminate. inversion H; subst.
  destruct (anon_head_some _ _ _ EA) as (Hne & hd & -> & AH).
  destruct (HE (push names nm) _ _ _ _ (tokok_tail _ _ Hokr) E1) as (c1 & -> & A1 & G1 & K1).
  apply is_k_eq in ELP.
  exists (t :: hd ++ c1). split; [cbn [app]; rewrite <- app_assoc; reflexivity|]. cbn [gtoks].
  assert (Hne' : pa names nm <> []).
  { intros E. apply (f_equal (@length _)) in E. rewrite pa_len in E. destruct names; [congruence|discriminate]. }
  assert (AH' : Forall2 krel hd (names_toks (pa names nm) ++ [RP; ARROWt])).
  { eapply Forall2_krel_trans_names; [exact AH|]. apply pa_len. }
  split.
  { cbn [app]. constructor; [left; exact ELP|].
    replace (names_toks (pa names nm) ++ RP :: ARROWt :: gtoks (push names nm) body)
      with ((names_toks (pa names nm) ++ [RP; ARROWt]) ++ gtoks (push names nm) body)
      by (rewrite <- app_assoc; reflexivity).
    apply alike_app; assumption. }
  split.
  { cbn [app]. constructor; [intros Ht; discriminate|]. apply Forall_app. split.
    - clear. generalize (pa names nm). intros names0. induction names0 as [|n [|n2 rr] IH]; [constructor| |]; cbn [names_toks].
      + constructor; [intros Ht; discriminate|constructor].
      + constructor; [intros Ht; discriminate|]. constructor; [intros Ht; discriminate|]. exact IH.
    - constructor; [intros Ht; discriminate|]. constructor; [intros Ht; discriminate|]. exact G1. }
  intros r2 A. cbn [app]. rewrite p_primary_eq. change (tk LP) with LPAREN.
  change (prefix_of LPAREN) with (@None nat). change (lit_of LPAREN) with (@None llabel). cbv iota.
  change (is_k LPAREN LP) with true. cbv iota.
  rewrite <- !app_assoc. cbn [app]. rewrite (anon_head_names (pa names nm) _ Hne'), EAP.
  rewrite (K1 r2 A). cbn [gnorm]. reflexivity.
Qed.


(* p_atom *)
Lemma step_atom f : S_expr f -> S_postfix f -> S_atom (S f).
Proof.
  intros HE HPo nm ts t1 r1 Hok H. rewrite p_atom_eq in H.
  destruct ts as [|t r]; [discriminate|].
  assert (Hokr : Forall tokok r) by (inversion Hok; assumption).
  destruct (is_k LPAREN t) eqn:ELP.
  { apply is_k_eq in ELP.
    destruct (p_expr f 0 r) as [[e [|c r']]| |] eqn:E1; try discriminate.
    destruct (is_k RPAREN c) eqn:ERP; [|discriminate]. apply is_k_eq in ERP.
    destruct (HE nm _ _ _ _ Hokr E1) as (c1 & -> & A1 & G1 & K1).
    assert (Hok' : Forall tokok r').
    { apply tokok_tail in Hokr. inversion Hokr; assumption. }
    destruct (HPo nm _ _ _ _ Hok' H) as (c2 & suf & -> & Ep & A2 & G2 & K2).
    cbn [gtoks] in Ep. split.
    { exists t, (c1 ++ c :: c2 ++ r1), LP, (gtoks nm e ++ [RP] ++ suf). split; [reflexivity|]. split; [|symmetry; exact ELP].
      rewrite Ep. cbn [app]. rewrite <- app_assoc. reflexivity. }
    exists (t :: c1 ++ c :: c2). split; [cbn [app]; rewrite <- app_assoc; reflexivity|].
    rewrite Ep.
    split.
    { cbn [app]. constructor; [left; exact ELP|]. rewrite <- app_assoc. apply alike_app; [exact A1|].
      cbn [app]. constructor; [left; exact ERP|exact A2]. }
    split.
    { cbn [app]. constructor; [intros Ht; discriminate|]. rewrite <- app_assoc. apply Forall_app. split; [exact G1|].
      cbn [app]. constructor; [intros Ht; discriminate|exact G2]. }
    intros r2 A. cbn [app]. rewrite p_atom_eq. change (is_k LPAREN LP) with true. cbv iota.
    rewrite <- !app_assoc. cbn [app].
    rewrite (K1 (RP :: suf ++ r2)).
    2:{ constructor; [left; exact ERP|]. apply alike_app; assumption. }
    change (is_k RPAREN RP) with true. cbv iota. apply (K2 r2 A). }
  destruct (is_k NAME t) eqn:EN; [|discriminate]. apply is_k_eq in EN.
  destruct (HPo nm _ _ _ _ Hokr H) as (c2 & suf & -> & Ep & A2 & G2 & K2).
  cbn [gtoks] in Ep. split.
  { exists t, (c2 ++ r1), (tokc NAME (ref nm (tx t))), suf. split; [reflexivity|]. split; [exact Ep|symmetry; exact EN]. }
  exists (t :: c2). split; [reflexivity|]. rewrite Ep.
  split; [cbn [app]; constructor; [left; exact EN|exact A2]|].
  split; [cbn [app]; constructor; [intros Ht; discriminate|exact G2]|].
  intros r2 A. cbn [app]. rewrite p_atom_eq.
  change (is_k LPAREN (tokc NAME (ref nm (tx t)))) with false.
  change (is_k NAME (tokc NAME (ref nm (tx t)))) with true. cbv iota.
  apply (K2 r2 A).
Qed.

(* p_params *)
Lemma step_params f : S_expr f -> S_params f -> S_params (S f).
Proof.
  intros HE HPa nm ts es r1 Hok H. rewrite p_params_eq in H.
  destruct (p_expr f 0 ts) as [[e [|c r]]| |] eqn:E1; try discriminate.
  - (* last parameter, end of input *)
    inversion H; subst. destruct (HE nm _ _ _ _ Hok E1) as (c1 & -> & A1 & G1 & K1).
    split; [discriminate|]. exists c1. cbn [gtoks_list]. split; [reflexivity|]. split; [exact A1|]. split; [exact G1|].
    intros r2 A. rewrite p_params_eq, (K1 r2 A). inversion A; subst. reflexivity.
  - destruct (HE nm _ _ _ _ Hok E1) as (c1 & -> & A1 & G1 & K1).
    destruct (is_k COMMA c) eqn:EC.
    + apply is_k_eq in EC.
      destruct (p_params f r) as [[es' r']| |] eqn:E2; try discriminate. inversion H; subst.
      assert (Hokr : Forall tokok r).
      { apply tokok_tail in Hok. inversion Hok; assumption. }
      destruct (HPa nm _ _ _ Hokr E2) as (Hne & c2 & -> & A2 & G2 & K2).
      split; [discriminate|]. exists (c1 ++ c :: c2). split; [rewrite <- app_assoc; reflexivity|].
      rewrite (gtoks_list_cons nm _ _ Hne).
      split; [apply alike_app; [exact A1|constructor; [left; exact EC|exact A2]]|].
      split; [apply Forall_app; split; [exact G1|constructor; [intros Ht; discriminate|exact G2]]|].
      intros r2 A. rewrite p_params_eq, <- app_assoc. cbn [app].
      rewrite (K1 (COMMAt :: gtoks_list nm es' ++ r2)).
      2:{ constructor; [left; exact EC|]. apply alike_app; assumption. }
      change (is_k COMMA COMMAt) with true. cbv iota. rewrite (K2 r2 A). reflexivity.
    + inversion H; subst. split; [discriminate|]. exists c1. cbn [gtoks_list].
      split; [reflexivity|]. split; [exact A1|]. split; [exact G1|].
      intros r2 A. rewrite p_params_eq, (K1 r2 A). inversion A as [|? c2 ? r2' Hc A']; subst.
      rewrite <- (krel_is_k COMMA _ _ eq_refl Hc), EC. reflexivity.
Qed.


(* p_postfix *)
Lemma step_postfix f : S_expr f -> S_postfix f -> S_params f -> S_postfix (S f).
Proof.
  intros HE HPo HPa nm a ts t1 r1 Hok H. rewrite p_postfix_eq in H.
  assert (Hexit : PR (a, ts) = PR (t1, r1) ->
            (forall t r, ts = t :: r -> is_k LPAREN t = false /\ is_k DOT t = false /\ is_k LBRACK t = false) ->
            exists consumed suffix, ts = consumed ++ r1 /\ gtoks nm t1 = gtoks nm a ++ suffix /\ alike consumed suffix
              /\ Forall tokgood suffix /\
              forall r2, alike r1 r2 -> p_postfix (S f) (gnorm nm a) (suffix ++ r2) = PR (gnorm nm t1, r2)).
  { intros E Hx. inversion E; subst. exists [], []. rewrite app_nil_r.
    split; [reflexivity|]. split; [reflexivity|]. split; [constructor|]. split; [constructor|].
    intros r2 A. cbn [app]. rewrite p_postfix_eq. destruct A as [|t t2 r r2' Ht A]; [reflexivity|].
    destruct (Hx t r eq_refl) as (H1 & H2 & H3).
    rewrite <- (krel_is_k LPAREN _ _ eq_refl Ht), <- (krel_is_k DOT _ _ eq_refl Ht), <- (krel_is_k LBRACK _ _ eq_refl Ht).
    rewrite H1, H2, H3. reflexivity. }
  destruct ts as [|t r]; [apply Hexit; [exact H|intros; discriminate]|].
  assert (Hokr : Forall tokok r) by (inversion Hok; assumption).
  destruct (is_k LPAREN t) eqn:ELP.
  { (* call *)
    apply is_k_eq in ELP. destruct r as [|c r']; [discriminate|].
    assert (Hok' : Forall tokok r') by (inversion Hokr; assumption).
    destruct (is_k RPAREN c) eqn:ERP.
    - apply is_k_eq in ERP.
      destruct (HPo nm _ _ _ _ Hok' H) as (c2 & suf & -> & Ep & A2 & G2 & K2).
      rewrite gtoks_call in Ep. cbn [gtoks_list app] in Ep.
      exists (t :: c :: c2), (LP :: RP :: suf). split; [reflexivity|].
      split; [rewrite Ep, <- app_assoc; reflexivity|].
      split; [constructor; [left; exact ELP|constructor; [left; exact ERP|exact A2]]|].
      split; [constructor; [intros Ht; discriminate|constructor; [intros Ht; discriminate|exact G2]]|].
      intros r2 A. cbn [app]. rewrite p_postfix_eq. change (is_k LPAREN LP) with true. cbv iota.
      change (is_k RPAREN RP) with true. cbv iota. apply (K2 r2 A).
    - destruct (p_params f (c :: r')) as [[ps [|c' r'']]| |] eqn:E1; try discriminate.
      destruct (is_k RPAREN c') eqn:ERP'; [|discriminate]. apply is_k_eq in ERP'.
      destruct (HPa nm _ _ _ Hokr E1) as (Hne & c1 & Ec & A1 & G1 & K1).
      assert (Hok'' : Forall tokok r'').
      { rewrite Ec in Hokr. apply tokok_tail in Hokr. inversion Hokr; assumption. }
      destruct (HPo nm _ _ _ _ Hok'' H) as (c2 & suf & -> & Ep & A2 & G2 & K2).
      rewrite gtoks_call in Ep.
      (* the first token of the printed parameters is not a closing parenthesis *)
      destruct (gtoks_list nm ps) as [|h2 tl2] eqn:EPL; [exfalso; exact (gtoks_list_nonempty nm _ Hne EPL)|].
      assert (Hh2 : is_k RPAREN h2 = false).
      { destruct c1 as [|x c1']; [inversion A1|]. inversion A1 as [|? ? ? ? Hx A1']; subst.
        cbn [app] in Ec. inversion Ec; subst x.
        rewrite <- (krel_is_k RPAREN _ _ eq_refl Hx). exact ERP. }
      exists (t :: c1 ++ c' :: c2), (LP :: (h2 :: tl2) ++ RP :: suf).
      split; [cbn [app]; rewrite Ec, <- app_assoc; reflexivity|].
      split; [rewrite Ep, <- !app_assoc; reflexivity|].
      split.
      { constructor; [left; exact ELP|]. apply alike_app; [exact A1|]. constructor; [left; exact ERP'|exact A2]. }
      split.
      { constructor; [intros Ht; discriminate|]. apply Forall_app. split; [exact G1|].
        constructor; [intros Ht; discriminate|exact G2]. }
      intros r2 A. cbn [app]. rewrite p_postfix_eq. change (is_k LPAREN LP) with true. cbv iota.
      rewrite Hh2. rewrite <- app_assoc. cbn [app].
      change (h2 :: tl2 ++ RP :: suf ++ r2) with ((h2 :: tl2) ++ RP :: suf ++ r2).
      rewrite (K1 (RP :: suf ++ r2)).
      2:{ constructor; [left; exact ERP'|]. apply alike_app; assumption. }
      change (is_k RPAREN RP) with true. cbv iota. apply (K2 r2 A). }
  destruct (is_k DOT t) eqn:ED.
  { (* dot lookup *)
    apply is_k_eq in ED. destruct r as [|n r']; [discriminate|].
    destruct (kind_in (tk n) dot_kinds) eqn:EK; [|discriminate].
    assert (Hok' : Forall tokok r') by (inversion Hokr; assumption).
    assert (Hokn : tokok n) by (inversion Hokr; assumption).
    destruct (HPo nm _ _ _ _ Hok' H) as (c2 & suf & -> & Ep & A2 & G2 & K2).
    cbn [gtoks] in Ep.
    assert (Hlk : tk (lookup_tok (tx n)) = tk n).
    { destruct Hokn as (Hi & Hn & _). unfold lookup_tok. cbn [tk tokc].
      destruct (dot_kinds_cases _ EK) as [E|E]; rewrite E.
      - rewrite (Hn E). reflexivity.
      - rewrite (Hi E). reflexivity. }
    exists (t :: n :: c2), (DOTt :: lookup_tok (tx n) :: suf). split; [reflexivity|].
    split; [rewrite Ep, <- app_assoc; reflexivity|].
    split; [constructor; [left; exact ED|constructor; [left; symmetry; exact Hlk|exact A2]]|].
    split.
    { constructor; [intros Ht; discriminate|]. constructor; [|exact G2].
      intros Ht. exfalso. rewrite Hlk in Ht. rewrite Ht in EK. discriminate. }
    intros r2 A. cbn [app]. rewrite p_postfix_eq. change (is_k LPAREN DOTt) with false. change (is_k DOT DOTt) with true.
    cbv iota. rewrite Hlk, EK. change (tx (lookup_tok (tx n))) with (tx n). apply (K2 r2 A). }
  destruct (is_k LBRACK t) eqn:ELB.
  { (* index lookup *)
    apply is_k_eq in ELB.
    destruct (p_expr f 0 r) as [[e [|c r']]| |] eqn:E1; try discriminate.
    destruct (is_k RBRACK c) eqn:ERB; [|discriminate]. apply is_k_eq in ERB.
    destruct (HE nm _ _ _ _ Hokr E1) as (c1 & -> & A1 & G1 & K1).
    assert (Hok' : Forall tokok r').
    { apply tokok_tail in Hokr. inversion Hokr; assumption. }
    destruct (HPo nm _ _ _ _ Hok' H) as (c2 & suf & -> & Ep & A2 & G2 & K2).
    cbn [gtoks] in Ep.
    exists (t :: c1 ++ c :: c2), (LB :: gtoks nm e ++ RB :: suf).
    split; [cbn [app]; rewrite <- app_assoc; reflexivity|].
    split; [rewrite Ep, <- !app_assoc; reflexivity|].
    split.
    { constructor; [left; exact ELB|]. apply alike_app; [exact A1|]. constructor; [left; exact ERB|exact A2]. }
    split.
    { constructor; [intros Ht; discriminate|]. apply Forall_app. split; [exact G1|].
      constructor; [intros Ht; discriminate|exact G2]. }
    intros r2 A. cbn [app]. rewrite p_postfix_eq. change (is_k LPAREN LB) with false. change (is_k DOT LB) with false.
    change (is_k LBRACK LB) with true. cbv iota. rewrite <- app_assoc. cbn [app].
    rewrite (K1 (RB :: suf ++ r2)).
    2:{ constructor; [left; exact ERB|]. apply alike_app; assumption. }
    change (is_k RBRACK RB) with true. cbv iota. apply (K2 r2 A). }
  apply Hexit; [exact H|]. intros t' r' E; inversion E; subst. auto.
Qed.

(* all six statements hold for every fuel *)
Theorem all_fuel : forall fuel,
  S_expr fuel /\ S_binloop fuel /\ S_primary fuel /\ S_atom fuel /\ S_postfix fuel /\ S_params fuel.
Proof.
  induction fuel as [|f (HE & HB & HP & HA & HPo & HPa)].
  - split; [|split; [|split; [|split; [|split]]]]; red; intros; discriminate.
  - split; [apply step_expr; assumption|]. split; [apply step_binloop; assumption|].
    split; [apply step_primary; assumption|]. split; [apply step_atom; assumption|].
    split; [apply step_postfix; assumption|]. apply step_params; assumption.
Qed.

(* rule parse: expression EOF *)
Theorem greparse_tokens nm ts t : Forall tokok ts -> parse_tokens ts = POk t ->
  alike ts (gtoks nm t) /\ parse_tokens (gtoks nm t) = POk (gnorm nm t).
Proof.
  intros Hok H. unfold parse_tokens in H.
  destruct (existsb _ ts); [discriminate|].
  destruct (p_expr (parse_fuel ts) 0 ts) as [[e [|x r]]| |] eqn:E; try discriminate. inversion H; subst e.
  destruct (all_fuel (parse_fuel ts)) as (HE & _).
  destruct (HE nm _ _ _ _ Hok E) as (c1 & Ec & A1 & G1 & K1). rewrite app_nil_r in Ec. subst c1.
  split; [exact A1|]. unfold parse_tokens.
  assert (Hex : existsb (fun t0 => is_k TEXT t0 && match text_value (tx t0) with None => true | Some _ => false end) (gtoks nm t) = false).
  { clear - G1. induction G1 as [|x l Hx Hl IH]; [reflexivity|]. cbn [existsb]. rewrite IH, orb_false_r.
    destruct (is_k TEXT x) eqn:EK; [|reflexivity]. apply is_k_eq in EK. destruct (Hx EK) as [v ->]. reflexivity. }
  rewrite Hex. unfold parse_fuel in *. rewrite <- (alike_length _ _ A1).
  specialize (K1 [] ltac:(constructor)). rewrite app_nil_r in K1. rewrite K1. reflexivity.
Qed.

End Roundtrip.

(* ---------------------------------------------------------------------------------------------- *)
(* instance 1: plain printing (the name map is lower-casing everywhere) *)

Section Plain.
Variable lower : N -> N.
Variable printable : N -> bool.
Hypothesis printable_nl : printable 10 = false.

Definition push_plain (a : list text) (nm : text -> text) : text -> text := nm.
Definition ref_fun (nm : text -> text) : text -> text := nm.
Definition pa_same (a : list text) (nm : text -> text) : list text := a.
Lemma pa_same_len : forall a nm, length (pa_same a nm) = length a.
Proof. reflexivity. Qed.

Lemma gtoks_plain : forall e, gtoks printable (text -> text) ref_fun push_plain pa_same (map lower) e = ptoks lower printable e.
Proof.
  induction e as [n|c l IHc|c l IHc IHl|f ps IHf IHps|a b IHb|o a b IHa IHb|a IHa|a IHa|v|l|b|] using expr_ind';
    cbn [gtoks ptoks]; unfold push_plain, ref_fun, pa_same in *; try congruence.
  rewrite IHf. f_equal. f_equal. f_equal.
  induction IHps as [|x r Hx Hr IH]; [reflexivity|]. destruct r as [|y r']; [exact Hx|]. rewrite Hx, IH. reflexivity.
Qed.

Lemma gnorm_plain : forall e, gnorm (text -> text) ref_fun push_plain pa_same (map lower) e = ExPrintProofs.norm lower e.
Proof.
  induction e as [n|c l IHc|c l IHc IHl|f ps IHf IHps|a b IHb|o a b IHa IHb|a IHa|a IHa|v|l|b|] using expr_ind';
    cbn [gnorm ExPrintProofs.norm]; unfold push_plain, ref_fun, pa_same in *; try congruence.
  rewrite IHf. f_equal.
  induction IHps as [|x r Hx Hr IH]; [reflexivity|]. cbn [map]. rewrite Hx, IH. reflexivity.
Qed.

Theorem reparse_tokens ts t : Forall tokok ts -> parse_tokens ts = POk t ->
  alike ts (ptoks lower printable t) /\ parse_tokens (ptoks lower printable t) = POk (ExPrintProofs.norm lower t).
Proof.
  intros Hok H. rewrite <- gtoks_plain, <- gnorm_plain.
  exact (greparse_tokens printable printable_nl (text -> text) ref_fun push_plain pa_same pa_same_len (map lower) ts t Hok H).
Qed.

End Plain.

(* ---------------------------------------------------------------------------------------------- *)
(* instance 2: the tree after ContextRefRename (model/ExRefactor.v): free matching references get the new name,
   under a parameter list that binds the old name nothing is renamed *)
From Verif Require Import model.ExRefactor.

Section Renamed.
Variable lower : N -> N.
Variable printable : N -> bool.
Hypothesis printable_nl : printable 10 = false.
Variable is_from : text -> bool.
Variable to : text.

Definition nm_rename (n : text) : text := map lower (if is_from n then to else n).
Definition push_rename (a : list text) (nm : text -> text) : text -> text :=
  if existsb is_from a then map lower else nm.

Lemma gtoks_bound : forall e, gtoks printable (text -> text) ref_fun push_rename pa_same (map lower) e = ptoks lower printable e.
Proof.
  induction e as [n|c l IHc|c l IHc IHl|f ps IHf IHps|a b IHb|o a b IHa IHb|a IHa|a IHa|v|l|b|] using expr_ind';
    cbn [gtoks ptoks]; unfold ref_fun, pa_same in *; try congruence.
  - rewrite IHf. f_equal. f_equal. f_equal.
    induction IHps as [|x r Hx Hr IH]; [reflexivity|]. destruct r as [|y r']; [exact Hx|]. rewrite Hx, IH. reflexivity.
  - replace (push_rename a (map lower)) with (map lower) by (unfold push_rename; destruct (existsb is_from a); reflexivity).
    rewrite IHb. reflexivity.
Qed.

Lemma gnorm_bound : forall e, gnorm (text -> text) ref_fun push_rename pa_same (map lower) e = ExPrintProofs.norm lower e.
Proof.
  induction e as [n|c l IHc|c l IHc IHl|f ps IHf IHps|a b IHb|o a b IHa IHb|a IHa|a IHa|v|l|b|] using expr_ind';
    cbn [gnorm ExPrintProofs.norm]; unfold ref_fun, pa_same in *; try congruence.
  - rewrite IHf. f_equal.
    induction IHps as [|x r Hx Hr IH]; [reflexivity|]. cbn [map]. rewrite Hx, IH. reflexivity.
  - replace (push_rename a (map lower)) with (map lower) by (unfold push_rename; destruct (existsb is_from a); reflexivity).
    rewrite IHb. reflexivity.
Qed.

Lemma gtoks_rename : forall e,
  gtoks printable (text -> text) ref_fun push_rename pa_same nm_rename e = ptoks lower printable (rename is_from to e).
Proof.
  induction e as [n|c l IHc|c l IHc IHl|f ps IHf IHps|a b IHb|o a b IHa IHb|a IHa|a IHa|v|l|b|] using expr_ind';
    cbn [gtoks rename ptoks]; unfold ref_fun, pa_same in *; try congruence.
  - unfold nm_rename. destruct (is_from n); reflexivity.
  - rewrite IHf. f_equal. f_equal. f_equal.
    induction IHps as [|x r Hx Hr IH]; [reflexivity|]. destruct r as [|y r']; [exact Hx|]. cbn [map]. cbn [map] in IH. rewrite Hx, IH. reflexivity.
  - unfold push_rename. destruct (existsb is_from a); cbn [ptoks]; [rewrite gtoks_bound|rewrite <- IHb]; reflexivity.
Qed.

Lemma gnorm_rename : forall e,
  gnorm (text -> text) ref_fun push_rename pa_same nm_rename e = ExPrintProofs.norm lower (rename is_from to e).
Proof.
  induction e as [n|c l IHc|c l IHc IHl|f ps IHf IHps|a b IHb|o a b IHa IHb|a IHa|a IHa|v|l|b|] using expr_ind';
    cbn [gnorm rename ExPrintProofs.norm]; unfold ref_fun, pa_same in *; try congruence.
  - unfold nm_rename. destruct (is_from n); reflexivity.
  - rewrite IHf. f_equal. rewrite map_map.
    induction IHps as [|x r Hx Hr IH]; [reflexivity|]. cbn [map]. rewrite Hx, IH. reflexivity.
  - unfold push_rename. destruct (existsb is_from a); cbn [ExPrintProofs.norm]; [rewrite gnorm_bound|rewrite <- IHb]; reflexivity.
Qed.

(* the printed tokens of the renamed tree are parsed back to the (normalised) renamed tree *)
Theorem reparse_renamed ts t : Forall tokok ts -> parse_tokens ts = POk t ->
  alike ts (ptoks lower printable (rename is_from to t))
  /\ parse_tokens (ptoks lower printable (rename is_from to t)) = POk (ExPrintProofs.norm lower (rename is_from to t)).
Proof.
  intros Hok H. rewrite <- gtoks_rename, <- gnorm_rename.
  exact (greparse_tokens printable printable_nl (text -> text) ref_fun push_rename pa_same pa_same_len nm_rename ts t Hok H).
Qed.

End Renamed.
