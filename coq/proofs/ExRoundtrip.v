(* ExRoundtrip.v — C11, token level: the tokens the printer writes for a tree that the parser built are parsed
   back to the normalised tree.  One simultaneous induction on the fuel of the six mutually recursive parser
   functions (model/ExParser.v): if the FIRST parse (of any well-formed token list) returned tree t and rest r,
   then (a) the tokens it consumed are, kind by kind, the tokens [ptoks t] the printer writes for t (Lemma A), and
   (b) the SECOND parse, of [ptoks t] followed by any rest that is kind-wise like r, returns [norm t] and that rest.
   No characterisation of the parser's image (precedence-correct trees) is needed.
   The grammar tables (gen/GrammarE3.v, regenerated from the .g4 on every run) enter through small computed
   lemmas (binop_rt, kinds_prefix, lit_cases, ...). *)
From Coq Require Import List NArith Bool Arith Lia.
From Verif Require Import lib.Quote model.ExSyntax model.ExLexer model.ExParser model.ExPrinter gen.GrammarE3
  proofs.QuoteProofs proofs.ExPrintProofs.
Import ListNotations.
Open Scope N_scope.

Definition tokc (k : kind) (s : text) : token := {| tk := k; tx := s |}.
Definition LP := tokc LPAREN [40].
Definition RP := tokc RPAREN [41].
Definition LB := tokc LBRACK [91].
Definition RB := tokc RBRACK [93].
Definition DOTt := tokc DOT [46].
Definition COMMAt := tokc COMMA [44].
Definition ARROWt := tokc ARROW [61; 62].
Definition MINUSt := tokc MINUS [45].

Definition op_kind (o : binop) : kind :=
  match o with
  | OConcat => AMPERSAND | OAdd => PLUS | OSub => MINUS | OMul => TIMES | ODiv => DIVIDE | OExp => EXPONENT
  | OEq => EQ | ONeq => NEQ | OLt => LT | OLte => LTE | OGt => GT | OGte => GTE
  end.
Definition op_tok (o : binop) : token := tokc (op_kind o) (op_symbol o).

Definition all_digits (l : text) : bool := forallb is_digit l && match l with [] => false | _ => true end.
Definition lookup_tok (l : text) : token := tokc (if all_digits l then INTEGER else NAME) l.
Definition num_tok (r : text) : token := tokc (if existsb (N.eqb 46) r then DECIMAL else INTEGER) r.

Fixpoint names_toks (a : list text) : list token :=
  match a with
  | [] => []
  | n :: r => match r with [] => [tokc NAME n] | _ => tokc NAME n :: COMMAt :: names_toks r end
  end.

Section Roundtrip.
Variable lower : N -> N.
Variable printable : N -> bool.
Hypothesis printable_nl : printable 10 = false.

(* the tokens Expression.String() writes (spaces are added in proofs/ExRender) *)
Fixpoint ptoks (e : expr) : list token :=
  match e with
  | ECtxRef n => [tokc NAME (map lower n)]
  | EDot c l => ptoks c ++ [DOTt; lookup_tok l]
  | EIndex c l => ptoks c ++ [LB] ++ ptoks l ++ [RB]
  | ECall f ps =>
      ptoks f ++ [LP] ++
      (fix go (l : list expr) : list token :=
         match l with
         | [] => []
         | x :: r => match r with [] => ptoks x | _ => ptoks x ++ COMMAt :: go r end
         end) ps ++ [RP]
  | EAnon a b => [LP] ++ names_toks a ++ [RP; ARROWt] ++ ptoks b
  | EBin o a b => ptoks a ++ [op_tok o] ++ ptoks b
  | ENeg a => MINUSt :: ptoks a
  | EParen a => LP :: ptoks a ++ [RP]
  | EText v => [tokc TEXT (quote printable v)]
  | ENum l => [num_tok (num_render l)]
  | EBool b => [if b then tokc TRUE [116; 114; 117; 101] else tokc FALSE [102; 97; 108; 115; 101]]
  | ENull => [tokc NULL [110; 117; 108; 108]]
  end.

Fixpoint ptoks_list (l : list expr) : list token :=
  match l with
  | [] => []
  | x :: r => match r with [] => ptoks x | _ => ptoks x ++ COMMAt :: ptoks_list r end
  end.

Lemma ptoks_call f ps : ptoks (ECall f ps) = ptoks f ++ [LP] ++ ptoks_list ps ++ [RP].
Proof. reflexivity. Qed.

Lemma ptoks_list_cons e es : es <> [] -> ptoks_list (e :: es) = ptoks e ++ COMMAt :: ptoks_list es.
Proof. destruct es; [congruence|reflexivity]. Qed.

Notation norm := (norm lower).

(* ---------------------------------------------------------------------------------------------- *)
(* tokens *)

Definition numk (k : kind) : bool := kind_eqb k INTEGER || kind_eqb k DECIMAL.

(* kind-wise alike: same kind, or both number kinds (1.0 is printed 1) *)
Definition krel (a b : token) : Prop := tk a = tk b \/ (numk (tk a) = true /\ numk (tk b) = true).

(* well-formed as the lexer produces them: an INTEGER is a run of digits, a NAME is not; the value of a TEXT
   token is a list of valid code points *)
Definition tokok (t : token) : Prop :=
  (tk t = INTEGER -> all_digits (tx t) = true) /\
  (tk t = NAME -> all_digits (tx t) = false) /\
  (tk t = TEXT -> valid_codepoints (match text_value (tx t) with Some v => v | None => [] end)).

Definition tokgood (t : token) : Prop := tk t = TEXT -> exists v, text_value (tx t) = Some v.

Lemma kind_eqb_eq a b : kind_eqb a b = true <-> a = b.
Proof. destruct a, b; vm_compute; split; intros H; try reflexivity; try discriminate. Qed.

Lemma is_k_eq k t : is_k k t = true <-> tk t = k.
Proof. unfold is_k. apply kind_eqb_eq. Qed.

Lemma krel_refl a : krel a a.
Proof. left; reflexivity. Qed.

Lemma krel_is_k k a b : numk k = false -> krel a b -> is_k k a = is_k k b.
Proof.
  intros Hk [E|[H1 H2]]; unfold is_k; [rewrite E; reflexivity|].
  assert (Ha : kind_eqb (tk a) k = false).
  { destruct (kind_eqb (tk a) k) eqn:E; [|reflexivity]. apply kind_eqb_eq in E. rewrite E in H1. congruence. }
  assert (Hb : kind_eqb (tk b) k = false).
  { destruct (kind_eqb (tk b) k) eqn:E; [|reflexivity]. apply kind_eqb_eq in E. rewrite E in H2. congruence. }
  rewrite Ha, Hb. reflexivity.
Qed.

Lemma numk_cases k : numk k = true -> k = INTEGER \/ k = DECIMAL.
Proof. unfold numk. intros H. apply orb_prop in H. destruct H as [H|H]; apply kind_eqb_eq in H; auto. Qed.

Lemma krel_binop a b : krel a b -> binop_of (tk a) = binop_of (tk b).
Proof.
  intros [E|[H1 H2]]; [rewrite E; reflexivity|].
  apply numk_cases in H1. apply numk_cases in H2. destruct H1 as [-> | ->], H2 as [-> | ->]; reflexivity.
Qed.

Lemma krel_of_kind k t s : tk t = k -> krel t (tokc k s).
Proof. intros H. left. exact H. Qed.

(* ---------------------------------------------------------------------------------------------- *)
(* facts computed from the grammar tables *)

Lemma kinds_prefix k prec : prefix_of k = Some prec -> k = MINUS.
Proof. destruct k; vm_compute; intros H; try discriminate; reflexivity. Qed.

Lemma binop_rt k prec l : binop_of k = Some (prec, l) ->
  binop_of (op_kind (mk_bin l k)) = Some (prec, l) /\ mk_bin l (op_kind (mk_bin l k)) = mk_bin l k
  /\ tk (op_tok (mk_bin l k)) = k.
Proof. destruct k; vm_compute; intros H; try discriminate; inversion H; subst; repeat split. Qed.

Lemma lit_kinds k l : lit_of k = Some l ->
  match l with
  | LText => k = TEXT
  | LNumber => k = INTEGER \/ k = DECIMAL
  | LTrue => k = TRUE
  | LFalse => k = FALSE
  | LNull => k = NULL
  end.
Proof. destruct k; vm_compute; intros H; try discriminate; inversion H; auto. Qed.

Lemma anon_prec_val : exists prec, anon_prec = Some prec.
Proof. eexists; reflexivity. Qed.

Lemma dot_kinds_cases k : kind_in k dot_kinds = true -> k = NAME \/ k = INTEGER.
Proof. destruct k; vm_compute; intros H; try discriminate; auto. Qed.

(* ---------------------------------------------------------------------------------------------- *)
(* equations of the parser functions *)

Lemma p_expr_eq f p ts : p_expr (S f) p ts =
  match p_primary f ts with PR (e, r) => p_binloop f p e r | PErr => PErr | PFuel => PFuel end.
Proof. reflexivity. Qed.

Lemma p_binloop_eq f p lhs ts : p_binloop (S f) p lhs ts =
  match ts with
  | t :: r =>
      match binop_of (tk t) with
      | Some (prec, l) =>
          if Nat.leb p prec then
            match p_expr f (S prec) r with
            | PR (rhs, r') => p_binloop f p (EBin (mk_bin l (tk t)) lhs rhs) r'
            | PErr => PErr
            | PFuel => PFuel
            end
          else PR (lhs, ts)
      | None => PR (lhs, ts)
      end
  | [] => PR (lhs, ts)
  end.
Proof. reflexivity. Qed.

Lemma p_primary_eq f ts : p_primary (S f) ts =
  match ts with
  | [] => PErr
  | t :: r =>
      match prefix_of (tk t) with
      | Some prec =>
          match p_expr f prec r with PR (e, r') => PR (ENeg e, r') | PErr => PErr | PFuel => PFuel end
      | None =>
          match lit_of (tk t) with
          | Some l => PR (mk_lit l t, r)
          | None =>
              match (if is_k LPAREN t then anon_head r else None), anon_prec with
              | Some (names, r'), Some prec =>
                  match p_expr f prec r' with
                  | PR (body, r'') => PR (EAnon names body, r'')
                  | PErr => PErr
                  | PFuel => PFuel
                  end
              | _, _ => p_atom f ts
              end
          end
      end
  end.
Proof. reflexivity. Qed.

Lemma p_atom_eq f ts : p_atom (S f) ts =
  match ts with
  | [] => PErr
  | t :: r =>
      if is_k LPAREN t then
        match p_expr f 0 r with
        | PR (e, c :: r') => if is_k RPAREN c then p_postfix f (EParen e) r' else PErr
        | PR (_, []) => PErr
        | PErr => PErr
        | PFuel => PFuel
        end
      else if is_k NAME t then p_postfix f (ECtxRef (tx t)) r
      else PErr
  end.
Proof. reflexivity. Qed.

Lemma p_postfix_eq f a ts : p_postfix (S f) a ts =
  match ts with
  | [] => PR (a, ts)
  | t :: r =>
      if is_k LPAREN t then
        match r with
        | c :: r' =>
            if is_k RPAREN c then p_postfix f (ECall a []) r'
            else
              match p_params f r with
              | PR (ps, c' :: r'') => if is_k RPAREN c' then p_postfix f (ECall a ps) r'' else PErr
              | PR (_, []) => PErr
              | PErr => PErr
              | PFuel => PFuel
              end
        | [] => PErr
        end
      else if is_k DOT t then
        match r with
        | n :: r' => if kind_in (tk n) dot_kinds then p_postfix f (EDot a (tx n)) r' else PErr
        | [] => PErr
        end
      else if is_k LBRACK t then
        match p_expr f 0 r with
        | PR (e, c :: r') => if is_k RBRACK c then p_postfix f (EIndex a e) r' else PErr
        | PR (_, []) => PErr
        | PErr => PErr
        | PFuel => PFuel
        end
      else PR (a, ts)
  end.
Proof. reflexivity. Qed.

Lemma p_params_eq f ts : p_params (S f) ts =
  match p_expr f 0 ts with
  | PR (e, c :: r) =>
      if is_k COMMA c then
        match p_params f r with
        | PR (es, r') => PR (e :: es, r')
        | PErr => PErr
        | PFuel => PFuel
        end
      else PR ([e], c :: r)
  | PR (e, []) => PR ([e], [])
  | PErr => PErr
  | PFuel => PFuel
  end.
Proof. reflexivity. Qed.


(* ---------------------------------------------------------------------------------------------- *)
(* the head of an anonymous function *)

Lemma anon_head_names : forall names rest, names <> [] ->
  anon_head (names_toks names ++ RP :: ARROWt :: rest) = Some (names, rest).
Proof.
  induction names as [|n r IH]; intros rest H; [congruence|].
  destruct r as [|n2 r'].
  - reflexivity.
  - change (names_toks (n :: n2 :: r')) with (tokc NAME n :: COMMAt :: names_toks (n2 :: r')).
    cbn [app anon_head]. change (is_k NAME (tokc NAME n)) with true. change (is_k COMMA COMMAt) with true. cbv iota.
    rewrite IH by discriminate. reflexivity.
Qed.

(* what a successful anon_head consumed *)
Lemma anon_head_some : forall ts names rest, anon_head ts = Some (names, rest) ->
  names <> [] /\ exists hd, ts = hd ++ rest /\ Forall2 krel hd (names_toks names ++ [RP; ARROWt]).
Proof.
  intros ts. remember (length ts) as len eqn:Hlen. revert ts Hlen.
  induction len as [len IHn] using lt_wf_ind. intros ts Hlen.
  assert (IH : forall y : list token, (length y < length ts)%nat -> forall names rest,
            anon_head y = Some (names, rest) ->
            names <> [] /\ exists hd, y = hd ++ rest /\ Forall2 krel hd (names_toks names ++ [RP; ARROWt])).
  { intros y Hy. apply (IHn (length y)); [lia|reflexivity]. }
  clear IHn. intros names rest H. destruct ts as [|n [|t2 r]]; try discriminate.
  cbn [anon_head] in H. destruct (is_k NAME n) eqn:EN; [|discriminate]. apply is_k_eq in EN.
  destruct (is_k COMMA t2) eqn:EC.
  - apply is_k_eq in EC. destruct (anon_head r) as [[ns r']|] eqn:EA; [|discriminate]. inversion H; subst.
    destruct (IH r ltac:(cbn; lia) _ _ EA) as (Hne & hd & -> & HF).
    split; [discriminate|]. exists (n :: t2 :: hd). split; [reflexivity|].
    destruct ns as [|n2 ns']; [congruence|].
    change (names_toks (tx n :: n2 :: ns')) with (tokc NAME (tx n) :: COMMAt :: names_toks (n2 :: ns')).
    cbn [app]. constructor; [left; exact EN|]. constructor; [left; exact EC|]. exact HF.
  - destruct (is_k RPAREN t2) eqn:ER; [|discriminate]. apply is_k_eq in ER.
    destruct r as [|a r']; [discriminate|]. destruct (is_k ARROW a) eqn:EW; [|discriminate]. apply is_k_eq in EW.
    inversion H; subst. split; [discriminate|]. exists [n; t2; a]. split; [reflexivity|].
    cbn. repeat constructor; assumption.
Qed.

(* kind-wise alike token lists are alike for anon_head *)
Lemma anon_head_krel_none : forall s1 s2, Forall2 krel s1 s2 -> anon_head s1 = None -> anon_head s2 = None.
Proof.
  intros s1. remember (length s1) as len eqn:Hlen. revert s1 Hlen.
  induction len as [len IHn] using lt_wf_ind. intros s1 Hlen.
  assert (IH : forall y : list token, (length y < length s1)%nat -> forall s2,
            Forall2 krel y s2 -> anon_head y = None -> anon_head s2 = None).
  { intros y Hy. apply (IHn (length y)); [lia|reflexivity]. }
  clear IHn. intros s2 HF H. destruct HF as [|n n' r1 r2 Hn HF]; [reflexivity|].
  destruct HF as [|t2 t2' r1 r2 Ht HF]; [reflexivity|].
  cbn [anon_head] in *. rewrite <- (krel_is_k NAME _ _ eq_refl Hn).
  destruct (is_k NAME n); [|reflexivity].
  rewrite <- (krel_is_k COMMA _ _ eq_refl Ht), <- (krel_is_k RPAREN _ _ eq_refl Ht).
  destruct (is_k COMMA t2).
  - destruct (anon_head r1) as [[ns r']|] eqn:EA; [discriminate|].
    rewrite (IH r1 ltac:(cbn; lia) r2 HF EA). reflexivity.
  - destruct (is_k RPAREN t2); [|reflexivity].
    destruct HF as [|a a' r1 r2 Ha HF]; [reflexivity|].
    rewrite <- (krel_is_k ARROW _ _ eq_refl Ha). destruct (is_k ARROW a); [discriminate|reflexivity].
Qed.

End Roundtrip.
