(* ConcProofs.v -- property C09: under the extracted access discipline (flow cache locked, no shared lazily
   initialised object, no write to a loaded definition) NO schedule produces a data race, and every goroutine
   observes what it observes when it runs alone.  Model: model/Conc.v. *)
From Coq Require Import List String NArith Bool Arith Lia.
From Verif Require Import model.Conc.
Import ListNotations.

(* ================================================================================================ *)
(** * Lists *)

Lemma nth_error_set_nth_eq : forall {A : Type} (l : list A) n x y,
  nth_error l n = Some y -> nth_error (set_nth n x l) n = Some x.
Proof.
  induction l as [|a t IH]; intros n x y H; destruct n; simpl in *; try discriminate. reflexivity. eapply IH. exact H.
Qed.

Lemma nth_error_set_nth_neq : forall {A : Type} (l : list A) n m x,
  n <> m -> nth_error (set_nth n x l) m = nth_error l m.
Proof.
  induction l as [|a t IH]; intros n m x H; destruct n; destruct m; simpl; try reflexivity. contradiction.
  apply IH. intro E. apply H. f_equal. exact E.
Qed.

Lemma mem_nat_In : forall x l, mem_nat x l = true <-> In x l.
Proof.
  intros x l. unfold mem_nat. rewrite existsb_exists. split.
  - intros [y [Hy E]]. apply Nat.eqb_eq in E. subst. exact Hy.
  - intro H. exists x. split. exact H. apply Nat.eqb_refl.
Qed.

Lemma mem_nat_false : forall x l, mem_nat x l = false <-> ~ In x l.
Proof.
  intros x l. split.
  - intros H Hin. apply mem_nat_In in Hin. rewrite Hin in H. discriminate.
  - intro H. destruct (mem_nat x l) eqn:E. apply mem_nat_In in E. contradiction. reflexivity.
Qed.

(* ================================================================================================ *)
(** * The invariant *)

(* code of a goroutine outside / inside the critical section of flowAssets.Get *)
Inductive code_shape : list micro -> Prop :=
| cs_nil : code_shape []
| cs_get : forall u r, code_shape r -> code_shape (MAcq :: MCacheRead u :: MRel :: r)
| cs_read : forall u r, code_shape r -> code_shape (MRead u :: r).

Inductive in_cs (cache : list nat) : list micro -> Prop :=
| ic_read : forall u r, code_shape r -> in_cs cache (MCacheRead u :: MRel :: r)
| ic_load : forall u r, code_shape r -> ~ In u cache -> in_cs cache (MLoad u :: MRel :: r)
| ic_rel : forall r, code_shape r -> in_cs cache (MRel :: r).

Definition disciplined (o : op) : Prop := match o with OGet _ | ORead _ => True | _ => False end.

Lemma compile_shape : forall p, Forall disciplined p -> code_shape (compile true p).
Proof.
  induction p as [|o r IH]; intro H; simpl. constructor.
  inversion H as [|? ? Ho Hr]; subst. destruct o; simpl in *; try contradiction.
  - apply cs_get. apply IH. exact Hr.
  - apply cs_read. apply IH. exact Hr.
Qed.

Definition guarded (e : event) : Prop :=
  acc_loc (ev_acc e) = LCache \/ exists u, ev_acc e = Wr (LDef u).

Record thread_ok (load : nat -> nat) (c : cfg) (t : nat) (ts : tstate) : Prop := {
  tk_in : g_holder c = Some t -> in_cs (g_cache c) (t_code ts);
  tk_out : g_holder c <> Some t -> code_shape (t_code ts);
  tk_known : incl (t_known ts) (g_cache c);
  tk_defs : forall u e, In u (t_known ts) -> In e (g_hist c) -> ev_acc e = Wr (LDef u) -> In (ev_id e) (t_know ts);
  tk_lock : g_holder c = Some t -> incl (g_lockk c) (t_know ts);
  tk_own : forall e, In e (g_hist c) -> ev_tid e = t -> In (ev_id e) (t_know ts)
}.

Record inv (load : nat -> nat) (c : cfg) : Prop := {
  iv_races : g_races c = [];
  iv_threads : forall t ts, nth_error (g_threads c) t = Some ts -> thread_ok load c t ts;
  iv_holder : forall t, g_holder c = Some t -> exists ts, nth_error (g_threads c) t = Some ts;
  iv_guarded : forall e, In e (g_hist c) -> guarded e -> In (ev_id e) (g_lockk c) \/ g_holder c = Some (ev_tid e);
  iv_cacheacc : forall e, In e (g_hist c) -> acc_loc (ev_acc e) = LCache -> guarded e;
  iv_defloc : forall e u, In e (g_hist c) -> acc_loc (ev_acc e) = LDef u -> In u (g_cache c);
  iv_nolazy : forall e o, In e (g_hist c) -> acc_loc (ev_acc e) <> LLazy o;
  iv_content : forall u, In u (g_cache c) -> lookup_nat u (g_defs c) = Some (load u)
}.

Lemma init_inv : forall load progs, Forall (Forall disciplined) progs -> inv load (init true progs).
Proof.
  intros load progs Hd. constructor; simpl; try (intros; contradiction); try reflexivity.
  - intros t ts Hn. apply nth_error_In in Hn. apply in_map_iff in Hn. destruct Hn as [p [Hp Hin]]. subst ts.
    rewrite Forall_forall in Hd. constructor; simpl; try (intros; contradiction); try discriminate.
    + intros _. apply compile_shape. apply Hd. exact Hin.
    + intros x [].
  - intros t H. discriminate.
Qed.

(* ------------------------------------------------------------------------------------------------ *)
(* no conflicting earlier event is unknown: the filter of `emit` is empty *)

Lemma no_racy : forall know t a hist,
  (forall e, In e hist -> ev_tid e <> t -> conflicts (ev_acc e) a = true -> In (ev_id e) know) ->
  filter (racy_with know t a) hist = [].
Proof.
  intros know t a hist H. induction hist as [|e r IH]; simpl. reflexivity.
  rewrite IH by (intros e' He'; apply H; right; exact He').
  unfold racy_with. destruct (Nat.eqb (ev_tid e) t) eqn:Et; simpl. reflexivity.
  destruct (conflicts (ev_acc e) a) eqn:Ec; simpl. 2: reflexivity.
  assert (Hk : In (ev_id e) know).
  { apply H. left; reflexivity. apply Nat.eqb_neq. exact Et. exact Ec. }
  apply mem_nat_In in Hk. rewrite Hk. reflexivity.
Qed.

Lemma conflicts_loc : forall a b, conflicts a b = true -> acc_loc a = acc_loc b.
Proof.
  intros a b H. unfold conflicts in H. apply andb_true_iff in H. destruct H as [H _].
  destruct (acc_loc a); destruct (acc_loc b); simpl in H; try discriminate; try reflexivity;
    apply Nat.eqb_eq in H; subst; reflexivity.
Qed.

(* the holder of the mutex knows every guarded event *)
Lemma holder_knows_guarded : forall load c t ts e,
  inv load c -> g_holder c = Some t -> nth_error (g_threads c) t = Some ts ->
  In e (g_hist c) -> guarded e -> In (ev_id e) (t_know ts).
Proof.
  intros load c t ts e Hi Hh Hn He Hg.
  destruct (iv_guarded load c Hi e He Hg) as [Hl|Hl].
  - apply (tk_lock load c t ts (iv_threads load c Hi t ts Hn) Hh). exact Hl.
  - rewrite Hh in Hl. inversion Hl as [Et]. apply (tk_own load c t ts (iv_threads load c Hi t ts Hn) e He). symmetry. exact Et.
Qed.

(* ================================================================================================ *)
(** * Preservation *)

Lemma holder_dec : forall (h : option nat) t, {h = Some t} + {h <> Some t}.
Proof. intros h t. decide equality. apply Nat.eq_dec. Qed.

Lemma shape_head : forall load c t ts m rest,
  thread_ok load c t ts -> t_code ts = m :: rest ->
  match m with
  | MAcq => g_holder c <> Some t /\ exists u r, rest = MCacheRead u :: MRel :: r /\ code_shape r
  | MRel => g_holder c = Some t /\ code_shape rest
  | MCacheRead u => g_holder c = Some t /\ exists r, rest = MRel :: r /\ code_shape r
  | MLoad u => g_holder c = Some t /\ ~ In u (g_cache c) /\ exists r, rest = MRel :: r /\ code_shape r
  | MRead u => g_holder c <> Some t /\ code_shape rest
  | _ => False
  end.
Proof.
  intros load c t ts m rest Hok Hcode.
  destruct (holder_dec (g_holder c) t) as [Hh|Hh].
  - pose proof (tk_in load c t ts Hok Hh) as Hs. rewrite Hcode in Hs.
    inversion Hs; subst; try (split; [exact Hh|]); eauto.
  - pose proof (tk_out load c t ts Hok Hh) as Hs. rewrite Hcode in Hs.
    inversion Hs; subst; try (split; [exact Hh|]); eauto.
Qed.

Lemma step_MAcq : forall load t c ts rest,
  inv load c -> nth_error (g_threads c) t = Some ts -> t_code ts = MAcq :: rest -> inv load (step load t c).
Proof.
  intros load t c ts rest Hi Hn Hcode. unfold step. rewrite Hn, Hcode.
  destruct (g_holder c) as [h|] eqn:Hh. exact Hi.
  pose proof (iv_threads load c Hi t ts Hn) as Hok.
  pose proof (shape_head load c t ts MAcq rest Hok Hcode) as [_ [u [r [Hrest Hr]]]]. subst rest.
  constructor; simpl.
  - apply (iv_races load c Hi).
  - intros t' ts' Hn'. destruct (Nat.eq_dec t t') as [E|E].
    + subst t'. rewrite (nth_error_set_nth_eq _ _ _ _ Hn) in Hn'. inversion Hn'; subst ts'. clear Hn'.
      constructor; simpl.
      * intros _. apply ic_read. exact Hr.
      * intro H. exfalso. apply H. reflexivity.
      * apply (tk_known load c t ts Hok).
      * intros u0 e Hu He Ha. apply in_or_app. right. apply (tk_defs load c t ts Hok u0 e Hu He Ha).
      * intros _ x Hx. apply in_or_app. left. exact Hx.
      * intros e He Et. apply in_or_app. right. apply (tk_own load c t ts Hok e He Et).
    + rewrite (nth_error_set_nth_neq _ _ _ _ E) in Hn'.
      pose proof (iv_threads load c Hi t' ts' Hn') as Hok'.
      constructor; simpl.
      * intro H. inversion H. contradiction.
      * intros _. apply (tk_out load c t' ts' Hok'). rewrite Hh. discriminate.
      * apply (tk_known load c t' ts' Hok').
      * apply (tk_defs load c t' ts' Hok').
      * intro H. inversion H. contradiction.
      * apply (tk_own load c t' ts' Hok').
  - intros t' H. inversion H; subst t'. exists {| t_code := MCacheRead u :: MRel :: r; t_known := t_known ts; t_know := g_lockk c ++ t_know ts; t_out := t_out ts |}.
    eapply nth_error_set_nth_eq. exact Hn.
  - intros e He Hg. destruct (iv_guarded load c Hi e He Hg) as [H|H]. left; exact H. rewrite Hh in H. discriminate.
  - apply (iv_cacheacc load c Hi).
  - apply (iv_defloc load c Hi).
  - apply (iv_nolazy load c Hi).
  - apply (iv_content load c Hi).
Qed.

Lemma step_MRel : forall load t c ts rest,
  inv load c -> nth_error (g_threads c) t = Some ts -> t_code ts = MRel :: rest -> inv load (step load t c).
Proof.
  intros load t c ts rest Hi Hn Hcode. unfold step. rewrite Hn, Hcode.
  pose proof (iv_threads load c Hi t ts Hn) as Hok.
  pose proof (shape_head load c t ts MRel rest Hok Hcode) as [Hh Hr].
  constructor; simpl.
  - apply (iv_races load c Hi).
  - intros t' ts' Hn'. destruct (Nat.eq_dec t t') as [E|E].
    + subst t'. rewrite (nth_error_set_nth_eq _ _ _ _ Hn) in Hn'. inversion Hn'; subst ts'. clear Hn'.
      constructor; simpl; try discriminate.
      * intros _. exact Hr.
      * apply (tk_known load c t ts Hok).
      * apply (tk_defs load c t ts Hok).
      * apply (tk_own load c t ts Hok).
    + rewrite (nth_error_set_nth_neq _ _ _ _ E) in Hn'.
      pose proof (iv_threads load c Hi t' ts' Hn') as Hok'.
      constructor; simpl; try discriminate.
      * intros _. apply (tk_out load c t' ts' Hok'). rewrite Hh. intro H. inversion H. contradiction.
      * apply (tk_known load c t' ts' Hok').
      * apply (tk_defs load c t' ts' Hok').
      * apply (tk_own load c t' ts' Hok').
  - intros t' H. discriminate.
  - intros e He Hg. left. apply in_or_app. destruct (iv_guarded load c Hi e He Hg) as [H|H].
    + right. exact H.
    + left. rewrite Hh in H. inversion H as [Et]. apply (tk_own load c t ts Hok e He). symmetry. exact Et.
  - apply (iv_cacheacc load c Hi).
  - apply (iv_defloc load c Hi).
  - apply (iv_nolazy load c Hi).
  - apply (iv_content load c Hi).
Qed.

Lemma step_MCacheRead : forall load t c ts u rest,
  inv load c -> nth_error (g_threads c) t = Some ts -> t_code ts = MCacheRead u :: rest -> inv load (step load t c).
Proof.
  intros load t c ts u rest Hi Hn Hcode. unfold step. rewrite Hn, Hcode.
  pose proof (iv_threads load c Hi t ts Hn) as Hok.
  pose proof (shape_head load c t ts (MCacheRead u) rest Hok Hcode) as [Hh [r [Hrest Hr]]]. subst rest.
  assert (Hnr : filter (racy_with (t_know ts) t (Rd LCache)) (g_hist c) = []).
  { apply no_racy. intros e He _ Hc. apply conflicts_loc in Hc. simpl in Hc.
    apply (holder_knows_guarded load c t ts e Hi Hh Hn He). apply (iv_cacheacc load c Hi e He Hc). }
  unfold emit. simpl. rewrite Hnr. simpl.
  destruct (mem_nat u (g_cache c)) eqn:Hmem.
  - (* hit *)
    apply mem_nat_In in Hmem.
    constructor; simpl.
    + apply (iv_races load c Hi).
    + intros t' ts' Hn'. destruct (Nat.eq_dec t t') as [E|E].
      * subst t'. rewrite (nth_error_set_nth_eq _ _ _ _ Hn) in Hn'. inversion Hn'; subst ts'. clear Hn'.
        constructor; simpl.
        -- intros _. apply ic_rel. exact Hr.
        -- intro H. contradiction.
        -- intros x [Hx|Hx]. subst x. exact Hmem. apply (tk_known load c t ts Hok). exact Hx.
        -- intros u0 e [Hu|Hu] [He|He] Ha.
           ++ subst e. simpl in Ha. discriminate.
           ++ subst u0. right. apply (holder_knows_guarded load c t ts e Hi Hh Hn He). right. exists u. exact Ha.
           ++ subst e. simpl in Ha. discriminate.
           ++ right. apply (tk_defs load c t ts Hok u0 e Hu He Ha).
        -- intros _ x Hx. right. apply (tk_lock load c t ts Hok Hh). exact Hx.
        -- intros e [He|He] Et. subst e. left. reflexivity. right. apply (tk_own load c t ts Hok e He Et).
      * rewrite (nth_error_set_nth_neq _ _ _ _ E) in Hn'.
        pose proof (iv_threads load c Hi t' ts' Hn') as Hok'.
        constructor; simpl.
        -- intro H. rewrite Hh in H. inversion H. contradiction.
        -- apply (tk_out load c t' ts' Hok').
        -- apply (tk_known load c t' ts' Hok').
        -- intros u0 e Hu [He|He] Ha. subst e. simpl in Ha. discriminate. apply (tk_defs load c t' ts' Hok' u0 e Hu He Ha).
        -- intro H. rewrite Hh in H. inversion H. contradiction.
        -- intros e [He|He] Et. subst e. simpl in Et. contradiction. apply (tk_own load c t' ts' Hok' e He Et).
    + intros t' H. rewrite Hh in H. inversion H; subst t'. eexists. eapply nth_error_set_nth_eq. exact Hn.
    + intros e [He|He] Hg. subst e. right. simpl. exact Hh. apply (iv_guarded load c Hi e He Hg).
    + intros e [He|He] Hl. subst e. left. reflexivity. apply (iv_cacheacc load c Hi e He Hl).
    + intros e u0 [He|He] Hl. subst e. simpl in Hl. discriminate. apply (iv_defloc load c Hi e u0 He Hl).
    + intros e o [He|He]. subst e. simpl. discriminate. apply (iv_nolazy load c Hi e o He).
    + apply (iv_content load c Hi).
  - (* miss *)
    apply mem_nat_false in Hmem.
    constructor; simpl.
    + apply (iv_races load c Hi).
    + intros t' ts' Hn'. destruct (Nat.eq_dec t t') as [E|E].
      * subst t'. rewrite (nth_error_set_nth_eq _ _ _ _ Hn) in Hn'. inversion Hn'; subst ts'. clear Hn'.
        constructor; simpl.
        -- intros _. apply ic_load. exact Hr. exact Hmem.
        -- intro H. contradiction.
        -- apply (tk_known load c t ts Hok).
        -- intros u0 e Hu [He|He] Ha. subst e. simpl in Ha. discriminate. right. apply (tk_defs load c t ts Hok u0 e Hu He Ha).
        -- intros _ x Hx. right. apply (tk_lock load c t ts Hok Hh). exact Hx.
        -- intros e [He|He] Et. subst e. left. reflexivity. right. apply (tk_own load c t ts Hok e He Et).
      * rewrite (nth_error_set_nth_neq _ _ _ _ E) in Hn'.
        pose proof (iv_threads load c Hi t' ts' Hn') as Hok'.
        constructor; simpl.
        -- intro H. rewrite Hh in H. inversion H. contradiction.
        -- apply (tk_out load c t' ts' Hok').
        -- apply (tk_known load c t' ts' Hok').
        -- intros u0 e Hu [He|He] Ha. subst e. simpl in Ha. discriminate. apply (tk_defs load c t' ts' Hok' u0 e Hu He Ha).
        -- intro H. rewrite Hh in H. inversion H. contradiction.
        -- intros e [He|He] Et. subst e. simpl in Et. contradiction. apply (tk_own load c t' ts' Hok' e He Et).
    + intros t' H. rewrite Hh in H. inversion H; subst t'. eexists. eapply nth_error_set_nth_eq. exact Hn.
    + intros e [He|He] Hg. subst e. right. simpl. exact Hh. apply (iv_guarded load c Hi e He Hg).
    + intros e [He|He] Hl. subst e. left. reflexivity. apply (iv_cacheacc load c Hi e He Hl).
    + intros e u0 [He|He] Hl. subst e. simpl in Hl. discriminate. apply (iv_defloc load c Hi e u0 He Hl).
    + intros e o [He|He]. subst e. simpl. discriminate. apply (iv_nolazy load c Hi e o He).
    + apply (iv_content load c Hi).
Qed.

Lemma step_MLoad : forall load t c ts u rest,
  inv load c -> nth_error (g_threads c) t = Some ts -> t_code ts = MLoad u :: rest -> inv load (step load t c).
Proof.
  intros load t c ts u rest Hi Hn Hcode. unfold step. rewrite Hn, Hcode.
  pose proof (iv_threads load c Hi t ts Hn) as Hok.
  pose proof (shape_head load c t ts (MLoad u) rest Hok Hcode) as [Hh [Hnew [r [Hrest Hr]]]]. subst rest.
  (* the definition object is new: nobody has accessed it *)
  assert (Hnr1 : filter (racy_with (t_know ts) t (Wr (LDef u))) (g_hist c) = []).
  { apply no_racy. intros e He _ Hc. apply conflicts_loc in Hc. simpl in Hc.
    exfalso. apply Hnew. apply (iv_defloc load c Hi e u He Hc). }
  (* the cache is only touched under the mutex *)
  assert (Hnr2 : filter (racy_with (g_next c :: t_know ts) t (Wr LCache)) (g_hist c) = []).
  { apply no_racy. intros e He Ht Hc.
    right. apply conflicts_loc in Hc. simpl in Hc.
    apply (holder_knows_guarded load c t ts e Hi Hh Hn He). apply (iv_cacheacc load c Hi e He Hc). }
  unfold emit. simpl. rewrite Hnr1. simpl. unfold racy_with at 1. simpl. rewrite Nat.eqb_refl. simpl. rewrite Hnr2. simpl.
  constructor; simpl.
  - apply (iv_races load c Hi).
  - intros t' ts' Hn'. destruct (Nat.eq_dec t t') as [E|E].
    + subst t'. rewrite (nth_error_set_nth_eq _ _ _ _ Hn) in Hn'. inversion Hn'; subst ts'. clear Hn'.
      constructor; simpl.
      * intros _. apply ic_rel. exact Hr.
      * intro H. contradiction.
      * intros x [Hx|Hx]. left. exact Hx. right. apply (tk_known load c t ts Hok). exact Hx.
      * intros u0 e Hu [He|[He|He]] Ha.
        -- subst e. simpl in Ha. discriminate.
        -- subst e. right. left. reflexivity.
        -- destruct Hu as [Hu|Hu].
           ++ subst u0. exfalso. apply Hnew. apply (iv_defloc load c Hi e u He). rewrite Ha. reflexivity.
           ++ right. right. apply (tk_defs load c t ts Hok u0 e Hu He Ha).
      * intros _ x Hx. right. right. apply (tk_lock load c t ts Hok Hh). exact Hx.
      * intros e [He|[He|He]] Et.
        -- subst e. left. reflexivity.
        -- subst e. right. left. reflexivity.
        -- right. right. apply (tk_own load c t ts Hok e He Et).
    + rewrite (nth_error_set_nth_neq _ _ _ _ E) in Hn'.
      pose proof (iv_threads load c Hi t' ts' Hn') as Hok'.
      constructor; simpl.
      * intro H. rewrite Hh in H. inversion H. contradiction.
      * apply (tk_out load c t' ts' Hok').
      * intros x Hx. right. apply (tk_known load c t' ts' Hok'). exact Hx.
      * intros u0 e Hu [He|[He|He]] Ha.
        -- subst e. simpl in Ha. discriminate.
        -- subst e. simpl in Ha. inversion Ha; subst u0. exfalso. apply Hnew. apply (tk_known load c t' ts' Hok'). exact Hu.
        -- apply (tk_defs load c t' ts' Hok' u0 e Hu He Ha).
      * intro H. rewrite Hh in H. inversion H. contradiction.
      * intros e [He|[He|He]] Et.
        -- subst e. simpl in Et. contradiction.
        -- subst e. simpl in Et. contradiction.
        -- apply (tk_own load c t' ts' Hok' e He Et).
  - intros t' H. rewrite Hh in H. inversion H; subst t'. eexists. eapply nth_error_set_nth_eq. exact Hn.
  - intros e [He|[He|He]] Hg.
    + subst e. right. simpl. exact Hh.
    + subst e. right. simpl. exact Hh.
    + apply (iv_guarded load c Hi e He Hg).
  - intros e [He|[He|He]] Hl.
    + subst e. left. reflexivity.
    + subst e. simpl in Hl. discriminate.
    + apply (iv_cacheacc load c Hi e He Hl).
  - intros e u0 [He|[He|He]] Hl.
    + subst e. simpl in Hl. discriminate.
    + subst e. simpl in Hl. inversion Hl. left. reflexivity.
    + right. apply (iv_defloc load c Hi e u0 He Hl).
  - intros e o [He|[He|He]].
    + subst e. simpl. discriminate.
    + subst e. simpl. discriminate.
    + apply (iv_nolazy load c Hi e o He).
  - intros u0 [Hu|Hu].
    + subst u0. rewrite Nat.eqb_refl. reflexivity.
    + destruct (Nat.eqb u0 u) eqn:E.
      * apply Nat.eqb_eq in E. subst u0. contradiction.
      * apply (iv_content load c Hi u0 Hu).
Qed.

Lemma step_MRead : forall load t c ts u rest,
  inv load c -> nth_error (g_threads c) t = Some ts -> t_code ts = MRead u :: rest -> inv load (step load t c).
Proof.
  intros load t c ts u rest Hi Hn Hcode. unfold step. rewrite Hn, Hcode.
  pose proof (iv_threads load c Hi t ts Hn) as Hok.
  pose proof (shape_head load c t ts (MRead u) rest Hok Hcode) as [Hh Hr].
  destruct (mem_nat u (t_known ts)) eqn:Hmem.
  - apply mem_nat_In in Hmem.
    assert (Hnr : filter (racy_with (t_know ts) t (Rd (LDef u))) (g_hist c) = []).
    { apply no_racy. intros e He _ Hc. pose proof (conflicts_loc _ _ Hc) as Hl. simpl in Hl.
      unfold conflicts in Hc. apply andb_true_iff in Hc. destruct Hc as [_ Hw]. simpl in Hw. rewrite orb_false_r in Hw.
      destruct (ev_acc e) as [l|l] eqn:Ea; simpl in *; try discriminate. subst l.
      apply (tk_defs load c t ts Hok u e Hmem He Ea). }
    unfold emit. simpl. rewrite Hnr. simpl.
    constructor; simpl.
    + apply (iv_races load c Hi).
    + intros t' ts' Hn'. destruct (Nat.eq_dec t t') as [E|E].
      * subst t'. rewrite (nth_error_set_nth_eq _ _ _ _ Hn) in Hn'. inversion Hn'; subst ts'. clear Hn'.
        constructor; simpl.
        -- intro H. contradiction.
        -- intros _. exact Hr.
        -- apply (tk_known load c t ts Hok).
        -- intros u0 e Hu [He|He] Ha. subst e. simpl in Ha. discriminate. right. apply (tk_defs load c t ts Hok u0 e Hu He Ha).
        -- intro H. contradiction.
        -- intros e [He|He] Et. subst e. left. reflexivity. right. apply (tk_own load c t ts Hok e He Et).
      * rewrite (nth_error_set_nth_neq _ _ _ _ E) in Hn'.
        pose proof (iv_threads load c Hi t' ts' Hn') as Hok'.
        constructor; simpl.
        -- apply (tk_in load c t' ts' Hok').
        -- apply (tk_out load c t' ts' Hok').
        -- apply (tk_known load c t' ts' Hok').
        -- intros u0 e Hu [He|He] Ha. subst e. simpl in Ha. discriminate. apply (tk_defs load c t' ts' Hok' u0 e Hu He Ha).
        -- apply (tk_lock load c t' ts' Hok').
        -- intros e [He|He] Et. subst e. simpl in Et. contradiction. apply (tk_own load c t' ts' Hok' e He Et).
    + intros t' H. destruct (iv_holder load c Hi t' H) as [ts' Hn']. destruct (Nat.eq_dec t t') as [E|E].
      * subst t'. contradiction.
      * exists ts'. rewrite (nth_error_set_nth_neq _ _ _ _ E). exact Hn'.
    + intros e [He|He] Hg.
      * subst e. destruct Hg as [Hg|[u0 Hg]]; simpl in Hg; discriminate.
      * apply (iv_guarded load c Hi e He Hg).
    + intros e [He|He] Hl. subst e. simpl in Hl. discriminate. apply (iv_cacheacc load c Hi e He Hl).
    + intros e u0 [He|He] Hl.
      * subst e. simpl in Hl. inversion Hl; subst u0. apply (tk_known load c t ts Hok). exact Hmem.
      * apply (iv_defloc load c Hi e u0 He Hl).
    + intros e o [He|He]. subst e. simpl. discriminate. apply (iv_nolazy load c Hi e o He).
    + apply (iv_content load c Hi).
  - constructor; simpl.
    + apply (iv_races load c Hi).
    + intros t' ts' Hn'. destruct (Nat.eq_dec t t') as [E|E].
      * subst t'. rewrite (nth_error_set_nth_eq _ _ _ _ Hn) in Hn'. inversion Hn'; subst ts'. clear Hn'.
        constructor; simpl.
        -- intro H. contradiction.
        -- intros _. exact Hr.
        -- apply (tk_known load c t ts Hok).
        -- apply (tk_defs load c t ts Hok).
        -- intro H. contradiction.
        -- apply (tk_own load c t ts Hok).
      * rewrite (nth_error_set_nth_neq _ _ _ _ E) in Hn'. pose proof (iv_threads load c Hi t' ts' Hn') as Hok'.
        constructor; simpl.
        -- apply (tk_in load c t' ts' Hok').
        -- apply (tk_out load c t' ts' Hok').
        -- apply (tk_known load c t' ts' Hok').
        -- apply (tk_defs load c t' ts' Hok').
        -- apply (tk_lock load c t' ts' Hok').
        -- apply (tk_own load c t' ts' Hok').
    + intros t' H. destruct (iv_holder load c Hi t' H) as [ts' Hn']. destruct (Nat.eq_dec t t') as [E|E].
      * subst t'. contradiction.
      * exists ts'. rewrite (nth_error_set_nth_neq _ _ _ _ E). exact Hn'.
    + apply (iv_guarded load c Hi).
    + apply (iv_cacheacc load c Hi).
    + apply (iv_defloc load c Hi).
    + apply (iv_nolazy load c Hi).
    + apply (iv_content load c Hi).
Qed.

Theorem step_inv : forall load t c, inv load c -> inv load (step load t c).
Proof.
  intros load t c Hi.
  destruct (nth_error (g_threads c) t) as [ts|] eqn:Hn.
  2: { unfold step. rewrite Hn. exact Hi. }
  destruct (t_code ts) as [|m rest] eqn:Hcode.
  { unfold step. rewrite Hn, Hcode. exact Hi. }
  pose proof (shape_head load c t ts m rest (iv_threads load c Hi t ts Hn) Hcode) as Hs.
  destruct m; try contradiction.
  - eapply step_MAcq; eassumption.
  - eapply step_MRel; eassumption.
  - eapply step_MCacheRead; eassumption.
  - eapply step_MLoad; eassumption.
  - eapply step_MRead; eassumption.
Qed.

Theorem run_inv : forall load sched c, inv load c -> inv load (run load sched c).
Proof.
  intros load sched. unfold run. induction sched as [|t r IH]; intros c Hi; simpl. exact Hi.
  apply IH. apply step_inv. exact Hi.
Qed.

(* RACE FREEDOM: programs made of cache look-ups and reads of loaded definitions, any number of goroutines, any
   schedule: the instrumented semantics never finds two conflicting accesses unordered by happens-before *)
Theorem race_free : forall load progs sched,
  Forall (Forall disciplined) progs -> g_races (run load sched (init true progs)) = [].
Proof.
  intros load progs sched Hd. apply (iv_races load). apply run_inv. apply init_inv. exact Hd.
Qed.

(* ================================================================================================ *)
(** * Same result as alone *)

(* what the rest of a goroutine's code will observe, given the definitions it already holds *)
Fixpoint future (load : nat -> nat) (code : list micro) (known : list nat) : list nat :=
  match code with
  | [] => []
  | MCacheRead u :: r => future load r (u :: known)
  | MLoad u :: r => future load r (u :: known)
  | MRead u :: r => (if mem_nat u known then load u else 0) :: future load r known
  | _ :: r => future load r known
  end.

Lemma future_compile : forall load p known,
  Forall disciplined p -> future load (compile true p) known = solo_out load p known.
Proof.
  intros load p. induction p as [|o r IH]; intros known Hd; simpl. reflexivity.
  inversion Hd as [|? ? Ho Hr]; subst. destruct o; simpl in *; try contradiction.
  - apply IH. exact Hr.
  - f_equal. apply IH. exact Hr.
Qed.

Definition agrees (load : nat -> nat) (progs : list (list op)) (c : cfg) : Prop :=
  forall t ts p, nth_error (g_threads c) t = Some ts -> nth_error progs t = Some p ->
    t_out ts ++ future load (t_code ts) (t_known ts) = solo_out load p [].

Lemma init_agrees : forall load progs, Forall (Forall disciplined) progs -> agrees load progs (init true progs).
Proof.
  intros load progs Hd t ts p Hn Hp. simpl in Hn. rewrite nth_error_map in Hn. rewrite Hp in Hn. simpl in Hn.
  inversion Hn; subst ts. simpl. apply future_compile. rewrite Forall_forall in Hd. apply Hd.
  eapply nth_error_In. exact Hp.
Qed.

Lemma step_agrees : forall load progs t c, inv load c -> agrees load progs c -> agrees load progs (step load t c).
Proof.
  intros load progs t c Hi Ha.
  destruct (nth_error (g_threads c) t) as [ts|] eqn:Hn.
  2: { unfold step. rewrite Hn. exact Ha. }
  destruct (t_code ts) as [|m rest] eqn:Hcode.
  { unfold step. rewrite Hn, Hcode. exact Ha. }
  pose proof (iv_threads load c Hi t ts Hn) as Hok.
  pose proof (shape_head load c t ts m rest Hok Hcode) as Hs.
  (* every case: only thread t changes, and its past ++ future stays the same *)
  assert (Hother : forall ts' c0, g_threads c0 = g_threads c ->
            (forall p, nth_error progs t = Some p -> t_out ts' ++ future load (t_code ts') (t_known ts') = solo_out load p []) ->
            agrees load progs (put t ts' c0)).
  { intros ts' c0 Hg Hself t' ts'' p Hn' Hp. simpl in Hn'. rewrite Hg in Hn'.
    destruct (Nat.eq_dec t t') as [E|E].
    - subst t'. rewrite (nth_error_set_nth_eq _ _ _ _ Hn) in Hn'. inversion Hn'; subst ts''. apply Hself. exact Hp.
    - rewrite (nth_error_set_nth_neq _ _ _ _ E) in Hn'. apply (Ha t' ts'' p Hn' Hp). }
  assert (Hme : forall p, nth_error progs t = Some p -> t_out ts ++ future load (m :: rest) (t_known ts) = solo_out load p []).
  { intros p Hp. rewrite <- Hcode. apply (Ha t ts p Hn Hp). }
  unfold step. rewrite Hn, Hcode. destruct m; try contradiction.
  - (* MAcq *) destruct (g_holder c). exact Ha. apply Hother. reflexivity. simpl. intros p Hp. apply (Hme p Hp).
  - (* MRel *) apply Hother. reflexivity. simpl. intros p Hp. apply (Hme p Hp).
  - (* MCacheRead *) unfold emit. simpl. destruct (mem_nat u (g_cache c)); apply Hother; try reflexivity; simpl; intros p Hp; apply (Hme p Hp).
  - (* MLoad *) unfold emit. simpl. apply Hother. reflexivity. simpl. intros p Hp. apply (Hme p Hp).
  - (* MRead *) destruct (mem_nat u (t_known ts)) eqn:Hk.
    + unfold emit. simpl. apply Hother. reflexivity. simpl. intros p Hp. rewrite <- (Hme p Hp). simpl. rewrite Hk.
      assert (Hv : lookup_nat u (g_defs c) = Some (load u)).
      { apply (iv_content load c Hi). apply (tk_known load c t ts Hok). apply mem_nat_In. exact Hk. }
      rewrite Hv. rewrite <- app_assoc. reflexivity.
    + apply Hother. reflexivity. simpl. intros p Hp. rewrite <- (Hme p Hp). simpl. rewrite Hk. rewrite <- app_assoc. reflexivity.
Qed.

Lemma run_agrees : forall load progs sched c, inv load c -> agrees load progs c -> agrees load progs (run load sched c).
Proof.
  intros load progs sched. unfold run. induction sched as [|t r IH]; intros c Hi Ha; simpl. exact Ha.
  apply IH. apply step_inv. exact Hi. apply step_agrees; assumption.
Qed.

(* SAME RESULT AS ALONE: under any schedule what goroutine t has observed so far is a prefix of what its program
   observes when it runs alone from a cold cache, and all of it once the goroutine has finished *)
Theorem solo_equiv : forall load progs sched t p,
  Forall (Forall disciplined) progs -> nth_error progs t = Some p ->
  let c := run load sched (init true progs) in
  (exists rest, solo_out load p [] = thread_out c t ++ rest) /\
  (thread_done c t = true -> thread_out c t = solo_out load p []).
Proof.
  intros load progs sched t p Hd Hp c.
  assert (Ha : agrees load progs c).
  { apply run_agrees. apply init_inv. exact Hd. apply init_agrees. exact Hd. }
  unfold thread_out, thread_done.
  destruct (nth_error (g_threads c) t) as [ts|] eqn:Hn.
  - specialize (Ha t ts p Hn Hp). split.
    + eexists. symmetry. exact Ha.
    + intro Hdone. destruct (t_code ts); try discriminate. simpl in Ha. rewrite app_nil_r in Ha. exact Ha.
  - (* the thread exists in every reachable configuration *)
    exfalso.
    assert (Hlen : forall sched0 c0, List.length (g_threads (run load sched0 c0)) = List.length (g_threads c0)).
    { induction sched0 as [|x r IH]; intro c0; simpl. reflexivity. unfold run in *. simpl. rewrite IH.
      assert (Hs : forall n (x0 : tstate) l, List.length (set_nth n x0 l) = List.length l).
      { intros n x0 l. revert n. induction l as [|a l' IHl]; intro n; destruct n; simpl; try reflexivity. rewrite IHl. reflexivity. }
      unfold step. destruct (nth_error (g_threads c0) x) as [tsx|]; [|reflexivity].
      destruct (t_code tsx) as [|m rest]; [reflexivity|].
      destruct m; unfold emit; simpl;
        repeat match goal with |- context [if ?b then _ else _] => destruct b end;
        try destruct (g_holder c0); simpl; rewrite ?Hs; reflexivity. }
    apply nth_error_None in Hn. unfold c in Hn. rewrite Hlen in Hn. simpl in Hn. rewrite map_length in Hn.
    assert (Hlt : t < List.length progs) by (apply nth_error_Some; rewrite Hp; discriminate). lia.
Qed.

(* ------------------------------------------------------------------------------------------------ *)
(* `solo_out` IS what the program observes when its goroutine is the only one *)

Fixpoint weight (code : list micro) : nat :=
  match code with
  | [] => 0
  | MCacheRead _ :: r => 2 + weight r
  | _ :: r => 1 + weight r
  end.

Definition code_of (c : cfg) (t : nat) : list micro :=
  match nth_error (g_threads c) t with Some ts => t_code ts | None => [] end.

Lemma threads_length_step : forall load t c, List.length (g_threads (step load t c)) = List.length (g_threads c).
Proof.
  intros load t c.
  assert (Hs : forall n (x0 : tstate) l, List.length (set_nth n x0 l) = List.length l).
  { intros n x0 l. revert n. induction l as [|a l' IHl]; intro n; destruct n; simpl; try reflexivity. rewrite IHl. reflexivity. }
  unfold step. destruct (nth_error (g_threads c) t) as [tsx|]; [|reflexivity].
  destruct (t_code tsx) as [|m rest]; [reflexivity|].
  destruct m; unfold emit; simpl;
    repeat match goal with |- context [if ?b then _ else _] => destruct b end;
    try destruct (g_holder c); simpl; rewrite ?Hs; reflexivity.
Qed.

Lemma solo_step_progress : forall load c t,
  inv load c -> (forall h ts, nth_error (g_threads c) h = Some ts -> h = t) -> code_of c t <> [] ->
  weight (code_of (step load t c) t) < weight (code_of c t).
Proof.
  intros load c t Hi Honly Hne. unfold code_of in *.
  destruct (nth_error (g_threads c) t) as [ts|] eqn:Hn; [|contradiction].
  destruct (t_code ts) as [|m rest] eqn:Hcode; [contradiction|].
  pose proof (shape_head load c t ts m rest (iv_threads load c Hi t ts Hn) Hcode) as Hs.
  unfold step. rewrite Hn, Hcode.
  destruct m; try contradiction.
  - (* MAcq: the mutex is free, nobody else exists *)
    destruct (g_holder c) as [h|] eqn:Hh.
    + exfalso. destruct Hs as [Hne0 _]. destruct (iv_holder load c Hi h) as [tsh Hnh]. rewrite Hh. reflexivity.
      rewrite (Honly h tsh Hnh) in Hne0. apply Hne0. reflexivity.
    + simpl. rewrite (nth_error_set_nth_eq _ _ _ _ Hn). simpl. lia.
  - simpl. rewrite (nth_error_set_nth_eq _ _ _ _ Hn). simpl. lia.
  - unfold emit. simpl. destruct (mem_nat u (g_cache c)); simpl; rewrite (nth_error_set_nth_eq _ _ _ _ Hn); simpl; lia.
  - unfold emit. simpl. rewrite (nth_error_set_nth_eq _ _ _ _ Hn). simpl. lia.
  - destruct (mem_nat u (t_known ts)); unfold emit; simpl; rewrite (nth_error_set_nth_eq _ _ _ _ Hn); simpl; lia.
Qed.

Lemma solo_run_finishes : forall load n c,
  inv load c -> List.length (g_threads c) = 1 -> weight (code_of c 0) <= n ->
  code_of (run load (repeat 0 n) c) 0 = [].
Proof.
  intros load n. induction n as [|n IH]; intros c Hi Hlen Hw; simpl.
  - destruct (code_of c 0) as [|m r] eqn:E. reflexivity. destruct m; simpl in Hw; lia.
  - unfold run in *. simpl. destruct (code_of c 0) as [|m r] eqn:E.
    + (* already finished: steps change nothing *)
      assert (Hsame : step load 0 c = c).
      { unfold step. unfold code_of in E. destruct (nth_error (g_threads c) 0) as [ts|]; [|reflexivity].
        rewrite E. reflexivity. }
      rewrite Hsame. apply IH; try assumption. rewrite E. simpl. lia.
    + apply IH.
      * apply step_inv. exact Hi.
      * rewrite threads_length_step. exact Hlen.
      * assert (Honly : forall h ts, nth_error (g_threads c) h = Some ts -> h = 0).
        { intros h ts Hh. assert (h < 1). { rewrite <- Hlen. apply nth_error_Some. rewrite Hh. discriminate. } lia. }
        assert (Hlt := solo_step_progress load c 0 Hi Honly). rewrite E in Hlt. specialize (Hlt ltac:(discriminate)). lia.
Qed.

Lemma weight_compile : forall p, weight (compile true p) <= 4 * List.length p.
Proof.
  induction p as [|o r IH]; simpl. lia. destruct o; simpl; lia.
Qed.

Theorem solo_run_spec : forall load p,
  Forall disciplined p ->
  let c := run load (repeat 0 (4 * List.length p)) (init true [p]) in
  thread_done c 0 = true /\ thread_out c 0 = solo_out load p [].
Proof.
  intros load p Hd c.
  assert (Hds : Forall (Forall disciplined) [p]) by (constructor; [exact Hd | constructor]).
  assert (Hfin : code_of c 0 = []).
  { apply solo_run_finishes. apply init_inv. exact Hds. reflexivity. simpl. apply weight_compile. }
  assert (Hdone : thread_done c 0 = true).
  { unfold thread_done. unfold code_of in Hfin. destruct (nth_error (g_threads c) 0) as [ts|]; [|reflexivity]. rewrite Hfin. reflexivity. }
  split. exact Hdone.
  apply (solo_equiv load [p] (repeat 0 (4 * List.length p)) 0 p Hds eq_refl). exact Hdone.
Qed.

(* ================================================================================================ *)
(** * What happens without the discipline (witnesses by computation) *)

(* flow cache without the mutex: two goroutines look up the same cold flow *)
Theorem unlocked_cache_refuted :
  exists (progs : list (list op)) (sched : list nat), g_races (run (fun u => u) sched (init false progs)) <> [].
Proof. exists [[OGet 1]; [OGet 1]], [0; 1; 0; 1]. vm_compute. discriminate. Qed.

(* ... and then they do not even get the same definition object: both load it *)
Theorem unlocked_cache_double_load :
  exists (progs : list (list op)) (sched : list nat),
    List.length (filter (fun e => match ev_acc e with Wr (LDef 1) => true | _ => false end)
                        (g_hist (run (fun u => u) sched (init false progs)))) = 2.
Proof. exists [[OGet 1]; [OGet 1]], [0; 1; 0; 1]. vm_compute. reflexivity. Qed.

(* a lazily initialised object shared between goroutines (F8: XObjectEmpty / cases.FalseResult before fix d525f4e) *)
Theorem shared_lazy_refuted :
  exists (progs : list (list op)) (sched : list nat), g_races (run (fun u => u) sched (init true progs)) <> [].
Proof. exists [[OLazy 0]; [OLazy 0]], [0; 1; 0; 1]. vm_compute. discriminate. Qed.

(* a write to a loaded definition (caching something on it at first use): a race with every reader ... *)
Theorem def_write_refuted :
  exists (progs : list (list op)) (sched : list nat), g_races (run (fun u => u) sched (init true progs)) <> [].
Proof. exists [[OGet 1; OWriteDef 1 7]; [OGet 1; ORead 1]], [0; 0; 0; 0; 1; 1; 1; 0; 1]. vm_compute. discriminate. Qed.

(* ... and the reader no longer sees what it sees alone *)
Theorem def_write_solo_refuted :
  exists (progs : list (list op)) (sched : list nat) (p : list op),
    nth_error progs 1 = Some p /\
    let c := run (fun u => u) sched (init true progs) in
    thread_done c 1 = true /\ thread_out c 1 <> solo_out (fun u => u) p [].
Proof.
  exists [[OGet 1; OWriteDef 1 7]; [OGet 1; ORead 1]], [0; 0; 0; 0; 0; 1; 1; 1; 1], [OGet 1; ORead 1].
  split. reflexivity. vm_compute. split. reflexivity. discriminate.
Qed.

(* the hypotheses of the main theorems are satisfiable, and schedules really interleave inside a look-up *)
Example disciplined_programs_exist :
  Forall (Forall disciplined) [[OGet 1; ORead 1; OGet 2]; [OGet 2; OGet 1; ORead 1; ORead 2]]
  /\ let c := run (fun u => u + 100) (List.concat (repeat [0; 1; 1] 12))
                  (init true [[OGet 1; ORead 1; OGet 2]; [OGet 2; OGet 1; ORead 1; ORead 2]]) in
     thread_done c 0 = true /\ thread_done c 1 = true /\ thread_out c 0 = [101] /\ thread_out c 1 = [101; 102]
     /\ map ev_tid (g_hist c) = [1; 1; 1; 0; 1; 1; 0; 1; 0; 0; 0].
Proof.
  split. repeat constructor. vm_compute. repeat split; reflexivity.
Qed.

(* ================================================================================================ *)
(** * From the extracted discipline to the theorems *)

Lemma allowed_disciplined : forall d o, discipline_ok d = true -> op_allowed d o = true -> disciplined o.
Proof.
  intros d o Hd Ho. unfold discipline_ok in Hd. apply andb_true_iff in Hd. destruct Hd as [Hd Hw].
  apply andb_true_iff in Hd. destruct Hd as [_ Hl].
  destruct o; simpl in *; try exact I.
  - destruct (d_shared_lazy d); discriminate.
  - destruct (d_def_writes d); discriminate.
Qed.

Theorem race_free_for_discipline : forall d load progs sched,
  discipline_ok d = true ->
  forallb (forallb (op_allowed d)) progs = true ->
  g_races (run load sched (init (d_locked d) progs)) = [].
Proof.
  intros d load progs sched Hd Hp.
  assert (Hl : d_locked d = true).
  { unfold discipline_ok in Hd. apply andb_true_iff in Hd. destruct Hd as [Hd _]. apply andb_true_iff in Hd. apply Hd. }
  rewrite Hl. apply race_free. rewrite forallb_forall in Hp. apply Forall_forall. intros p Hin. apply Forall_forall. intros o Ho.
  specialize (Hp p Hin). rewrite forallb_forall in Hp. apply (allowed_disciplined d o Hd). apply Hp. exact Ho.
Qed.

Theorem solo_equiv_for_discipline : forall d load progs sched t p,
  discipline_ok d = true ->
  forallb (forallb (op_allowed d)) progs = true -> nth_error progs t = Some p ->
  let c := run load sched (init (d_locked d) progs) in
  (exists rest, solo_out load p [] = thread_out c t ++ rest) /\
  (thread_done c t = true -> thread_out c t = solo_out load p []).
Proof.
  intros d load progs sched t p Hd Hp Hn.
  assert (Hl : d_locked d = true).
  { unfold discipline_ok in Hd. apply andb_true_iff in Hd. destruct Hd as [Hd0 _]. apply andb_true_iff in Hd0. apply Hd0. }
  rewrite Hl. apply solo_equiv. 2: exact Hn.
  rewrite forallb_forall in Hp. apply Forall_forall. intros q Hin. apply Forall_forall. intros o Ho.
  specialize (Hp q Hin). rewrite forallb_forall in Hp. apply (allowed_disciplined d o Hd). apply Hp. exact Ho.
Qed.
