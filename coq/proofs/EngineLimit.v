(* EngineLimit.v — C05, "hitting the limit ends the session as failed with a failure event rather than hanging
   or returning a Go error", end to end:
   (1) the iteration in which the step counter crosses the limit fails the current run and logs, as the last
       event of the sprint, a failure event of the step-limit kind on that run;
   (2) no other part of the engine logs a failure event of that kind, so a sprint whose events contain one is a
       sprint in which the limit was crossed;
   (3) such a sprint ends with a FAILED session (and not with a Go error or a panic). *)

From Coq Require Import List NArith ZArith Bool Lia.
From Verif Require Import model.Lang model.Engine proofs.EngineProofs proofs.EngineInv proofs.EngineFuel proofs.EngineSteps.
Import ListNotations.
Open Scope N_scope.

Definition is_limit (k : ekind) : bool := match k with EFailure FStepLimit => true | _ => false end.

Definition has_limit_event (evs : list (option nat * event)) : bool := existsb (fun oe => is_limit (ev_kind (snd oe))) evs.

(* [nl x x']: the sprint of x' is the sprint of x followed by events none of which is a step-limit failure *)
Definition nl (x x' : st) : Prop :=
  exists new, sp_events (sprint_ x') = sp_events (sprint_ x) ++ new /\ has_limit_event new = false.

Lemma has_limit_app : forall e1 e2, has_limit_event (e1 ++ e2) = has_limit_event e1 || has_limit_event e2.
Proof. intros. unfold has_limit_event. apply existsb_app. Qed.

Lemma nl_refl : forall x, nl x x.
Proof. intros. exists []. rewrite app_nil_r. auto. Qed.

Lemma nl_trans : forall x y z, nl x y -> nl y z -> nl x z.
Proof.
  intros x y z (n1 & S1 & F1) (n2 & S2 & F2). exists (n1 ++ n2). split; [rewrite S2, S1, app_assoc; reflexivity|].
  rewrite has_limit_app, F1, F2. reflexivity.
Qed.

Lemma nl_with_session : forall x f, nl x (with_session x f).
Proof. intros. exists []. simpl. rewrite app_nil_r. auto. Qed.

Lemma nl_log_segment : forall x g, nl x (log_segment x g).
Proof. intros. exists []. simpl. rewrite app_nil_r. auto. Qed.

Lemma nl_log_event : forall x ri sr k, is_limit k = false -> nl x (log_event x ri sr k).
Proof. intros. exists [(Some ri, {| ev_step := sr; ev_kind := k |})]. split; [reflexivity|]. simpl. rewrite H. reflexivity. Qed.

Lemma nl_fail_run : forall x ri sr c, c <> FStepLimit -> nl x (fail_run x ri sr c).
Proof.
  intros. unfold fail_run. eapply nl_trans; [apply nl_with_session|]. apply nl_log_event. destruct c; auto. contradiction.
Qed.

Lemma unusable_code_not_limit : forall a s ri m, m <> FStepLimit -> unusable_code a s ri m <> FStepLimit.
Proof.
  intros a s ri m H. unfold unusable_code.
  destruct (get_run s ri) as [rn|]; [destruct (get_flow a (r_flow rn))|]; auto; discriminate.
Qed.

Ltac nl_chain :=
  repeat first
    [ apply nl_refl
    | eapply nl_trans; [|apply nl_log_event; reflexivity]
    | eapply nl_trans; [|apply nl_fail_run; first [discriminate | apply unusable_code_not_limit; discriminate]]
    | eapply nl_trans; [|apply nl_with_session]
    | eapply nl_trans; [|apply nl_log_segment] ].

Lemma save_and_log_nl : forall a x ri sr name value cat nid input x' v,
  save_and_log a x ri sr name value cat nid input = Done x' v -> nl x x'.
Proof.
  intros a x ri sr name value cat nid input x' v. unfold save_and_log.
  destruct (trunc value _); [|discriminate]. destruct (trunc_ellipsis input _) as [kept|]; [|discriminate]. destruct (get_run (session_ x) ri).
  - destruct (save_result _ _) as [rs ch]. intros H; inversion H; subst. destruct ch; nl_chain.
  - intros H; inversion H; subst. apply nl_refl.
Qed.

Lemma route_to_category_nl : forall a x ri sr n rt cat m op x' v,
  route_to_category a x ri sr n rt cat m op = Done x' v -> nl x x'.
Proof.
  intros a x ri sr n rt cat m op x' v. unfold route_to_category.
  destruct cat; [|intros H; inversion H; apply nl_refl].
  destruct (nth_error _ _); [|discriminate].
  destruct (rt_result rt); [|intros H; inversion H; apply nl_refl].
  destruct (save_and_log _ _ _ _ _ _ _ _ _) eqn:E; try discriminate.
  intros H; inversion H; subst. eapply save_and_log_nl; eauto.
Qed.

Lemma pick_node_exit_nl : forall a x ri n pos it tmo x' v, pick_node_exit a x ri n pos it tmo = Done x' v -> nl x x'.
Proof.
  intros a x ri n pos it tmo x' v. unfold pick_node_exit.
  destruct (n_router n) as [rt|].
  - destruct it.
    + unfold route_timeout. destruct (rt_wait rt) as [[wt [[? ci]|]]|]; try discriminate.
      destruct (route_to_category a x ri (Some (ri, pos)) n rt (Some ci) tmo []) as [y w| |] eqn:E; try discriminate.
      pose proof (route_to_category_nl _ _ _ _ _ _ _ _ _ _ _ E) as Hy.
      destruct w; intros H; inversion H; subst; (eapply nl_trans; [exact Hy|]); nl_chain.
    + unfold route.
      match goal with |- context [route_to_category ?A ?X ?R ?S ?N ?RT ?C ?M ?O] =>
        destruct (route_to_category A X R S N RT C M O) as [y w| |] eqn:E end; try discriminate.
      pose proof (route_to_category_nl _ _ _ _ _ _ _ _ _ _ _ E) as Hy.
      destruct w; intros H; inversion H; subst; (eapply nl_trans; [exact Hy|]); nl_chain.
  - destruct (n_exits n); intros H; inversion H; subst; nl_chain.
Qed.

Lemma find_resume_exit_nl : forall a x ri it tmo,
  match find_resume_exit a x ri it tmo with
  | FreOk x' _ _ => nl x x'
  | FreErr x' => x' = x
  | _ => True
  end.
Proof.
  intros. unfold find_resume_exit. destruct (run_status (session_ x) ri) as [[]|]; try apply nl_refl.
  destruct (path_location a (session_ x) ri) as [[pos n]|]; auto.
  destruct (pick_node_exit a x ri n pos it tmo) as [x' [e op]|x'|] eqn:E; auto.
  - eapply pick_node_exit_nl; eauto.
  - eapply pick_node_exit_goerr; eauto.
Qed.

Lemma exec_actions_nl : forall a acts x ri pos n x' b, exec_actions a x ri pos n acts = Done x' b -> nl x x'.
Proof.
  induction acts as [|act acts IH]; intros x ri pos n x' b; simpl.
  - intros H; inversion H; apply nl_refl.
  - destruct (exec_action a x ri pos n act) as [y v| |] eqn:E; try discriminate.
    assert (Hy : nl x y).
    { revert E. unfold exec_action. destruct act.
      - destruct (trunc_ellipsis _ _); [|discriminate]. intros H; inversion H; subst. nl_chain.
      - destruct (trunc_ellipsis _ _); [|discriminate]. apply save_and_log_nl.
      - destruct (get_flow a flow); [destruct (negb _)|]; intros H; inversion H; subst; nl_chain. }
    destruct (run_status (session_ y) ri) as [[]|]; try (intros H; eapply nl_trans; [exact Hy|eapply IH; exact H]).
    intros H; inversion H; subst. eapply nl_trans; [exact Hy|apply nl_with_session].
Qed.

Lemma visit_node_nl : forall a x ri n wt x' v, visit_node a x ri n wt = Done x' v -> nl x x'.
Proof.
  intros a x ri n wt x' v. unfold visit_node.
  destruct (get_run (session_ x) ri) as [r0|] eqn:Er; [|discriminate].
  set (x1 := with_session x (fun s => upd_run s ri (run_add_step {| st_node := n_id n; st_exit := None |}))).
  match goal with |- context [exec_actions a ?X ri ?P n ?A] => set (x2 := X) end.
  assert (H2 : nl x x2).
  { unfold x2. destruct wt; [destruct (s_trigger (session_ x1))|]; unfold x1; nl_chain. }
  destruct (exec_actions a x2 ri (length (r_path r0)) n (n_actions n)) as [x3 b| |] eqn:Ea; try discriminate.
  pose proof (nl_trans _ _ _ H2 (exec_actions_nl _ _ _ _ _ _ _ _ Ea)) as H3.
  destruct b; [intros H; inversion H; subst; exact H3|].
  destruct (s_pushed (session_ x3)); [intros H; inversion H; subst; exact H3|].
  match goal with |- context [match ?bw with Some _ => _ | None => match pick_node_exit ?A ?X ?R ?N ?P ?I ?T with _ => _ end end] =>
    destruct bw as [x4|] eqn:Ebw end.
  - intros H; inversion H; subst. eapply nl_trans; [exact H3|].
    assert (H4 : nl x3 x4).
    { destruct (n_router n) as [rt|]; [|discriminate]. destruct (rt_wait rt) as [[[] tmo]|]; try discriminate; try (dmatch_hyp Ebw; [discriminate|]); inversion Ebw; subst.
      all: (apply nl_log_event; reflexivity). }
    eapply nl_trans; [exact H4|apply nl_with_session].
  - destruct (pick_node_exit a x3 ri n (length (r_path r0)) false []) as [x5 [e5 op5]| |] eqn:Epk; try discriminate.
    intros H; inversion H; subst. eapply nl_trans; [exact H3|eapply pick_node_exit_nl; eauto].
Qed.

(* ---- the phases ------------------------------------------------------------------------------------------------ *)

Lemma pick_dest_nl : forall a x l x1 l1 dest, pick_dest a x l = (x1, l1, dest) -> nl x x1.
Proof.
  intros a x l x1 l1 dest. unfold pick_dest.
  destruct (s_pushed (session_ x)) as [p|].
  - intros H; inversion H; subst; clear H. destruct (p_terminal p); nl_chain.
  - destruct (l_exit l) as [e|]; [|intros H; inversion H; apply nl_refl].
    repeat dmatch; intros H; inversion H; subst; nl_chain.
Qed.

(* the iteration that crosses the limit: the current run is failed with a step-limit failure event (naming the
   step the loop was on), nothing else happens; an iteration that stays within the limit logs no such event *)
Lemma goto_node_limit : forall a x l c d x' l',
  goto_node a x l c d = ICont x' l' ->
  ((max_steps (a_opts a) < l_steps l + 1)%Z /\ x' = fail_run x c (l_step l) FStepLimit /\ l_step l' = l_step l /\ l_cur l' = l_cur l) \/
  ((l_steps l + 1 <= max_steps (a_opts a))%Z /\ nl x x').
Proof.
  intros a x l c d x' l'. unfold goto_node. cbv zeta. cbn [l_trigger l_steps l_cur l_exit l_step l_node l_operand].
  destruct (l_steps l + 1 >? max_steps (a_opts a))%Z eqn:E.
  - intros H; inversion H; subst. left. repeat split; auto. lia.
  - repeat dmatch; try discriminate. intros H; inversion H; subst. right. split; [lia|]. eapply visit_node_nl; eauto.
Qed.

Lemma goto_node_stop_nl : forall a x l c d x', goto_node a x l c d = IStop (ROk x') -> nl x x'.
Proof.
  intros a x l c d x'. unfold goto_node. cbv zeta. cbn [l_trigger l_steps l_cur l_exit l_step l_node l_operand].
  destruct (l_steps l + 1 >? max_steps (a_opts a))%Z; [discriminate|].
  repeat dmatch; try discriminate. intros H; inversion H; subst. eapply visit_node_nl; eauto.
Qed.

Definition iter_nl (x : st) (r : iter) : Prop :=
  match r with ICont x' _ => nl x x' | IStop (ROk x') => nl x x' | _ => True end.

Lemma finish_run_nl : forall a x l c r, finish_run a x l c = r -> iter_nl x r.
Proof.
  intros a x l c r. unfold finish_run.
  destruct (get_run (session_ x) c) as [r0|] eqn:Er0; [destruct (r_exited r0) eqn:Ex0|];
  repeat (first
    [ match goal with
      | H : find_resume_exit ?a ?X ?pi ?b ?t = _ |- _ =>
          let K := fresh "K" in pose proof (find_resume_exit_nl a X pi b t) as K; rewrite H in K; clear H
      end
    | dmatch ]); intros <-; subst; unfold iter_nl; auto;
    try (eapply nl_trans; [|eassumption]); nl_chain.
Qed.

(* ---- one iteration ------------------------------------------------------------------------------------------------ *)

(* the events of the sprint since [x0]; the limit has been crossed iff one of them is a step-limit failure *)
Record limit_inv (a : assets) (t0 : nat) (x0 x : st) (l : lstate) : Prop := {
  lim_step : step_inv a t0 x l;
  lim_none : ~ hit a l -> nl x0 x
}.

Lemma cuw_iter_crossing : forall a x l x' l',
  term_inv a x l -> cuw_iter a x l = ICont x' l' -> ~ hit a l -> hit a l' ->
  exists c y, l_cur l' = Some c /\ nl x y /\ x' = fail_run y c (l_step l') FStepLimit /\
              sp_events (sprint_ x') = sp_events (sprint_ y) ++ [(Some c, {| ev_step := l_step l'; ev_kind := EFailure FStepLimit |})] /\
              st_at (shape (session_ x')) c = Some RFailed.
Proof.
  intros a x l x' l' T E Hn Hh.
  rewrite cuw_iter_phases in E.
  destruct (pick_dest a x l) as [[x1 l1] dest] eqn:Epd.
  destruct (pick_dest_inv _ _ _ _ _ _ (ti_loop _ _ _ T) Epd) as (c & M & _).
  destruct (pick_dest_locals _ _ _ _ _ _ T Epd) as (Hs1 & _ & _ & _).
  pose proof (pick_dest_nl _ _ _ _ _ _ Epd) as N1.
  rewrite (mi_cur _ _ _ _ M) in E. destruct dest as [d|].
  - destruct (goto_node_locals _ _ _ _ _ _ _ M E) as (Hc' & Hs' & _ & _).
    destruct (goto_node_limit _ _ _ _ _ _ _ E) as [(Hlim & -> & Hst & Hcur)|(Hle & _)].
    + exists c, x1. split; [exact Hc'|]. split; [exact N1|]. rewrite Hst. split; [reflexivity|]. split; [reflexivity|].
      rewrite shape_fail_run. apply st_at_fail_at_self. apply (mi_lt _ _ _ _ M).
    + exfalso. unfold hit in Hh. rewrite Hs' in Hh. lia.
  - destruct (finish_run_locals _ _ _ _ _ _ M E) as (Hs' & _). exfalso. apply Hn. unfold hit in *. rewrite Hs', Hs1 in Hh. exact Hh.
Qed.

Lemma cuw_iter_limit_inv : forall a t0 x0 x l,
  limit_inv a t0 x0 x l ->
  match cuw_iter a x l with
  | ICont x' l' => limit_inv a t0 x0 x' l'
  | IStop (ROk x') => ~ hit a l -> nl x0 x'
  | IStop _ => True
  end.
Proof.
  intros a t0 x0 x l [S Hnl].
  pose proof (cuw_iter_steps a t0 x l S) as K.
  destruct (cuw_iter a x l) as [r|x' l'] eqn:E.
  - destruct r as [x'| | |]; auto. intros Hn. eapply nl_trans; [apply Hnl; exact Hn|].
    rewrite cuw_iter_phases in E.
    destruct (pick_dest a x l) as [[x1 l1] dest] eqn:Epd.
    destruct (pick_dest_inv _ _ _ _ _ _ (ti_loop _ _ _ (si_term _ _ _ _ S)) Epd) as (c & M & _).
    pose proof (pick_dest_nl _ _ _ _ _ _ Epd) as N1. rewrite (mi_cur _ _ _ _ M) in E.
    eapply nl_trans; [exact N1|]. destruct dest as [d|].
    + eapply goto_node_stop_nl; eauto.
    + apply (finish_run_nl _ _ _ _ _ E).
  - constructor; [exact K|]. intros Hn'.
    assert (Hn : ~ hit a l).
    { intros C. apply Hn'. (* hit is never left *)
      pose proof (si_term _ _ _ _ S) as T. rewrite cuw_iter_phases in E.
      destruct (pick_dest a x l) as [[x1 l1] dest] eqn:Epd.
      destruct (pick_dest_inv _ _ _ _ _ _ (ti_loop _ _ _ T) Epd) as (c & M & _).
      destruct (pick_dest_locals _ _ _ _ _ _ T Epd) as (Hs1 & _ & Hdest & Hhit1).
      rewrite (mi_cur _ _ _ _ M) in E. destruct dest as [d|]; [exfalso; apply Hdest; [discriminate|exact C]|].
      destruct (finish_run_locals _ _ _ _ _ _ M E) as (Hs' & _). unfold hit in *. rewrite Hs', Hs1. exact C. }
    eapply nl_trans; [apply Hnl; exact Hn|].
    rewrite cuw_iter_phases in E.
    destruct (pick_dest a x l) as [[x1 l1] dest] eqn:Epd.
    destruct (pick_dest_inv _ _ _ _ _ _ (ti_loop _ _ _ (si_term _ _ _ _ S)) Epd) as (c & M & _).
    destruct (pick_dest_locals _ _ _ _ _ _ (si_term _ _ _ _ S) Epd) as (Hs1 & _ & _ & _).
    pose proof (pick_dest_nl _ _ _ _ _ _ Epd) as N1. rewrite (mi_cur _ _ _ _ M) in E.
    eapply nl_trans; [exact N1|]. destruct dest as [d|].
    + destruct (goto_node_locals _ _ _ _ _ _ _ M E) as (_ & Hs' & _ & _).
      destruct (goto_node_limit _ _ _ _ _ _ _ E) as [(Hlim & _)|(_ & N)]; [|exact N].
      exfalso. apply Hn'. unfold hit. rewrite Hs'. pose proof (ti_steps _ _ _ (si_term _ _ _ _ S)). rewrite Hs1 in *. lia.
    + apply (finish_run_nl _ _ _ _ _ E).
Qed.

(* ---- the loop: a step-limit failure event in the sprint means the session ended failed ------------------------- *)

Lemma cuw_nl_or_failed : forall a t0 fuel x l x',
  step_inv a t0 x l -> ~ hit a l -> continue_until_wait fuel a x l = ROk x' ->
  nl x x' \/ s_status (session_ x') = SFailed.
Proof.
  intros a t0 fuel x l x' S Hn Hr.
  pose proof (cuw_induct a (limit_inv a t0 x)
                (fun r => match r with ROk x2 => nl x x2 \/ s_status (session_ x2) = SFailed | _ => True end)) as P.
  specialize (P ltac:(intros x1 l1 x2 l2 H1 E; pose proof (cuw_iter_limit_inv a t0 x x1 l1 H1) as K; rewrite E in K; exact K)).
  specialize (P ltac:(intros x1 l1 r H1 E; pose proof (cuw_iter_limit_inv a t0 x x1 l1 H1) as K; rewrite E in K;
                      pose proof (cuw_iter_steps a t0 x1 l1 (lim_step _ _ _ _ _ H1)) as K2; rewrite E in K2;
                      destruct r as [x2| | |]; auto;
                      destruct (hitb a l1) eqn:Eh;
                      [right; apply K2; apply hitb_hit; exact Eh
                      |left; apply K; intros C; apply hitb_hit in C; congruence])).
  specialize (P I fuel x l ltac:(constructor; [exact S|intros _; apply nl_refl])). rewrite Hr in P. exact P.
Qed.

Lemma nl_from_empty : forall x x', sp_events (sprint_ x) = [] -> nl x x' -> has_limit_event (sp_events (sprint_ x')) = false.
Proof. intros x x' He (new & Hs & Hf). rewrite Hs, He. exact Hf. Qed.

(* for a resume the events before the loop (resume.Apply, findResumeExit) contain no step-limit failure either *)
Lemma apply_resume_nl : forall x wi sr r, nl x (apply_resume x wi sr r).
Proof. intros. destruct r; unfold apply_resume; cbv zeta; nl_chain. Qed.

Lemma fail_session_nl : forall x wi c, c <> FStepLimit -> nl x (fail_session x wi c).
Proof.
  intros x wi c H. unfold fail_session. apply (nl_trans _ (fail_run x wi None c)); [apply nl_fail_run; exact H|apply nl_with_session].
Qed.


Theorem start_limit_event_failed : forall a t f x',
  start a t f = ROk x' -> has_limit_event (sp_events (sprint_ x')) = true -> s_status (session_ x') = SFailed.
Proof.
  intros a t f x'. unfold start. destruct (get_flow a f) as [fl0|]; [|discriminate].
  intros H Hhas.
  destruct (cuw_nl_or_failed a _ _ _ _ _ (step_inv_init a _ _ (loop_inv_start t f (f_type fl0)) eq_refl)
              ltac:(intros [C _]; simpl in C; lia) H) as [N|F]; [|exact F].
  assert (K : has_limit_event (sp_events (sprint_ x')) = false) by (eapply nl_from_empty; [|exact N]; reflexivity).
  congruence.
Qed.

Theorem resume_limit_event_failed : forall a s r tmo x',
  post_inv s -> resume_session a s r tmo = Resumed (ROk x') ->
  has_limit_event (sp_events (sprint_ x')) = true -> s_status (session_ x') = SFailed.
Proof.
  intros a s r tmo x' Hpost H Hhas.
  destruct (resume_decompose _ _ _ _ _ Hpost H) as [(y & wi & c & E & _)|(x2 & l & E & HL & Hs & _ & _ & wi & pos & e & op & _ & _ & _ & Hfre & _)].
  - inversion E; subst. reflexivity.
  - pose proof (find_resume_exit_nl a (apply_resume (resume_x0 s) wi (Some (wi, pos)) r) wi (is_timeout r) tmo) as N2. rewrite Hfre in N2.
    pose proof (nl_trans _ _ _ (apply_resume_nl (resume_x0 s) wi (Some (wi, pos)) r) N2) as N02.
    symmetry in E.
    destruct (cuw_nl_or_failed a _ _ _ _ _ (step_inv_init a _ _ HL Hs) ltac:(intros [C _]; rewrite Hs in C; lia) E) as [N|F]; [|exact F].
    assert (K : has_limit_event (sp_events (sprint_ x')) = false) by (eapply nl_from_empty; [|exact (nl_trans _ _ _ N02 N)]; reflexivity).
    congruence.
Qed.

Theorem reachable_resume_limit_event_failed : forall a s r tmo x',
  reachable s -> resume_session a s r tmo = Resumed (ROk x') ->
  has_limit_event (sp_events (sprint_ x')) = true -> s_status (session_ x') = SFailed.
Proof. intros. eapply resume_limit_event_failed; eauto. apply reachable_post; assumption. Qed.

(* ---- and conversely: once crossed, the event stays in the sprint and the session ends failed -------------------- *)

Definition iter_app (x : st) (r : iter) : Prop :=
  match r with
  | ICont x' _ => exists m, sp_events (sprint_ x') = sp_events (sprint_ x) ++ m
  | IStop (ROk x') => exists m, sp_events (sprint_ x') = sp_events (sprint_ x) ++ m
  | _ => True
  end.

Lemma nl_app : forall x x', nl x x' -> exists m, sp_events (sprint_ x') = sp_events (sprint_ x) ++ m.
Proof. intros x x' (m & H & _). eauto. Qed.

Lemma cuw_iter_app : forall a x l, loop_inv x l -> iter_app x (cuw_iter a x l).
Proof.
  intros a x l HL. rewrite cuw_iter_phases.
  destruct (pick_dest a x l) as [[x1 l1] dest] eqn:Epd.
  destruct (pick_dest_inv _ _ _ _ _ _ HL Epd) as (c & M & _).
  destruct (nl_app _ _ (pick_dest_nl _ _ _ _ _ _ Epd)) as (m1 & H1).
  rewrite (mi_cur _ _ _ _ M).
  assert (K : forall r, iter_app x1 r -> iter_app x r).
  { intros [[]|] Hr; simpl in *; auto; destruct Hr as (m & Hm); exists (m1 ++ m); rewrite Hm, H1, app_assoc; reflexivity. }
  apply K. destruct dest as [d|].
  - destruct (goto_node a x1 l1 c d) as [[x'| | |]|x' l'] eqn:E; simpl; auto.
    + apply nl_app. eapply goto_node_stop_nl; eauto.
    + destruct (goto_node_limit _ _ _ _ _ _ _ E) as [(_ & -> & _)|(_ & N)]; [|apply nl_app; exact N].
      eexists. unfold fail_run, log_event; simpl. reflexivity.
  - pose proof (finish_run_nl a x1 l1 c _ eq_refl) as N. destruct (finish_run a x1 l1 c) as [[]|]; simpl in *; auto; apply nl_app; exact N.
Qed.

Lemma cuw_crossed_ends_failed : forall a t0 fuel x l,
  step_inv a t0 x l -> hit a l -> has_limit_event (sp_events (sprint_ x)) = true ->
  match continue_until_wait fuel a x l with
  | ROk x' => s_status (session_ x') = SFailed /\ has_limit_event (sp_events (sprint_ x')) = true
  | ROutOfFuel => True
  | _ => False
  end.
Proof.
  intros a t0 fuel x l S Hh Hev.
  pose proof (cuw_hit_ends_failed a t0 fuel x l S Hh) as K.
  destruct (continue_until_wait fuel a x l) as [x'| | |] eqn:E; auto. split; [exact K|].
  pose proof (cuw_induct a (fun x1 l1 => loop_inv x1 l1 /\ has_limit_event (sp_events (sprint_ x1)) = true)
                (fun r => match r with ROk x2 => has_limit_event (sp_events (sprint_ x2)) = true | _ => True end)) as P.
  specialize (P ltac:(intros x1 l1 x2 l2 [H1 H2] Ei; pose proof (cuw_iter_inv a x1 l1 H1) as K1; pose proof (cuw_iter_app a x1 l1 H1) as K2;
                      rewrite Ei in K1, K2; destruct K2 as (m & Hm); split; [exact K1|rewrite Hm, has_limit_app, H2; reflexivity])).
  specialize (P ltac:(intros x1 l1 r [H1 H2] Ei; pose proof (cuw_iter_app a x1 l1 H1) as K2; rewrite Ei in K2;
                      destruct r; auto; destruct K2 as (m & Hm); rewrite Hm, has_limit_app, H2; reflexivity)).
  specialize (P I fuel x l (conj (ti_loop _ _ _ (si_term _ _ _ _ S)) Hev)). rewrite E in P. exact P.
Qed.

(* ---- exactly one: a sprint contains at most one step-limit failure event ------------------------------------------ *)

Definition count_limit (evs : list (option nat * event)) : nat :=
  length (filter (fun oe => is_limit (ev_kind (snd oe))) evs).

Lemma count_limit_app : forall e1 e2, count_limit (e1 ++ e2) = (count_limit e1 + count_limit e2)%nat.
Proof. intros. unfold count_limit. rewrite filter_app, app_length. reflexivity. Qed.

Lemma count_limit_none : forall evs, has_limit_event evs = false -> count_limit evs = 0%nat.
Proof.
  induction evs as [|oe evs IH]; intros H; [reflexivity|].
  unfold has_limit_event in H. simpl in H. apply orb_false_iff in H. destruct H as [H1 H2].
  unfold count_limit. simpl. rewrite H1. apply IH. exact H2.
Qed.

Lemma count_limit_pos : forall evs, has_limit_event evs = true -> (1 <= count_limit evs)%nat.
Proof.
  induction evs as [|oe evs IH]; intros H; [discriminate|].
  unfold has_limit_event in H. simpl in H. unfold count_limit. simpl.
  destruct (is_limit (ev_kind (snd oe))); simpl; [lia|]. apply IH. exact H.
Qed.

Lemma nl_count : forall x x', nl x x' -> count_limit (sp_events (sprint_ x')) = count_limit (sp_events (sprint_ x)).
Proof. intros x x' (new & Hs & Hf). rewrite Hs, count_limit_app, (count_limit_none _ Hf). lia. Qed.

(* once the limit is hit no iteration logs another step-limit failure: there is no destination any more *)
Lemma hit_iter_nl : forall a t0 x l,
  step_inv a t0 x l -> hit a l ->
  match cuw_iter a x l with ICont x' _ => nl x x' | IStop (ROk x') => nl x x' | _ => True end.
Proof.
  intros a t0 x l S Hh. pose proof (si_term _ _ _ _ S) as T. rewrite cuw_iter_phases.
  destruct (pick_dest a x l) as [[x1 l1] dest] eqn:Epd.
  destruct (pick_dest_inv _ _ _ _ _ _ (ti_loop _ _ _ T) Epd) as (c & M & _).
  destruct (pick_dest_locals _ _ _ _ _ _ T Epd) as (_ & _ & Hdest & _).
  pose proof (pick_dest_nl _ _ _ _ _ _ Epd) as N1. rewrite (mi_cur _ _ _ _ M).
  destruct dest as [d|]; [exfalso; apply Hdest; [discriminate|exact Hh]|].
  pose proof (finish_run_nl a x1 l1 c _ eq_refl) as N.
  destruct (finish_run a x1 l1 c) as [[y| | |]|y l']; simpl in *; auto; eapply nl_trans; eauto.
Qed.

Lemma cuw_limit_once : forall a t0 fuel x l x',
  step_inv a t0 x l -> ~ hit a l -> continue_until_wait fuel a x l = ROk x' ->
  (count_limit (sp_events (sprint_ x')) <= count_limit (sp_events (sprint_ x)) + 1)%nat.
Proof.
  intros a t0 fuel x l x' S Hn Hr.
  set (c0 := count_limit (sp_events (sprint_ x))).
  pose proof (cuw_induct a (fun x1 l1 => limit_inv a t0 x x1 l1 /\ (hit a l1 -> (count_limit (sp_events (sprint_ x1)) <= c0 + 1)%nat))
                (fun r => match r with ROk x2 => (count_limit (sp_events (sprint_ x2)) <= c0 + 1)%nat | _ => True end)) as P.
  assert (Hstep : forall x1 l1 x2 l2,
            limit_inv a t0 x x1 l1 /\ (hit a l1 -> (count_limit (sp_events (sprint_ x1)) <= c0 + 1)%nat) ->
            cuw_iter a x1 l1 = ICont x2 l2 ->
            limit_inv a t0 x x2 l2 /\ (hit a l2 -> (count_limit (sp_events (sprint_ x2)) <= c0 + 1)%nat)).
  { intros x1 l1 x2 l2 [H1 H2] E.
    pose proof (cuw_iter_limit_inv a t0 x x1 l1 H1) as K. rewrite E in K. split; [exact K|].
    intros Hh2. destruct H1 as [S1 Hnl1].
    destruct (hitb a l1) eqn:Eh.
    - apply hitb_hit in Eh. pose proof (hit_iter_nl a t0 x1 l1 S1 Eh) as N. rewrite E in N.
      rewrite (nl_count _ _ N). apply H2. exact Eh.
    - assert (Hn1 : ~ hit a l1) by (intros C; apply hitb_hit in C; congruence).
      destruct (cuw_iter_crossing a x1 l1 x2 l2 (si_term _ _ _ _ S1) E Hn1 Hh2) as (c & y & _ & Ny & _ & Hev & _).
      rewrite Hev, count_limit_app, (nl_count _ _ Ny), (nl_count _ _ (Hnl1 Hn1)). unfold count_limit at 2. simpl. fold c0. lia. }
  specialize (P Hstep).
  assert (Hstop : forall x1 l1 r,
            limit_inv a t0 x x1 l1 /\ (hit a l1 -> (count_limit (sp_events (sprint_ x1)) <= c0 + 1)%nat) ->
            cuw_iter a x1 l1 = IStop r ->
            match r with ROk x2 => (count_limit (sp_events (sprint_ x2)) <= c0 + 1)%nat | _ => True end).
  { intros x1 l1 r [H1 H2] E. destruct r as [x2| | |]; auto.
    pose proof (cuw_iter_limit_inv a t0 x x1 l1 H1) as K. rewrite E in K. destruct H1 as [S1 Hnl1].
    destruct (hitb a l1) eqn:Eh.
    - apply hitb_hit in Eh. pose proof (hit_iter_nl a t0 x1 l1 S1 Eh) as N. rewrite E in N.
      rewrite (nl_count _ _ N). apply H2. exact Eh.
    - assert (Hn1 : ~ hit a l1) by (intros C; apply hitb_hit in C; congruence).
      rewrite (nl_count _ _ (K Hn1)). fold c0. lia. }
  specialize (P Hstop).
  specialize (P I fuel x l). 
  assert (H0 : limit_inv a t0 x x l /\ (hit a l -> (count_limit (sp_events (sprint_ x)) <= c0 + 1)%nat)).
  { split; [constructor; [exact S|intros _; apply nl_refl]|]. intros _. fold c0. lia. }
  specialize (P H0). rewrite Hr in P. exact P.
Qed.

Theorem start_limit_once : forall a t f x',
  start a t f = ROk x' -> (count_limit (sp_events (sprint_ x')) <= 1)%nat.
Proof.
  intros a t f x'. unfold start. destruct (get_flow a f) as [fl0|]; [|discriminate]. intros H.
  exact (cuw_limit_once a _ _ _ _ _ (step_inv_init a _ _ (loop_inv_start t f (f_type fl0)) eq_refl)
           ltac:(intros [C _]; simpl in C; lia) H).
Qed.

Theorem resume_limit_once : forall a s r tmo x',
  post_inv s -> resume_session a s r tmo = Resumed (ROk x') -> (count_limit (sp_events (sprint_ x')) <= 1)%nat.
Proof.
  intros a s r tmo x' Hpost H.
  destruct (resume_decompose _ _ _ _ _ Hpost H) as [(y & wi & c & E & _ & _ & _ & _ & Hy)|(x2 & l & E & HL & Hs & _ & _ & wi & pos & e & op & _ & _ & _ & Hfre & _)].
  - inversion E; subst.
    assert (N : nl {| session_ := s; sprint_ := empty_sprint |} y).
    { destruct Hy as [->|(pos & n & _ & ->)]; [apply nl_refl|].
      eapply nl_trans; [|apply apply_resume_nl]. apply (nl_with_session {| session_ := s; sprint_ := empty_sprint |}). }
    assert (F : (count_limit (sp_events (sprint_ (fail_session y wi c))) <= count_limit (sp_events (sprint_ y)) + 1)%nat).
    { unfold fail_session, fail_run, log_event. simpl. rewrite count_limit_app. unfold count_limit at 2. simpl.
      destruct c; simpl; lia. }
    rewrite (nl_count _ _ N) in F. eapply Nat.le_trans; [exact F|]. unfold count_limit. simpl. lia.
  - pose proof (find_resume_exit_nl a (apply_resume (resume_x0 s) wi (Some (wi, pos)) r) wi (is_timeout r) tmo) as N2. rewrite Hfre in N2.
    pose proof (nl_trans _ _ _ (apply_resume_nl (resume_x0 s) wi (Some (wi, pos)) r) N2) as N02.
    symmetry in E.
    pose proof (cuw_limit_once a _ _ _ _ _ (step_inv_init a _ _ HL Hs) ltac:(intros [C _]; rewrite Hs in C; lia) E) as K.
    rewrite (nl_count _ _ N02) in K. exact K.
Qed.

(* hitting the limit, without reference to any wording: if the sprint of a call that returned contains a step-limit
   failure then the session is failed and the sprint contains exactly one such event *)
Theorem start_limit_exactly_once : forall a t f x',
  start a t f = ROk x' -> has_limit_event (sp_events (sprint_ x')) = true ->
  s_status (session_ x') = SFailed /\ count_limit (sp_events (sprint_ x')) = 1%nat.
Proof.
  intros a t f x' H Hh. split; [eapply start_limit_event_failed; eauto|].
  pose proof (start_limit_once _ _ _ _ H). pose proof (count_limit_pos _ Hh). lia.
Qed.

Theorem resume_limit_exactly_once : forall a s r tmo x',
  post_inv s -> resume_session a s r tmo = Resumed (ROk x') -> has_limit_event (sp_events (sprint_ x')) = true ->
  s_status (session_ x') = SFailed /\ count_limit (sp_events (sprint_ x')) = 1%nat.
Proof.
  intros a s r tmo x' Hp H Hh. split; [eapply resume_limit_event_failed; eauto|].
  pose proof (resume_limit_once _ _ _ _ _ Hp H). pose proof (count_limit_pos _ Hh). lia.
Qed.
