(* DateTextProofs.v — lemmas about model/DateText.v (C13, datetimes / dates / times).

   Specification (from the property sentence): every datetime, date and time renders - in ISO form and in each
   environment date/time format - to text that parses back to the same value at the rendered precision.

   Part 1  digit characters and zero-padded numbers
   Part 2  broken-down fields of an instant are a valid date and clock time, and wall_of inverts them
   Part 3  ISO datetimes: datetime_from_string (iso t) = t truncated to microseconds (+ the seconds of the zone
           offset, which the text cannot carry) *)
From Coq Require Import ZArith NArith List Bool Lia.
From Verif Require Import lib.Dec model.NumText model.Civil model.DateText proofs.NumTextProofs proofs.CivilProofs.
Import ListNotations.
Open Scope Z_scope.

(* ------------------------------------------------------------------------------------------------ *)
(* Part 1: digit characters *)

Definition dig (c : N) : Prop := is_digit c = true.

Lemma dch_dig : forall k, 0 <= k <= 9 -> dig (dch k).
Proof.
  intros k H. unfold dig, dch, is_digit. apply andb_true_intro. split; apply N.leb_le; lia.
Qed.

Lemma dval_dch : forall k, 0 <= k <= 9 -> dval (dch k) = k.
Proof. intros k H. unfold dval, dch. lia. Qed.

Lemma dig_range : forall c, dig c -> 0 <= dval c <= 9.
Proof.
  intros c H. unfold dig, is_digit in H. apply andb_true_iff in H. destruct H as [H1 H2].
  apply N.leb_le in H1, H2. unfold dval. lia.
Qed.

Lemma atoi_nil : atoi [] = 0.
Proof. reflexivity. Qed.

Lemma atoi_snoc : forall s c, dig c -> atoi (s ++ [c]) = 10 * atoi s + dval c.
Proof.
  intros s c H. unfold atoi. rewrite undigits_snoc. pose proof (dig_range c H) as R. unfold dval in *. lia.
Qed.

Lemma atoi_1 : forall a, dig a -> atoi [a] = dval a.
Proof. intros a H. change [a] with ([] ++ [a]). rewrite atoi_snoc by assumption. rewrite atoi_nil. lia. Qed.

Lemma atoi_2 : forall a b, dig a -> dig b -> atoi [a; b] = dval a * 10 + dval b.
Proof. intros a b Ha Hb. change [a; b] with ([a] ++ [b]). rewrite atoi_snoc, atoi_1 by assumption. lia. Qed.

Lemma atoi_4 : forall a b c d, dig a -> dig b -> dig c -> dig d ->
  atoi [a; b; c; d] = ((dval a * 10 + dval b) * 10 + dval c) * 10 + dval d.
Proof.
  intros a b c d Ha Hb Hc Hd. change [a; b; c; d] with (([a; b] ++ [c]) ++ [d]).
  rewrite !atoi_snoc, atoi_2 by assumption. lia.
Qed.

(* a zero-padded two-digit number is two digit characters with that value *)
Lemma pad2_spec : forall n, 0 <= n < 100 ->
  exists a b, pad2 n = [a; b] /\ dig a /\ dig b /\ dval a * 10 + dval b = n.
Proof.
  intros n H. exists (dch (n / 10)), (dch (n mod 10)).
  assert (0 <= n / 10 <= 9) by (Z.to_euclidean_division_equations; lia).
  assert (0 <= n mod 10 <= 9) by (Z.to_euclidean_division_equations; lia).
  repeat split; try (apply dch_dig; assumption).
  rewrite !dval_dch by assumption. Z.to_euclidean_division_equations; lia.
Qed.

Lemma pad4_spec : forall n, 0 <= n <= 9999 ->
  exists a b c d, pad4 n = [a; b; c; d] /\ dig a /\ dig b /\ dig c /\ dig d
                  /\ ((dval a * 10 + dval b) * 10 + dval c) * 10 + dval d = n.
Proof.
  intros n H. exists (dch (n / 1000)), (dch (n / 100 mod 10)), (dch (n / 10 mod 10)), (dch (n mod 10)).
  assert (0 <= n / 1000 <= 9) by (Z.to_euclidean_division_equations; lia).
  assert (0 <= n / 100 mod 10 <= 9) by (Z.to_euclidean_division_equations; lia).
  assert (0 <= n / 10 mod 10 <= 9) by (Z.to_euclidean_division_equations; lia).
  assert (0 <= n mod 10 <= 9) by (Z.to_euclidean_division_equations; lia).
  repeat split; try (apply dch_dig; assumption).
  rewrite !dval_dch by assumption. Z.to_euclidean_division_equations; lia.
Qed.

Lemma pad6_spec : forall n, 0 <= n <= 999999 ->
  exists a b c d e f, pad6 n = [a; b; c; d; e; f] /\ dig a /\ dig b /\ dig c /\ dig d /\ dig e /\ dig f
                      /\ atoi [a; b; c; d; e; f] = n.
Proof.
  intros n H.
  exists (dch (n / 100000)), (dch (n / 10000 mod 10)), (dch (n / 1000 mod 10)), (dch (n / 100 mod 10)),
         (dch (n / 10 mod 10)), (dch (n mod 10)).
  assert (R1 : 0 <= n / 100000 <= 9) by (Z.to_euclidean_division_equations; lia).
  assert (R2 : 0 <= n / 10000 mod 10 <= 9) by (Z.to_euclidean_division_equations; lia).
  assert (R3 : 0 <= n / 1000 mod 10 <= 9) by (Z.to_euclidean_division_equations; lia).
  assert (R4 : 0 <= n / 100 mod 10 <= 9) by (Z.to_euclidean_division_equations; lia).
  assert (R5 : 0 <= n / 10 mod 10 <= 9) by (Z.to_euclidean_division_equations; lia).
  assert (R6 : 0 <= n mod 10 <= 9) by (Z.to_euclidean_division_equations; lia).
  pose proof (dch_dig _ R1) as D1. pose proof (dch_dig _ R2) as D2. pose proof (dch_dig _ R3) as D3.
  pose proof (dch_dig _ R4) as D4. pose proof (dch_dig _ R5) as D5. pose proof (dch_dig _ R6) as D6.
  repeat split; try assumption.
  set (a := dch (n / 100000)) in *. set (b := dch (n / 10000 mod 10)) in *. set (c := dch (n / 1000 mod 10)) in *.
  set (d := dch (n / 100 mod 10)) in *. set (e := dch (n / 10 mod 10)) in *. set (f := dch (n mod 10)) in *.
  change [a; b; c; d; e; f] with (([a; b; c; d] ++ [e]) ++ [f]).
  rewrite !atoi_snoc, atoi_4 by assumption. unfold a, b, c, d, e, f.
  rewrite !dval_dch by assumption. Z.to_euclidean_division_equations; lia.
Qed.

(* the parsing primitives on digit characters *)
Lemma getnum_2 : forall fixed a b r, dig a -> dig b -> getnum fixed (a :: b :: r) = Some (dval a * 10 + dval b, r).
Proof. intros fixed a b r Ha Hb. unfold getnum. rewrite Ha, Hb. reflexivity. Qed.

Lemma get_year4_4 : forall a b c d r, dig a -> dig b -> dig c -> dig d ->
  get_year4 (a :: b :: c :: d :: r) = Some (((dval a * 10 + dval b) * 10 + dval c) * 10 + dval d, r).
Proof. intros a b c d r Ha Hb Hc Hd. unfold get_year4. rewrite Ha, Hb, Hc, Hd. reflexivity. Qed.

Lemma get_year4_dash3 : forall a b d r, get_year4 (a :: b :: 45%N :: d :: r) = None.
Proof. intros a b d r. unfold get_year4. change (is_digit 45) with false. destruct (is_digit a), (is_digit b); reflexivity. Qed.

Lemma dig_not_trim : forall c, dig c -> is_trimc c = false.
Proof.
  intros c H. unfold dig, is_digit in H. apply andb_true_iff in H. destruct H as [H1 H2]. apply N.leb_le in H1, H2.
  unfold is_trimc. repeat (apply orb_false_iff; split); apply N.eqb_neq; lia.
Qed.

Lemma expect_same : forall c r, expect c (c :: r) = Some r.
Proof. intros c r. unfold expect. rewrite N.eqb_refl. reflexivity. Qed.

Ltac sb := repeat (rewrite ?expect_same; cbn [bind]).

(* trimming a text that neither begins nor ends with a trimmed character *)
Lemma trim_with_ends : forall p c s c', p c = false -> p c' = false -> trim_with p (c :: s ++ [c']) = c :: s ++ [c'].
Proof.
  intros p c s c' H H'. unfold trim_with. rewrite drop_while_stop by exact H.
  assert (E : rev (c :: s ++ [c']) = c' :: rev (c :: s)).
  { change (c :: s ++ [c']) with ((c :: s) ++ [c']). rewrite rev_app_distr. reflexivity. }
  rewrite E, drop_while_stop by exact H'. rewrite <- E. apply rev_involutive.
Qed.

(* ------------------------------------------------------------------------------------------------ *)
(* Part 2: broken-down fields *)

Definition valid_clock (h mi s : Z) : Prop := 0 <= h <= 23 /\ 0 <= mi <= 59 /\ 0 <= s <= 59.

Definition valid_fields (f : fields) : Prop :=
  valid_date (f_year f) (f_month f) (f_day f) = true /\ valid_clock (f_hour f) (f_min f) (f_sec f)
  /\ 0 <= f_ns f < giga.

Lemma valid_date_ranges : forall y m d, valid_date y m d = true -> 1 <= m <= 12 /\ 1 <= d <= 31 /\ day_ok y m d = true.
Proof.
  intros y m d V. unfold valid_date in V.
  repeat (apply andb_true_iff in V; destruct V as [V ?]).
  repeat match goal with H : (_ <=? _) = true |- _ => apply Z.leb_le in H end.
  assert (days_in_month y m <= 31).
  { unfold days_in_month. repeat match goal with |- context [if ?c then _ else _] => destruct c end; lia. }
  repeat split; try lia. unfold day_ok. apply andb_true_intro. split; apply Z.leb_le; lia.
Qed.

Lemma fields_of_wall_spec : forall w ns, 0 <= ns < giga ->
  let f := fields_of_wall w ns in
  valid_fields f /\ wall_of (f_year f) (f_month f) (f_day f) (f_hour f) (f_min f) (f_sec f) = w /\ f_ns f = ns.
Proof.
  intros w ns Hns. unfold fields_of_wall.
  pose proof (days_from_civil_from_days (w / 86400)) as C.
  destruct (civil_from_days (w / 86400)) as [[y m] d]. destruct C as [C1 C2].
  cbv zeta. cbn [f_year f_month f_day f_hour f_min f_sec f_ns]. unfold valid_fields, valid_clock, wall_of.
  cbn [f_year f_month f_day f_hour f_min f_sec f_ns]. rewrite C1.
  repeat split; try assumption; try lia; Z.to_euclidean_division_equations; lia.
Qed.

Lemma fields_of_spec : forall offset t,
  let f := fields_of offset t in
  valid_fields f /\ wall_of (f_year f) (f_month f) (f_day f) (f_hour f) (f_min f) (f_sec f) = wall offset t
  /\ f_ns f = t mod giga.
Proof.
  intros offset t. unfold fields_of. apply fields_of_wall_spec. unfold giga. Z.to_euclidean_division_equations; lia.
Qed.

(* ------------------------------------------------------------------------------------------------ *)
(* Part 3: ISO datetimes *)

Lemma zone_text_parse : forall off, -86400 < off < 86400 ->
  get_zone (zone_text off) = Some (60 * Z.quot off 60, [])
  /\ (exists c r, zone_text off = c :: r /\ is_digit c = false)
  /\ (exists r c, zone_text off = r ++ [c] /\ is_trimc c = false).
Proof.
  intros off H. unfold zone_text. destruct (off =? 0) eqn:E0.
  - apply Z.eqb_eq in E0. subst. repeat split.
    + exists 90%N, []. split; reflexivity.
    + exists [], 90%N. split; reflexivity.
  - apply Z.eqb_neq in E0. set (zone := Z.quot off 60).
    assert (Hz : -1440 < zone < 1440) by (unfold zone; Z.to_euclidean_division_equations; lia).
    assert (Hh : 0 <= Z.abs zone / 60 < 100) by (Z.to_euclidean_division_equations; lia).
    assert (Hm : 0 <= Z.abs zone mod 60 < 100) by (Z.to_euclidean_division_equations; lia).
    destruct (pad2_spec _ Hh) as (h1 & h2 & Ph & Dh1 & Dh2 & Vh).
    destruct (pad2_spec _ Hm) as (m1 & m2 & Pm & Dm1 & Dm2 & Vm).
    rewrite Ph, Pm.
    assert (Hr1 : (24 <? dval h1 * 10 + dval h2) = false) by (apply Z.ltb_ge; rewrite Vh; Z.to_euclidean_division_equations; lia).
    assert (Hr2 : (60 <? dval m1 * 10 + dval m2) = false) by (apply Z.ltb_ge; rewrite Vm; Z.to_euclidean_division_equations; lia).
    assert (Hv : (dval h1 * 10 + dval h2) * 60 + (dval m1 * 10 + dval m2) = Z.abs zone)
      by (rewrite Vh, Vm; Z.to_euclidean_division_equations; lia).
    destruct (zone <? 0) eqn:Es; [apply Z.ltb_lt in Es|apply Z.ltb_ge in Es]; cbn [app]; repeat split.
    + unfold get_zone. change (58 =? 58)%N with true. cbn [negb]. rewrite Dh1, Dh2, Dm1, Dm2. cbn [andb].
      rewrite Hr1, Hr2. cbn [orb]. change (45 =? 43)%N with false. change (45 =? 45)%N with true. cbv iota.
      f_equal. f_equal. lia.
    + exists 45%N. eexists. split; reflexivity.
    + exists [45%N; h1; h2; 58%N; m1], m2. split; [reflexivity|apply dig_not_trim; exact Dm2].
    + unfold get_zone. change (58 =? 58)%N with true. cbn [negb]. rewrite Dh1, Dh2, Dm1, Dm2. cbn [andb].
      rewrite Hr1, Hr2. cbn [orb]. change (43 =? 43)%N with true. cbv iota.
      f_equal. f_equal. lia.
    + exists 43%N. eexists. split; reflexivity.
    + exists [43%N; h1; h2; 58%N; m1], m2. split; [reflexivity|apply dig_not_trim; exact Dm2].
Qed.

Lemma span_digits_6 : forall a b c d e f r, dig a -> dig b -> dig c -> dig d -> dig e -> dig f ->
  (exists x r', r = x :: r' /\ is_digit x = false) ->
  span is_digit (a :: b :: c :: d :: e :: f :: r) = ([a; b; c; d; e; f], r).
Proof.
  intros a b c d e f r Ha Hb Hc Hd He Hf (x & r' & -> & Hx). cbn [span].
  rewrite Ha, Hb, Hc, Hd, He, Hf, Hx. reflexivity.
Qed.

Definition in_year_range (y : Z) : Prop := 0 <= y <= 9999.

(* the ISO text of valid fields parses, under either ISO layout order, to wall - offset (in whole minutes) *)
Lemma parse_iso_of_fields : forall f off, valid_fields f -> in_year_range (f_year f) -> -86400 < off < 86400 ->
  parse_iso_layout true (iso_of_fields f off)
  = Some ((wall_of (f_year f) (f_month f) (f_day f) (f_hour f) (f_min f) (f_sec f) - 60 * Z.quot off 60) * giga
          + f_ns f / 1000 * 1000)
  /\ trim_dt (iso_of_fields f off) = iso_of_fields f off.
Proof.
  intros [y m d h mi s ns] off (V & (Hh & Hmi & Hs) & Hns) Hy Hoff.
  cbn [f_year f_month f_day f_hour f_min f_sec f_ns] in *. unfold in_year_range in Hy.
  destruct (valid_date_ranges _ _ _ V) as (Rm & Rd & Dok).
  unfold iso_of_fields, iso_date_text, year_text. cbn [f_year f_month f_day f_hour f_min f_sec f_ns].
  assert (Ey : ((0 <=? y) && (y <=? 9999)) = true) by (apply andb_true_intro; split; apply Z.leb_le; lia).
  rewrite Ey.
  destruct (pad4_spec y Hy) as (y1 & y2 & y3 & y4 & Py & Dy1 & Dy2 & Dy3 & Dy4 & Vy).
  destruct (pad2_spec m ltac:(lia)) as (m1 & m2 & Pm & Dm1 & Dm2 & Vm).
  destruct (pad2_spec d ltac:(lia)) as (d1 & d2 & Pd & Dd1 & Dd2 & Vd).
  destruct (pad2_spec h ltac:(lia)) as (h1 & h2 & Ph & Dh1 & Dh2 & Vh).
  destruct (pad2_spec mi ltac:(lia)) as (i1 & i2 & Pi & Di1 & Di2 & Vi).
  destruct (pad2_spec s ltac:(lia)) as (s1 & s2 & Ps & Ds1 & Ds2 & Vs).
  assert (Hus : 0 <= ns / 1000 <= 999999) by (unfold giga in Hns; Z.to_euclidean_division_equations; lia).
  destruct (pad6_spec _ Hus) as (u1 & u2 & u3 & u4 & u5 & u6 & Pu & Du1 & Du2 & Du3 & Du4 & Du5 & Du6 & Vu).
  destruct (zone_text_parse off Hoff) as (Zp & Zhd & (zr & zc & Zlast & Ztrim)).
  rewrite Py, Pm, Pd, Ph, Pi, Ps, Pu. cbn [app]. split.
  - unfold parse_iso_layout, get_ymd.
    rewrite get_year4_4 by assumption. sb.
    rewrite getnum_2 by assumption. sb. rewrite Vm.
    assert (Em : ((m <=? 0) || (12 <? m)) = false) by (apply orb_false_iff; split; [apply Z.leb_gt|apply Z.ltb_ge]; lia).
    rewrite Em. sb.
    rewrite getnum_2 by assumption. sb.
    rewrite getnum_2 by assumption. sb. rewrite Vh.
    assert (Eh : (24 <=? h) = false) by (apply Z.leb_gt; lia). rewrite Eh. sb.
    rewrite getnum_2 by assumption. sb. rewrite Vi.
    assert (Ei : (60 <=? mi) = false) by (apply Z.leb_gt; lia). rewrite Ei. sb.
    rewrite getnum_2 by assumption. sb. rewrite Vs.
    assert (Es : (60 <=? s) = false) by (apply Z.leb_gt; lia). rewrite Es.
    unfold get_fraction. change ((46 =? 46) || (46 =? 44))%N with true. rewrite Du1. cbn [andb].
    rewrite span_digits_6 by assumption.
    unfold nanos_of_digits. cbn [firstn length]. rewrite Vu. change (10 ^ Z.of_nat (9 - 6)) with 1000.
    assert (Hw : writable_offset (60 * Z.quot off 60) = true).
    { unfold writable_offset. apply andb_true_intro; split; apply Z.ltb_lt; Z.to_euclidean_division_equations; lia. }
    sb. rewrite Zp. sb. rewrite Vy, Vd, Dok, Hw. reflexivity.
  - rewrite Zlast. 
    change (y1 :: y2 :: y3 :: y4 :: 45%N :: m1 :: m2 :: 45%N :: d1 :: d2 :: 84%N :: h1 :: h2 :: 58%N :: i1 :: i2
              :: 58%N :: s1 :: s2 :: 46%N :: u1 :: u2 :: u3 :: u4 :: u5 :: u6 :: zr ++ [zc])
      with (y1 :: (y2 :: y3 :: y4 :: 45%N :: m1 :: m2 :: 45%N :: d1 :: d2 :: 84%N :: h1 :: h2 :: 58%N :: i1 :: i2
              :: 58%N :: s1 :: s2 :: 46%N :: u1 :: u2 :: u3 :: u4 :: u5 :: u6 :: zr) ++ [zc]).
    apply trim_with_ends; [apply dig_not_trim; exact Dy1|exact Ztrim].
Qed.

(* the ISO rendering of an instant parses back to the instant truncated to microseconds, shifted by the seconds of
   the zone offset that "Z07:00" cannot express; the environment (formats, zone) plays no role *)
Lemma iso_roundtrip_src : forall fill offset offset' zend e t,
  in_year_range (f_year (fields_of offset t)) -> -86400 < offset (unix_of t) < 86400 ->
  datetime_from_string_src fill offset' zend e (iso offset t)
  = Some (t - t mod 1000 + (offset (unix_of t) - 60 * Z.quot (offset (unix_of t)) 60) * giga, false).
Proof.
  intros fill offset offset' zend e t Hy Hoff. unfold iso, datetime_from_string_src.
  destruct (fields_of_spec offset t) as (V & W & Hns). cbv zeta in V, W, Hns.
  destruct (parse_iso_of_fields _ _ V Hy Hoff) as (P & T). rewrite T, P. f_equal. f_equal.
  rewrite W, Hns. unfold wall, unix_of, giga. Z.to_euclidean_division_equations; lia.
Qed.

Lemma iso_roundtrip_general_with : forall fill offset offset' zend e t,
  in_year_range (f_year (fields_of offset t)) -> -86400 < offset (unix_of t) < 86400 ->
  datetime_from_string_with fill offset' zend e (iso offset t)
  = Some (t - t mod 1000 + (offset (unix_of t) - 60 * Z.quot (offset (unix_of t)) 60) * giga).
Proof.
  intros fill offset offset' zend e t Hy Hoff. unfold datetime_from_string_with.
  rewrite iso_roundtrip_src by assumption. reflexivity.
Qed.

Lemma iso_roundtrip_general : forall offset offset' zend e t,
  in_year_range (f_year (fields_of offset t)) -> -86400 < offset (unix_of t) < 86400 ->
  datetime_from_string offset' zend e (iso offset t)
  = Some (t - t mod 1000 + (offset (unix_of t) - 60 * Z.quot (offset (unix_of t)) 60) * giga).
Proof. intros offset offset' zend e t. apply iso_roundtrip_general_with. Qed.

Lemma iso_roundtrip : forall offset offset' zend e t,
  in_year_range (f_year (fields_of offset t)) -> -86400 < offset (unix_of t) < 86400 ->
  offset (unix_of t) mod 60 = 0 ->
  datetime_from_string offset' zend e (iso offset t) = Some (t - t mod 1000).
Proof.
  intros offset offset' zend e t Hy Hoff Hm. rewrite iso_roundtrip_general by assumption. f_equal.
  replace (60 * Z.quot (offset (unix_of t)) 60) with (offset (unix_of t)); [lia|].
  Z.to_euclidean_division_equations; lia.
Qed.

(* ------------------------------------------------------------------------------------------------ *)
(* Part 4: dates *)

Lemma cls_dig : forall c, dig c -> cls c = CDigit.
Proof. intros c H. unfold cls. rewrite H. reflexivity. Qed.

Lemma scan_step : forall R (m : option cclass -> list cclass -> option (R * nat)) p k r pos,
  scan m p (k :: r) pos 0
  = match m p (k :: r) with
    | Some (res, len) => (pos, res) :: scan m (Some k) r (S pos) (len - 1)
    | None => scan m (Some k) r (S pos) 0
    end.
Proof. reflexivity. Qed.

(* DD sep DD sep DDDD followed by a non-word character (or the end) is matched at once, with the long groups *)
Lemma date_match_dmy : forall X, next_word X = false ->
  date_match prefs_dmy None
    (CDigit :: CDigit :: CDash :: CDigit :: CDigit :: CDash :: CDigit :: CDigit :: CDigit :: CDigit :: X)
  = Some ((2, 2, 4)%nat, 10%nat).
Proof. intros X H. unfold date_match, prefs_dmy. cbn. rewrite H. reflexivity. Qed.

Lemma valid_date_checks : forall y m d, valid_date y m d = true ->
  ((d =? 0) || (31 <? d) || (m =? 0) || (12 <? m) || negb (day_ok y m d)) = false.
Proof.
  intros y m d V. destruct (valid_date_ranges _ _ _ V) as (Rm & Rd & Dok). rewrite Dok. cbn [negb].
  repeat (apply orb_false_iff; split); try reflexivity;
    try (apply Z.eqb_neq; lia); try (apply Z.ltb_ge; lia).
Qed.

(* the three environment date formats, followed by the end of the text or by something that starts with a
   non-word character (the space before the time) *)
Lemma parse_date_text : forall e y m d rest,
  valid_date y m d = true -> in_year_range y ->
  next_word (map cls rest) = false ->
  trim_dt (date_text (e_df e) y m d ++ rest) = date_text (e_df e) y m d ++ rest ->
  (forall c r, rest = c :: r -> c = 32%N) ->
  parse_date e (date_text (e_df e) y m d ++ rest) = Some ((y, m, d), rest).
Proof.
  intros e y m d rest V Hy Hnw Htrim Hsp. unfold parse_date. rewrite Htrim.
  destruct (valid_date_ranges _ _ _ V) as (Rm & Rd & Dok). unfold in_year_range in Hy.
  destruct (pad4_spec y Hy) as (y1 & y2 & y3 & y4 & Py & Dy1 & Dy2 & Dy3 & Dy4 & Vy).
  destruct (pad2_spec m ltac:(lia)) as (m1 & m2 & Pm & Dm1 & Dm2 & Vm).
  destruct (pad2_spec d ltac:(lia)) as (d1 & d2 & Pd & Dd1 & Dd2 & Vd).
  assert (Ey : ((0 <=? y) && (y <=? 9999)) = true) by (apply andb_true_intro; split; apply Z.leb_le; lia).
  assert (Em : ((m <=? 0) || (12 <? m)) = false) by (apply orb_false_iff; split; [apply Z.leb_gt|apply Z.ltb_ge]; lia).
  pose proof (valid_date_checks _ _ _ V) as Hchk.
  unfold date_text, year_text. rewrite Ey, Py, Pm, Pd.
  destruct (e_df e) eqn:Edf; cbn [app firstn skipn].
  - (* YYYY-MM-DD: the ISO date path *)
    unfold parse_iso_date, get_ymd. rewrite get_year4_4 by assumption. sb.
    rewrite getnum_2 by assumption. sb. rewrite Vm, Em. sb.
    rewrite getnum_2 by assumption. sb. rewrite Vy, Vd, Dok. reflexivity.
  - (* MM-DD-YYYY *)
    unfold parse_iso_date, get_ymd. rewrite get_year4_dash3. cbn [bind].
    unfold date_from_formats. rewrite Edf. cbn [map].
    rewrite (cls_dig y1), (cls_dig y2), (cls_dig y3), (cls_dig y4), (cls_dig m1), (cls_dig m2), (cls_dig d1), (cls_dig d2) by assumption.
    change (cls 45) with CDash.
    rewrite scan_step, date_match_dmy by exact Hnw. cbn [pick_date].
    cbn [sub Nat.add firstn skipn length Nat.eqb].
    rewrite !atoi_2, atoi_4 by assumption. rewrite Vy, Vm, Vd, Hchk. reflexivity.
  - (* DD-MM-YYYY *)
    unfold parse_iso_date, get_ymd. rewrite get_year4_dash3. cbn [bind].
    unfold date_from_formats. rewrite Edf. cbn [map].
    rewrite (cls_dig y1), (cls_dig y2), (cls_dig y3), (cls_dig y4), (cls_dig m1), (cls_dig m2), (cls_dig d1), (cls_dig d2) by assumption.
    change (cls 45) with CDash.
    rewrite scan_step, date_match_dmy by exact Hnw. cbn [pick_date].
    cbn [sub Nat.add firstn skipn length Nat.eqb].
    rewrite !atoi_2, atoi_4 by assumption. rewrite Vy, Vm, Vd, Hchk. reflexivity.
Qed.

(* ------------------------------------------------------------------------------------------------ *)
(* Part 5: times of day *)

Definition std_markers (e : env) : Prop := e_am e = [97; 109]%N /\ e_pm e = [112; 109]%N.
Definition has_secs (tf : tfmt) : bool := match tf with HMS | HMSAP => true | _ => false end.
Definition secs_of (tf : tfmt) (s : Z) : Z := if has_secs tf then s else 0.

Lemma hour_cases : forall h, 0 <= h <= 23 ->
  h = 0 \/ h = 1 \/ h = 2 \/ h = 3 \/ h = 4 \/ h = 5 \/ h = 6 \/ h = 7 \/ h = 8 \/ h = 9 \/ h = 10 \/ h = 11 \/
  h = 12 \/ h = 13 \/ h = 14 \/ h = 15 \/ h = 16 \/ h = 17 \/ h = 18 \/ h = 19 \/ h = 20 \/ h = 21 \/ h = 22 \/ h = 23.
Proof. intros h H. lia. Qed.

Lemma adjust_plain : forall h mi s ns, 0 <= h <= 23 -> adjust_hour h false false mi s ns = h.
Proof.
  intros h mi s ns H. unfold adjust_hour. rewrite !andb_false_r.
  assert (E : (h =? 24) = false) by (apply Z.eqb_neq; lia). rewrite E. reflexivity.
Qed.

Lemma adjust_pm : forall h mi s ns, 12 <= h <= 23 -> adjust_hour (hour12 h) true false mi s ns = h.
Proof.
  intros h mi s ns H. destruct (hour_cases h ltac:(lia)) as [E|E]; repeat (destruct E as [E|E]); subst; try lia; reflexivity.
Qed.

Lemma adjust_am : forall h mi s ns, 0 <= h < 12 -> adjust_hour (hour12 h) false true mi s ns = h.
Proof.
  intros h mi s ns H. destruct (hour_cases h ltac:(lia)) as [E|E]; repeat (destruct E as [E|E]); subst; try lia; reflexivity.
Qed.

Lemma clock_ok : forall h mi s, valid_clock h mi s -> clock_bad h mi s = false.
Proof.
  intros h mi s (Hh & Hm & Hs). unfold clock_bad. repeat (apply orb_false_iff; split); apply Z.ltb_ge; lia.
Qed.

(* the hour on the 12-hour clock is written with one or two digits *)
Lemma num_text_h12 : forall h, 0 <= h <= 23 ->
  (exists a, num_text (hour12 h) = [a] /\ dig a /\ dval a = hour12 h)
  \/ (exists a b, num_text (hour12 h) = [a; b] /\ dig a /\ dig b /\ dval a * 10 + dval b = hour12 h).
Proof.
  intros h H. destruct (hour_cases h H) as [E|E]; repeat (destruct E as [E|E]); subst;
    first [ left; eexists; split; [reflexivity|split; reflexivity]
          | right; do 2 eexists; split; [reflexivity|split; [reflexivity|split; reflexivity]] ].
Qed.

Lemma cls_32 : cls 32 = CSpace. Proof. reflexivity. Qed.
Lemma cls_58 : cls 58 = CColon. Proof. reflexivity. Qed.
Lemma cls_46 : cls 46 = CDot. Proof. reflexivity. Qed.
Lemma cls_97 : cls 97 = CA. Proof. reflexivity. Qed.
Lemma cls_112 : cls 112 = CP. Proof. reflexivity. Qed.
Lemma cls_109 : cls 109 = CM. Proof. reflexivity. Qed.

Ltac cls_all :=
  repeat match goal with H : dig ?c |- context [cls ?c] => rewrite (cls_dig c H) end;
  rewrite ?cls_32, ?cls_58, ?cls_46, ?cls_97, ?cls_112, ?cls_109.

Ltac eval_scan :=
  match goal with
  | |- context [scan time_match None ?l 0%nat 0%nat] =>
      let v := eval vm_compute in (scan time_match None l 0%nat 0%nat) in
      change (scan time_match None l 0%nat 0%nat) with v
  end.

Ltac time_shape :=
  unfold parse_time; cbn [map app]; cls_all; eval_scan;
  cbn [pick_time tm_h tm_colon tm_min tm_sec tm_frac tm_w tm_ap tm_len sub firstn skipn Nat.add Nat.sub nth
       N.eqb Pos.eqb orb];
  rewrite ?atoi_2, ?atoi_1 by assumption.

Lemma parse_time_text : forall e h mi s pre, std_markers e -> valid_clock h mi s -> (pre = [] \/ pre = [32%N]) ->
  parse_time (pre ++ time_text e h mi s) = Some (Tod h mi (secs_of (e_tf e) s) 0).
Proof.
  intros e h mi s pre (Eam & Epm) Vc Hpre. pose proof Vc as (Hh & Hmi & Hs).
  destruct (pad2_spec h ltac:(lia)) as (h1 & h2 & Ph & Dh1 & Dh2 & Vh).
  destruct (pad2_spec mi ltac:(lia)) as (i1 & i2 & Pi & Di1 & Di2 & Vi).
  destruct (pad2_spec s ltac:(lia)) as (s1 & s2 & Ps & Ds1 & Ds2 & Vs).
  pose proof (clock_ok h mi s Vc) as Cok.
  assert (Cok0 : clock_bad h mi 0 = false) by (apply clock_ok; unfold valid_clock; lia).
  unfold time_text, secs_of, ampm_text. rewrite Eam, Epm, Ph, Pi, Ps.
  destruct (e_tf e); cbn [has_secs].
  - (* tt:mm *)
    destruct Hpre as [-> | ->]; time_shape; rewrite Vh, Vi, adjust_plain, Cok0 by lia; reflexivity.
  - (* h:mm aa *)
    destruct (12 <=? h) eqn:E12; [apply Z.leb_le in E12|apply Z.leb_gt in E12];
      (destruct (num_text_h12 h Hh) as [(a & Pa & Da & Va)|(a & b & Pa & Da & Db & Va)]; rewrite Pa;
       destruct Hpre as [-> | ->]; time_shape; rewrite Va, Vi;
       [rewrite ?adjust_pm, ?adjust_am, Cok0 by lia; reflexivity ..]).
  - (* tt:mm:ss *)
    destruct Hpre as [-> | ->]; time_shape; rewrite Vh, Vi, Vs, adjust_plain, Cok by lia; reflexivity.
  - (* h:mm:ss aa *)
    destruct (12 <=? h) eqn:E12; [apply Z.leb_le in E12|apply Z.leb_gt in E12];
      (destruct (num_text_h12 h Hh) as [(a & Pa & Da & Va)|(a & b & Pa & Da & Db & Va)]; rewrite Pa;
       destruct Hpre as [-> | ->]; time_shape; rewrite Va, Vi, Vs;
       [rewrite ?adjust_pm, ?adjust_am, Cok by lia; reflexivity ..]).
Qed.

(* XTime.Render: "tt:mm:ss.ffffff" parses back to the time truncated to microseconds *)
Lemma render_time_roundtrip : forall h mi s ns, valid_clock h mi s -> 0 <= ns < giga ->
  time_from_string (render_time (Tod h mi s ns)) = Some (Tod h mi s (ns / 1000 * 1000)).
Proof.
  intros h mi s ns Vc Hns. pose proof Vc as (Hh & Hmi & Hs).
  destruct (pad2_spec h ltac:(lia)) as (h1 & h2 & Ph & Dh1 & Dh2 & Vh).
  destruct (pad2_spec mi ltac:(lia)) as (i1 & i2 & Pi & Di1 & Di2 & Vi).
  destruct (pad2_spec s ltac:(lia)) as (s1 & s2 & Ps & Ds1 & Ds2 & Vs).
  assert (Hus : 0 <= ns / 1000 <= 999999) by (unfold giga in Hns; Z.to_euclidean_division_equations; lia).
  destruct (pad6_spec _ Hus) as (u1 & u2 & u3 & u4 & u5 & u6 & Pu & Du1 & Du2 & Du3 & Du4 & Du5 & Du6 & Vu).
  unfold time_from_string, render_time. cbn [t_hour t_min t_sec t_ns]. rewrite Ph, Pi, Ps, Pu.
  time_shape. unfold nanos_of_digits. cbn [firstn length]. rewrite Vu. change (10 ^ Z.of_nat (9 - 6)) with 1000.
  rewrite Vh, Vi, Vs, adjust_plain, (clock_ok h mi s Vc) by lia. reflexivity.
Qed.

Lemma format_time_roundtrip : forall e h mi s ns, std_markers e -> valid_clock h mi s ->
  time_from_string (format_time e (Tod h mi s ns)) = Some (Tod h mi (secs_of (e_tf e) s) 0).
Proof.
  intros e h mi s ns Hm Vc. unfold time_from_string, format_time. cbn [t_hour t_min t_sec].
  apply (parse_time_text e h mi s [] Hm Vc). left. reflexivity.
Qed.

(* ------------------------------------------------------------------------------------------------ *)
(* Part 6: dates, and datetimes in the environment formats *)

Lemma date_text_ends : forall df y m d, in_year_range y -> 1 <= m <= 12 -> 1 <= d <= 31 ->
  exists c r c', date_text df y m d = c :: r ++ [c'] /\ dig c /\ dig c'.
Proof.
  intros df y m d Hy Hm Hd. unfold in_year_range in Hy.
  destruct (pad4_spec y Hy) as (y1 & y2 & y3 & y4 & Py & Dy1 & Dy2 & Dy3 & Dy4 & Vy).
  destruct (pad2_spec m ltac:(lia)) as (m1 & m2 & Pm & Dm1 & Dm2 & Vm).
  destruct (pad2_spec d ltac:(lia)) as (d1 & d2 & Pd & Dd1 & Dd2 & Vd).
  assert (Ey : ((0 <=? y) && (y <=? 9999)) = true) by (apply andb_true_intro; split; apply Z.leb_le; lia).
  unfold date_text, year_text. rewrite Ey, Py, Pm, Pd. destruct df; cbn [app].
  - exists y1, [y2; y3; y4; 45%N; m1; m2; 45%N; d1], d2. repeat split; assumption.
  - exists m1, [m2; 45%N; d1; d2; 45%N; y1; y2; y3], y4. repeat split; assumption.
  - exists d1, [d2; 45%N; m1; m2; 45%N; y1; y2; y3], y4. repeat split; assumption.
Qed.

Lemma date_from_string_format : forall e y m d, valid_date y m d = true -> in_year_range y ->
  date_from_string e (format_date e (y, m, d)) = Some (y, m, d).
Proof.
  intros e y m d V Hy. unfold date_from_string, format_date.
  destruct (valid_date_ranges _ _ _ V) as (Rm & Rd & _).
  destruct (date_text_ends (e_df e) y m d Hy Rm Rd) as (c & r & c' & E & Dc & Dc').
  rewrite <- (app_nil_r (date_text (e_df e) y m d)).
  rewrite parse_date_text; try assumption; try reflexivity.
  - rewrite app_nil_r, E. apply trim_with_ends; apply dig_not_trim; assumption.
  - intros c0 r0 H0. discriminate.
Qed.

(* XDate.Render is the YYYY-MM-DD form whatever the environment's date format *)
Lemma date_from_string_render : forall e y m d, valid_date y m d = true -> in_year_range y ->
  date_from_string e (render_date (y, m, d)) = Some (y, m, d).
Proof.
  intros e y m d V Hy. unfold date_from_string, render_date, parse_date, iso_date_text.
  destruct (valid_date_ranges _ _ _ V) as (Rm & Rd & Dok).
  destruct (date_text_ends YMD y m d Hy Rm Rd) as (c & r & c' & E & Dc & Dc').
  unfold date_text in E. unfold trim_dt. rewrite E, trim_with_ends by (apply dig_not_trim; assumption). rewrite <- E. clear E.
  unfold in_year_range in Hy. unfold year_text.
  destruct (pad4_spec y Hy) as (y1 & y2 & y3 & y4 & Py & Dy1 & Dy2 & Dy3 & Dy4 & Vy).
  destruct (pad2_spec m ltac:(lia)) as (m1 & m2 & Pm & Dm1 & Dm2 & Vm).
  destruct (pad2_spec d ltac:(lia)) as (d1 & d2 & Pd & Dd1 & Dd2 & Vd).
  assert (Ey : ((0 <=? y) && (y <=? 9999)) = true) by (apply andb_true_intro; split; apply Z.leb_le; lia).
  assert (Em : ((m <=? 0) || (12 <? m)) = false) by (apply orb_false_iff; split; [apply Z.leb_gt|apply Z.ltb_ge]; lia).
  rewrite Ey, Py, Pm, Pd. cbn [app firstn skipn].
  unfold parse_iso_date, get_ymd. rewrite get_year4_4 by assumption. sb.
  rewrite getnum_2 by assumption. sb. rewrite Vm, Em. sb.
  rewrite getnum_2 by assumption. sb. rewrite Vy, Vd, Dok. reflexivity.
Qed.

Lemma time_text_last : forall e h mi s, std_markers e -> valid_clock h mi s ->
  exists r c, time_text e h mi s = r ++ [c] /\ is_trimc c = false.
Proof.
  intros e h mi s (Eam & Epm) (Hh & Hmi & Hs).
  destruct (pad2_spec mi ltac:(lia)) as (i1 & i2 & Pi & Di1 & Di2 & Vi).
  destruct (pad2_spec s ltac:(lia)) as (s1 & s2 & Ps & Ds1 & Ds2 & Vs).
  unfold time_text, ampm_text. rewrite Eam, Epm, Pi, Ps. destruct (e_tf e).
  - exists (pad2 h ++ [58%N; i1]), i2. split; [rewrite <- app_assoc; reflexivity|apply dig_not_trim; assumption].
  - exists (num_text (hour12 h) ++ [58%N; i1; i2; 32%N] ++ [if 12 <=? h then 112%N else 97%N]), 109%N.
    split; [|reflexivity]. rewrite <- !app_assoc. destruct (12 <=? h); reflexivity.
  - exists (pad2 h ++ [58%N; i1; i2; 58%N; s1]), s2. split; [rewrite <- app_assoc; reflexivity|apply dig_not_trim; assumption].
  - exists (num_text (hour12 h) ++ [58%N; i1; i2; 58%N; s1; s2; 32%N] ++ [if 12 <=? h then 112%N else 97%N]), 109%N.
    split; [|reflexivity]. rewrite <- !app_assoc. destruct (12 <=? h); reflexivity.
Qed.

(* neither ISO datetime layout accepts "date format, space, ..." *)
Lemma parse_iso_layout_format : forall b df y m d rest, in_year_range y -> 1 <= m <= 12 -> 1 <= d <= 31 ->
  parse_iso_layout b (date_text df y m d ++ 32%N :: rest) = None.
Proof.
  intros b df y m d rest Hy Hm Hd. unfold in_year_range in Hy.
  destruct (pad4_spec y Hy) as (y1 & y2 & y3 & y4 & Py & Dy1 & Dy2 & Dy3 & Dy4 & Vy).
  destruct (pad2_spec m ltac:(lia)) as (m1 & m2 & Pm & Dm1 & Dm2 & Vm).
  destruct (pad2_spec d ltac:(lia)) as (d1 & d2 & Pd & Dd1 & Dd2 & Vd).
  assert (Ey : ((0 <=? y) && (y <=? 9999)) = true) by (apply andb_true_intro; split; apply Z.leb_le; lia).
  assert (Em : ((m <=? 0) || (12 <? m)) = false) by (apply orb_false_iff; split; [apply Z.leb_gt|apply Z.ltb_ge]; lia).
  unfold date_text, year_text. rewrite Ey, Py, Pm, Pd. unfold parse_iso_layout, get_ymd. destruct df; cbn [app].
  - rewrite get_year4_4 by assumption. sb. rewrite getnum_2 by assumption. sb. rewrite Vm, Em. sb.
    rewrite getnum_2 by assumption. sb. reflexivity.
  - rewrite get_year4_dash3. reflexivity.
  - rewrite get_year4_dash3. reflexivity.
Qed.

(* Format(env) of valid fields parses to the instant time.Date makes of the fields at the rendered precision *)
Lemma format_fields_roundtrip : forall fill offset zend e f, std_markers e -> valid_fields f -> in_year_range (f_year f) ->
  datetime_from_string_src fill offset zend e (format_of_fields e f)
  = Some (combine offset zend (wall_of (f_year f) (f_month f) (f_day f) (f_hour f) (f_min f) (secs_of (e_tf e) (f_sec f))) 0,
          true).
Proof.
  intros fill offset zend e [y m d h mi s ns] Hm (V & Vc & Hns) Hy.
  cbn [f_year f_month f_day f_hour f_min f_sec f_ns] in *.
  destruct (valid_date_ranges _ _ _ V) as (Rm & Rd & _).
  unfold datetime_from_string_src, format_of_fields. cbn [f_year f_month f_day f_hour f_min f_sec f_ns].
  destruct (date_text_ends (e_df e) y m d Hy Rm Rd) as (c & r & c' & E & Dc & Dc').
  destruct (time_text_last e h mi s Hm Vc) as (tr & tc & Et & Htc).
  assert (Htrim : trim_dt (date_text (e_df e) y m d ++ [32%N] ++ time_text e h mi s)
                  = date_text (e_df e) y m d ++ [32%N] ++ time_text e h mi s).
  { rewrite E, Et.
    replace ((c :: r ++ [c']) ++ [32%N] ++ tr ++ [tc]) with (c :: (r ++ [c'] ++ [32%N] ++ tr) ++ [tc])
      by (cbn [app]; rewrite <- !app_assoc; reflexivity).
    apply trim_with_ends; [apply dig_not_trim; assumption|assumption]. }
  rewrite Htrim. change ([32%N] ++ time_text e h mi s) with (32%N :: time_text e h mi s) in *.
  rewrite !parse_iso_layout_format by assumption.
  rewrite parse_date_text; try assumption; try reflexivity.
  - change (32%N :: time_text e h mi s) with ([32%N] ++ time_text e h mi s).
    rewrite (parse_time_text e h mi s [32%N] Hm Vc) by (right; reflexivity).
    cbn [t_hour t_min t_sec t_ns]. reflexivity.
  - intros c0 r0 H0. inversion H0. reflexivity.
Qed.

(* the statement on instants: format in the environment's zone, parse in the same environment *)
Lemma format_datetime_src : forall fill offset zend e t, std_markers e -> in_year_range (f_year (fields_of offset t)) ->
  let f := fields_of offset t in
  datetime_from_string_src fill offset zend e (format_datetime offset e t)
  = Some (combine offset zend (wall_of (f_year f) (f_month f) (f_day f) (f_hour f) (f_min f) (secs_of (e_tf e) (f_sec f))) 0,
          true).
Proof.
  intros fill offset zend e t Hm Hy f. unfold format_datetime. apply format_fields_roundtrip; try assumption.
  apply fields_of_spec.
Qed.

Lemma format_datetime_roundtrip_with : forall fill offset zend e t, std_markers e -> in_year_range (f_year (fields_of offset t)) ->
  let f := fields_of offset t in
  datetime_from_string_with fill offset zend e (format_datetime offset e t)
  = Some (combine offset zend (wall_of (f_year f) (f_month f) (f_day f) (f_hour f) (f_min f) (secs_of (e_tf e) (f_sec f))) 0).
Proof.
  intros fill offset zend e t Hm Hy f. unfold datetime_from_string_with.
  rewrite format_datetime_src by assumption. reflexivity.
Qed.

Lemma format_datetime_roundtrip : forall offset zend e t, std_markers e -> in_year_range (f_year (fields_of offset t)) ->
  let f := fields_of offset t in
  datetime_from_string offset zend e (format_datetime offset e t)
  = Some (combine offset zend (wall_of (f_year f) (f_month f) (f_day f) (f_hour f) (f_min f) (secs_of (e_tf e) (f_sec f))) 0).
Proof. intros offset zend e t. apply format_datetime_roundtrip_with. Qed.

(* ------------------------------------------------------------------------------------------------ *)
(* Part 7: the wall-clock fields of the re-read instant *)

Lemma fields_of_wall_of : forall y m d h mi s ns, valid_date y m d = true -> valid_clock h mi s ->
  fields_of_wall (wall_of y m d h mi s) ns = Fields y m d h mi s ns.
Proof.
  intros y m d h mi s ns V (Hh & Hmi & Hs). unfold fields_of_wall, wall_of.
  assert (Ed : (days_from_civil y m d * 86400 + h * 3600 + mi * 60 + s) / 86400 = days_from_civil y m d)
    by (Z.to_euclidean_division_equations; lia).
  assert (Es : (days_from_civil y m d * 86400 + h * 3600 + mi * 60 + s) mod 86400 = h * 3600 + mi * 60 + s)
    by (Z.to_euclidean_division_equations; lia).
  rewrite Ed, Es, (civil_from_days_from_civil y m d V). f_equal; Z.to_euclidean_division_equations; lia.
Qed.

(* time.Date gave an instant whose wall clock reads the requested local time [w] (it does whenever that local
   time exists in the zone; inside a gap of the zone no instant reads [w]) *)
Definition resolves (offset : Z -> Z) (w : Z) : Prop := wall offset (from_wall offset w * giga) = w.

Lemma resolves_stable : forall offset w c, offset w = c -> offset (w - c) = c -> resolves offset w.
Proof.
  intros offset w c H1 H2. unfold resolves, wall, unix_of, from_wall. rewrite H1, H2.
  replace ((w - c) * giga / giga) with (w - c) by (unfold giga; Z.to_euclidean_division_equations; lia).
  rewrite H2. lia.
Qed.

(* when time.Date resolves the local time, the correction for skipped local times does not apply *)
Lemma combine_resolves : forall offset zend w ns, resolves offset w ->
  combine offset zend w ns = from_wall offset w * giga + ns.
Proof.
  intros offset zend w ns H. unfold combine. unfold resolves, wall, unix_of in H.
  replace (from_wall offset w * giga / giga) with (from_wall offset w) in H
    by (unfold giga; Z.to_euclidean_division_equations; lia).
  rewrite H, Z.ltb_irrefl. reflexivity.
Qed.

Lemma resolves_fixed_zone : forall c w, resolves (fun _ => c) w.
Proof. intros c w. apply (resolves_stable _ w c); reflexivity. Qed.

Definition trunc_fields (tf : tfmt) (f : fields) : fields :=
  Fields (f_year f) (f_month f) (f_day f) (f_hour f) (f_min f) (secs_of tf (f_sec f)) 0.

Lemma format_datetime_fields : forall offset zend e t, std_markers e -> in_year_range (f_year (fields_of offset t)) ->
  let f := fields_of offset t in
  resolves offset (wall_of (f_year f) (f_month f) (f_day f) (f_hour f) (f_min f) (secs_of (e_tf e) (f_sec f))) ->
  exists t', datetime_from_string offset zend e (format_datetime offset e t) = Some t'
             /\ fields_of offset t' = trunc_fields (e_tf e) f.
Proof.
  intros offset zend e t Hm Hy f Hres. eexists. split; [apply format_datetime_roundtrip; assumption|].
  fold f. rewrite (combine_resolves _ _ _ _ Hres), Z.add_0_r. destruct (fields_of_spec offset t) as ((V & (Hh & Hmi & Hs) & Hns) & _ & _). fold f in V, Hh, Hmi, Hs.
  unfold fields_of. unfold resolves in Hres. rewrite Hres.
  replace (from_wall offset (wall_of (f_year f) (f_month f) (f_day f) (f_hour f) (f_min f) (secs_of (e_tf e) (f_sec f)))
           * giga mod giga) with 0 by (unfold giga; Z.to_euclidean_division_equations; lia).
  unfold trunc_fields. apply fields_of_wall_of; [exact V|].
  unfold valid_clock, secs_of. destruct (has_secs (e_tf e)); lia.
Qed.

(* ---- witnesses for what is NOT true ------------------------------------------------------------- *)

(* a zone whose offset has seconds (America/Sao_Paulo before 1914: -3:06:28) *)
Definition lmt_zone (_ : Z) : Z := -11188.
Definition lmt_instant : Z := (days_from_civil 1800 5 6 * 86400 + 36897) * giga + 123456000.

Lemma iso_seconds_witness :
  in_year_range (f_year (fields_of lmt_zone lmt_instant)) /\ -86400 < lmt_zone (unix_of lmt_instant) < 86400
  /\ datetime_from_string lmt_zone (fun _ => None) (Env DMY HM [97; 109]%N [112; 109]%N 2026) (iso lmt_zone lmt_instant)
     = Some (lmt_instant - 28 * giga).
Proof. vm_compute. repeat split; discriminate. Qed.

(* Asia/Tehran: +3:25:44 until 1935-06-13 00:00:00 local, then +3:30 (local clocks jump to 00:04:16).  East of UTC
   time.Date answers a skipped local time with a LATER one, which DateTimeFromString keeps. *)
Definition tehran_T : Z := days_from_civil 1935 6 13 * 86400 - 12344.
Definition tehran (x : Z) : Z := if x <? tehran_T then 12344 else 12600.
Definition tehran_zend (x : Z) : option Z := if x <? tehran_T then Some tehran_T else None.
Definition tehran_env : env := Env DMY HM [97; 109]%N [112; 109]%N 2026.
Definition tehran_instant : Z := (days_from_civil 1935 6 13 * 86400 + 270 - 12600) * giga.

Lemma gap_witness :
  std_markers tehran_env /\ in_year_range (f_year (fields_of tehran tehran_instant))
  /\ fields_of tehran tehran_instant = Fields 1935 6 13 0 4 30 0
  /\ exists t', datetime_from_string tehran tehran_zend tehran_env (format_datetime tehran tehran_env tehran_instant) = Some t'
                /\ fields_of tehran t' = Fields 1935 6 13 0 8 16 0.
Proof.
  split; [split; reflexivity|]. split; [vm_compute; split; discriminate|]. split; [vm_compute; reflexivity|].
  exists ((days_from_civil 1935 6 13 * 86400 + 240 - 12344) * giga). split; vm_compute; reflexivity.
Qed.

(* Africa/Monrovia: -0:44:30 until 1972-01-07 00:44:30 UTC (unix 63593070), then UTC.  West of UTC time.Date answers
   a skipped local time with an EARLIER one (here 23:59:30 of the previous day); DateTimeFromString then takes the
   first instant after the gap, 00:44:30, which still lies in the rendered minute 00:44 *)
Definition monrovia (x : Z) : Z := if x <? 63593070 then -2670 else 0.
Definition monrovia_zend (x : Z) : option Z := if x <? 63593070 then Some 63593070 else None.
Definition monrovia_env : env := Env MDY HMAP [97; 109]%N [112; 109]%N 2026.
Definition monrovia_instant : Z := 63593075 * giga.

Example west_gap_example :
  fields_of monrovia monrovia_instant = Fields 1972 1 7 0 44 35 0
  /\ datetime_from_string monrovia monrovia_zend monrovia_env (format_datetime monrovia monrovia_env monrovia_instant)
     = Some (63593070 * giga)
  /\ fields_of monrovia (63593070 * giga) = Fields 1972 1 7 0 44 30 0.
Proof. repeat split; vm_compute; reflexivity. Qed.

(* a locale whose markers are not am/pm: Spanish "a. m." / "p. m." (with U+202F), the input of the known finding *)
Definition ara_env : env := Env DMY HMAP [97; 46; 8239; 109; 46]%N [112; 46; 8239; 109; 46]%N 2026.
Lemma localized_witness :
  fields_of (fun _ => 0) (1588784889 * giga) = Fields 2020 5 6 17 8 9 0
  /\ exists t', datetime_from_string (fun _ => 0) (fun _ => None) ara_env (format_datetime (fun _ => 0) ara_env (1588784889 * giga)) = Some t'
                /\ fields_of (fun _ => 0) t' = Fields 2020 5 6 5 8 0 0.
Proof. split; [vm_compute; reflexivity|]. exists (1588741680 * giga). split; vm_compute; reflexivity. Qed.

(* the hypotheses of the positive statements are satisfiable *)
Example roundtrip_hyps_sat :
  let offset := fun x : Z => if x <? 1000000000 then 3600 else 7200 in
  let t := 1600000000123456789 in
  let e := Env MDY HMSAP [97; 109]%N [112; 109]%N 2026 in
  let f := fields_of offset t in
  std_markers e /\ in_year_range (f_year f) /\ -86400 < offset (unix_of t) < 86400 /\ offset (unix_of t) mod 60 = 0
  /\ resolves offset (wall_of (f_year f) (f_month f) (f_day f) (f_hour f) (f_min f) (secs_of (e_tf e) (f_sec f)))
  /\ (let w := wall_of (f_year f) (f_month f) (f_day f) (f_hour f) (f_min f) (secs_of (e_tf e) (f_sec f)) in
      let c := offset (unix_of t) in offset w = c /\ offset (w - c) = c /\ c mod 60 = 0).
Proof. vm_compute. repeat split; try discriminate; reflexivity. Qed.

(* ------------------------------------------------------------------------------------------------ *)
(* Part 8: the re-read INSTANT in the environment formats *)

Lemma wall_of_sec : forall y m d h mi s s', wall_of y m d h mi s' = wall_of y m d h mi s - s + s'.
Proof. intros. unfold wall_of. lia. Qed.

(* when the two zone lookups of time.Date (at the rendered wall value read as UTC, and one offset earlier) see the
   offset c that is in force at t, the re-read instant is t with the unrendered part (nanoseconds, and the seconds
   for tt:mm / h:mm aa) removed *)
Lemma format_datetime_instant_with : forall fill offset zend e t c, std_markers e -> in_year_range (f_year (fields_of offset t)) ->
  let f := fields_of offset t in
  let w := wall_of (f_year f) (f_month f) (f_day f) (f_hour f) (f_min f) (secs_of (e_tf e) (f_sec f)) in
  offset (unix_of t) = c -> offset w = c -> offset (w - c) = c ->
  datetime_from_string_with fill offset zend e (format_datetime offset e t)
  = Some ((unix_of t - (f_sec f - secs_of (e_tf e) (f_sec f))) * giga).
Proof.
  intros fill offset zend e t c Hm Hy f w Hc H1 H2. rewrite (format_datetime_roundtrip_with fill offset zend e t Hm Hy).
  fold f. fold w. rewrite (combine_resolves _ _ _ _ (resolves_stable offset w c H1 H2)), Z.add_0_r.
  f_equal. f_equal. unfold from_wall. rewrite H1, H2.
  destruct (fields_of_spec offset t) as (_ & W & _). fold f in W.
  unfold w. rewrite (wall_of_sec _ _ _ _ _ (f_sec f)), W. unfold wall. rewrite Hc. lia.
Qed.

(* Europe/Dublin 1992-10-25: +1:00 until 01:00 UTC, then +0:00, so 01:00-01:59:59 local occurs twice.  The input of the
   known finding: 01:59:01 +01:00 (the earlier one) is written "10-25-1992 1:59:01 am" and read back as 01:59:01 +00:00,
   3600 s later (time.Date finds offset 0 at the wall value read as UTC and keeps it) *)
Definition dublin_T : Z := days_from_civil 1992 10 25 * 86400 + 3600.
Definition fold_zone (x : Z) : Z := if x <? dublin_T then 3600 else 0.
Definition fold_env : env := Env MDY HMSAP [97; 109]%N [112; 109]%N 2026.
Definition fold_instant : Z := (days_from_civil 1992 10 25 * 86400 + 3541) * giga.

Lemma fold_witness :
  std_markers fold_env /\ in_year_range (f_year (fields_of fold_zone fold_instant))
  /\ (let f := fields_of fold_zone fold_instant in
      resolves fold_zone (wall_of (f_year f) (f_month f) (f_day f) (f_hour f) (f_min f) (secs_of (e_tf fold_env) (f_sec f))))
  /\ datetime_from_string fold_zone (fun _ => None) fold_env (format_datetime fold_zone fold_env fold_instant)
     = Some (fold_instant + 3600 * giga)
  /\ fields_of fold_zone (fold_instant + 3600 * giga) = fields_of fold_zone fold_instant.
Proof.
  split; [split; reflexivity|]. split; [vm_compute; split; discriminate|].
  split; [vm_compute; reflexivity|]. split; vm_compute; reflexivity.
Qed.

(* Pacific/Apia 1892-07-04: +12:33:04 until the date line moved, then -11:26:56: the whole day occurs twice.  The later
   01:53:52 (-11:26:56) is written "04-07-1892 1:53 am" and read back as the earlier one, 24 h before; the same
   through FieldValues.Parse (up to the seconds its stored form drops) *)
Definition apia_T : Z := days_from_civil 1892 7 5 * 86400 - 45184.
Definition apia (x : Z) : Z := if x <? apia_T then 45184 else -41216.
Definition apia_env : env := Env DMY HMAP [97; 109]%N [112; 109]%N 2026.
Definition apia_instant : Z := (days_from_civil 1892 7 4 * 86400 + 6832 + 41216) * giga.

Lemma repeated_day_witness :
  fields_of apia apia_instant = Fields 1892 7 4 1 53 52 0
  /\ datetime_from_string apia (fun _ => None) apia_env (format_datetime apia apia_env apia_instant)
     = Some (apia_instant - 52 * giga - 86400 * giga)
  /\ fields_of apia (apia_instant - 52 * giga - 86400 * giga) = Fields 1892 7 4 1 53 0 0.
Proof. repeat split; vm_compute; reflexivity. Qed.

(* the field level of the Dublin input: what FieldValues.Parse stores is that other instant too *)
Lemma fold_field_witness : forall fill,
  exists n, field_parse fill fold_zone (fun _ => None) fold_env (format_datetime fold_zone fold_env fold_instant)
            = Some (n, Some (fold_instant + 3600 * giga)).
Proof. intros fill. eexists. vm_compute. reflexivity. Qed.

(* ------------------------------------------------------------------------------------------------ *)
(* Part 9: stored field values (FieldValues.Parse) *)

Lemma render_nonempty : forall d, render d <> [].
Proof.
  intros d H. destruct (render_form d) as (neg & ip & fp & Hr & Hne & _). rewrite H in Hr.
  symmetry in Hr. apply app_eq_nil in Hr. destruct Hr as [_ Hr]. apply app_eq_nil in Hr. destruct Hr as [Hr _].
  contradiction.
Qed.

(* the number stored for the text form of a number is that number *)
Lemma field_parse_number : forall fill offset zend e d, (int32_min <= dexp d)%Z ->
  exists d' dt, field_parse fill offset zend e (render d) = Some (Some d', dt) /\ dec_eq d' d.
Proof.
  intros fill offset zend e d Hd. destruct (parse_number_render d Hd) as (d' & Hp & Heq).
  unfold field_parse. destruct (render d) eqn:E; [exfalso; exact (render_nonempty d E)|]. rewrite Hp.
  eexists. eexists. split; [reflexivity|exact Heq].
Qed.

Lemma iso_nonempty : forall offset t, iso offset t <> [].
Proof.
  intros offset t. unfold iso, iso_of_fields. intros H. apply app_eq_nil in H. destruct H as [_ H].
  apply app_eq_nil in H. destruct H as [H _]. discriminate.
Qed.

Lemma format_nonempty : forall offset e t, format_datetime offset e t <> [].
Proof.
  intros offset e t. unfold format_datetime, format_of_fields. intros H. apply app_eq_nil in H. destruct H as [_ H].
  apply app_eq_nil in H. destruct H as [H _]. discriminate.
Qed.

Lemma as_stored_0 : forall t, t mod 1000 = 0 -> as_stored 0 t = t.
Proof. intros t H. unfold as_stored, sec_part. cbn. lia. Qed.

(* the datetime stored for the ISO text of a datetime is the instant ToXDateTime reads (being marshalled and read
   back changes nothing more: the text carries its own whole-minute offset), whatever the current time of day *)
Lemma field_parse_iso : forall fill offset offset' zend e t,
  in_year_range (f_year (fields_of offset t)) -> -86400 < offset (unix_of t) < 86400 ->
  exists n, field_parse fill offset' zend e (iso offset t)
            = Some (n, Some (t - t mod 1000 + (offset (unix_of t) - 60 * Z.quot (offset (unix_of t)) 60) * giga)).
Proof.
  intros fill offset offset' zend e t Hy Hoff. exists (parse_number (iso offset t)). unfold field_parse.
  destruct (iso offset t) eqn:E; [exfalso; exact (iso_nonempty offset t E)|]. rewrite <- E.
  rewrite iso_roundtrip_src by assumption. rewrite as_stored_0; [reflexivity|].
  unfold giga. Z.to_euclidean_division_equations; lia.
Qed.

(* the datetime stored for an environment-format text is the instant ToXDateTime reads, as it is once marshalled and
   read back in the environment's zone (as_stored: microseconds - nothing to cut here - and a whole-minute offset) *)
Lemma field_parse_format : forall fill offset zend e t, std_markers e -> in_year_range (f_year (fields_of offset t)) ->
  let f := fields_of offset t in
  let r := combine offset zend (wall_of (f_year f) (f_month f) (f_day f) (f_hour f) (f_min f) (secs_of (e_tf e) (f_sec f))) 0 in
  exists n, field_parse fill offset zend e (format_datetime offset e t) = Some (n, Some (as_stored (offset (unix_of r)) r)).
Proof.
  intros fill offset zend e t Hm Hy f r. exists (parse_number (format_datetime offset e t)). unfold field_parse.
  destruct (format_datetime offset e t) eqn:E; [exfalso; exact (format_nonempty offset e t E)|]. rewrite <- E.
  rewrite format_datetime_src by assumption. reflexivity.
Qed.

(* in a zone whose offset there is in whole minutes the stored instant is exactly the one read *)
Lemma as_stored_whole_minutes : forall off r, off mod 60 = 0 -> r mod 1000 = 0 -> as_stored off r = r.
Proof.
  intros off r H1 H2. unfold as_stored, sec_part.
  replace (60 * Z.quot off 60) with off by (Z.to_euclidean_division_equations; lia). lia.
Qed.

(* ---- the property-level statements for stored field values ------------------------------------- *)

(* ISO text of a datetime in a zone with a whole-minute offset: the field stores the instant at microseconds *)
Lemma field_parse_iso_instant : forall fill offset offset' zend e t,
  in_year_range (f_year (fields_of offset t)) -> -86400 < offset (unix_of t) < 86400 -> offset (unix_of t) mod 60 = 0 ->
  exists n, field_parse fill offset' zend e (iso offset t) = Some (n, Some (t - t mod 1000)).
Proof.
  intros fill offset offset' zend e t Hy Hoff Hm.
  destruct (field_parse_iso fill offset offset' zend e t Hy Hoff) as (n & H). exists n. rewrite H. do 3 f_equal.
  replace (60 * Z.quot (offset (unix_of t)) 60) with (offset (unix_of t)); [lia|].
  Z.to_euclidean_division_equations; lia.
Qed.

(* environment format, under the hypotheses of the instant-level theorem and a whole-minute offset: the field stores
   t with exactly the unrendered part removed *)
Lemma field_parse_format_instant : forall fill offset zend e t c, std_markers e -> in_year_range (f_year (fields_of offset t)) ->
  let f := fields_of offset t in
  let w := wall_of (f_year f) (f_month f) (f_day f) (f_hour f) (f_min f) (secs_of (e_tf e) (f_sec f)) in
  offset (unix_of t) = c -> offset w = c -> offset (w - c) = c -> c mod 60 = 0 ->
  exists n, field_parse fill offset zend e (format_datetime offset e t)
            = Some (n, Some ((unix_of t - (f_sec f - secs_of (e_tf e) (f_sec f))) * giga)).
Proof.
  intros fill offset zend e t c Hm Hy f w Hc H1 H2 H60.
  destruct (field_parse_format fill offset zend e t Hm Hy) as (n & H). exists n. rewrite H. clear H.
  fold f. fold w. rewrite (combine_resolves _ _ _ _ (resolves_stable offset w c H1 H2)), Z.add_0_r.
  assert (Hp : from_wall offset w = w - c) by (unfold from_wall; rewrite H1, H2; reflexivity).
  rewrite Hp.
  assert (Hu : unix_of ((w - c) * giga) = w - c) by (unfold unix_of, giga; Z.to_euclidean_division_equations; lia).
  rewrite Hu, H2. rewrite as_stored_whole_minutes;
    [|exact H60|unfold giga; Z.to_euclidean_division_equations; lia].
  do 3 f_equal.
  destruct (fields_of_spec offset t) as (_ & W & _). fold f in W.
  unfold w. rewrite (wall_of_sec _ _ _ _ _ (f_sec f)), W. unfold wall. rewrite Hc. lia.
Qed.
