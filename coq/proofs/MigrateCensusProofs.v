(* MigrateCensusProofs.v -- the template catalogue Migrate13_3 uses against a census of the code: every template member
   of a router or of a wait (gen/MigrationTable.v router_template_members, extracted from the EnumerateTemplates methods
   and the engine:"evaluated" tags of flows/routers and flows/routers/waits) is reached by a path of EVERY router row of
   the catalogue; a wait's member through the router's `wait` member.  Re-checked whenever source or catalogue change.
   (Actions are not in this census: the members of actions that exist today and those of the 13.2 catalogue differ for
   good reasons -- later versions added and moved members -- and goflow's own test pins the current catalogue to the
   action structs.) *)
From Coq Require Import List NArith Bool String.
From Verif Require Import lib.Json gen.MigrationTable model.Migrate model.MigrateValid proofs.MigrateValidProofs.
Import ListNotations.

(* the last step of a path that names a member *)
Definition last_member (steps : list str) : option str :=
  fold_left (fun acc st => if str_eqb st star then acc else Some st) steps None.

Definition path_reaches (where_ member : string) (p : string) : bool :=
  match steps_of p with
  | Some steps =>
      (match last_member steps with Some m => str_eqb m (s member) | None => false end)
      && (negb (String.eqb where_ "waits") || mem_str (s "wait") steps)
  | None => false
  end.

Definition catalog_covers_router_templates : bool :=
  forallb (fun wm : string * string =>
             forallb (fun row : string * list string => existsb (path_reaches (fst wm) (snd wm)) (snd row)) catalog_routers)
          router_template_members.

Lemma catalog_covers_router_templates_true : catalog_covers_router_templates = true.
Proof. vm_compute. reflexivity. Qed.

(* read / marshal / read: a member that gets a non-zero default when it is absent must not be left out when it is zero,
   or a zero written by the author comes back as the default.  Census (gen/MigrationTable.v read_defaults) of every
   member of flows/** with a default set before unmarshalling: none is marshalled with omitempty. *)
Definition read_defaults_survive_marshal : bool :=
  forallb (fun d : string * string * bool => negb (snd d)) read_defaults.

Lemma read_defaults_survive_marshal_true : read_defaults_survive_marshal = true.
Proof. vm_compute. reflexivity. Qed.
