(* ModifiersChan.v — channel affinity.  A contact URN is a raw URN plus a channel pointer; the marshalled contact shows
   only the raw URN, and reading it back (flows.ParseRawURN) derives the pointer from the raw URN's channel query.
   [chan_ok]: every pointer is what reading back would give.  It is kept by every modifier (since fix F3g also by the
   URNs modifier), so the contact in memory is determined by its marshalled form, and the erase-statements of
   ModifiersProofs.v become statements about the whole contact. *)
From Coq Require Import List NArith Bool Lia.
From Verif Require Import model.Contact model.Modifiers proofs.ModifiersBase proofs.GroupsProofs proofs.ModifiersProofs.
Import ListNotations.
Open Scope N_scope.

Section Chan.
Variable E : menv.

Definition urn_ok (x : curn) : Prop := cu_chan x = urn_channel E (cu_urn x).
Definition chan_ok (c : contact) : Prop := Forall urn_ok (c_urns c).

Lemma chan_ok_b_iff : forall c, chan_ok_b E c = true <-> chan_ok c.
Proof.
  intro c. unfold chan_ok_b, chan_ok. rewrite forallb_forall, Forall_forall.
  split; intros H x Hx; [apply optN_eqb_eq | apply optN_eqb_eq]; apply H; exact Hx.
Qed.

(* what reading the marshalled contact back gives *)
Definition reload (c : contact) : contact :=
  with_urns c (map (fun x => {| cu_urn := cu_urn x; cu_chan := urn_channel E (cu_urn x) |}) (c_urns c)).

Lemma map_reload_id : forall u, Forall urn_ok u ->
  map (fun x => {| cu_urn := cu_urn x; cu_chan := urn_channel E (cu_urn x) |}) u = u.
Proof.
  induction u as [|x u IH]; intro H; [reflexivity|]. inversion H as [|? ? Hx Hu]; subst. cbn. rewrite IH by exact Hu.
  destruct x as [r ch]. unfold urn_ok in Hx. cbn in *. rewrite <- Hx. reflexivity.
Qed.

Lemma reload_ok : forall c, chan_ok c -> reload c = c.
Proof.
  intros [n l s z t u g f k] H. unfold reload, chan_ok, with_urns in *. cbn in *. rewrite map_reload_id by exact H. reflexivity.
Qed.

Lemma map_reload_erase : forall u1 u2, map erase_urn u1 = map erase_urn u2 ->
  map (fun x => {| cu_urn := cu_urn x; cu_chan := urn_channel E (cu_urn x) |}) u1
  = map (fun x => {| cu_urn := cu_urn x; cu_chan := urn_channel E (cu_urn x) |}) u2.
Proof.
  induction u1 as [|x u1 IH]; intros [|y u2] Hu; cbn in Hu; try discriminate; [reflexivity|].
  inversion Hu as [[Hxy Hrest]]. cbn. rewrite (IH u2 Hrest), Hxy. reflexivity.
Qed.

Lemma reload_erase : forall a b, erase a = erase b -> reload a = reload b.
Proof.
  intros [n1 l1 s1 z1 t1 u1 g1 f1 k1] [n2 l2 s2 z2 t2 u2 g2 f2 k2] H. unfold erase, with_urns in H. cbn in H.
  inversion H as [[Hn Hl Hs Hz Ht Hu Hg Hf Hk]]. unfold reload, with_urns. cbn.
  rewrite (map_reload_erase u1 u2 Hu). reflexivity.
Qed.

(* the contact in memory is determined by its marshalled form *)
Theorem determined_by_marshalled : forall a b, chan_ok a -> chan_ok b -> erase a = erase b -> a = b.
Proof. intros a b Ha Hb H. rewrite <- (reload_ok a Ha), <- (reload_ok b Hb). apply reload_erase. exact H. Qed.

(* ---- every modifier keeps it ------------------------------------------------------------------------------------- *)
Lemma add_urn_ok : forall us u, Forall urn_ok us -> Forall urn_ok (add_urn E us u).
Proof.
  intros us u H. unfold add_urn. destruct (has_urn E us u); [exact H|].
  apply Forall_app. split; [exact H | constructor; [reflexivity | constructor]].
Qed.

Lemma Forall_filter_ok : forall (p : curn -> bool) us, Forall urn_ok us -> Forall urn_ok (filter p us).
Proof.
  induction us as [|x us IH]; cbn; intro H; [constructor|]. inversion H; subst.
  destruct (p x); [constructor; [assumption|]|]; apply IH; assumption.
Qed.

Lemma remove_urn_ok : forall us u, Forall urn_ok us -> Forall urn_ok (remove_urn E us u).
Proof. intros us u H. unfold remove_urn. destruct (negb (has_urn E us u)); [exact H | apply Forall_filter_ok; exact H]. Qed.

Lemma urns_fold_ok : forall md todo cur, Forall urn_ok cur -> Forall urn_ok (urns_fold E md todo cur).
Proof.
  intros md todo. induction todo as [|u todo IH]; intros cur H; [exact H|]. cbn [urns_fold fold_left].
  apply IH. unfold urn_step. destruct (negb (urn_valid E (urn_normalize E u))); [exact H|].
  destruct md; [apply add_urn_ok | apply remove_urn_ok | apply add_urn_ok]; exact H.
Qed.

Definition setch_names (ch : option N) (u : N) : Prop := urn_channel E (urn_set_channel E ch u) = ch.

Lemma set_channel_ok : forall ch x, setch_names ch (cu_urn x) -> urn_ok (set_channel E ch x).
Proof. intros ch x H. unfold urn_ok, set_channel. cbn. symmetry. exact H. Qed.

Lemma prefer_step_ok : forall k x, urn_ok x -> setch_names (Some k) (cu_urn x) -> urn_ok (prefer_step E k x).
Proof.
  intros k x Hx Hs. unfold prefer_step.
  destruct (N.eqb (urn_scheme E (cu_urn x)) (tel_scheme E) && chan_supports E k (tel_scheme E)).
  - cbn [cu_chan set_channel]. apply set_channel_ok. exact Hs.
  - destruct (cu_chan x); [exact Hx|].
    destruct (chan_supports E k (urn_scheme E (cu_urn x))); [apply set_channel_ok; exact Hs | exact Hx].
Qed.

Lemma update_preferred_ok : forall ch us,
  Forall urn_ok us -> Forall (fun x => setch_names ch (cu_urn x)) us ->
  Forall urn_ok (fst (update_preferred_channel E ch us)).
Proof.
  intros ch us Hok Hs. unfold update_preferred_channel. destruct ch as [k|].
  - destruct (negb (chan_can_send E k)); [exact Hok|]. cbn [fst].
    assert (H1 : Forall urn_ok (map (prefer_step E k) us)).
    { apply Forall_forall. intros y Hy. apply in_map_iff in Hy. destruct Hy as [x [Hxy Hx]]. subst y.
      rewrite Forall_forall in Hok, Hs. apply prefer_step_ok; [apply Hok | apply Hs]; exact Hx. }
    apply Forall_app. split; apply Forall_filter_ok; exact H1.
  - cbn [fst]. apply Forall_forall. intros y Hy. apply in_map_iff in Hy. destruct Hy as [x [Hxy Hx]]. subst y.
    rewrite Forall_forall in Hs. apply set_channel_ok. apply Hs. exact Hx.
Qed.

Lemma apply_inner_chan_ok : forall fresh m c c1 evs b,
  chan_ok c -> chan_env_ok E m c = true ->
  apply_inner E fresh m c = (c1, evs, b) -> chan_ok c1.
Proof.
  intros fresh m c c1 evs b Hok Henv H. unfold chan_ok in *. destruct m; cbn [apply_inner] in H.
  - unfold apply_name in H. destruct (negb _); inversion H as [[Hc He Hb]]; try rewrite <- Hc; destruct c; cbn in *; exact Hok.
  - unfold apply_language in H. destruct (negb _); inversion H as [[Hc He Hb]]; try rewrite <- Hc; destruct c; cbn in *; exact Hok.
  - unfold apply_status in H. destruct (negb _); inversion H as [[Hc He Hb]]; try rewrite <- Hc; destruct c; cbn in *; exact Hok.
  - unfold apply_timezone in H. destruct (negb _); inversion H as [[Hc He Hb]]; try rewrite <- Hc; destruct c; cbn in *; exact Hok.
  - unfold apply_field in H. destruct (negb _); inversion H as [[Hc He Hb]]; try rewrite <- Hc; destruct c; cbn in *; exact Hok.
  - unfold apply_groups in H. destruct (negb _); [inversion H as [[Hc He Hb]]; try rewrite <- Hc; exact Hok|]. destruct md.
    + destruct (groups_add_loop E gs (c_groups c) [] []) as [[cur diff] ev]. destruct diff; inversion H as [[Hc He Hb]]; try rewrite <- Hc; destruct c; cbn in *; exact Hok.
    + destruct (groups_remove_loop E gs (c_groups c) [] []) as [[cur diff] ev]. destruct diff; inversion H as [[Hc He Hb]]; try rewrite <- Hc; destruct c; cbn in *; exact Hok.
  - unfold apply_urns in H.
    destruct (urns_loop_spec E md us (match md with USet => [] | _ => c_urns c end) []) as [errs [HL _]].
    rewrite HL in H.
    assert (Hc : Forall urn_ok (urns_fold E md us (match md with USet => [] | _ => c_urns c end)))
      by (apply urns_fold_ok; destruct md; [exact Hok | exact Hok | constructor]).
    destruct (negb _); inversion H as [[Hc1 He Hb]]; try rewrite <- Hc1; destruct c; cbn in *; exact Hc.
  - unfold apply_channel in H.
    destruct (match ch with Some k => negb (chan_can_send E k) | None => false end); [inversion H as [[Hc He Hb]]; try rewrite <- Hc; exact Hok|].
    assert (Hs : Forall (fun x => setch_names ch (cu_urn x)) (c_urns c)).
    { cbn [chan_env_ok] in Henv. rewrite forallb_forall in Henv. apply Forall_forall. intros x Hx.
      apply optN_eqb_eq. assert (Hin : In (cu_urn x) (raw_urns (c_urns c))) by (unfold raw_urns; apply in_map; exact Hx).
      specialize (Henv _ Hin). apply andb_true_iff in Henv. tauto. }
    pose proof (update_preferred_ok ch (c_urns c) Hok Hs) as Hu.
    destruct (update_preferred_channel E ch (c_urns c)) as [us' [|]]; inversion H as [[Hc He Hb]]; try rewrite <- Hc; destruct c; cbn in *; exact Hu.
  - unfold apply_ticket in H. destruct (c_ticket c) eqn:Ht; inversion H as [[Hc He Hb]]; try rewrite <- Hc; destruct c; cbn in *; exact Hok.
Qed.

(* a channel modifier changes affinity and order only: the identities (scheme + path) of the contact's URNs are the
   same afterwards (since fix F3m; before, SetChannel re-normalized the path, e.g. tel:12065551212 -> tel:+12065551212) *)
Definition ident_of (x : curn) : N := urn_identity E (cu_urn x).

Lemma prefer_step_ident : forall k x,
  urn_identity E (urn_set_channel E (Some k) (cu_urn x)) = urn_identity E (cu_urn x) ->
  ident_of (prefer_step E k x) = ident_of x.
Proof.
  intros k x H. unfold prefer_step, ident_of.
  destruct (N.eqb (urn_scheme E (cu_urn x)) (tel_scheme E) && chan_supports E k (tel_scheme E)); cbn [cu_urn cu_chan set_channel].
  - exact H.
  - destruct (cu_chan x); [reflexivity|].
    destruct (chan_supports E k (urn_scheme E (cu_urn x))); [exact H | reflexivity].
Qed.

Theorem channel_keeps_identities : forall ch c c1 evs b i,
  chan_env_ok E (MChannel ch) c = true ->
  apply_channel E ch c = (c1, evs, b) ->
  (In i (map ident_of (c_urns c1)) <-> In i (map ident_of (c_urns c))).
Proof.
  intros ch c c1 evs b i Henv H. unfold apply_channel in H.
  destruct (match ch with Some k => negb (chan_can_send E k) | None => false end);
    [inversion H as [[Hc He Hb]]; try rewrite <- Hc; tauto|].
  assert (Hs : forall x, In x (c_urns c) -> urn_identity E (urn_set_channel E ch (cu_urn x)) = urn_identity E (cu_urn x)).
  { intros x Hx. cbn [chan_env_ok] in Henv. rewrite forallb_forall in Henv.
    assert (Hin : In (cu_urn x) (raw_urns (c_urns c))) by (unfold raw_urns; apply in_map; exact Hx).
    specialize (Henv _ Hin). apply andb_true_iff in Henv. destruct Henv as [_ K]. apply N.eqb_eq in K. exact K. }
  assert (Hu : In i (map ident_of (fst (update_preferred_channel E ch (c_urns c)))) <-> In i (map ident_of (c_urns c))).
  { unfold update_preferred_channel. destruct ch as [k|].
    - destruct (negb (chan_can_send E k)); [tauto|]. cbn [fst].
      set (us1 := map (prefer_step E k) (c_urns c)).
      assert (H1 : In i (map ident_of us1) <-> In i (map ident_of (c_urns c))).
      { unfold us1. rewrite map_map. rewrite !in_map_iff. split; intros [x [Hx1 Hx2]]; exists x; split; try exact Hx2;
          [rewrite <- (prefer_step_ident k x (Hs x Hx2)); exact Hx1 | rewrite (prefer_step_ident k x (Hs x Hx2)); exact Hx1]. }
      rewrite <- H1. rewrite map_app, in_app_iff, !in_map_iff. split.
      + intros [[x [Hx1 Hx2]]|[x [Hx1 Hx2]]]; apply filter_In in Hx2; exists x; tauto.
      + intros [x [Hx1 Hx2]]. destruct (has_chan k x) eqn:Hh; [left | right]; exists x; split; try exact Hx1;
          apply filter_In; split; try exact Hx2; [exact Hh | rewrite Hh; reflexivity].
    - cbn [fst]. rewrite map_map. rewrite !in_map_iff. split; intros [x [Hx1 Hx2]]; exists x; split; try exact Hx2;
        unfold ident_of, set_channel in *; cbn [cu_urn] in *; [rewrite <- (Hs x Hx2); exact Hx1 | rewrite (Hs x Hx2); exact Hx1]. }
  destruct (update_preferred_channel E ch (c_urns c)) as [us' [|]]; cbn [fst] in Hu;
    inversion H as [[Hc He Hb]]; try rewrite <- Hc; destruct c; cbn in *; exact Hu.
Qed.

Theorem chan_ok_apply : forall fresh m c c' evs b,
  chan_ok c -> chan_env_ok E m c = true ->
  apply E fresh m c = (c', evs, b) -> chan_ok c'.
Proof.
  intros fresh m c c' evs b Hok Henv H. unfold apply in H.
  destruct (apply_inner E fresh m c) as [[c1 evs1] b1] eqn:HI.
  pose proof (apply_inner_chan_ok fresh m c c1 evs1 b1 Hok Henv HI) as H1.
  destruct b1; [|inversion H; subst; exact H1].
  unfold reevaluate_groups in H. destruct (reevaluate_query_groups E c1) as [[cur added] removed].
  destruct (negb (is_active c1)); inversion H; subst; unfold chan_ok in *; destruct c1; exact H1.
Qed.

(* C03 on the whole contact (pointers included): reading the replayed contact back gives exactly the contact afterwards *)
Theorem replay_modifier_exact : forall fresh m c c' evs b,
  wf_contact E c -> mod_wf E m -> chan_ok c -> chan_env_ok E m c = true ->
  apply E fresh m c = (c', evs, b) ->
  reload (replay evs c) = c' /\ chan_ok c'.
Proof.
  intros fresh m c c' evs b Hwf Hm Hok Henv H.
  pose proof (chan_ok_apply fresh m c c' evs b Hok Henv H) as Hok'. split; [|exact Hok'].
  rewrite (reload_erase _ _ (replay_modifier E fresh m c c' evs b Hwf Hm H)). apply reload_ok. exact Hok'.
Qed.

(* a modifier that reports no change leaves the contact in memory exactly as it was; one that reports a change
   changes what is marshalled *)
Theorem unmodified_untouched : forall fresh m c c' evs,
  wf_contact E c -> mod_wf E m -> chan_ok c -> chan_env_ok E m c = true ->
  apply E fresh m c = (c', evs, false) -> c' = c.
Proof.
  intros fresh m c c' evs Hwf Hm Hok Henv H.
  destruct (after_noop_modifier E fresh m c c' evs Hwf Hm H) as [He _].
  exact (determined_by_marshalled c' c (chan_ok_apply fresh m c c' evs false Hok Henv H) Hok He).
Qed.

End Chan.

(* before fix F3g the URNs modifier did not keep it (model of the old code: add_urn with a nil pointer): setting the
   URN list a contact already has reported no change and dropped the pointer.  With the fix the same input is a no-op
   on the whole contact: *)
Definition chan_env : menv :=
  {| max_field_chars := 640;
     urn_norm1 := fun u => u; urn_valid := fun _ => true; urn_identity := fun u => u mod 100; urn_scheme := fun _ => 1;
     urn_set_channel := fun ch u => match ch with Some k => 100 * (k + 1) + u mod 100 | None => u mod 100 end;
     urn_channel := fun u => if u <? 100 then None else Some (u / 100 - 1); tel_scheme := 1;
     chan_can_send := fun _ => true; chan_supports := fun _ _ => true;
     field_types := [FText];
     parse_num := fun _ => None; parse_dt := fun _ => None; parse_loc := fun _ _ _ => ([], [], []);
     all_groups := [0; 1]; uses_query := fun g => N.eqb g 1;
     matches := fun _ c => text_eqb (c_name c) [98; 111; 98] |}.

Definition chan_contact : contact :=
  {| c_name := [106]; c_lang := 1; c_status := Active; c_tz := None; c_last_seen := None;
     c_urns := [{| cu_urn := 302; cu_chan := Some 2 |}]; c_groups := [0]; c_fields := []; c_ticket := None |}.

Example ex_chan_ok : chan_ok chan_env chan_contact /\ chan_env_ok chan_env (MChannel (Some 4)) chan_contact = true.
Proof. split; [repeat constructor | reflexivity]. Qed.

Example ex_set_same_urns : apply chan_env 7 (MURNs [302] USet) chan_contact = (chan_contact, [], false).
Proof. reflexivity. Qed.

Example ex_channel_change :
  apply chan_env 7 (MChannel (Some 4)) chan_contact
  = (with_urns chan_contact [{| cu_urn := 502; cu_chan := Some 4 |}], [EURNsChanged [502]], true).
Proof. reflexivity. Qed.
