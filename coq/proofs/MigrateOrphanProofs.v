(* MigrateOrphanProofs.v -- the translations of a catalogued member of an action or router are rewritten by Migrate13_3
   exactly once, with tx, whether or not the action has the member in the base language (the content of repair 9753d74):
   if it has, the transform reaches them and the step for unreachable translations stays away; if it has not, only that
   step rewrites them. *)
From Coq Require Import List NArith ZArith Bool String Lia.
From Verif Require Import lib.Json gen.MigrationTable model.Migrate model.MigrateValid proofs.MigrateProofs proofs.MigrateValidProofs proofs.MigrateFrameProofs.
Import ListNotations.
Open Scope N_scope.

Section Once.
  Variable tx : str -> str.

  (* what rewriting does to the translation of (uuid, prop) in one language *)
  Lemma get_after_set : forall uuid prop trans lt,
    get_translation uuid prop (set_translation uuid prop trans lt) = Some trans.
  Proof.
    intros uuid prop trans lt. unfold get_translation, set_translation, get_obj.
    destruct (olookup uuid lt) as [[| | | | |it]|] eqn:E; rewrite olookup_oset_same; unfold item_get;
      try rewrite olookup_oset_same; cbn [olookup]; rewrite ?str_eqb_refl; unfold strings; rewrite map_map; cbn [string_or_empty];
      now rewrite map_id.
  Qed.

  Definition rewrite_language (uuid prop : str) (lt : obj) : obj :=
    match get_translation uuid prop lt with
    | Some trans => set_translation uuid prop (map tx trans) lt
    | None => lt
    end.

  Lemma rewrite_language_get : forall uuid prop lt,
    get_translation uuid prop (rewrite_language uuid prop lt) = option_map (map tx) (get_translation uuid prop lt).
  Proof.
    intros uuid prop lt. unfold rewrite_language. destruct (get_translation uuid prop lt) as [trans|] eqn:E; cbn [option_map].
    - apply get_after_set.
    - exact E.
  Qed.

  Lemma rewrite_translations_is : forall uuid prop loc,
    rewrite_translations tx uuid prop loc = for_languages (rewrite_language uuid prop) loc.
  Proof. reflexivity. Qed.

  (* the transform along a one-step path: the localization is rewritten iff the object has the member *)
  Lemma one_step_transform_loc : forall m loc o,
    str_eqb m star = false -> nonempty (object_uuid o) = true -> nonempty m = true -> NoDup (map fst o) ->
    fst (visit tx [m] loc (JObj o))
    = if ohas m o then option_map (rewrite_translations tx (object_uuid o) m) loc else loc.
  Proof.
    intros m loc o Hstar Hu Hm Hnd. rewrite visit_obj.
    set (F := option_map (rewrite_translations tx (object_uuid o) m)).
    assert (Hl : forall l loc0, NoDup (map fst l) ->
               fst (map_st (obj_entry tx m [] (JObj o)) loc0 l) = if ohas m l then F loc0 else loc0).
    { induction l as [|[k v] l IHl]; intros loc0 Hd; [reflexivity|]. cbn [map_st].
      inversion Hd as [|? ? Hnin Hd']; subst.
      unfold obj_entry at 1. rewrite Hstar, orb_false_r. unfold ohas. cbn [olookup]. rewrite (str_eqb_sym m k).
      destruct (str_eqb k m) eqn:E.
      - apply str_eqb_eq in E. subst k. unfold value_step, txl. rewrite Hu, Hm. cbn [andb fst].
        fold F. fold (F loc0).
        specialize (IHl (F loc0) Hd'). destruct (map_st (obj_entry tx m [] (JObj o)) (F loc0) l) as [loc2 r]. cbn [fst] in *.
        rewrite IHl. unfold ohas. destruct (olookup m l) as [v'|] eqn:El; [|reflexivity].
        exfalso. apply Hnin. apply olookup_In in El. now apply (in_map fst) in El.
      - specialize (IHl loc0 Hd'). destruct (map_st (obj_entry tx m [] (JObj o)) loc0 l) as [loc2 r]. cbn [fst] in *. exact IHl. }
    specialize (Hl o loc Hnd). destruct (map_st (obj_entry tx m [] (JObj o)) loc o) as [loc' o']. exact Hl.
  Qed.

  (* Migrate13_3 on one catalogue path that names a member m of the action / router itself *)
  Lemma translations_rewritten_once : forall p m loc o,
    steps_of p = Some [m] ->
    split_last_dot (trim_suffix star_suffix (s p)) = Some ([], m) ->
    str_eqb m star = false -> str_eqb m k_uuid = false -> nonempty m = true ->
    nonempty (object_uuid o) = true -> NoDup (map fst o) ->
    fst (rewrite_path tx loc o p) = option_map (rewrite_translations tx (object_uuid o) m) loc.
  Proof.
    intros p m loc o Hs Hsplit Hstar Huuid Hm Hu Hnd. unfold rewrite_path, rewrite_templates. fold (steps_of p). rewrite Hs.
    pose proof (one_step_transform_loc m loc o Hstar Hu Hm Hnd) as Hloc.
    pose proof (visit_is_object tx [m] loc (JObj o)) as Hobj.
    destruct (visit tx [m] loc (JObj o)) as [loc1 j1] eqn:Ev. cbn [fst snd] in *.
    destruct j1 as [| | | | |o1]; try discriminate Hobj.
    assert (Ev' : snd (visit tx [m] loc (JObj o)) = JObj o1) by now rewrite Ev.
    (* the object after the transform has the member iff it had it, and the same uuid *)
    assert (Hhas : ohas m o1 = ohas m o).
    { pose proof (visit_obj_at tx m [] loc o Hstar o1 Ev') as Hat. unfold ohas.
      destruct (olookup m o) as [v|]; [destruct Hat as [loc0 ->]; reflexivity | now rewrite Hat]. }
    assert (Hsame : object_uuid o1 = object_uuid o).
    { unfold object_uuid, get_str. rewrite (visit_obj_other tx m [] loc o k_uuid Hstar); [reflexivity| |exact Ev'].
      now rewrite str_eqb_sym. }
    unfold rewrite_orphans. rewrite Hsplit, Hstar. cbn [fold_left]. rewrite Hhas, Hsame, Hu, andb_true_r, Hloc.
    destruct (ohas m o); reflexivity.
  Qed.
  (* ---- one level down: a path <k>.<m> whose parent member k holds an object (templating.variables) ----------------- *)

  (* the transform along a one-step path, with or without a uuid on the object *)
  Lemma one_step_transform_loc' : forall m loc o,
    str_eqb m star = false -> nonempty m = true -> NoDup (map fst o) ->
    fst (visit tx [m] loc (JObj o))
    = if nonempty (object_uuid o) && ohas m o then option_map (rewrite_translations tx (object_uuid o) m) loc else loc.
  Proof.
    intros m loc o Hstar Hm Hnd. destruct (nonempty (object_uuid o)) eqn:Hu.
    - cbn [andb]. now apply one_step_transform_loc.
    - cbn [andb]. rewrite visit_obj.
      assert (Hl : forall l loc0, fst (map_st (obj_entry tx m [] (JObj o)) loc0 l) = loc0).
      { induction l as [|[k v] l IHl]; intro loc0; [reflexivity|]. cbn [map_st].
        unfold obj_entry at 1. rewrite Hstar, orb_false_r. destruct (str_eqb k m).
        - unfold value_step, txl. rewrite Hu. cbn [andb fst].
          specialize (IHl loc0). destruct (map_st (obj_entry tx m [] (JObj o)) loc0 l) as [loc2 r]. exact IHl.
        - specialize (IHl loc0). destruct (map_st (obj_entry tx m [] (JObj o)) loc0 l) as [loc2 r]. exact IHl. }
      specialize (Hl o loc). destruct (map_st (obj_entry tx m [] (JObj o)) loc o) as [loc' o']. exact Hl.
  Qed.

  (* the transform along k :: rem through an object with unique keys: what the rest of the path does at member k *)
  Lemma keyed_step_loc : forall k rem loc o,
    str_eqb k star = false -> NoDup (map fst o) ->
    fst (visit tx (k :: rem) loc (JObj o))
    = match olookup k o with Some v => fst (value_step tx rem (JObj o) (Some k) loc v) | None => loc end.
  Proof.
    intros k rem loc o Hstar Hnd. rewrite visit_obj.
    assert (Hl : forall l loc0, NoDup (map fst l) ->
               fst (map_st (obj_entry tx k rem (JObj o)) loc0 l)
               = match olookup k l with Some v => fst (value_step tx rem (JObj o) (Some k) loc0 v) | None => loc0 end).
    { induction l as [|[k0 v] l IHl]; intros loc0 Hd; [reflexivity|]. cbn [map_st].
      inversion Hd as [|? ? Hnin Hd']; subst.
      unfold obj_entry at 1. rewrite Hstar, orb_false_r. cbn [olookup]. rewrite (str_eqb_sym k k0).
      destruct (str_eqb k0 k) eqn:E.
      - apply str_eqb_eq in E. subst k0.
        destruct (value_step tx rem (JObj o) (Some k) loc0 v) as [loc1 v1]. cbn [fst].
        specialize (IHl loc1 Hd'). destruct (map_st (obj_entry tx k rem (JObj o)) loc1 l) as [loc2 r]. cbn [fst] in *.
        rewrite IHl. destruct (olookup k l) as [v'|] eqn:El; [|reflexivity].
        exfalso. apply Hnin. apply olookup_In in El. now apply (in_map fst) in El.
      - specialize (IHl loc0 Hd'). destruct (map_st (obj_entry tx k rem (JObj o)) loc0 l) as [loc2 r]. cbn [fst] in *. exact IHl. }
    specialize (Hl o loc Hnd). destruct (map_st (obj_entry tx k rem (JObj o)) loc o) as [loc' o']. exact Hl.
  Qed.

  Lemma flat_map_keyed : forall {B} (g : json -> list B) k (o : obj),
    str_eqb k star = false -> NoDup (map fst o) ->
    flat_map (fun kv : str * json => if str_eqb (fst kv) k || str_eqb k star then g (snd kv) else []) o
    = match olookup k o with Some v => g v | None => [] end.
  Proof.
    intros B g k o Hstar. induction o as [|[k0 v] o IH]; intro Hd; [reflexivity|].
    inversion Hd as [|? ? Hnin Hd']; subst.
    change (flat_map (fun kv : str * json => if str_eqb (fst kv) k || str_eqb k star then g (snd kv) else []) ((k0, v) :: o))
      with ((if str_eqb k0 k || str_eqb k star then g v else [])
            ++ flat_map (fun kv : str * json => if str_eqb (fst kv) k || str_eqb k star then g (snd kv) else []) o).
    rewrite (IH Hd'), Hstar, orb_false_r. cbn [olookup]. rewrite (str_eqb_sym k k0).
    destruct (str_eqb k0 k) eqn:E; [|reflexivity].
    apply str_eqb_eq in E. subst k0. destruct (olookup k o) as [v'|] eqn:El; [|apply app_nil_r].
    exfalso. apply Hnin. apply olookup_In in El. now apply (in_map fst) in El.
  Qed.

  (* jsonpath.Visit along one keyed step of an object with unique keys *)
  Lemma visit_values_keyed : forall k o,
    str_eqb k star = false -> NoDup (map fst o) ->
    visit_values [k] (JObj o) = match olookup k o with Some v => [v] | None => [] end.
  Proof.
    intros k o Hstar Hd.
    change (visit_values [k] (JObj o))
      with (flat_map (fun kv : str * json => if str_eqb (fst kv) k || str_eqb k star then visit_values [] (snd kv) else []) o).
    rewrite (flat_map_keyed (visit_values []) k o Hstar Hd). reflexivity.
  Qed.

  Lemma txr_obj_keys : forall o o', MigrateFrameProofs.txr_obj tx o o' -> map fst o' = map fst o.
  Proof.
    induction o as [|[k x] o IH]; intros [|[k' y] o'] H; cbn in H; try contradiction; [reflexivity|].
    destruct H as [-> [_ H]]. cbn [map fst]. now rewrite (IH o' H).
  Qed.

  (* Migrate13_3 on a catalogue path <k>.<m> where member k of the action holds an object c (the templating object and
     its variables): the translations of (uuid of c, m) are rewritten exactly once when c has a uuid -- by the transform
     when c has m, by the step for unreachable translations when it has not -- and nothing else is *)
  Lemma translations_rewritten_once_below : forall p parent k m loc o c,
    steps_of p = Some [k; m] ->
    split_last_dot (trim_suffix star_suffix (s p)) = Some (parent, m) -> parent <> [] ->
    parse_path (dollar ++ parent) = Some [k] ->
    str_eqb k star = false -> str_eqb m star = false -> str_eqb m k_uuid = false -> nonempty m = true ->
    NoDup (map fst o) -> NoDup (map fst c) -> olookup k o = Some (JObj c) ->
    fst (rewrite_path tx loc o p)
    = if nonempty (object_uuid c) then option_map (rewrite_translations tx (object_uuid c) m) loc else loc.
  Proof.
    intros p parent k m loc o c Hs Hsplit Hpar Hpp Hk Hstar Huuid Hm Hnd Hndc Hc.
    unfold rewrite_path, rewrite_templates. fold (steps_of p). rewrite Hs.
    pose proof (keyed_step_loc k [m] loc o Hk Hnd) as Hloc. rewrite Hc in Hloc. unfold value_step in Hloc.
    rewrite (one_step_transform_loc' m loc c Hstar Hm Hndc) in Hloc.
    pose proof (visit_is_object tx [k; m] loc (JObj o)) as Hobj.
    pose proof (MigrateFrameProofs.visit_txr tx [k; m] loc (JObj o)) as Htxr.
    destruct (visit tx [k; m] loc (JObj o)) as [loc1 j1] eqn:Ev. cbn [fst snd] in *.
    destruct j1 as [| | | | |o1]; try discriminate Hobj.
    assert (Ev' : snd (visit tx [k; m] loc (JObj o)) = JObj o1) by now rewrite Ev.
    (* member k of the transformed action: an object with the same uuid which has m iff c has *)
    pose proof (visit_obj_at tx k [m] loc o Hk o1 Ev') as Hat. rewrite Hc in Hat. destruct Hat as [loc0 Hat].
    unfold value_step in Hat.
    pose proof (visit_is_object tx [m] loc0 (JObj c)) as Hobj1.
    destruct (visit tx [m] loc0 (JObj c)) as [loc2 j2] eqn:Ev2. cbn [snd] in *.
    destruct j2 as [| | | | |c1]; try discriminate Hobj1.
    assert (Ev2' : snd (visit tx [m] loc0 (JObj c)) = JObj c1) by now rewrite Ev2.
    assert (Hhas : ohas m c1 = ohas m c).
    { pose proof (visit_obj_at tx m [] loc0 c Hstar c1 Ev2') as H1. unfold ohas.
      destruct (olookup m c) as [v|]; [destruct H1 as [l0 ->]; reflexivity | now rewrite H1]. }
    assert (Hsame : object_uuid c1 = object_uuid c).
    { unfold object_uuid, get_str. rewrite (visit_obj_other tx m [] loc0 c k_uuid Hstar); [reflexivity| |exact Ev2'].
      now rewrite str_eqb_sym. }
    assert (Hnd1 : NoDup (map fst o1)).
    { apply MigrateFrameProofs.txr_obj_unfold in Htxr. now rewrite (txr_obj_keys o o1 Htxr). }
    unfold rewrite_orphans. rewrite Hsplit, Hstar. destruct parent as [|pc parent']; [congruence|].
    rewrite Hpp, (visit_values_keyed k o1 Hk Hnd1), Hat. cbn [fold_left]. rewrite Hhas, Hsame, Hloc.
    destruct (nonempty (object_uuid c)), (ohas m c); reflexivity.
  Qed.
End Once.

(* the hypotheses can be met: the quick replies of a send_msg, path ".quick_replies[*]" of the generated catalogue *)
Example rewritten_once_applies :
  steps_of ".quick_replies[*]" = Some [s "quick_replies"]
  /\ split_last_dot (trim_suffix star_suffix (s ".quick_replies[*]")) = Some ([], s "quick_replies")
  /\ In ".quick_replies[*]"%string (catalog_paths catalog_actions (s "send_msg")).
Proof. vm_compute. auto. Qed.

Example rewritten_once_below_applies :
  steps_of ".templating.variables[*]" = Some [s "templating"; s "variables"]
  /\ split_last_dot (trim_suffix star_suffix (s ".templating.variables[*]")) = Some (s ".templating", s "variables")
  /\ parse_path (dollar ++ s ".templating") = Some [s "templating"]
  /\ In ".templating.variables[*]"%string (catalog_paths catalog_actions (s "send_msg")).
Proof. repeat split; try (vm_compute; reflexivity). vm_compute. intuition. Qed.
