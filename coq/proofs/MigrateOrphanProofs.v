(* MigrateOrphanProofs.v -- the translations of a catalogued member of an action or router are rewritten by Migrate13_3
   exactly once, with tx, whether or not the action has the member in the base language (the content of repair 9753d74):
   if it has, the transform reaches them and the step for unreachable translations stays away; if it has not, only that
   step rewrites them. *)
From Coq Require Import List NArith ZArith Bool String Lia.
From Verif Require Import lib.Json gen.MigrationTable model.Migrate model.MigrateValid proofs.MigrateProofs proofs.MigrateValidProofs.
Import ListNotations.
Open Scope N_scope.

Section Once.
  Variable tx : str -> str.

  (* what rewriting does to the translation of (uuid, prop) in one language *)
  Lemma get_after_set : forall uuid prop trans lt,
    get_translation uuid prop (set_translation uuid prop trans lt) = Some trans.
  Proof.
    intros uuid prop trans lt. unfold get_translation, set_translation, get_obj.
    destruct (olookup uuid lt) as [[| | | | |it]|] eqn:E; rewrite olookup_oset_same; unfold item_get;
      try rewrite olookup_oset_same; cbn [olookup]; rewrite ?str_eqb_refl; unfold strings; rewrite map_map; cbn [string_or_empty];
      now rewrite map_id.
  Qed.

  Definition rewrite_language (uuid prop : str) (lt : obj) : obj :=
    match get_translation uuid prop lt with
    | Some trans => set_translation uuid prop (map tx trans) lt
    | None => lt
    end.

  Lemma rewrite_language_get : forall uuid prop lt,
    get_translation uuid prop (rewrite_language uuid prop lt) = option_map (map tx) (get_translation uuid prop lt).
  Proof.
    intros uuid prop lt. unfold rewrite_language. destruct (get_translation uuid prop lt) as [trans|] eqn:E; cbn [option_map].
    - apply get_after_set.
    - exact E.
  Qed.

  Lemma rewrite_translations_is : forall uuid prop loc,
    rewrite_translations tx uuid prop loc = for_languages (rewrite_language uuid prop) loc.
  Proof. reflexivity. Qed.

  (* the transform along a one-step path: the localization is rewritten iff the object has the member *)
  Lemma one_step_transform_loc : forall m loc o,
    str_eqb m star = false -> nonempty (object_uuid o) = true -> nonempty m = true -> NoDup (map fst o) ->
    fst (visit tx [m] loc (JObj o))
    = if ohas m o then option_map (rewrite_translations tx (object_uuid o) m) loc else loc.
  Proof.
    intros m loc o Hstar Hu Hm Hnd. rewrite visit_obj.
    set (F := option_map (rewrite_translations tx (object_uuid o) m)).
    assert (Hl : forall l loc0, NoDup (map fst l) ->
               fst (map_st (obj_entry tx m [] (JObj o)) loc0 l) = if ohas m l then F loc0 else loc0).
    { induction l as [|[k v] l IHl]; intros loc0 Hd; [reflexivity|]. cbn [map_st].
      inversion Hd as [|? ? Hnin Hd']; subst.
      unfold obj_entry at 1. rewrite Hstar, orb_false_r. unfold ohas. cbn [olookup]. rewrite (str_eqb_sym m k).
      destruct (str_eqb k m) eqn:E.
      - apply str_eqb_eq in E. subst k. unfold value_step, txl. rewrite Hu, Hm. cbn [andb fst].
        fold F. fold (F loc0).
        specialize (IHl (F loc0) Hd'). destruct (map_st (obj_entry tx m [] (JObj o)) (F loc0) l) as [loc2 r]. cbn [fst] in *.
        rewrite IHl. unfold ohas. destruct (olookup m l) as [v'|] eqn:El; [|reflexivity].
        exfalso. apply Hnin. apply olookup_In in El. now apply (in_map fst) in El.
      - specialize (IHl loc0 Hd'). destruct (map_st (obj_entry tx m [] (JObj o)) loc0 l) as [loc2 r]. cbn [fst] in *. exact IHl. }
    specialize (Hl o loc Hnd). destruct (map_st (obj_entry tx m [] (JObj o)) loc o) as [loc' o']. exact Hl.
  Qed.

  (* Migrate13_3 on one catalogue path that names a member m of the action / router itself *)
  Lemma translations_rewritten_once : forall p m loc o,
    steps_of p = Some [m] ->
    split_last_dot (trim_suffix star_suffix (s p)) = Some ([], m) ->
    str_eqb m star = false -> str_eqb m k_uuid = false -> nonempty m = true ->
    nonempty (object_uuid o) = true -> NoDup (map fst o) ->
    fst (rewrite_path tx loc o p) = option_map (rewrite_translations tx (object_uuid o) m) loc.
  Proof.
    intros p m loc o Hs Hsplit Hstar Huuid Hm Hu Hnd. unfold rewrite_path, rewrite_templates. fold (steps_of p). rewrite Hs.
    pose proof (one_step_transform_loc m loc o Hstar Hu Hm Hnd) as Hloc.
    pose proof (visit_is_object tx [m] loc (JObj o)) as Hobj.
    destruct (visit tx [m] loc (JObj o)) as [loc1 j1] eqn:Ev. cbn [fst snd] in *.
    destruct j1 as [| | | | |o1]; try discriminate Hobj.
    assert (Ev' : snd (visit tx [m] loc (JObj o)) = JObj o1) by now rewrite Ev.
    (* the object after the transform has the member iff it had it, and the same uuid *)
    assert (Hhas : ohas m o1 = ohas m o).
    { pose proof (visit_obj_at tx m [] loc o Hstar o1 Ev') as Hat. unfold ohas.
      destruct (olookup m o) as [v|]; [destruct Hat as [loc0 ->]; reflexivity | now rewrite Hat]. }
    assert (Hsame : object_uuid o1 = object_uuid o).
    { unfold object_uuid, get_str. rewrite (visit_obj_other tx m [] loc o k_uuid Hstar); [reflexivity| |exact Ev'].
      now rewrite str_eqb_sym. }
    unfold rewrite_orphans. rewrite Hsplit, Hstar. cbn [fold_left]. rewrite Hhas, Hsame, Hu, andb_true_r, Hloc.
    destruct (ohas m o); reflexivity.
  Qed.
End Once.

(* the hypotheses can be met: the quick replies of a send_msg, path ".quick_replies[*]" of the generated catalogue *)
Example rewritten_once_applies :
  steps_of ".quick_replies[*]" = Some [s "quick_replies"]
  /\ split_last_dot (trim_suffix star_suffix (s ".quick_replies[*]")) = Some ([], s "quick_replies")
  /\ In ".quick_replies[*]"%string (catalog_paths catalog_actions (s "send_msg")).
Proof. vm_compute. auto. Qed.
