(* CqlEvalProofs.v — lemmas about model/CqlEval.v for property C15, and the specification-side
   definitions ([typed_qp], [typed_contact], [wf], [big], calendars) written from the property sentence. *)
From Coq Require Import List NArith ZArith Bool Lia.
From Verif Require Import model.CqlEval.
Import ListNotations.

(* ---- generalities ------------------------------------------------------------------------------- *)

Lemma text_eqb_eq : forall a b, text_eqb a b = true -> a = b.
Proof.
  induction a as [|x a IH]; destruct b as [|y b]; simpl; intros H; try discriminate; auto.
  apply andb_true_iff in H. destruct H as [H1 H2]. apply N.eqb_eq in H1. subst. f_equal. auto.
Qed.

Lemma text_eqb_refl : forall a, text_eqb a a = true.
Proof. induction a; simpl; auto. rewrite N.eqb_refl. auto. Qed.

Section NodeInd.
  Variable P : node -> Prop.
  Hypothesis Hc : forall pt k o v, P (Cond pt k o v).
  Hypothesis Hb : forall b ch, Forall P ch -> P (Comb b ch).
  Fixpoint node_ind' (q : node) : P q :=
    match q with
    | Cond pt k o v => Hc pt k o v
    | Comb b ch =>
        Hb b ch ((fix go (l : list node) : Forall P l :=
                    match l with
                    | [] => Forall_nil P
                    | x :: r => Forall_cons x (node_ind' x) (go r)
                    end) ch)
    end.
End NodeInd.

Definition as_bool (x : res) : bool := match x with RBool b => b | Panic => false end.

(* ---- typing of the values a Queryable supplies ------------------------------------------------- *)

(* what evaluateConditionWithValue's type assertions demand of a value of a property whose resolved
   value type is vt *)
Definition val_has_type (vt : option ftype) (v : qval) : Prop :=
  match vt with
  | Some FNumber => exists d, v = VNum d
  | Some FDatetime => exists t, v = VTime t
  | _ => exists s, v = VText s
  end.

Definition typed_qp (r : resolver) (qp : ptype -> text -> list qval) : Prop :=
  forall pt key v, In v (qp pt key) -> val_has_type (resolve_value_type r pt key) v.

(* the resolver the query was parsed with knows the contact's fields under the same types *)
Definition typed_contact (r : resolver) (c : contact) : Prop :=
  forall key ft fv, assoc key (c_fields c) = Some (ft, fv) -> r_field r key = Some ft.

Lemma query_property_typed : forall r c, typed_contact r c -> typed_qp r (query_property c).
Proof.
  intros r c Ht pt key v Hin. destruct pt; simpl in *.
  - (* attributes *)
    unfold attr_type.
    destruct (text_eqb key k_uuid) eqn:E1.
    { apply text_eqb_eq in E1. subst. simpl in *. destruct Hin as [<-|[]]. eauto. }
    destruct (text_eqb key k_name) eqn:E2.
    { apply text_eqb_eq in E2. subst. simpl in *. destruct (is_nil (c_name c)); simpl in Hin; [contradiction|].
      destruct Hin as [<-|[]]. eauto. }
    destruct (text_eqb key k_language) eqn:E3.
    { apply text_eqb_eq in E3. subst. simpl in *. destruct (is_nil (c_lang c)); simpl in Hin; [contradiction|].
      destruct Hin as [<-|[]]. eauto. }
    destruct (text_eqb key k_urn) eqn:E4.
    { apply text_eqb_eq in E4. subst. simpl in *. apply in_map_iff in Hin. destruct Hin as [u [<- _]]. eauto. }
    destruct (text_eqb key k_tickets) eqn:E5.
    { apply text_eqb_eq in E5. subst. simpl in *. destruct Hin as [<-|[]]. eauto. }
    destruct (text_eqb key k_created_on) eqn:E6.
    { apply text_eqb_eq in E6. subst. simpl in *. destruct Hin as [<-|[]]. eauto. }
    destruct (text_eqb key k_last_seen_on) eqn:E7.
    { apply text_eqb_eq in E7. subst. simpl in *. destruct (c_last_seen c); simpl in Hin; [|contradiction].
      destruct Hin as [<-|[]]. eauto. }
    contradiction.
  - (* URN schemes *)
    apply in_map_iff in Hin. destruct Hin as [u [<- _]]. eauto.
  - (* fields *)
    destruct (assoc key (c_fields c)) as [[ft fv]|] eqn:E; [|contradiction].
    rewrite (Ht _ _ _ E).
    destruct (query_value ft fv) as [x|] eqn:Q; simpl in Hin; [|contradiction].
    destruct Hin as [<-|[]].
    destruct ft; simpl in *.
    + inversion Q. eauto.
    + destruct (fv_num fv); inversion Q. eauto.
    + destruct (fv_dt fv); inversion Q. eauto.
    + destruct (is_nil (fv_state fv)); inversion Q. eauto.
    + destruct (is_nil (fv_district fv)); inversion Q. eauto.
    + destruct (is_nil (fv_ward fv)); inversion Q. eauto.
    + discriminate.
Qed.

(* a contact and a resolver satisfying the hypothesis exist (and the typing is not vacuous) *)
Example typed_contact_example :
  let r := {| r_field := fun k => if text_eqb k [97]%N then Some FNumber else None;
              r_group := fun _ => false; r_flow := fun _ => false |} in
  let c := {| c_uuid := [117]%N; c_name := [98]%N; c_lang := []; c_urns := [([116]%N, [49]%N)];
              c_ticket := true; c_created := 5; c_last_seen := Some 6%Z;
              c_fields := [([97]%N, (FNumber, {| fv_text := [49]%N; fv_num := Some {| d_m := 1; d_e := 0 |};
                                                fv_dt := None; fv_state := []; fv_district := [];
                                                fv_ward := [] |}))]; c_groups := [] |} in
  typed_contact r c /\ query_property c PField [97]%N = [VNum {| d_m := 1; d_e := 0 |}].
Proof.
  split; [|reflexivity].
  intros key ft fv. simpl. destruct (text_eqb key [97%N]); intros H; inversion H. reflexivity.
Qed.

(* ---- totality: the validator admits only what the evaluator handles ----------------------------- *)

Definition num_test (o : cop) (c : comparison) : bool :=
  match o with
  | OpEq => match c with Eq => true | _ => false end
  | OpNe => negb (match c with Eq => true | _ => false end)
  | OpGt => match c with Gt => true | _ => false end
  | OpGe => match c with Lt => false | _ => true end
  | OpLt => match c with Lt => true | _ => false end
  | OpLe => match c with Gt => false | _ => true end
  | OpContains => false
  end.

Lemma number_cmp_test : forall d o q, o <> OpContains ->
  number_cmp d o q = RBool (num_test o (dec_compare d q)).
Proof. intros d o q H. destruct o; try reflexivity. congruence. Qed.

Definition date_test (o : cop) (t start : Z) : bool :=
  let en := (start + day_ns)%Z in
  let on_day := (((t =? start) || (start <? t)) && (t <? en))%Z in
  match o with
  | OpEq => on_day
  | OpNe => negb on_day
  | OpGt => ((en <? t) || (t =? en))%Z
  | OpGe => ((start <? t) || (t =? start))%Z
  | OpLt => (t <? start)%Z
  | OpLe => (t <? en)%Z
  | OpContains => false
  end.

Lemma date_cmp_test : forall t o s, o <> OpContains -> date_cmp t o s = RBool (date_test o t s).
Proof. intros t o s H. destruct o; try reflexivity. congruence. Qed.

Lemma eval_values_ok : forall rs, (forall x, In x rs -> x <> Panic) ->
  eval_values rs = Some (existsb as_bool rs, forallb as_bool rs).
Proof.
  induction rs as [|x rs IH]; intros H; simpl; auto.
  destruct x as [b|]; [|exfalso; apply (H Panic); simpl; auto].
  rewrite IH; [reflexivity|]. intros y Hy. apply H. simpl. auto.
Qed.

Lemma eval_values_panic : forall rs, In Panic rs -> eval_values rs = None.
Proof.
  induction rs as [|x rs IH]; simpl; intros H; [contradiction|].
  destruct x as [b|]; auto. destruct H as [H|H]; [discriminate|]. rewrite (IH H). reflexivity.
Qed.

(* the operator/type combinations the evaluator has a branch for *)
Definition op_handled (vt : option ftype) (o : cop) : Prop :=
  match o with
  | OpEq | OpNe => True
  | OpContains => vt <> Some FNumber /\ vt <> Some FDatetime
  | _ => vt = Some FNumber \/ vt = Some FDatetime
  end.

Lemma eval_cond_value_handled : forall e r pt key o v val,
  op_handled (resolve_value_type r pt key) o ->
  val_has_type (resolve_value_type r pt key) val ->
  eval_cond_value e r pt key o v val <> Panic.
Proof.
  intros e r pt key o v val Ho Hv. unfold eval_cond_value.
  destruct (resolve_value_type r pt key) as [[]|]; simpl in Hv; destruct Hv as [x ->];
    destruct o; simpl in *; try discriminate; try tauto;
    try (destruct Ho as [Ho|Ho]; discriminate).
Qed.

Lemma validate_cond_handled : forall e r pt key o v,
  validate_cond e r pt key o v = None -> op_handled (resolve_value_type r pt key) o.
Proof.
  intros e r pt key o v H. unfold validate_cond in H.
  destruct (resolve_value_type r pt key) as [vt|] eqn:E; [|discriminate].
  destruct o; simpl; auto.
  - (* contains: only the name attribute, the urn attribute, or a URN scheme — all text *)
    destruct (is_attr pt && text_eqb key k_name) eqn:A1.
    { apply andb_true_iff in A1. destruct A1 as [A1 A2]. apply text_eqb_eq in A2. subst key.
      destruct pt; try discriminate. simpl in E. inversion E. split; discriminate. }
    destruct ((is_attr pt && text_eqb key k_urn) || is_urn pt) eqn:A2; [|discriminate].
    apply orb_true_iff in A2. destruct A2 as [A2|A2].
    { apply andb_true_iff in A2. destruct A2 as [A2 A3]. apply text_eqb_eq in A3. subst key.
      destruct pt; try discriminate. simpl in E. inversion E. split; discriminate. }
    destruct pt; try discriminate. simpl in E. inversion E. split; discriminate.
  - destruct vt; simpl in H; try discriminate; auto.
  - destruct vt; simpl in H; try discriminate; auto.
  - destruct vt; simpl in H; try discriminate; auto.
  - destruct vt; simpl in H; try discriminate; auto.
Qed.

Lemma eval_cond_no_panic : forall e r qp pt key o v,
  validate_cond e r pt key o v = None -> typed_qp r qp -> eval_cond e r qp pt key o v <> Panic.
Proof.
  intros e r qp pt key o v Hv Ht. unfold eval_cond.
  destruct (is_nil v && is_eq o); [discriminate|].
  destruct (is_nil v && is_ne o); [discriminate|].
  rewrite eval_values_ok; [discriminate|].
  intros x Hx. apply in_map_iff in Hx. destruct Hx as [val [<- Hin]].
  apply eval_cond_value_handled.
  - eapply validate_cond_handled; eauto.
  - apply Ht; auto.
Qed.

Lemma first_some_none : forall A (l : list (option A)), first_some l = None -> forall x, In x l -> x = None.
Proof.
  induction l as [|y l IH]; simpl; intros H x Hx; [contradiction|].
  destruct y; [discriminate|]. destruct Hx as [<-|Hx]; auto.
Qed.

Lemma comb_res_no_panic : forall b rs, (forall x, In x rs -> x <> Panic) -> comb_res b rs <> Panic.
Proof.
  induction rs as [|x rs IH]; intros H; simpl; [discriminate|].
  destruct x as [t|]; [|exfalso; apply (H Panic); simpl; auto].
  assert (IH' : comb_res b rs <> Panic) by (apply IH; intros y Hy; apply H; simpl; auto).
  destruct b, t; auto; discriminate.
Qed.

Lemma eval_no_panic : forall e r qp q,
  validate e r q = None -> typed_qp r qp -> eval e r qp q <> Panic.
Proof.
  intros e r qp q. induction q as [pt key o v | b ch IH] using node_ind'; intros Hv Ht.
  - simpl in *. apply eval_cond_no_panic; auto.
  - simpl in *. apply comb_res_no_panic. intros x Hx.
    apply in_map_iff in Hx. destruct Hx as [c [<- Hin]].
    rewrite Forall_forall in IH. apply IH; auto.
    apply (first_some_none _ _ Hv). apply in_map. exact Hin.
Qed.

(* the hypotheses are satisfiable with a query that is not trivial *)
Example no_panic_example :
  let e := {| e_lower := fun c => c; e_tokens := fun _ => []; e_day_start := fun _ => Some 0%Z;
              e_valid_lang := fun _ => true |} in
  let r := {| r_field := fun k => if text_eqb k [97]%N then Some FNumber else None;
              r_group := fun _ => false; r_flow := fun _ => false |} in
  let q := Comb BAnd [Cond PField [97]%N OpGe [49]%N; Cond PAttr k_created_on OpLt [50]%N] in
  validate e r q = None.
Proof. reflexivity. Qed.

(* conversely the evaluator does panic outside what the validator admits, so [eval_no_panic] has content *)
Example panic_reachable :
  let e := {| e_lower := fun c => c; e_tokens := fun _ => []; e_day_start := fun _ => None;
              e_valid_lang := fun _ => true |} in
  let r := {| r_field := fun k => Some FNumber; r_group := fun _ => false; r_flow := fun _ => false |} in
  let qp := fun (_ : ptype) (_ : text) => [VNum dec_zero] in
  eval e r qp (Cond PField k_name OpContains [49; 50]%N) = Panic
  /\ validate e r (Cond PField k_name OpContains [49; 50]%N) = Some EUnsupportedContains
  /\ eval e r qp (Cond PAttr k_name OpGt [49]%N) = Panic.
Proof. repeat split. Qed.

(* ---- AND / OR ------------------------------------------------------------------------------------ *)

Lemma comb_res_and : forall rs, (forall x, In x rs -> x <> Panic) ->
  comb_res BAnd rs = RBool (forallb as_bool rs).
Proof.
  induction rs as [|x rs IH]; intros H; simpl; auto.
  destruct x as [t|]; [|exfalso; apply (H Panic); simpl; auto].
  destruct t; simpl; auto. apply IH. intros y Hy. apply H. simpl. auto.
Qed.

Lemma comb_res_or : forall rs, (forall x, In x rs -> x <> Panic) ->
  comb_res BOr rs = RBool (existsb as_bool rs).
Proof.
  induction rs as [|x rs IH]; intros H; simpl; auto.
  destruct x as [t|]; [|exfalso; apply (H Panic); simpl; auto].
  destruct t; simpl; auto. apply IH. intros y Hy. apply H. simpl. auto.
Qed.

Lemma forallb_map : forall A B (f : A -> B) (p : B -> bool) l, forallb p (map f l) = forallb (fun x => p (f x)) l.
Proof. induction l; simpl; auto. rewrite IHl. reflexivity. Qed.

Lemma existsb_map : forall A B (f : A -> B) (p : B -> bool) l, existsb p (map f l) = existsb (fun x => p (f x)) l.
Proof. induction l; simpl; auto. rewrite IHl. reflexivity. Qed.

Lemma eval_and : forall e r qp qs, (forall q, In q qs -> eval e r qp q <> Panic) ->
  eval e r qp (Comb BAnd qs) = RBool (forallb (fun q => as_bool (eval e r qp q)) qs).
Proof.
  intros. simpl. rewrite comb_res_and, forallb_map; auto.
  intros x Hx. apply in_map_iff in Hx. destruct Hx as [q [<- Hq]]. auto.
Qed.

Lemma eval_or : forall e r qp qs, (forall q, In q qs -> eval e r qp q <> Panic) ->
  eval e r qp (Comb BOr qs) = RBool (existsb (fun q => as_bool (eval e r qp q)) qs).
Proof.
  intros. simpl. rewrite comb_res_or, existsb_map; auto.
  intros x Hx. apply in_map_iff in Hx. destruct Hx as [q [<- Hq]]. auto.
Qed.

Lemma validate_children : forall e r b qs q, validate e r (Comb b qs) = None -> In q qs -> validate e r q = None.
Proof. intros e r b qs q H Hin. simpl in H. apply (first_some_none _ _ H). apply in_map. exact Hin. Qed.

Lemma eval_and_valid : forall e r qp qs, validate e r (Comb BAnd qs) = None -> typed_qp r qp ->
  (forall q, In q qs -> exists b, eval e r qp q = RBool b)
  /\ eval e r qp (Comb BAnd qs) = RBool (forallb (fun q => as_bool (eval e r qp q)) qs).
Proof.
  intros e r qp qs Hv Ht.
  assert (Hn : forall q, In q qs -> eval e r qp q <> Panic).
  { intros q Hq. apply eval_no_panic; auto. eapply validate_children; eauto. }
  split; [|apply eval_and; auto].
  intros q Hq. specialize (Hn q Hq). destruct (eval e r qp q); [eauto|congruence].
Qed.

Lemma eval_or_valid : forall e r qp qs, validate e r (Comb BOr qs) = None -> typed_qp r qp ->
  (forall q, In q qs -> exists b, eval e r qp q = RBool b)
  /\ eval e r qp (Comb BOr qs) = RBool (existsb (fun q => as_bool (eval e r qp q)) qs).
Proof.
  intros e r qp qs Hv Ht.
  assert (Hn : forall q, In q qs -> eval e r qp q <> Panic).
  { intros q Hq. apply eval_no_panic; auto. eapply validate_children; eauto. }
  split; [|apply eval_or; auto].
  intros q Hq. specialize (Hn q Hq). destruct (eval e r qp q); [eauto|congruence].
Qed.

(* ---- simplification ----------------------------------------------------------------------------- *)

(* what ParseQuery's visitor builds: every combination has at least one child (in fact exactly two) *)
Inductive wf : node -> Prop :=
| wf_cond : forall pt k o v, wf (Cond pt k o v)
| wf_comb : forall b ch, ch <> [] -> Forall wf ch -> wf (Comb b ch).

(* shape of a simplified tree: every combination has at least two children *)
Inductive big : node -> Prop :=
| big_cond : forall pt k o v, big (Cond pt k o v)
| big_comb : forall b ch, 2 <= length ch -> Forall big ch -> big (Comb b ch).

Lemma comb_res_single : forall b x, comb_res b [x] = x.
Proof. intros b [t|]; simpl; auto. destruct b, t; reflexivity. Qed.

Lemma comb_res_app_congr : forall b l r1 r2, comb_res b r1 = comb_res b r2 ->
  comb_res b (l ++ r1) = comb_res b (l ++ r2).
Proof.
  induction l as [|x l IH]; intros r1 r2 H; simpl; auto.
  destruct x as [t|]; auto. destruct b, t; auto.
Qed.

Lemma comb_res_flatten : forall b l1 l2, comb_res b (comb_res b l1 :: l2) = comb_res b (l1 ++ l2).
Proof.
  induction l1 as [|x l1 IH]; intros l2.
  - destruct b; reflexivity.
  - destruct x as [t|]; [|reflexivity].
    destruct b, t; simpl; auto; apply IH.
Qed.

Section SimplifySound.
  Variables (e : env) (r : resolver) (qp : ptype -> text -> list qval).

  Lemma promote_sound : forall b cs,
    Forall big cs ->
    comb_res b (map (eval e r qp) (flat_map (promote b) cs)) = comb_res b (map (eval e r qp) cs)
    /\ Forall big (flat_map (promote b) cs)
    /\ length cs <= length (flat_map (promote b) cs).
  Proof.
    induction cs as [|c cs IH]; intros Hb; [simpl; auto|].
    inversion Hb as [|? ? Hc Hcs]; subst. destruct (IH Hcs) as [IH1 [IH2 IH3]].
    simpl flat_map. destruct c as [pt k o v | b' gc]; simpl promote.
    - simpl. split; [|split].
      + change (comb_res b ([eval_cond e r qp pt k o v] ++ map (eval e r qp) (flat_map (promote b) cs)) =
                comb_res b ([eval_cond e r qp pt k o v] ++ map (eval e r qp) cs)).
        apply comb_res_app_congr. exact IH1.
      + constructor; auto.
      + lia.
    - destruct (bop_eqb b' b) eqn:E.
      + assert (b' = b) by (destruct b', b; simpl in E; congruence). subst b'.
        inversion Hc as [|? ? Hlen Hgc]; subst.
        split; [|split].
        * rewrite map_app.
          transitivity (comb_res b (map (eval e r qp) gc ++ map (eval e r qp) cs)).
          -- apply comb_res_app_congr. exact IH1.
          -- symmetry. exact (comb_res_flatten b (map (eval e r qp) gc) (map (eval e r qp) cs)).
        * apply Forall_app. split; auto.
        * rewrite app_length. simpl. lia.
      + simpl. split; [|split].
        * change (comb_res b ([eval e r qp (Comb b' gc)] ++ map (eval e r qp) (flat_map (promote b) cs)) =
                  comb_res b ([eval e r qp (Comb b' gc)] ++ map (eval e r qp) cs)).
          apply comb_res_app_congr. exact IH1.
        * constructor; auto.
        * lia.
  Qed.

  Lemma simplify_sound : forall q, wf q ->
    exists q', simplify q = Some q' /\ big q' /\ eval e r qp q' = eval e r qp q.
  Proof.
    induction q as [pt k o v | b ch IH] using node_ind'; intros Hw.
    - exists (Cond pt k o v). repeat split. constructor.
    - inversion Hw as [|? ? Hne Hch]; subst.
      (* the children all simplify, to trees of the same value *)
      assert (Hcs : exists cs, keep_some (map simplify ch) = cs /\ length cs = length ch /\ Forall big cs
                               /\ map (eval e r qp) cs = map (eval e r qp) ch).
      { clear Hne Hw. induction ch as [|c ch IHch]; [exists []; simpl; auto|].
        inversion IH as [|? ? IHc IHrest]; subst. inversion Hch as [|? ? Hwc Hwrest]; subst.
        destruct (IHc Hwc) as [c' [S1 [S2 S3]]].
        destruct (IHch IHrest Hwrest) as [cs [C1 [C2 [C3 C4]]]].
        exists (c' :: cs). simpl. rewrite S1. simpl. rewrite C1, C2, S3, C4. auto. }
      destruct Hcs as [cs [C1 [C2 [C3 C4]]]].
      destruct (promote_sound b cs C3) as [P1 [P2 P3]].
      simpl simplify. rewrite C1.
      remember (flat_map (promote b) cs) as nc eqn:Hnc.
      assert (Hlen : 1 <= length nc).
      { destruct ch; [congruence|]. simpl in C2. lia. }
      assert (Hval : comb_res b (map (eval e r qp) nc) = eval e r qp (Comb b ch)).
      { rewrite P1, C4. reflexivity. }
      destruct nc as [|x [|y nc']]; simpl in Hlen; [lia| |].
      + exists x. simpl finish. split; [reflexivity|]. split.
        * inversion P2; auto.
        * rewrite <- Hval. symmetry. exact (comb_res_single b (eval e r qp x)).
      + exists (Comb b (x :: y :: nc')). simpl finish. split; [reflexivity|]. split.
        * constructor; auto. simpl. lia.
        * exact Hval.
  Qed.
End SimplifySound.

Example wf_example : wf (Comb BAnd [Cond PAttr k_name OpEq [98]%N; Comb BAnd [Cond PAttr k_name OpNe [99]%N]]).
Proof. repeat constructor; discriminate. Qed.

(* outside the statement's quantifier (such a tree cannot be parsed, only constructed): an EMPTY
   combination is removed by Simplify although `Or[]` is false, so And[c, Or[]] (false) becomes c *)
Example simplify_drops_empty_combinations :
  let e := {| e_lower := fun c => c; e_tokens := fun _ => []; e_day_start := fun _ => None;
              e_valid_lang := fun _ => true |} in
  let r := {| r_field := fun _ => None; r_group := fun _ => false; r_flow := fun _ => false |} in
  let qp := fun (_ : ptype) (_ : text) => [VText [98]%N] in
  let c := Cond PAttr k_name OpEq [98]%N in
  simplify (Comb BAnd [c; Comb BOr []]) = Some c
  /\ eval e r qp (Comb BAnd [c; Comb BOr []]) = RBool false
  /\ eval e r qp c = RBool true
  /\ simplify (Comb BAnd []) = None.
Proof. repeat split. Qed.

(* ---- conditions over a list of values ------------------------------------------------------------ *)

Lemma is_nil_false : forall v : text, v <> [] -> is_nil v = false.
Proof. destruct v; simpl; congruence. Qed.

(* a condition that is not an existence check, over values on which the comparison is defined *)
Lemma eval_cond_any_all : forall e r qp pt key o v (p : qval -> bool),
  (is_nil v = false \/ (o <> OpEq /\ o <> OpNe)) ->
  (forall val, In val (qp pt key) -> eval_cond_value e r pt key o v val = RBool (p val)) ->
  eval_cond e r qp pt key o v =
  RBool (if is_ne o then forallb p (qp pt key) else existsb p (qp pt key)).
Proof.
  intros e r qp pt key o v p Hne Hp. unfold eval_cond.
  assert (G1 : is_nil v && is_eq o = false).
  { destruct Hne as [->|[H1 H2]]; auto. destruct o; simpl; try congruence; apply andb_false_r. }
  assert (G2 : is_nil v && is_ne o = false).
  { destruct Hne as [->|[H1 H2]]; auto. destruct o; simpl; try congruence; apply andb_false_r. }
  rewrite G1, G2.
  assert (M : map (eval_cond_value e r pt key o v) (qp pt key) = map (fun x => RBool (p x)) (qp pt key)).
  { apply map_ext_in. exact Hp. }
  rewrite M. rewrite eval_values_ok.
  - rewrite existsb_map, forallb_map. reflexivity.
  - intros x Hx. apply in_map_iff in Hx. destruct Hx as [y [<- _]]. discriminate.
Qed.

Lemma forallb_negb_existsb : forall A (p : A -> bool) l, forallb (fun x => negb (p x)) l = negb (existsb p l).
Proof. induction l; simpl; auto. rewrite IHl, negb_orb. reflexivity. Qed.

Lemma existsb_ext' : forall A (p q : A -> bool) l, (forall x, p x = q x) -> existsb p l = existsb q l.
Proof. induction l; simpl; intros H; auto. rewrite H, IHl; auto. Qed.

Lemma existsb_orb : forall A (p q : A -> bool) l,
  existsb (fun x => p x || q x) l = existsb p l || existsb q l.
Proof.
  induction l; simpl; auto. rewrite IHl.
  destruct (p a), (q a), (existsb p l), (existsb q l); reflexivity.
Qed.

(* ---- numbers --------------------------------------------------------------------------------------- *)

Definition num_of (v : qval) : dec := match v with VNum d => d | _ => dec_zero end.

Section NumberProps.
  Variables (e : env) (r : resolver) (qp : ptype -> text -> list qval) (pt : ptype) (key : text) (v : text).
  Hypothesis Hty : resolve_value_type r pt key = Some FNumber.
  Hypothesis Hv : v <> [].

  Let cmp (val : qval) : comparison := dec_compare (num_of val) (value_as_number v).

  Lemma num_cond : forall o ds, o <> OpContains -> qp pt key = map VNum ds ->
    eval_cond e r qp pt key o v =
    RBool (if is_ne o then forallb (fun val => num_test o (cmp val)) (qp pt key)
           else existsb (fun val => num_test o (cmp val)) (qp pt key)).
  Proof.
    intros o ds Ho Hq. apply eval_cond_any_all.
    - left. apply is_nil_false. exact Hv.
    - intros val Hin. rewrite Hq in Hin. apply in_map_iff in Hin. destruct Hin as [d [<- _]].
      unfold eval_cond_value. rewrite Hty. rewrite number_cmp_test; auto.
  Qed.

  (* any number of values (none: the property is absent): <= and >= are the unions, != the negation *)
  Lemma num_unions : forall ds, qp pt key = map VNum ds ->
    exists lt eq gt,
      eval_cond e r qp pt key OpLt v = RBool lt /\ eval_cond e r qp pt key OpEq v = RBool eq
      /\ eval_cond e r qp pt key OpGt v = RBool gt
      /\ eval_cond e r qp pt key OpLe v = RBool (lt || eq)
      /\ eval_cond e r qp pt key OpGe v = RBool (gt || eq)
      /\ eval_cond e r qp pt key OpNe v = RBool (negb eq).
  Proof.
    intros ds Hq.
    exists (existsb (fun val => num_test OpLt (cmp val)) (qp pt key)),
           (existsb (fun val => num_test OpEq (cmp val)) (qp pt key)),
           (existsb (fun val => num_test OpGt (cmp val)) (qp pt key)).
    rewrite !(num_cond _ ds) by (auto; discriminate). simpl is_ne. cbv iota.
    repeat split.
    - f_equal. rewrite <- existsb_orb. apply existsb_ext'. intros val. destruct (cmp val); reflexivity.
    - f_equal. rewrite <- existsb_orb. apply existsb_ext'. intros val. destruct (cmp val); reflexivity.
    - f_equal. rewrite <- forallb_negb_existsb. reflexivity.
  Qed.

  (* a present single value: exactly one of <, =, > *)
  Lemma num_trichotomy : forall d, qp pt key = [VNum d] ->
    let lt := eval_cond e r qp pt key OpLt v in
    let eq := eval_cond e r qp pt key OpEq v in
    let gt := eval_cond e r qp pt key OpGt v in
    (lt = RBool true /\ eq = RBool false /\ gt = RBool false)
    \/ (lt = RBool false /\ eq = RBool true /\ gt = RBool false)
    \/ (lt = RBool false /\ eq = RBool false /\ gt = RBool true).
  Proof.
    intros d Hq. cbv zeta.
    rewrite !(num_cond _ [d]) by (auto; discriminate). rewrite Hq. simpl.
    unfold cmp. simpl. destruct (dec_compare d (value_as_number v)); simpl; auto.
  Qed.

  (* an absent value: no comparison holds, != holds *)
  Lemma num_absent : qp pt key = [] ->
    eval_cond e r qp pt key OpLt v = RBool false /\ eval_cond e r qp pt key OpEq v = RBool false
    /\ eval_cond e r qp pt key OpGt v = RBool false /\ eval_cond e r qp pt key OpNe v = RBool true.
  Proof.
    intros Hq. rewrite !(num_cond _ []) by (auto; discriminate). rewrite Hq. simpl. auto.
  Qed.
End NumberProps.

(* equal numbers written with different scales are equal: 1.0 = 1.00 *)
Lemma dec_compare_rescale : forall m ex k, (0 <= k)%Z ->
  dec_compare {| d_m := m; d_e := ex |} {| d_m := m * 10 ^ k; d_e := ex - k |} = Eq.
Proof.
  intros m ex k Hk. unfold dec_compare. simpl.
  rewrite Z.min_r by lia. replace (ex - (ex - k))%Z with k by lia.
  rewrite Z.sub_diag. simpl. rewrite Z.mul_1_r. apply Z.compare_refl.
Qed.

(* ---- dates ---------------------------------------------------------------------------------------- *)

Definition time_of (v : qval) : Z := match v with VTime t => t | _ => 0%Z end.

Lemma day_ns_pos : (0 < day_ns)%Z.
Proof. reflexivity. Qed.

Section DateProps.
  Variables (e : env) (r : resolver) (qp : ptype -> text -> list qval) (pt : ptype) (key : text) (v : text).
  Hypothesis Hty : resolve_value_type r pt key = Some FDatetime.
  Hypothesis Hv : v <> [].

  Let start : Z := value_day_start e v.

  Lemma date_cond : forall o ts, o <> OpContains -> qp pt key = map VTime ts ->
    eval_cond e r qp pt key o v =
    RBool (if is_ne o then forallb (fun val => date_test o (time_of val) start) (qp pt key)
           else existsb (fun val => date_test o (time_of val) start) (qp pt key)).
  Proof.
    intros o ts Ho Hq. apply eval_cond_any_all.
    - left. apply is_nil_false. exact Hv.
    - intros val Hin. rewrite Hq in Hin. apply in_map_iff in Hin. destruct Hin as [t [<- _]].
      unfold eval_cond_value. rewrite Hty. rewrite date_cmp_test; auto.
  Qed.

  Lemma date_test_le : forall t, date_test OpLe t start = date_test OpLt t start || date_test OpEq t start.
  Proof.
    intros t. unfold date_test. pose proof day_ns_pos.
    destruct (Z.ltb_spec t start), (Z.ltb_spec t (start + day_ns)), (Z.eqb_spec t start), (Z.ltb_spec start t);
      simpl; try reflexivity; lia.
  Qed.

  Lemma date_test_ge : forall t, date_test OpGe t start = date_test OpGt t start || date_test OpEq t start.
  Proof.
    intros t. unfold date_test. pose proof day_ns_pos.
    destruct (Z.ltb_spec (start + day_ns) t), (Z.ltb_spec t (start + day_ns)), (Z.eqb_spec t start),
      (Z.ltb_spec start t), (Z.eqb_spec t (start + day_ns)); simpl; try reflexivity; lia.
  Qed.

  Lemma date_unions : forall ts, qp pt key = map VTime ts ->
    exists lt eq gt,
      eval_cond e r qp pt key OpLt v = RBool lt /\ eval_cond e r qp pt key OpEq v = RBool eq
      /\ eval_cond e r qp pt key OpGt v = RBool gt
      /\ eval_cond e r qp pt key OpLe v = RBool (lt || eq)
      /\ eval_cond e r qp pt key OpGe v = RBool (gt || eq)
      /\ eval_cond e r qp pt key OpNe v = RBool (negb eq).
  Proof.
    intros ts Hq.
    exists (existsb (fun val => date_test OpLt (time_of val) start) (qp pt key)),
           (existsb (fun val => date_test OpEq (time_of val) start) (qp pt key)),
           (existsb (fun val => date_test OpGt (time_of val) start) (qp pt key)).
    rewrite !(date_cond _ ts) by (auto; discriminate). simpl is_ne. cbv iota.
    repeat split.
    - f_equal. rewrite <- existsb_orb. apply existsb_ext'. intros val. apply date_test_le.
    - f_equal. rewrite <- existsb_orb. apply existsb_ext'. intros val. apply date_test_ge.
    - f_equal. rewrite <- forallb_negb_existsb. reflexivity.
  Qed.

  Lemma date_trichotomy : forall t, qp pt key = [VTime t] ->
    let lt := eval_cond e r qp pt key OpLt v in
    let eq := eval_cond e r qp pt key OpEq v in
    let gt := eval_cond e r qp pt key OpGt v in
    (lt = RBool true /\ eq = RBool false /\ gt = RBool false)
    \/ (lt = RBool false /\ eq = RBool true /\ gt = RBool false)
    \/ (lt = RBool false /\ eq = RBool false /\ gt = RBool true).
  Proof.
    intros t Hq. cbv zeta.
    rewrite !(date_cond _ [t]) by (auto; discriminate). rewrite Hq. simpl.
    unfold date_test. pose proof day_ns_pos.
    destruct (Z.ltb_spec t start), (Z.ltb_spec t (start + day_ns)), (Z.eqb_spec t start), (Z.ltb_spec start t),
      (Z.ltb_spec (start + day_ns) t), (Z.eqb_spec t (start + day_ns)); simpl; auto; lia.
  Qed.

  Lemma date_absent : qp pt key = [] ->
    eval_cond e r qp pt key OpLt v = RBool false /\ eval_cond e r qp pt key OpEq v = RBool false
    /\ eval_cond e r qp pt key OpGt v = RBool false /\ eval_cond e r qp pt key OpNe v = RBool true.
  Proof.
    intros Hq. rewrite !(date_cond _ []) by (auto; discriminate). rewrite Hq. simpl. auto.
  Qed.

  (* what the three operators test, in terms of the queried day's start *)
  Lemma date_single : forall t, qp pt key = [VTime t] ->
    eval_cond e r qp pt key OpLt v = RBool (t <? start)%Z
    /\ eval_cond e r qp pt key OpEq v = RBool ((start <=? t) && (t <? start + day_ns))%Z
    /\ eval_cond e r qp pt key OpGt v = RBool (start + day_ns <=? t)%Z.
  Proof.
    intros t Hq. rewrite !(date_cond _ [t]) by (auto; discriminate). rewrite Hq. simpl.
    unfold date_test. rewrite !orb_false_r.
    repeat split; f_equal.
    - destruct (Z.eqb_spec t start), (Z.ltb_spec start t), (Z.leb_spec start t); simpl; try reflexivity; lia.
    - destruct (Z.ltb_spec (start + day_ns) t), (Z.eqb_spec t (start + day_ns)), (Z.leb_spec (start + day_ns) t);
        simpl; try reflexivity; lia.
  Qed.
End DateProps.

(* ---- calendars ------------------------------------------------------------------------------------ *)

(* A calendar for the environment's zone: [midnight d] is the instant time.Date(y, m, d, 0,0,0,0, zone)
   gives for civil day number d, [local_day t] the civil day number of t.In(zone). *)
Record calendar := { midnight : Z -> Z; local_day : Z -> Z }.

Definition calendar_ok (c : calendar) : Prop :=
  (forall d, midnight c d < midnight c (d + 1))%Z
  /\ (forall d t, local_day c t = d <-> (midnight c d <= t < midnight c (d + 1)))%Z.

Lemma midnight_mono : forall c, calendar_ok c -> forall d k, (0 <= k)%Z -> (midnight c d <= midnight c (d + k))%Z.
Proof.
  intros c [Hinc _] d k Hk. pattern k. apply natlike_ind; auto.
  - rewrite Z.add_0_r. lia.
  - intros x Hx IH. replace (d + Z.succ x)%Z with ((d + x) + 1)%Z by lia. specialize (Hinc (d + x)%Z). lia.
Qed.

Section CalendarDay.
  Variables (c : calendar) (e : env) (r : resolver) (qp : ptype -> text -> list qval)
            (pt : ptype) (key : text) (v : text) (d : Z) (t : Z).
  Hypothesis Hcal : calendar_ok c.
  Hypothesis Hty : resolve_value_type r pt key = Some FDatetime.
  Hypothesis Hv : v <> [].
  Hypothesis Hq : qp pt key = [VTime t].
  (* the query value parses to a time on civil day d *)
  Hypothesis Hday : e_day_start e v = Some (midnight c d).

  Lemma before_day : forall d', (t < midnight c d' <-> local_day c t < d')%Z.
  Proof.
    intros d'. destruct Hcal as [Hinc Hld].
    pose proof (proj1 (Hld (local_day c t) t) eq_refl) as [L1 L2].
    split; intros H.
    - destruct (Z_lt_ge_dec (local_day c t) d') as [|G]; auto. exfalso.
      pose proof (midnight_mono c Hcal d' (local_day c t - d')) as M.
      replace (d' + (local_day c t - d'))%Z with (local_day c t) in M by lia. lia.
    - pose proof (midnight_mono c Hcal (local_day c t + 1) (d' - (local_day c t + 1))) as M.
      replace (local_day c t + 1 + (d' - (local_day c t + 1)))%Z with d' in M by lia. lia.
  Qed.

  (* when the queried day is 24 hours long, the three operators are the comparison of calendar days *)
  Lemma date_by_calendar_day_24h : (midnight c (d + 1) = midnight c d + day_ns)%Z ->
    eval_cond e r qp pt key OpLt v = RBool (local_day c t <? d)%Z
    /\ eval_cond e r qp pt key OpEq v = RBool (local_day c t =? d)%Z
    /\ eval_cond e r qp pt key OpGt v = RBool (d <? local_day c t)%Z.
  Proof.
    intros H24. destruct (date_single e r qp pt key v Hty Hv t Hq) as [S1 [S2 S3]].
    unfold value_day_start in *. rewrite Hday in *. rewrite S1, S2, S3. rewrite <- H24.
    pose proof (before_day d) as B0. pose proof (before_day (d + 1)) as B1.
    repeat split; f_equal.
    - destruct (Z.ltb_spec t (midnight c d)), (Z.ltb_spec (local_day c t) d); auto; lia.
    - destruct (Z.leb_spec (midnight c d) t), (Z.ltb_spec t (midnight c (d + 1))), (Z.eqb_spec (local_day c t) d);
        simpl; auto; lia.
    - destruct (Z.leb_spec (midnight c (d + 1)) t), (Z.ltb_spec d (local_day c t)); auto; lia.
  Qed.
End CalendarDay.

(* A calendar with one 25-hour day (day 0; like the day clocks are set back), all others 24 hours. *)
Definition hour_ns : Z := 3600000000000.

Definition cal25 : calendar := {|
  midnight := fun d => (if d <=? 0 then d * day_ns else d * day_ns + hour_ns)%Z;
  local_day := fun t => (if t <? 0 then t / day_ns
                         else if t <? day_ns + hour_ns then 0
                         else (t - hour_ns) / day_ns)%Z
|}.

Lemma div_iff : forall t D d, (0 < D -> (t / D = d <-> d * D <= t < (d + 1) * D))%Z.
Proof.
  intros t D d HD. split.
  - intros <-. pose proof (Z.div_mod t D ltac:(lia)). pose proof (Z.mod_pos_bound t D HD). nia.
  - intros H. symmetry. apply Z.div_unique with (t - d * D)%Z; lia.
Qed.

Lemma cal25_ok : calendar_ok cal25.
Proof.
  unfold calendar_ok, cal25. cbn [midnight local_day]. split.
  - intros d. unfold day_ns, hour_ns. destruct (Z.leb_spec d 0), (Z.leb_spec (d + 1) 0); lia.
  - intros d t.
    pose proof (div_iff t day_ns d day_ns_pos) as D1.
    pose proof (div_iff (t - hour_ns) day_ns d day_ns_pos) as D2.
    unfold day_ns, hour_ns in *.
    destruct (Z.leb_spec d 0), (Z.leb_spec (d + 1) 0), (Z.ltb_spec t 0),
      (Z.ltb_spec t (86400000000000 + 3600000000000)); lia.
Qed.

(* on the 25-hour day an instant 24.5 hours after local midnight is on the queried calendar day, yet
   `=` is false and `>` is true *)
Lemma date_by_calendar_day_fails_on_25h_day :
  exists (c : calendar) (e : env) (r : resolver) (qp : ptype -> text -> list qval)
         (pt : ptype) (key v : text) (d t : Z),
    calendar_ok c
    /\ resolve_value_type r pt key = Some FDatetime /\ v <> [] /\ qp pt key = [VTime t]
    /\ e_day_start e v = Some (midnight c d)
    /\ local_day c t = d
    /\ eval_cond e r qp pt key OpEq v = RBool false
    /\ eval_cond e r qp pt key OpGt v = RBool true.
Proof.
  exists cal25,
    {| e_lower := fun x => x; e_tokens := fun _ => []; e_day_start := fun _ => Some 0%Z;
       e_valid_lang := fun _ => true |},
    {| r_field := fun _ => None; r_group := fun _ => false; r_flow := fun _ => false |},
    (fun _ _ => [VTime (day_ns + 1800000000000)%Z]),
    PAttr, k_created_on, [50; 48; 50; 49]%N, 0%Z, (day_ns + 1800000000000)%Z.
  split; [exact cal25_ok|]. repeat split. discriminate.
Qed.

(* ---- the statements on contacts (what props/C15.v cites) ------------------------------------------- *)

Lemma eval_contact_no_panic : forall e r q c,
  validate e r q = None -> typed_contact r c -> eval_contact e r q c <> Panic.
Proof. intros e r q c Hv Ht. apply eval_no_panic; auto. apply query_property_typed; auto. Qed.

(* the query as ParseQuery returns it (validated, then simplified) evaluates to a boolean, the same one as
   the tree the visitor built *)
Lemma parsed_query_total : forall e r q c,
  wf q -> validate e r q = None -> typed_contact r c ->
  exists q' b, simplify q = Some q' /\ eval_root e r (query_property c) (simplify q) = RBool b
               /\ eval_contact e r q' c = RBool b /\ eval_contact e r q c = RBool b.
Proof.
  intros e r q c Hw Hv Ht.
  destruct (simplify_sound e r (query_property c) q Hw) as [q' [S1 [_ S2]]].
  pose proof (eval_contact_no_panic e r q c Hv Ht) as Hn. unfold eval_contact in *.
  destruct (eval e r (query_property c) q) as [b|] eqn:E; [|congruence].
  exists q', b. rewrite S1. simpl. auto.
Qed.

Lemma and_on_contact : forall e r qs c, validate e r (Comb BAnd qs) = None -> typed_contact r c ->
  (forall q, In q qs -> exists b, eval_contact e r q c = RBool b)
  /\ eval_contact e r (Comb BAnd qs) c = RBool (forallb (fun q => as_bool (eval_contact e r q c)) qs).
Proof. intros e r qs c Hv Ht. apply eval_and_valid; auto. apply query_property_typed; auto. Qed.

Lemma or_on_contact : forall e r qs c, validate e r (Comb BOr qs) = None -> typed_contact r c ->
  (forall q, In q qs -> exists b, eval_contact e r q c = RBool b)
  /\ eval_contact e r (Comb BOr qs) c = RBool (existsb (fun q => as_bool (eval_contact e r q c)) qs).
Proof. intros e r qs c Hv Ht. apply eval_or_valid; auto. apply query_property_typed; auto. Qed.

Lemma simplify_on_contact : forall e r q c, wf q ->
  exists q', simplify q = Some q' /\ big q' /\ eval_contact e r q' c = eval_contact e r q c.
Proof. intros e r q c Hw. exact (simplify_sound e r (query_property c) q Hw). Qed.

(* an empty-valued = / != tests absence / presence of the property, whatever its type *)
Lemma empty_value_on_contact : forall e r c pt key,
  eval_contact e r (Cond pt key OpEq []) c = RBool (no_vals (query_property c pt key))
  /\ eval_contact e r (Cond pt key OpNe []) c = RBool (negb (no_vals (query_property c pt key))).
Proof. intros. split; reflexivity. Qed.

Lemma typed_numbers : forall r qp pt key, typed_qp r qp -> resolve_value_type r pt key = Some FNumber ->
  exists ds, qp pt key = map VNum ds.
Proof.
  intros r qp pt key Ht Hty. specialize (Ht pt key). rewrite Hty in Ht. simpl in Ht.
  induction (qp pt key) as [|x l IH]; [exists []; reflexivity|].
  destruct (Ht x (or_introl eq_refl)) as [d ->].
  destruct IH as [ds ->]; [intros y Hy; apply Ht; right; exact Hy|].
  exists (d :: ds). reflexivity.
Qed.

Lemma typed_times : forall r qp pt key, typed_qp r qp -> resolve_value_type r pt key = Some FDatetime ->
  exists ts, qp pt key = map VTime ts.
Proof.
  intros r qp pt key Ht Hty. specialize (Ht pt key). rewrite Hty in Ht. simpl in Ht.
  induction (qp pt key) as [|x l IH]; [exists []; reflexivity|].
  destruct (Ht x (or_introl eq_refl)) as [d ->].
  destruct IH as [ds ->]; [intros y Hy; apply Ht; right; exact Hy|].
  exists (d :: ds). reflexivity.
Qed.

(* number and date properties of a contact have at most one value (only URN properties are multi-valued,
   and those are text) *)
Lemma num_date_single_valued : forall r c pt key vt,
  resolve_value_type r pt key = Some vt -> is_num_or_date vt = true ->
  (length (query_property c pt key) <= 1)%nat.
Proof.
  intros r c pt key vt Hty Hnd. destruct pt; simpl in *.
  - unfold attr_type in Hty.
    destruct (text_eqb key k_uuid) eqn:E1; [simpl; auto|].
    destruct (text_eqb key k_name) eqn:E2; [destruct (is_nil (c_name c)); simpl; auto|].
    destruct (text_eqb key k_language) eqn:E3; [destruct (is_nil (c_lang c)); simpl; auto|].
    destruct (text_eqb key k_urn) eqn:E4.
    { exfalso. apply text_eqb_eq in E4. subst key. simpl in Hty. inversion Hty. subst vt. discriminate. }
    destruct (text_eqb key k_tickets) eqn:E5; [simpl; auto|].
    destruct (text_eqb key k_created_on) eqn:E6; [simpl; auto|].
    destruct (text_eqb key k_last_seen_on) eqn:E7; [destruct (c_last_seen c); simpl; auto|].
    simpl; auto.
  - inversion Hty. subst vt. discriminate.
  - destruct (assoc key (c_fields c)) as [[ft fv]|]; [|simpl; auto].
    destruct (query_value ft fv); simpl; auto.
Qed.

Definition exactly_one (lt eq gt : res) : Prop :=
  (lt = RBool true /\ eq = RBool false /\ gt = RBool false)
  \/ (lt = RBool false /\ eq = RBool true /\ gt = RBool false)
  \/ (lt = RBool false /\ eq = RBool false /\ gt = RBool true).

Section OnContact.
  Variables (e : env) (r : resolver) (c : contact) (pt : ptype) (key : text) (v : text).
  Hypothesis Htc : typed_contact r c.
  Hypothesis Hv : v <> [].

  Let ev (o : cop) : res := eval_contact e r (Cond pt key o v) c.

  Lemma number_relations_on_contact : resolve_value_type r pt key = Some FNumber ->
    exists lt eq gt, ev OpLt = RBool lt /\ ev OpEq = RBool eq /\ ev OpGt = RBool gt
      /\ ev OpLe = RBool (lt || eq) /\ ev OpGe = RBool (gt || eq) /\ ev OpNe = RBool (negb eq).
  Proof.
    intros Hty. destruct (typed_numbers r _ pt key (query_property_typed r c Htc) Hty) as [ds Hds].
    exact (num_unions e r (query_property c) pt key v Hty Hv ds Hds).
  Qed.

  Lemma date_relations_on_contact : resolve_value_type r pt key = Some FDatetime ->
    exists lt eq gt, ev OpLt = RBool lt /\ ev OpEq = RBool eq /\ ev OpGt = RBool gt
      /\ ev OpLe = RBool (lt || eq) /\ ev OpGe = RBool (gt || eq) /\ ev OpNe = RBool (negb eq).
  Proof.
    intros Hty. destruct (typed_times r _ pt key (query_property_typed r c Htc) Hty) as [ds Hds].
    exact (date_unions e r (query_property c) pt key v Hty Hv ds Hds).
  Qed.

  (* present: exactly one of <, =, > ; absent: none of them, and != holds *)
  Lemma number_trichotomy_on_contact : resolve_value_type r pt key = Some FNumber ->
    (query_property c pt key <> [] -> exactly_one (ev OpLt) (ev OpEq) (ev OpGt))
    /\ (query_property c pt key = [] ->
        ev OpLt = RBool false /\ ev OpEq = RBool false /\ ev OpGt = RBool false /\ ev OpNe = RBool true).
  Proof.
    intros Hty. split.
    - intros Hpres.
      destruct (typed_numbers r _ pt key (query_property_typed r c Htc) Hty) as [ds Hds].
      pose proof (num_date_single_valued r c pt key FNumber Hty eq_refl) as Hlen.
      destruct ds as [|d [|d' ds]]; simpl in Hds.
      + congruence.
      + exact (num_trichotomy e r (query_property c) pt key v Hty Hv d Hds).
      + rewrite Hds in Hlen. simpl in Hlen. lia.
    - intros Habs. exact (num_absent e r (query_property c) pt key v Hty Hv Habs).
  Qed.

  Lemma date_trichotomy_on_contact : resolve_value_type r pt key = Some FDatetime ->
    (query_property c pt key <> [] -> exactly_one (ev OpLt) (ev OpEq) (ev OpGt))
    /\ (query_property c pt key = [] ->
        ev OpLt = RBool false /\ ev OpEq = RBool false /\ ev OpGt = RBool false /\ ev OpNe = RBool true).
  Proof.
    intros Hty. split.
    - intros Hpres.
      destruct (typed_times r _ pt key (query_property_typed r c Htc) Hty) as [ds Hds].
      pose proof (num_date_single_valued r c pt key FDatetime Hty eq_refl) as Hlen.
      destruct ds as [|d [|d' ds]]; simpl in Hds.
      + congruence.
      + exact (date_trichotomy e r (query_property c) pt key v Hty Hv d Hds).
      + rewrite Hds in Hlen. simpl in Hlen. lia.
    - intros Habs. exact (date_absent e r (query_property c) pt key v Hty Hv Habs).
  Qed.
End OnContact.

(* numbers are compared by value, not by notation: the order is that of the rationals m * 10^e *)
Lemma dec_compare_spec : forall a b k, (k <= d_e a)%Z -> (k <= d_e b)%Z ->
  dec_compare a b = (d_m a * 10 ^ (d_e a - k) ?= d_m b * 10 ^ (d_e b - k))%Z.
Proof.
  intros a b k Ha Hb. unfold dec_compare.
  set (m := Z.min (d_e a) (d_e b)).
  assert (Hm : (k <= m)%Z) by (unfold m; lia).
  assert (Hp : (0 < 10 ^ (m - k))%Z) by (apply Z.pow_pos_nonneg; lia).
  replace (d_e a - k)%Z with ((d_e a - m) + (m - k))%Z by lia.
  replace (d_e b - k)%Z with ((d_e b - m) + (m - k))%Z by lia.
  rewrite !Z.pow_add_r by (unfold m; lia).
  rewrite !Z.mul_assoc.
  apply Zmult_compare_compat_r. lia.
Qed.

(* calendar-day comparison on a contact, for a queried day that is 24 hours long *)
Lemma date_by_calendar_day_on_contact : forall (cal : calendar) e r c pt key v d t,
  calendar_ok cal ->
  resolve_value_type r pt key = Some FDatetime -> v <> [] ->
  query_property c pt key = [VTime t] ->
  e_day_start e v = Some (midnight cal d) ->
  (midnight cal (d + 1) = midnight cal d + day_ns)%Z ->
  eval_contact e r (Cond pt key OpLt v) c = RBool (local_day cal t <? d)%Z
  /\ eval_contact e r (Cond pt key OpEq v) c = RBool (local_day cal t =? d)%Z
  /\ eval_contact e r (Cond pt key OpGt v) c = RBool (d <? local_day cal t)%Z.
Proof.
  intros cal e r c pt key v d t Hcal Hty Hv Hq Hday H24.
  exact (date_by_calendar_day_24h cal e r (query_property c) pt key v d t Hcal Hty Hv Hq Hday H24).
Qed.

(* the hypotheses of the calendar theorem are satisfiable: the uniform calendar (UTC) *)
Definition cal_utc : calendar := {| midnight := fun d => (d * day_ns)%Z; local_day := fun t => (t / day_ns)%Z |}.

Lemma cal_utc_ok : calendar_ok cal_utc /\ forall d, (midnight cal_utc (d + 1) = midnight cal_utc d + day_ns)%Z.
Proof.
  unfold calendar_ok, cal_utc. cbn [midnight local_day]. split; [split|].
  - intros d. unfold day_ns. lia.
  - intros d t. pose proof (div_iff t day_ns d day_ns_pos) as D1. unfold day_ns in *. lia.
  - intros d. unfold day_ns. lia.
Qed.

(* the refutation on a contact: a created_on 24.5 h after the local midnight of the 25-hour day *)
Lemma date_by_calendar_day_fails_on_contact :
  exists (cal : calendar) (e : env) (r : resolver) (c : contact) (pt : ptype) (key v : text) (d t : Z),
    calendar_ok cal
    /\ resolve_value_type r pt key = Some FDatetime /\ v <> [] /\ query_property c pt key = [VTime t]
    /\ e_day_start e v = Some (midnight cal d)
    /\ local_day cal t = d
    /\ eval_contact e r (Cond pt key OpEq v) c = RBool false
    /\ eval_contact e r (Cond pt key OpGt v) c = RBool true.
Proof.
  exists cal25,
    {| e_lower := fun x => x; e_tokens := fun _ => []; e_day_start := fun _ => Some 0%Z;
       e_valid_lang := fun _ => true |},
    {| r_field := fun _ => None; r_group := fun _ => false; r_flow := fun _ => false |},
    {| c_uuid := []; c_name := []; c_lang := []; c_urns := []; c_ticket := false;
       c_created := (day_ns + 1800000000000)%Z; c_last_seen := None; c_fields := []; c_groups := [] |},
    PAttr, k_created_on, [50; 48; 50; 49]%N, 0%Z, (day_ns + 1800000000000)%Z.
  split; [exact cal25_ok|]. repeat split. discriminate.
Qed.

(* a number condition the validator admits (not an existence check) carries a literal whose decimal exponent is
   within +-1000: the rescaling Decimal.Cmp performs against a contact value of exponent x costs at most
   10^(1000 + |x|), where |x| <= max(1000, length of the stored text) for a contact read by flows.ReadContact — the
   evaluator cannot be made to hang by the query text *)
Lemma validated_number_bounded : forall e r pt key o v,
  validate_cond e r pt key o v = None -> resolve_value_type r pt key = Some FNumber ->
  ((is_eq o || is_ne o) && is_nil v = false) ->
  exists d, value_number v = Some d /\ value_as_number v = d
            /\ (- max_number_value_exponent <= d_e d <= max_number_value_exponent)%Z.
Proof.
  intros e r pt key o v H Hty Hne. unfold validate_cond in H. rewrite Hty in H.
  destruct (match o with
            | OpContains =>
                if is_attr pt && text_eqb key k_name
                then match name_tokens e v with [] => Some EInvalidPartialName | _ :: _ => None end
                else if is_attr pt && text_eqb key k_urn || is_urn pt
                     then if (utf8_len v <? 3)%N then Some EInvalidPartialURN else None
                     else Some EUnsupportedContains
            | OpGt | OpLt | OpGe | OpLe => if is_num_or_date FNumber then None else Some EUnsupportedComparison
            | _ => None
            end); [discriminate|].
  rewrite Hne in H.
  unfold value_as_number. unfold value_number in *.
  destruct (parse_dec v) as [d|]; [|discriminate].
  destruct ((d_e d <? - max_number_value_exponent) || (max_number_value_exponent <? d_e d))%Z eqn:E; [discriminate|].
  exists d. repeat split; apply orb_false_iff in E; destruct E as [E1 E2];
    [apply Z.ltb_ge in E1; exact E1|apply Z.ltb_ge in E2; exact E2].
Qed.

Example huge_exponent_rejected :
  let e := {| e_lower := fun c => c; e_tokens := fun _ => []; e_day_start := fun _ => None;
              e_valid_lang := fun _ => true |} in
  let r := {| r_field := fun _ => None; r_group := fun _ => false; r_flow := fun _ => false |} in
  (* tickets > 1e300000000 *)
  validate_cond e r PAttr k_tickets OpGt [49; 101; 51; 48; 48; 48; 48; 48; 48; 48; 48]%N = Some EInvalidNumber
  /\ validate_cond e r PAttr k_tickets OpGt [49; 101; 49; 48; 48; 48]%N = None.
Proof. split; vm_compute; reflexivity. Qed.

(* the same in terms of the contact: for a field, `= ""` holds iff the contact has no entry for the key or the entry
   has no value OF THE FIELD'S TYPE (a number field holding only text counts as absent); for name / language iff it
   is empty; for a URN scheme iff the contact has no URN of that scheme *)
Lemma empty_value_in_contact_terms : forall e r c key,
  eval_contact e r (Cond PField key OpEq []) c =
    RBool (match assoc key (c_fields c) with
           | None => true
           | Some (ft, fv) => match query_value ft fv with None => true | Some _ => false end
           end)
  /\ eval_contact e r (Cond PAttr k_name OpEq []) c = RBool (is_nil (c_name c))
  /\ eval_contact e r (Cond PAttr k_language OpEq []) c = RBool (is_nil (c_lang c))
  /\ eval_contact e r (Cond PUrn key OpEq []) c = RBool (negb (existsb (fun u => text_eqb (fst u) key) (c_urns c)))
  /\ eval_contact e r (Cond PAttr k_last_seen_on OpNe []) c = RBool (match c_last_seen c with Some _ => true | None => false end).
Proof.
  intros e r c key. repeat split.
  - unfold eval_contact. cbn [eval]. unfold eval_cond. cbn [is_nil is_eq andb query_property].
    destruct (assoc key (c_fields c)) as [[ft fv]|]; [|reflexivity]. destruct (query_value ft fv); reflexivity.
  - unfold eval_contact. cbn [eval]. unfold eval_cond. cbn [is_nil is_eq andb].
    change (query_property c PAttr k_name) with (if is_nil (c_name c) then [] else [VText (c_name c)]).
    destruct (c_name c); reflexivity.
  - unfold eval_contact. cbn [eval]. unfold eval_cond. cbn [is_nil is_eq andb].
    change (query_property c PAttr k_language) with (if is_nil (c_lang c) then [] else [VText (c_lang c)]).
    destruct (c_lang c); reflexivity.
  - unfold eval_contact. cbn [eval]. unfold eval_cond. cbn [is_nil is_eq andb query_property].
    f_equal. induction (c_urns c) as [|u us IH]; [reflexivity|]. cbn [filter existsb].
    destruct (text_eqb (fst u) key); [reflexivity|]. exact IH.
  - unfold eval_contact. cbn [eval]. unfold eval_cond. cbn [is_nil is_eq is_ne andb].
    change (query_property c PAttr k_last_seen_on) with (match c_last_seen c with Some t => [VTime t] | None => [] end).
    destruct (c_last_seen c); reflexivity.
Qed.

(* ---- the attributes Contact.QueryProperty does not resolve ------------------------------------------------------- *)

(* FULL STATEMENT (false): for the attribute group, `= ""` holds iff the contact is in no group.
   What holds: the evaluation does not depend on the contact's groups at all ... *)
Lemma group_not_resolved : forall e r c o v,
  eval_contact e r (Cond PAttr k_group o v) c
  = eval_contact e r (Cond PAttr k_group o v)
      {| c_uuid := c_uuid c; c_name := c_name c; c_lang := c_lang c; c_urns := c_urns c; c_ticket := c_ticket c;
         c_created := c_created c; c_last_seen := c_last_seen c; c_fields := c_fields c; c_groups := [] |}.
Proof. intros. reflexivity. Qed.

(* ... so a contact that IS in a group satisfies `group = ""` and not `group != ""` *)
Lemma empty_value_group_refuted :
  exists e r c, c_groups c <> []
    /\ eval_contact e r (Cond PAttr k_group OpEq []) c = RBool true
    /\ eval_contact e r (Cond PAttr k_group OpNe []) c = RBool false
    /\ validate e r (Cond PAttr k_group OpEq []) = None.
Proof.
  exists {| e_lower := fun x => x; e_tokens := fun _ => []; e_day_start := fun _ => None; e_valid_lang := fun _ => true |},
    {| r_field := fun _ => None; r_group := fun _ => true; r_flow := fun _ => false |},
    {| c_uuid := []; c_name := []; c_lang := []; c_urns := []; c_ticket := false; c_created := 0%Z; c_last_seen := None;
       c_fields := []; c_groups := [[84; 101; 115; 116; 101; 114; 115]%N] |}.
  repeat split. discriminate.
Qed.

(* ---- the calendar hypothesis, local to the queried day --------------------------------------------------------- *)

(* what the calendar-day sentence needs of the zone, about the QUERIED day d only: the instants before d's local midnight
   are exactly those of earlier local days, and the instants of local day d are exactly the interval from d's midnight to
   the next one.  It fails exactly when the zone skips or repeats local time across one of these two midnights (the
   listed finding's days); a transition on any other day does not matter. *)
Definition day_ok (c : calendar) (d : Z) : Prop :=
  (forall t, local_day c t < d <-> t < midnight c d)%Z
  /\ (forall t, local_day c t = d <-> midnight c d <= t < midnight c (d + 1))%Z.

Lemma calendar_ok_day_ok : forall c d, calendar_ok c -> day_ok c d.
Proof.
  intros c d Hcal. split.
  - intros t. pose proof (before_day c t Hcal d) as B. tauto.
  - intros t. destruct Hcal as [_ Hld]. apply Hld.
Qed.

Lemma date_by_calendar_day_local : forall (cal : calendar) e r qp pt key v d t,
  day_ok cal d ->
  resolve_value_type r pt key = Some FDatetime -> v <> [] ->
  qp pt key = [VTime t] ->
  e_day_start e v = Some (midnight cal d) ->
  (midnight cal (d + 1) = midnight cal d + day_ns)%Z ->
  eval_cond e r qp pt key OpLt v = RBool (local_day cal t <? d)%Z
  /\ eval_cond e r qp pt key OpEq v = RBool (local_day cal t =? d)%Z
  /\ eval_cond e r qp pt key OpGt v = RBool (d <? local_day cal t)%Z.
Proof.
  intros cal e r qp pt key v d t [HB HE] Hty Hv Hq Hday H24.
  destruct (date_single e r qp pt key v Hty Hv t Hq) as [S1 [S2 S3]].
  unfold value_day_start in *. rewrite Hday in *. rewrite S1, S2, S3. rewrite <- H24.
  pose proof (HB t) as B0. pose proof (HE t) as E0. pose proof day_ns_pos as Dp.
  repeat split; f_equal.
  - destruct (Z.ltb_spec t (midnight cal d)), (Z.ltb_spec (local_day cal t) d); auto; lia.
  - destruct (Z.leb_spec (midnight cal d) t), (Z.ltb_spec t (midnight cal (d + 1))), (Z.eqb_spec (local_day cal t) d);
      simpl; auto; lia.
  - destruct (Z.leb_spec (midnight cal (d + 1)) t), (Z.ltb_spec d (local_day cal t)); auto; lia.
Qed.

Lemma date_by_calendar_day_local_on_contact : forall (cal : calendar) e r c pt key v d t,
  day_ok cal d ->
  resolve_value_type r pt key = Some FDatetime -> v <> [] ->
  query_property c pt key = [VTime t] ->
  e_day_start e v = Some (midnight cal d) ->
  (midnight cal (d + 1) = midnight cal d + day_ns)%Z ->
  eval_contact e r (Cond pt key OpLt v) c = RBool (local_day cal t <? d)%Z
  /\ eval_contact e r (Cond pt key OpEq v) c = RBool (local_day cal t =? d)%Z
  /\ eval_contact e r (Cond pt key OpGt v) c = RBool (d <? local_day cal t)%Z.
Proof.
  intros cal e r c pt key v d t Hd Hty Hv Hq Hday H24.
  exact (date_by_calendar_day_local cal e r (query_property c) pt key v d t Hd Hty Hv Hq Hday H24).
Qed.

(* A zone like America/St_Johns in 2007: one minute after the midnight that begins local day 1 the clocks are set back
   an hour, so local day 0 comes back for 59 minutes: day 0 is not an interval and [calendar_ok] fails for the zone as
   a whole — yet every day away from that transition satisfies [day_ok] and is 24 hours long. *)
Definition minute_ns : Z := 60000000000.

Definition cal_back : calendar := {|
  midnight := fun d => (if d <=? 1 then d * day_ns else d * day_ns + hour_ns)%Z;
  local_day := fun t => (if t <? day_ns + minute_ns then t / day_ns
                         else if t <? day_ns + hour_ns then 0
                         else (t - hour_ns) / day_ns)%Z
|}.

Lemma cal_back_not_calendar_ok : ~ calendar_ok cal_back.
Proof.
  intros [_ H]. specialize (H 0%Z (day_ns + minute_ns)%Z). destruct H as [H _].
  assert (E : local_day cal_back (day_ns + minute_ns) = 0%Z) by reflexivity.
  specialize (H E). cbn [cal_back midnight] in H. vm_compute in H. destruct H as [_ H]. discriminate.
Qed.

Lemma cal_back_day_ok : forall d, (3 <= d)%Z ->
  day_ok cal_back d /\ (midnight cal_back (d + 1) = midnight cal_back d + day_ns)%Z.
Proof.
  intros d Hd. unfold day_ok, cal_back. cbn [midnight local_day].
  replace (d <=? 1)%Z with false by (symmetry; apply Z.leb_gt; lia).
  replace (d + 1 <=? 1)%Z with false by (symmetry; apply Z.leb_gt; lia).
  split; [split|].
  - intros t.
    pose proof (Z.div_mod t day_ns ltac:(unfold day_ns; lia)) as D1.
    pose proof (Z.mod_pos_bound t day_ns day_ns_pos) as M1.
    pose proof (Z.div_mod (t - hour_ns) day_ns ltac:(unfold day_ns; lia)) as D2.
    pose proof (Z.mod_pos_bound (t - hour_ns) day_ns day_ns_pos) as M2.
    unfold day_ns, hour_ns, minute_ns in *.
    destruct (Z.ltb_spec t (86400000000000 + 60000000000)), (Z.ltb_spec t (86400000000000 + 3600000000000)); lia.
  - intros t.
    pose proof (div_iff t day_ns d day_ns_pos) as D1.
    pose proof (div_iff (t - hour_ns) day_ns d day_ns_pos) as D2.
    unfold day_ns, hour_ns, minute_ns in *.
    destruct (Z.ltb_spec t (86400000000000 + 60000000000)), (Z.ltb_spec t (86400000000000 + 3600000000000)); lia.
  - unfold day_ns, hour_ns. lia.
Qed.

(* A zone like Pacific/Apia at the end of 2011 (or Pacific/Kiritimati at the end of 1994): it moves across the date line
   and local day 1 never happens — the instant that ends local day 0 begins local day 2.  The day start the environment
   gives for a value naming day 1 is the first instant after the gap, the midnight of day 2 (envs.DateTimeFromString),
   so in this calendar [midnight 1 = midnight 2]: day 1 is 0 hours long, the 24-hour hypothesis of
   date_by_calendar_day_local fails for it, and the code answers the query for day 2 instead: a contact at noon of local
   day 2 satisfies `= day 1`.  This is the harness class date-comparison:queried-day-skipped-by-zone.  Every other day of
   the zone satisfies both hypotheses. *)
Definition cal_skip : calendar := {|
  midnight := fun d => (if d <=? 1 then d * day_ns else (d - 1) * day_ns)%Z;
  local_day := fun t => (if t <? day_ns then t / day_ns else t / day_ns + 1)%Z
|}.

Lemma cal_skip_day_never : forall t, local_day cal_skip t <> 1%Z.
Proof.
  intros t. unfold cal_skip. cbn [local_day].
  pose proof (div_iff t day_ns 1 day_ns_pos) as D1. pose proof (div_iff t day_ns 0 day_ns_pos) as D0.
  destruct (Z.ltb_spec t day_ns); lia.
Qed.

Lemma cal_skip_day_empty : midnight cal_skip (1 + 1) = midnight cal_skip 1
  /\ midnight cal_skip (1 + 1) <> (midnight cal_skip 1 + day_ns)%Z.
Proof. split; [reflexivity|]. vm_compute. discriminate. Qed.

Lemma cal_skip_other_days : forall d, d <> 1%Z ->
  day_ok cal_skip d /\ (midnight cal_skip (d + 1) = midnight cal_skip d + day_ns)%Z.
Proof.
  intros d Hd. unfold day_ok, cal_skip. cbn [midnight local_day].
  assert (C : (d <= 0 \/ 2 <= d)%Z) by lia. destruct C as [C|C].
  - replace (d <=? 1)%Z with true by (symmetry; apply Z.leb_le; lia).
    replace (d + 1 <=? 1)%Z with true by (symmetry; apply Z.leb_le; lia).
    split; [split|].
    + intros t. pose proof (Z.div_mod t day_ns ltac:(unfold day_ns; lia)) as D1.
      pose proof (Z.mod_pos_bound t day_ns day_ns_pos) as M1.
      unfold day_ns in *. destruct (Z.ltb_spec t 86400000000000); lia.
    + intros t. pose proof (div_iff t day_ns d day_ns_pos) as D1.
      pose proof (Z.div_mod t day_ns ltac:(unfold day_ns; lia)) as D2.
      pose proof (Z.mod_pos_bound t day_ns day_ns_pos) as M2.
      unfold day_ns in *. destruct (Z.ltb_spec t 86400000000000); lia.
    + lia.
  - replace (d <=? 1)%Z with false by (symmetry; apply Z.leb_gt; lia).
    replace (d + 1 <=? 1)%Z with false by (symmetry; apply Z.leb_gt; lia).
    split; [split|].
    + intros t. pose proof (Z.div_mod t day_ns ltac:(unfold day_ns; lia)) as D1.
      pose proof (Z.mod_pos_bound t day_ns day_ns_pos) as M1.
      unfold day_ns in *. destruct (Z.ltb_spec t 86400000000000); lia.
    + intros t. pose proof (div_iff t day_ns (d - 1) day_ns_pos) as D1.
      pose proof (Z.div_mod t day_ns ltac:(unfold day_ns; lia)) as D2.
      pose proof (Z.mod_pos_bound t day_ns day_ns_pos) as M2.
      unfold day_ns in *. destruct (Z.ltb_spec t 86400000000000); lia.
    + lia.
Qed.

(* the code's answer on the skipped day: the contact is at noon of local day 2, the query names day 1 *)
Lemma date_skipped_day_fails_on_contact :
  exists (e : env) (r : resolver) (c : contact) (pt : ptype) (key v : text) (t : Z),
    resolve_value_type r pt key = Some FDatetime /\ v <> [] /\ query_property c pt key = [VTime t]
    /\ e_day_start e v = Some (midnight cal_skip 1)
    /\ local_day cal_skip t = 2%Z
    /\ eval_contact e r (Cond pt key OpEq v) c = RBool true
    /\ eval_contact e r (Cond pt key OpGt v) c = RBool false.
Proof.
  exists
    {| e_lower := fun x => x; e_tokens := fun _ => []; e_day_start := fun _ => Some day_ns;
       e_valid_lang := fun _ => true |},
    {| r_field := fun _ => None; r_group := fun _ => false; r_flow := fun _ => false |},
    {| c_uuid := []; c_name := []; c_lang := []; c_urns := []; c_ticket := false;
       c_created := (day_ns + 12 * hour_ns)%Z; c_last_seen := None; c_fields := []; c_groups := [] |},
    PAttr, k_created_on, [50; 48; 49; 49]%N, (day_ns + 12 * hour_ns)%Z.
  repeat split. discriminate.
Qed.

(* the contact side of the cost bound: a stored number that flows.ReadContact accepts (model: stored_number_ok, compared
   with the real reader on every run) has an exponent within +-max(1000, length of its stored text); together with
   validated_number_bounded the two numbers Decimal.Cmp rescales are at most 1000 + max(1000, len) decimal places apart *)
Lemma stored_number_bounded : forall len ex, stored_number_ok len ex = true ->
  (- Z.max 1000 (Z.of_N len) <= ex <= Z.max 1000 (Z.of_N len))%Z.
Proof.
  intros len ex H. unfold stored_number_ok, max_number_value_exponent in H.
  apply andb_prop in H. destruct H as [A B]. apply Z.leb_le in A. apply Z.leb_le in B. split; assumption.
Qed.

Lemma rescale_distance_bounded : forall e r pt key o v len ex,
  validate_cond e r pt key o v = None -> resolve_value_type r pt key = Some FNumber ->
  ((is_eq o || is_ne o) && is_nil v = false) -> stored_number_ok len ex = true ->
  (Z.abs (ex - d_e (value_as_number v)) <= 1000 + Z.max 1000 (Z.of_N len))%Z.
Proof.
  intros e r pt key o v len ex Hv Hty Hne Hs.
  destruct (validated_number_bounded e r pt key o v Hv Hty Hne) as (d & _ & -> & Hd).
  pose proof (stored_number_bounded len ex Hs) as He. unfold max_number_value_exponent in Hd. lia.
Qed.

Example stored_number_examples :
  stored_number_ok 6 1000 = true /\ stored_number_ok 6 1001 = false /\ stored_number_ok 1204 (-1202) = true
  /\ stored_number_ok 11 300000000 = false.
Proof. repeat split. Qed.
