(* InspectExecAcceptsAll.v — EVERY trace the executable model engine computes is accepted by the step acceptor, child
   runs included, when the flows have pairwise different ids.  (The single-run case is proofs/InspectExecAccepts.v.)

   New with child runs: the step a parent run is paused on is routed only after the child's steps were emitted, so
   an earlier element of the trace changes.  The acceptor's verdict on the later steps does not depend on that
   change: they belong to other runs, and of the parent's entry they read the flow and the node only ([sim]). *)
From Coq Require Import List NArith Bool String Lia Arith PeanoNat.
From Verif Require Import model.ActionRow gen.ActionResults model.Inspect model.InspectExec.
From Verif Require Import proofs.InspectProofs proofs.InspectExecProofs proofs.InspectExecAccepts.
Import ListNotations.
Open Scope N_scope.

(* ------------------------------------------------------------------------------------------------ *)
(* list plumbing *)

Lemma split_at : forall (X : Type) (l : list X) i x, nth_error l i = Some x ->
  l = (firstn i l ++ x :: skipn (S i) l)%list.
Proof.
  intros X l. induction l as [|y l IH]; intros i x H; destruct i as [|i]; cbn in H; try discriminate.
  - inversion H; subst. reflexivity.
  - cbn [firstn skipn app]. f_equal. apply IH. exact H.
Qed.

Lemma map_upd_same : forall (X Y : Type) (g : X -> Y) (l : list X) i x y,
  nth_error l i = Some x -> g y = g x -> map g (upd l i y) = map g l.
Proof.
  intros X Y g l i x y H Hg. rewrite (split_at _ l i x H) at 2. unfold upd. rewrite !map_app. cbn [map]. rewrite Hg. reflexivity.
Qed.

Lemma length_upd : forall (X : Type) (l : list X) i x y, nth_error l i = Some x -> List.length (upd l i y) = List.length l.
Proof.
  intros X l i x y H. rewrite (split_at _ l i x H) at 2. unfold upd. rewrite !app_length. reflexivity.
Qed.

Lemma nth_error_upd_same : forall (X : Type) (l : list X) i x y, nth_error l i = Some x -> nth_error (upd l i y) i = Some y.
Proof.
  intros X l. induction l as [|z l IH]; intros i x y H; destruct i as [|i]; cbn in H; try discriminate.
  - reflexivity.
  - unfold upd. cbn [firstn skipn app nth_error]. apply (IH i x y H).
Qed.

Lemma nth_error_upd_other : forall (X : Type) (l : list X) i j x y,
  nth_error l i = Some x -> i <> j -> nth_error (upd l i y) j = nth_error l j.
Proof.
  intros X l. induction l as [|z l IH]; intros i j x y Hx H; destruct i as [|i]; cbn in Hx; try discriminate.
  - destruct j as [|j]; [contradiction|]. reflexivity.
  - destruct j as [|j]; unfold upd; cbn [firstn skipn app nth_error]; [reflexivity|].
    apply (IH i j x y Hx). intro E. apply H. f_equal. exact E.
Qed.

(* ------------------------------------------------------------------------------------------------ *)
(* the acceptor does not look at the next-node of another run's entry *)

Definition entry_sim (p : N) (e1 e2 : N * rstate) : Prop :=
  fst e1 = fst e2 /\ (snd e1 = snd e2 \/ (fst e1 = p /\ st_flow (snd e1) = st_flow (snd e2) /\ st_last (snd e1) = st_last (snd e2))).

Definition sim (p : N) (s1 s2 : state) : Prop := Forall2 (entry_sim p) s1 s2.

Lemma sim_refl : forall p s, sim p s s.
Proof. intros p s. induction s; constructor; [split; [reflexivity | left; reflexivity] | assumption]. Qed.

Definition opt_same_pos (x y : option rstate) : Prop :=
  match x, y with
  | Some a, Some b => st_flow a = st_flow b /\ st_last a = st_last b
  | None, None => True
  | _, _ => False
  end.

Lemma sim_lookup : forall p s1 s2 r, sim p s1 s2 ->
  opt_same_pos (lookup_run s1 r) (lookup_run s2 r) /\ (r <> p -> lookup_run s1 r = lookup_run s2 r).
Proof.
  intros p s1 s2 r H. induction H as [|[k1 v1] [k2 v2] s1 s2 [Hk Hv] _ [IH1 IH2]]; cbn [lookup_run].
  - split; [exact I | reflexivity].
  - cbn [fst snd] in *. subst k2. destruct (N.eqb k1 r) eqn:E.
    + apply N.eqb_eq in E. subst k1. destruct Hv as [Hv|[Hp [Hf Hl]]].
      * subst v2. split; [split; reflexivity | reflexivity].
      * split; [split; assumption|]. intro Hne. contradiction.
    + split; assumption.
Qed.

Section Accepts.
  Variable names : list named.
  Variable A : list flow.

  Lemma position_ok_sim : forall p s1 s2 f o, sim p s1 s2 -> os_run o <> p ->
    position_ok A s1 f o = position_ok A s2 f o.
  Proof.
    intros p s1 s2 f o H Hne. unfold position_ok.
    rewrite (proj2 (sim_lookup p s1 s2 (os_run o) H) Hne).
    destruct (lookup_run s2 (os_run o)); [reflexivity|]. f_equal.
    destruct (os_parent o) as [q|]; [|reflexivity].
    pose proof (proj1 (sim_lookup p s1 s2 q H)) as Hq. unfold opt_same_pos in Hq.
    destruct (lookup_run s1 q) as [x|]; destruct (lookup_run s2 q) as [y|]; try contradiction; [|reflexivity].
    destruct Hq as [Hf Hl]. rewrite Hf, Hl. reflexivity.
  Qed.

  Lemma step_ok_sim : forall p s1 s2 o s1', sim p s1 s2 -> os_run o <> p ->
    step_ok names A s1 o = Some s1' -> exists s2', step_ok names A s2 o = Some s2' /\ sim p s1' s2'.
  Proof.
    intros p s1 s2 o s1' H Hne Hs. unfold step_ok in *.
    destruct (lookup_flow A (os_flow o)) as [f|]; [|discriminate].
    destruct (lookup_node f (os_node o)) as [n|]; [|discriminate].
    rewrite <- (position_ok_sim p s1 s2 f o H Hne).
    destruct (position_ok A s1 f o && match_saves (node_emitters n (os_exit o)) (os_saved o)
              && touched_ok names n (os_touched o) && exit_ok n o); [|discriminate].
    inversion Hs; subst s1'. eexists. split; [reflexivity|].
    constructor; [split; [reflexivity | left; reflexivity] | exact H].
  Qed.

  Lemma acc_state_sim : forall p tr s1 s2 a1, sim p s1 s2 -> Forall (fun o => os_run o <> p) tr ->
    acc_state names A s1 tr = Some a1 -> exists a2, acc_state names A s2 tr = Some a2 /\ sim p a1 a2.
  Proof.
    induction tr as [|o tr IH]; intros s1 s2 a1 H Hf Ha; cbn [acc_state] in *.
    - inversion Ha; subst. exists s2. split; [reflexivity | exact H].
    - inversion Hf as [|? ? Ho Hrest]; subst.
      destruct (step_ok names A s1 o) as [s1'|] eqn:E; [|discriminate].
      destruct (step_ok_sim p s1 s2 o s1' H Ho E) as [s2' [E2 H2]]. rewrite E2. apply (IH s1' s2' a1 H2 Hrest Ha).
  Qed.

  Lemma step_ok_shape : forall s o s', step_ok names A s o = Some s' -> exists v, s' = (os_run o, v) :: s.
  Proof.
    intros s o s' H. unfold step_ok in H.
    destruct (lookup_flow A (os_flow o)) as [f|]; [|discriminate].
    destruct (lookup_node f (os_node o)) as [n|]; [|discriminate].
    destruct (position_ok A s f o && match_saves (node_emitters n (os_exit o)) (os_saved o)
              && touched_ok names n (os_touched o) && exit_ok n o); [|discriminate].
    inversion H. eexists. reflexivity.
  Qed.

  Lemma acc_lookup_absent : forall k tr s a, Forall (fun o => os_run o <> k) tr ->
    acc_state names A s tr = Some a -> lookup_run a k = lookup_run s k.
  Proof.
    induction tr as [|o tr IH]; intros s a Hf Ha; cbn [acc_state] in Ha.
    - inversion Ha; reflexivity.
    - inversion Hf as [|? ? Ho Hrest]; subst.
      destruct (step_ok names A s o) as [s'|] eqn:E; [|discriminate].
      rewrite (IH s' a Hrest Ha). destruct (step_ok_shape s o s' E) as [v Hv]. subst s'. cbn [lookup_run].
      destruct (N.eqb (os_run o) k) eqn:E2; [apply N.eqb_eq in E2; contradiction | reflexivity].
  Qed.

  (* ---------------------------------------------------------------------------------------------- *)
  Variable pick : N -> N -> nat -> option N.
  Variable act : N -> N -> nat -> nat -> act_outcome.
  Variable touch : N -> N -> nat -> aref -> bool.
  Variable msg_trigger : bool.
  Hypothesis Hnd : NoDup (map f_id A).

  Lemma lookup_flow_unique : forall f, In f A -> lookup_flow A (f_id f) = Some f.
  Proof.
    unfold lookup_flow. induction A as [|g l IH]; intros f Hin; [destruct Hin|]. cbn [find].
    cbn [map] in Hnd. inversion Hnd as [|? ? Hnot Hnd']; subst.
    destruct Hin as [Hin|Hin].
    - subst g. rewrite N.eqb_refl. reflexivity.
    - destruct (N.eqb (f_id g) (f_id f)) eqn:E.
      + apply N.eqb_eq in E. exfalso. apply Hnot. rewrite E. apply in_map. exact Hin.
      + apply IH; assumption.
  Qed.

  Lemma act_pushed_some : forall fid nid t acts i acc cf term,
    act_pushed A act fid nid t i acts acc = Some (cf, term) ->
    acc = Some (cf, term) \/ exists a u tm, In a acts /\ a_behav a = BEnterFlow u tm /\ flow_by_uuid A u = Some cf.
  Proof.
    induction acts as [|a acts IH]; intros i acc cf term H; cbn [act_pushed] in H; [left; exact H|].
    apply IH in H. destruct H as [H|[a' [u [tm [Hin [Hb Hf]]]]]].
    - destruct (a_behav a) as [|nm0 ct0|u tm|sv0 rn0] eqn:Eb; try (left; exact H).
      destruct (act fid nid i t); [|left; exact H].
      destruct (flow_by_uuid A u) as [cf'|] eqn:Ef; [|left; exact H].
      inversion H; subst. right. exists a, u. eexists. split; [left; reflexivity|]. split; [exact Eb | exact Ef].
    - right. exists a', u, tm. split; [right; exact Hin|]. split; assumption.
  Qed.

  Definition proj (o : ostep) : N * N := (os_run o, os_flow o).

  (* bookkeeping of the runs against the emitted steps *)
  Definition runs_ok (runs : list run_) (L : list (N * N)) : Prop :=
    (forall r rr idx, nth_error runs r = Some rr -> r_last rr = Some idx ->
       nth_error L idx = Some (N.of_nat r, r_flow rr)
       /\ Forall (fun q => fst q <> N.of_nat r) (skipn (S idx) L))
    /\ Forall (fun q => exists r, fst q = N.of_nat r /\ (r < List.length runs)%nat) L.

  Definition inv (st : sess) (a : state) : Prop :=
    Forall (step_inv names A) (s_steps st)
    /\ acc_state names A [] (s_steps st) = Some a
    /\ runs_ok (s_runs st) (map proj (s_steps st)).

  Definition parent_ok (a : state) (rr : run_) (f : flow) : Prop :=
    match r_parent rr with
    | None => True
    | Some p => exists prs pf pn, lookup_run a (N.of_nat p) = Some prs /\ lookup_flow A (st_flow prs) = Some pf
                                  /\ lookup_node pf (st_last prs) = Some pn /\ node_enters pn (f_uuid f) = true
    end.

  Definition link (st : sess) (a : state) (r : nat) (dest : option N) : Prop :=
    exists rr, nth_error (s_runs st) r = Some rr /\
      match r_last rr with
      | Some _ => exists rs, lookup_run a (N.of_nat r) = Some rs /\ st_flow rs = r_flow rr /\ st_next rs = dest
      | None => lookup_run a (N.of_nat r) = None
                /\ forall f, lookup_flow A (r_flow rr) = Some f -> dest = first_node f /\ parent_ok a rr f
      end.

  Definition wait_ok (st : sess) : Prop :=
    match s_wait st with
    | Some idx => exists pre o r rr, s_steps st = (pre ++ [o])%list /\ idx = List.length pre
                    /\ os_run o = N.of_nat r /\ nth_error (s_runs st) r = Some rr /\ r_last rr = Some idx
    | None => True
    end.

  Definition good (st : sess) : Prop := (exists a, inv st a) /\ wait_ok st.

  Lemma position_from_link : forall st a r dest_node rr f o,
    link st a r (Some dest_node) -> nth_error (s_runs st) r = Some rr -> lookup_flow A (r_flow rr) = Some f ->
    os_run o = N.of_nat r -> os_parent o = opt_nat_to_N (r_parent rr) -> os_flow o = r_flow rr -> os_node o = dest_node ->
    position_ok A a f o = true.
  Proof.
    intros st a r nid rr f o [rr' [Hrr' Hl]] Hrr Hf Hr Hp Hfl Hnode. rewrite Hrr in Hrr'. inversion Hrr'; subst rr'.
    unfold position_ok. rewrite Hr.
    destruct (r_last rr).
    - destruct Hl as [rs [Hrs [Hfid Hnext]]]. rewrite Hrs, Hfid, Hfl, N.eqb_refl, Hnext, Hnode. cbn. apply N.eqb_refl.
    - destruct Hl as [Hnone Hfirst]. rewrite Hnone. destruct (Hfirst f Hf) as [Hd Hpar].
      unfold first_node in Hd. destruct (f_nodes f) as [|n0 ns]; [discriminate|]. inversion Hd as [Hd'].
      rewrite Hnode, Hd', N.eqb_refl, Hp. cbn [andb]. unfold parent_ok in Hpar.
      destruct (r_parent rr) as [p|]; [|reflexivity]. cbn [opt_nat_to_N].
      destruct Hpar as [prs [pf [pn [H1 [H2 [H3 H4]]]]]]. rewrite H1, H2, H3. exact H4.
  Qed.

  (* appending the step [x] of run [r] (whose record gets r_last := the new index) keeps the bookkeeping *)
  Lemma runs_ok_append : forall runs L r rr x,
    runs_ok runs L -> nth_error runs r = Some rr -> x = (N.of_nat r, r_flow rr) ->
    runs_ok (set_last runs r (List.length L)) (L ++ [x])%list.
  Proof.
    intros runs L r rr x [H1 H2] Hrr Hx. unfold set_last. rewrite Hrr.
    set (rr' := {| r_flow := r_flow rr; r_parent := r_parent rr; r_resume_parent := r_resume_parent rr; r_last := Some (List.length L) |}).
    split.
    - intros q rq idx Hq Hlast. destruct (Nat.eq_dec r q) as [E|E].
      + subst q. rewrite (nth_error_upd_same _ runs r rr rr' Hrr) in Hq. inversion Hq; subst rq. cbn in Hlast. inversion Hlast; subst idx.
        split.
        * rewrite nth_error_app2 by lia. rewrite Nat.sub_diag. cbn. rewrite Hx. reflexivity.
        * rewrite skipn_all2; [constructor | rewrite app_length; cbn; lia].
      + rewrite (nth_error_upd_other _ runs r q rr rr' Hrr E) in Hq. destruct (H1 q rq idx Hq Hlast) as [Hn Hf].
        assert (Hlt : (idx < List.length L)%nat) by (apply nth_error_Some; rewrite Hn; discriminate).
        split.
        * rewrite nth_error_app1 by exact Hlt. exact Hn.
        * rewrite skipn_app. replace (S idx - List.length L)%nat with 0%nat by lia. cbn [skipn].
          apply Forall_app. split; [exact Hf|]. constructor; [|constructor]. rewrite Hx. cbn. intro Hc.
          apply Nat2N.inj in Hc. apply E. exact Hc.
    - rewrite (length_upd _ runs r rr rr' Hrr). apply Forall_app. split; [exact H2|]. constructor; [|constructor].
      exists r. rewrite Hx. split; [reflexivity|]. apply nth_error_Some. rewrite Hrr. discriminate.
  Qed.

  Lemma runs_ok_new_run : forall runs L c, runs_ok runs L -> r_last c = None -> runs_ok (runs ++ [c])%list L.
  Proof.
    intros runs L c [H1 H2] Hc. split.
    - intros q rq idx Hq Hlast. destruct (Nat.lt_ge_cases q (List.length runs)) as [Hlt|Hge].
      + rewrite nth_error_app1 in Hq by exact Hlt. apply (H1 q rq idx Hq Hlast).
      + rewrite nth_error_app2 in Hq by exact Hge. destruct (q - List.length runs)%nat as [|k]; cbn in Hq.
        * inversion Hq; subst rq. rewrite Hc in Hlast. discriminate.
        * destruct k; discriminate.
    - rewrite Forall_forall in *. intros q Hq. destruct (H2 q Hq) as [r [Hr Hlt]]. exists r. split; [exact Hr|].
      rewrite app_length. cbn. lia.
  Qed.

  Lemma proj_in_steps : forall steps runs k, runs_ok runs (map proj steps) -> (List.length runs <= k)%nat ->
    Forall (fun o => os_run o <> N.of_nat k) steps.
  Proof.
    intros steps runs k [_ H2] Hk. apply Forall_forall. intros o Ho. rewrite Forall_forall in H2.
    destruct (H2 (proj o) (in_map proj _ _ Ho)) as [r [Hr Hlt]]. cbn in Hr. rewrite Hr. intro Hc.
    apply Nat2N.inj in Hc. lia.
  Qed.

  Lemma set_last_get : forall runs r rr idx, nth_error runs r = Some rr ->
    nth_error (set_last runs r idx) r
    = Some {| r_flow := r_flow rr; r_parent := r_parent rr; r_resume_parent := r_resume_parent rr; r_last := Some idx |}
    /\ List.length (set_last runs r idx) = List.length runs.
  Proof.
    intros runs r rr idx H. unfold set_last. rewrite H. split.
    - apply nth_error_upd_same with (x := rr). exact H.
    - apply length_upd with (x := rr). exact H.
  Qed.

  Lemma go_good : forall fuel st r dest a,
    inv st a -> link st a r dest -> s_wait st = None ->
    good (go names A pick act touch msg_trigger fuel st r dest).
  Proof.
    induction fuel as [|fuel IH]; intros st r dest a Hinv Hlink Hwait.
    - cbn [go]. split; [exists a; exact Hinv | unfold wait_ok; rewrite Hwait; exact I].
    - assert (Hgood0 : good st) by (split; [exists a; exact Hinv | unfold wait_ok; rewrite Hwait; exact I]).
      pose proof Hlink as [rr [Hrr Hl]]. destruct Hinv as [I1 [I2 I3]]. cbn [go]. rewrite Hrr.
      destruct dest as [nid|].
      + (* ---- visit node nid *)
        destruct (lookup_flow A (r_flow rr)) as [f|] eqn:Ef; [|exact Hgood0].
        destruct (lookup_node f nid) as [n|] eqn:En; [|exact Hgood0].
        set (idx := List.length (s_steps st)).
        pose proof (new_step_inv names A act touch (N.of_nat r) (opt_nat_to_N (r_parent rr)) (r_flow rr) nid idx f n Ef En) as Hnew.
        set (o := {| os_run := N.of_nat r; os_parent := opt_nat_to_N (r_parent rr); os_flow := r_flow rr; os_node := nid;
                     os_saved := act_saves act (r_flow rr) nid idx 0 (n_actions n);
                     os_touched := filter (touch (r_flow rr) nid idx) (node_asset_refs n ++ node_implicit_refs names n);
                     os_exit := None; os_resumed := false |}) in *.
        assert (Hpos : position_ok A a f o = true)
          by (apply position_from_link with (st := st) (r := r) (dest_node := nid) (rr := rr); try reflexivity; assumption).
        assert (Hok : step_ok names A a o
                      = Some ((os_run o, {| st_flow := os_flow o; st_last := os_node o; st_next := exit_dest n (os_exit o) |}) :: a))
          by (apply step_ok_intro with (f := f); assumption).
        destruct (set_last_get (s_runs st) r rr idx Hrr) as [Hget Hlen].
        assert (Hidx : idx = List.length (map proj (s_steps st))) by (rewrite map_length; reflexivity).
        assert (Hrk : forall x, proj x = (N.of_nat r, r_flow rr) ->
                  runs_ok (set_last (s_runs st) r idx) (map proj (s_steps st ++ [x]))).
        { intros x Hx. rewrite map_app. cbn [map]. rewrite Hidx. apply runs_ok_append with (rr := rr); [exact I3 | exact Hrr | exact Hx]. }
        assert (Hrlt : (r < List.length (s_runs st))%nat) by (apply nth_error_Some; rewrite Hrr; discriminate).
        destruct (act_pushed A act (r_flow rr) nid idx 0 (n_actions n) None) as [[cf term]|] eqn:Ep.
        * (* a child flow was pushed *)
          set (c := {| r_flow := f_id cf; r_parent := Some r; r_resume_parent := negb term; r_last := None |}).
          eapply IH with (a := (os_run o, {| st_flow := os_flow o; st_last := os_node o; st_next := exit_dest n (os_exit o) |}) :: a).
          -- split; [cbn [s_steps]; apply Forall_snoc; assumption|]. split.
             ++ cbn [s_steps]. apply acc_state_snoc with (a := a); assumption.
             ++ cbn [s_steps s_runs]. apply runs_ok_new_run; [apply Hrk; reflexivity | reflexivity].
          -- exists c. cbn [s_runs]. split.
             ++ rewrite nth_error_app2 by lia. rewrite Nat.sub_diag. reflexivity.
             ++ cbn [r_last c]. split.
                ** cbn [lookup_run os_run o]. rewrite Hlen.
                   destruct (N.eqb (N.of_nat r) (N.of_nat (List.length (s_runs st)))) eqn:E.
                   { apply N.eqb_eq in E. apply Nat2N.inj in E. lia. }
                   rewrite (acc_lookup_absent (N.of_nat (List.length (s_runs st))) (s_steps st) [] a); [reflexivity| |exact I2].
                   apply proj_in_steps with (runs := s_runs st); [exact I3 | lia].
                ** intros f' Hf'. cbn [r_flow c] in Hf'.
                   destruct (act_pushed_some _ _ _ _ _ _ _ _ Ep) as [Hc|[a0 [u [tm [Hin [Hb Hfu]]]]]]; [discriminate Hc|].
                   unfold flow_by_uuid in Hfu. apply find_some in Hfu. destruct Hfu as [HcfA Hu].
                   rewrite (lookup_flow_unique cf HcfA) in Hf'. inversion Hf'; subst f'.
                   split; [reflexivity|]. unfold parent_ok. cbn [r_parent c].
                   eexists. exists f, n. split; [cbn [lookup_run os_run o]; rewrite N.eqb_refl; reflexivity|].
                   cbn [st_flow st_last os_flow os_node o]. split; [exact Ef|]. split; [exact En|].
                   unfold node_enters. apply existsb_exists. exists a0. split; [exact Hin|]. rewrite Hb.
                   apply text_eqb_eq in Hu. rewrite Hu. apply text_eqb_refl.
          -- cbn [s_wait]. exact Hwait.
        * destruct (node_has_wait n && negb (msg_trigger && Nat.eqb idx 0)) eqn:Ew.
          -- (* the run waits *)
             split.
             ++ eexists. split; [cbn [s_steps]; apply Forall_snoc; assumption|]. split.
                ** cbn [s_steps]. apply acc_state_snoc with (a := a); eassumption.
                ** cbn [s_steps s_runs]. apply Hrk. reflexivity.
             ++ unfold wait_ok. cbn [s_wait s_steps s_runs]. exists (s_steps st), o, r. eexists.
                split; [reflexivity|]. split; [reflexivity|]. split; [reflexivity|]. split; [exact Hget | reflexivity].
          -- destruct (route_step n o (pick (r_flow rr) nid idx) false) as [o'|] eqn:Er.
             ++ (* routed: go on *)
                pose proof (route_emitted names A o n f (pick (r_flow rr) nid idx) false o' Hnew eq_refl Ef En eq_refl Er) as Hinv'.
                destruct (route_step_fields _ _ _ _ _ Er) as [Fr [Fp [Ff Fn]]].
                assert (Hpos' : position_ok A a f o' = true).
                { apply position_from_link with (st := st) (r := r) (dest_node := nid) (rr := rr);
                    [exact Hlink | exact Hrr | exact Ef | rewrite Fr; reflexivity | rewrite Fp; reflexivity
                    | rewrite Ff; reflexivity | rewrite Fn; reflexivity]. }
                assert (Hok' : step_ok names A a o'
                         = Some ((os_run o', {| st_flow := os_flow o'; st_last := os_node o'; st_next := exit_dest n (os_exit o') |}) :: a)).
                { apply step_ok_intro with (f := f);
                    [rewrite Ff; exact Ef | rewrite Fn; exact En | exact Hinv' | exact Hpos']. }
                eapply IH with (a := (os_run o', {| st_flow := os_flow o'; st_last := os_node o'; st_next := exit_dest n (os_exit o') |}) :: a).
                ** split; [cbn [s_steps]; apply Forall_snoc; assumption|]. split.
                   --- cbn [s_steps]. apply acc_state_snoc with (a := a); assumption.
                   --- cbn [s_steps s_runs]. apply Hrk. unfold proj. rewrite Fr, Ff. reflexivity.
                ** eexists. cbn [s_runs]. split; [exact Hget|]. cbn [r_last].
                   eexists. split; [cbn [lookup_run]; rewrite Fr; cbn [os_run o]; rewrite N.eqb_refl; reflexivity|].
                   cbn [st_flow st_next r_flow]. split; [rewrite Ff; reflexivity | reflexivity].
                ** cbn [s_wait]. exact Hwait.
             ++ (* the router failed *)
                split.
                ** eexists. split; [cbn [s_steps]; apply Forall_snoc; assumption|]. split.
                   --- cbn [s_steps]. apply acc_state_snoc with (a := a); eassumption.
                   --- cbn [s_steps s_runs]. apply Hrk. reflexivity.
                ** unfold wait_ok. cbn [s_wait]. rewrite Hwait. exact I.
      + (* ---- the run is complete: back to the parent *)
        destruct (r_parent rr) as [p|]; [|exact Hgood0].
        destruct (r_resume_parent rr); [|exact Hgood0].
        destruct (nth_error (s_runs st) p) as [pr|] eqn:Epr; [|exact Hgood0].
        destruct (r_last pr) as [idx|] eqn:Elast; [|exact Hgood0].
        destruct (nth_error (s_steps st) idx) as [o|] eqn:Eo; [|exact Hgood0].
        destruct (os_exit o) as [e|] eqn:Eex; [exact Hgood0|].
        destruct (lookup_flow A (os_flow o)) as [f|] eqn:Ef; [|exact Hgood0].
        destruct (lookup_node f (os_node o)) as [n|] eqn:En; [|exact Hgood0].
        destruct (route_step n o (pick (os_flow o) (os_node o) idx) (os_resumed o)) as [o'|] eqn:Er; [|exact Hgood0].
        destruct (route_step_fields _ _ _ _ _ Er) as [Fr [Fp [Ff Fn]]].
        (* what the bookkeeping says about the parent's step *)
        destruct I3 as [I3a I3b]. destruct (I3a p pr idx Epr Elast) as [Hnth Hlater].
        rewrite (map_nth_error proj idx (s_steps st) Eo) in Hnth. inversion Hnth as [[Hrun Hflow]].
        assert (Hpost : Forall (fun oj => os_run oj <> N.of_nat p) (skipn (S idx) (s_steps st))).
        { rewrite skipn_map in Hlater. apply Forall_forall. intros x Hx. rewrite Forall_forall in Hlater.
          apply (Hlater (proj x)). apply in_map. exact Hx. }
        pose proof (nth_error_Forall _ _ _ _ I1 Eo) as Ho.
        assert (Hres : negb (os_resumed o) || node_has_wait n = true).
        { destruct Ho as [f0 [n0 [Hf0 [Hn0 [_ [_ [Hexit _]]]]]]].
          rewrite Ef in Hf0. inversion Hf0; subst f0. rewrite En in Hn0. inversion Hn0; subst n0.
          apply exit_ok_resumed. exact Hexit. }
        pose proof (route_emitted names A o n f _ (os_resumed o) o' Ho Eex Ef En Hres Er) as Ho'.
        (* the acceptor on pre ++ o :: post *)
        pose proof (split_at _ _ _ _ Eo) as Hsplit. rewrite Hsplit in I2. rewrite acc_state_app in I2.
        destruct (acc_state names A [] (firstn idx (s_steps st))) as [apre|] eqn:Epre; [|discriminate].
        cbn [acc_state] in I2. destruct (step_ok names A apre o) as [s1|] eqn:Es1; [|discriminate].
        pose proof (step_ok_position _ _ _ _ _ _ Es1 Ef) as Hpos.
        rewrite (step_ok_intro names A apre o f n Ef En Ho Hpos) in Es1. inversion Es1; subst s1; clear Es1.
        assert (Hpos' : position_ok A apre f o' = true) by (unfold position_ok in *; rewrite Fr, Ff, Fn, Fp; exact Hpos).
        assert (Hok' : step_ok names A apre o'
                 = Some ((os_run o', {| st_flow := os_flow o'; st_last := os_node o'; st_next := exit_dest n (os_exit o') |}) :: apre))
          by (apply step_ok_intro with (f := f); [rewrite Ff; exact Ef | rewrite Fn; exact En | exact Ho' | exact Hpos']).
        destruct (acc_state_sim (N.of_nat p) (skipn (S idx) (s_steps st))
                    ((os_run o, {| st_flow := os_flow o; st_last := os_node o; st_next := exit_dest n (os_exit o) |}) :: apre)
                    ((os_run o', {| st_flow := os_flow o'; st_last := os_node o'; st_next := exit_dest n (os_exit o') |}) :: apre)
                    a) as [a2 [Ha2 Hsim]]; [| exact Hpost | exact I2 |].
        { constructor; [|apply sim_refl]. split; [cbn; rewrite Fr; reflexivity|]. right. cbn.
          split; [exact Hrun|]. split; [rewrite Ff; reflexivity | rewrite Fn; reflexivity]. }
        eapply IH with (a := a2).
        * split; [cbn [s_steps]; apply Forall_upd; assumption|]. split.
          -- cbn [s_steps]. unfold upd. rewrite acc_state_app, Epre. cbn [acc_state]. rewrite Hok'. exact Ha2.
          -- cbn [s_steps s_runs]. rewrite (map_upd_same _ _ proj (s_steps st) idx o o' Eo); [split; assumption|].
             unfold proj. rewrite Fr, Ff. reflexivity.
        * exists pr. cbn [s_runs]. split; [exact Epr|]. rewrite Elast.
          eexists. split.
          -- rewrite (acc_lookup_absent (N.of_nat p) _ _ _ Hpost Ha2). cbn [lookup_run]. rewrite Fr, Hrun, N.eqb_refl. reflexivity.
          -- cbn [st_flow st_next]. split; [rewrite Ff; exact Hflow | reflexivity].
        * cbn [s_wait]. exact Hwait.
  Qed.

  Lemma resume_good : forall fuel st timeout,
    good st -> good (resume names A pick act touch msg_trigger fuel st timeout).
  Proof.
    intros fuel st timeout Hg. pose proof Hg as [[a [I1 [I2 I3]]] Hw].
    unfold resume. unfold wait_ok in Hw.
    destruct (s_wait st) as [idx|] eqn:Ewait; [|exact Hg].
    destruct Hw as [pre [o [r [rr [Hst [Hidx [Hor [Hrr Hlast]]]]]]]]. subst idx. rewrite Hst. rewrite nth_error_last.
    destruct (os_exit o) as [e|] eqn:Eex; [exact Hg|].
    destruct (lookup_flow A (os_flow o)) as [f|] eqn:Ef; [|exact Hg].
    destruct (lookup_node f (os_node o)) as [n|] eqn:En; [|exact Hg].
    destruct (n_router n) as [rt|] eqn:Ert; [|exact Hg].
    destruct (rt_wait rt) as [tmo|] eqn:Ewt; [|exact Hg].
    destruct (if timeout then tmo else Some 0); [|exact Hg].
    assert (Hflow : os_flow o = r_flow rr).
    { destruct I3 as [I3a _]. destruct (I3a r rr (List.length pre) Hrr Hlast) as [Hnth _].
      rewrite Hst in Hnth. rewrite (map_nth_error proj _ _ (nth_error_last _ pre o)) in Hnth. inversion Hnth. reflexivity. }
    rewrite Hst in I1, I2.
    apply Forall_app in I1. destruct I1 as [I1pre I1o]. inversion I1o as [|? ? Ho _]; subst.
    destruct (acc_state_snoc_inv _ _ _ _ _ _ I2) as [apre [Hacc_pre Hok_o]].
    match goal with |- context[route_step n o ?c true] => destruct (route_step n o c true) as [o'|] eqn:Er end.
    - rewrite upd_last.
      assert (Hhw : negb true || node_has_wait n = true) by (unfold node_has_wait; rewrite Ert, Ewt; reflexivity).
      match type of Er with route_step n o ?c true = _ =>
        pose proof (route_emitted names A o n f c true o' Ho Eex Ef En Hhw Er) as Ho' end.
      destruct (route_step_fields _ _ _ _ _ Er) as [Fr [Fp [Ff Fn]]].
      pose proof (step_ok_position _ _ _ _ _ _ Hok_o Ef) as Hpos.
      assert (Hpos' : position_ok A apre f o' = true) by (unfold position_ok in *; rewrite Fr, Ff, Fn, Fp; exact Hpos).
      assert (Hok' : step_ok names A apre o'
               = Some ((os_run o', {| st_flow := os_flow o'; st_last := os_node o'; st_next := exit_dest n (os_exit o') |}) :: apre))
        by (apply step_ok_intro with (f := f); [rewrite Ff; exact Ef | rewrite Fn; exact En | exact Ho' | exact Hpos']).
      rewrite Hor, Nat2N.id.
      eapply go_good with (a := (os_run o', {| st_flow := os_flow o'; st_last := os_node o'; st_next := exit_dest n (os_exit o') |}) :: apre).
      + split; [cbn [s_steps]; apply Forall_snoc; assumption|]. split.
        * cbn [s_steps]. apply acc_state_snoc with (a := apre); assumption.
        * cbn [s_steps s_runs]. rewrite Hst in I3. rewrite map_app in *. cbn [map] in *.
          replace (proj o') with (proj o) by (unfold proj; rewrite Fr, Ff; reflexivity). exact I3.
      + exists rr. cbn [s_runs]. split; [exact Hrr|]. rewrite Hlast.
        eexists. split; [cbn [lookup_run]; rewrite Fr, Hor, N.eqb_refl; reflexivity|].
        cbn [st_flow st_next]. split; [rewrite Ff; exact Hflow | reflexivity].
      + reflexivity.
    - split; [|unfold wait_ok; cbn [s_wait]; exact I].
      exists a. split; [cbn [s_steps]; apply Forall_app; split; assumption|].
      split; [cbn [s_steps]; exact I2|]. cbn [s_steps s_runs]. rewrite <- Hst. exact I3.
  Qed.

  Lemma start_good : forall fuel fid f, lookup_flow A fid = Some f ->
    good (start names A pick act touch msg_trigger fuel fid).
  Proof.
    intros fuel fid f Ef. unfold start. rewrite Ef.
    eapply go_good with (a := []).
    - split; [constructor|]. split; [reflexivity|]. cbn [s_runs s_steps map]. split; [|constructor].
      intros r rr idx Hr Hl. destruct r as [|r]; cbn in Hr; [inversion Hr; subst rr; discriminate Hl | destruct r; discriminate Hr].
    - eexists. cbn [s_runs nth_error]. split; [reflexivity|]. cbn [r_last]. split; [reflexivity|].
      intros f' Hf'. cbn [r_flow] in Hf'. rewrite Ef in Hf'. inversion Hf'; subst f'. split; [reflexivity | exact I].
    - reflexivity.
  Qed.

  Lemma fold_resume_good : forall fuel history st,
    good st -> good (fold_left (resume names A pick act touch msg_trigger fuel) history st).
  Proof.
    induction history as [|k history IH]; intros st H; [exact H|]. cbn [fold_left]. apply IH. apply resume_good. exact H.
  Qed.

  Theorem exec_accepted_all : forall fuel fid history,
    accepts names A (exec names A pick act touch msg_trigger fuel fid history) = true.
  Proof.
    intros fuel fid history. unfold exec, accepts.
    destruct (lookup_flow A fid) as [f|] eqn:Ef.
    - destruct (fold_resume_good fuel history _ (start_good fuel fid f Ef)) as [[a [_ [Ha _]]] _].
      apply accepts_from_acc. exists a. exact Ha.
    - unfold start. rewrite Ef.
      assert (H : forall h st, s_wait st = None -> fold_left (resume names A pick act touch msg_trigger fuel) h st = st).
      { induction h as [|k h IH]; intros st Hs; [reflexivity|]. cbn [fold_left]. unfold resume at 2. rewrite Hs. apply IH. exact Hs. }
      rewrite H by reflexivity. reflexivity.
  Qed.
End Accepts.

Lemma distinct_ids_NoDup : forall l, distinct_ids l = true -> NoDup l.
Proof.
  induction l as [|x l IH]; intro H; [constructor|]. cbn [distinct_ids] in H. apply andb_true_iff in H. destruct H as [H1 H2].
  constructor; [|apply IH; exact H2]. intro Hin. apply negb_true_iff in H1.
  assert (E : existsb (N.eqb x) l = true) by (apply existsb_exists; exists x; split; [exact Hin | apply N.eqb_refl]).
  rewrite E in H1. discriminate.
Qed.

(* every trace the executable engine computes is accepted by the step acceptor *)
Theorem engine_traces_accepted : forall names A pick act touch msg_trigger fuel fid history,
  distinct_flow_ids A = true ->
  accepts names A (exec names A pick act touch msg_trigger fuel fid history) = true.
Proof.
  intros names A pick act touch msg_trigger fuel fid history H. apply exec_accepted_all.
  apply distinct_ids_NoDup. exact H.
Qed.

(* ... so the acceptor-relative theorems apply to them *)
Corollary engine_traces_steps_ok : forall names A pick act touch msg_trigger fuel fid history,
  distinct_flow_ids A = true -> steps_ok names A (exec names A pick act touch msg_trigger fuel fid history).
Proof. intros. apply accepts_steps_ok. apply engine_traces_accepted. assumption. Qed.
