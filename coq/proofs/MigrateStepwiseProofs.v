(* MigrateStepwiseProofs.v -- migrating in two hops (first to an intermediate target, then on) applies the same functions
   to the same trees with the same UUIDs as migrating in one go. *)
From Coq Require Import List NArith ZArith Bool String Lia.
From Verif Require Import lib.Json gen.MigrationTable model.Migrate proofs.MigrateProofs.
Import ListNotations.
Open Scope N_scope.

Section SortFilter.
  Context {A : Type}.
  Implicit Types (l : list (version * A)) (x : version * A).

  (* everything in a sorted list is at least its head *)
  Lemma sorted_head_le : forall x l y, sorted (x :: l) -> In y l -> vle (fst x) (fst y) = true.
  Proof.
    intros x l. revert x. induction l as [|z l IH]; intros x y Hs Hy; [contradiction|].
    destruct Hs as [Hxz Hs]. destruct Hy as [<-|Hy]; [exact Hxz|].
    eapply vle_trans; [exact Hxz|]. now apply IH.
  Qed.

  Lemma sorted_tail : forall x l, sorted (x :: l) -> sorted l.
  Proof. intros x l [_ H]. exact H. Qed.

  Lemma filter_insert : forall (p : version * A -> bool) x l, sorted l ->
    filter p (insert_version x l) = if p x then insert_version x (filter p l) else filter p l.
  Proof.
    intros p x l. induction l as [|z l IH]; intro Hs.
    - cbn. destruct (p x); reflexivity.
    - cbn [insert_version]. destruct (vlt (fst z) (fst x)) eqn:E.
      + cbn [filter]. rewrite (IH (sorted_tail _ _ Hs)). destruct (p z) eqn:Ez; destruct (p x); try reflexivity.
        cbn [insert_version]. now rewrite E.
      + cbn [filter]. destruct (p x) eqn:Ex; [|reflexivity].
        destruct (p z) eqn:Ez.
        * cbn [insert_version]. now rewrite E.
        * (* z is dropped; x goes in front of what remains, all of which is at least z, hence not below x *)
          assert (Hall : forall y, In y (filter p l) -> vlt (fst y) (fst x) = false).
          { intros y Hy. apply filter_In in Hy. destruct Hy as [Hy _].
            apply vlt_false_vle. apply vlt_false_vle in E. eapply vle_trans; [exact E|].
            now apply (sorted_head_le z l). }
          destruct (filter p l) as [|w r]; [reflexivity|]. cbn [insert_version].
          now rewrite (Hall w (or_introl eq_refl)).
  Qed.

  Lemma sort_filter : forall (p : version * A -> bool) l, sort_versions (filter p l) = filter p (sort_versions l).
  Proof.
    intros p l. induction l as [|x l IH]; [reflexivity|].
    cbn [filter sort_versions fold_right]. fold (sort_versions l).
    rewrite (filter_insert p x (sort_versions l) (sort_sorted l)). destruct (p x); [|exact IH].
    cbn [sort_versions fold_right]. fold (sort_versions (filter p l)). now rewrite IH.
  Qed.

  Lemma filter_none : forall (p : version * A -> bool) l, (forall y, In y l -> p y = false) -> filter p l = [].
  Proof.
    intros p l H. induction l as [|x l IH]; [reflexivity|]. cbn [filter]. rewrite (H x (or_introl eq_refl)).
    apply IH. intros y Hy. apply H. now right.
  Qed.

  (* a sorted list splits at a bound: what is at most b comes before what is above b *)
  Lemma filter_split : forall (q : version * A -> bool) b l, sorted l ->
    filter q l = filter (fun r => q r && vle (fst r) b) l ++ filter (fun r => q r && vlt b (fst r)) l.
  Proof.
    intros q b l. induction l as [|x l IH]; intro Hs; [reflexivity|].
    cbn [filter]. specialize (IH (sorted_tail _ _ Hs)).
    destruct (q x) eqn:Eq; cbn [andb]; [|exact IH].
    destruct (vle (fst x) b) eqn:E.
    - assert (E2 : vlt b (fst x) = false) by now apply vlt_false_vle. rewrite E2. cbn [app]. now rewrite IH.
    - assert (E2 : vlt b (fst x) = true).
      { destruct (vlt b (fst x)) eqn:E3; [reflexivity|]. apply vlt_false_vle in E3. congruence. }
      rewrite E2.
      (* nothing after x is at most b *)
      assert (Hnil : filter (fun r => q r && vle (fst r) b) l = []).
      { apply filter_none. intros y Hy. destruct (vle (fst y) b) eqn:Ey; [|apply andb_false_r].
        pose proof (sorted_head_le x l y Hs Hy) as Hxy. rewrite (vle_trans _ _ _ Hxy Ey) in E. discriminate. }
      rewrite Hnil. cbn [app]. rewrite IH, Hnil. reflexivity.
  Qed.
End SortFilter.

Lemma apply_versions_app : forall tx a b fr f,
  apply_versions tx (a ++ b) fr f
  = match apply_versions tx a fr f with
    | (MOut (JObj f1), fr1) => apply_versions tx b fr1 f1
    | r => r
    end.
Proof.
  intros tx a. induction a as [|[v name] a IH]; intros b fr f; [reflexivity|].
  cbn [app apply_versions]. destruct (migration_of_name name) as [m|]; [|reflexivity].
  destruct (m tx fr f) as [f' fr']. apply IH.
Qed.

Lemma apply_versions_not_same : forall tx steps fr f, fst (apply_versions tx steps fr f) <> MSame.
Proof.
  intros tx steps. induction steps as [|[v name] rest IH]; intros fr f; cbn [apply_versions]; [discriminate|].
  destruct (migration_of_name name) as [m|]; [|discriminate]. destruct (m tx fr f) as [f' fr']. apply IH.
Qed.

Definition selects (from : version) (to : option version) (r : version * string) : bool :=
  vlt from (fst r) && match to with None => true | Some t => vle (fst r) t end.

Lemma select_as_filter : forall from to,
  select_versions registered from to = filter (selects from to) (sort_versions registered).
Proof. intros from to. unfold select_versions. apply sort_filter. Qed.

Lemma stepwise_eq_direct : forall tx j v1 to2 fr j1 fr1,
  match to2 with Some t => vle v1 t = true | None => True end ->
  migrate_to tx j (Some v1) fr = (MOut j1, fr1) ->
  migrate_to tx j to2 fr = match migrate_to tx j1 to2 fr1 with (MSame, _) => (MOut j1, fr1) | r => r end.
Proof.
  intros tx j v1 to2 fr j1 fr1 Hto H1.
  pose proof (migrate_out _ _ _ _ _ _ H1) as Hout.
  destruct Hout as [from [f [f1 [step [-> [-> [Hh [Hin [Hmax [Hh1 _]]]]]]]]]].
  set (vlast := fst step) in *.
  pose proof Hin as Hin'. apply select_In in Hin'. destruct Hin' as [Hreg [Hfl Hlv]].
  (* the selection for the whole way is the selection of the first hop followed by that of the second *)
  assert (Hsplit : select_versions registered from to2
                   = select_versions registered from (Some v1) ++ select_versions registered vlast to2).
  { rewrite !select_as_filter.
    rewrite (filter_split (selects from to2) v1 (sort_versions registered) (sort_sorted registered)). f_equal.
    - apply filter_ext_in. intros r _. unfold selects. destruct (vlt from (fst r)); cbn [andb]; [|reflexivity].
      destruct to2 as [t|]; [|reflexivity]. destruct (vle (fst r) v1) eqn:E; [|apply andb_false_r].
      now rewrite (vle_trans _ _ _ E Hto).
    - apply filter_ext_in. intros r Hr. apply (proj1 (sort_In _ _)) in Hr. unfold selects.
      destruct (match to2 with None => true | Some t => vle (fst r) t end) eqn:Et;
        [rewrite !andb_true_r | now rewrite !andb_false_r].
      destruct (vlt vlast (fst r)) eqn:E.
      + apply vlt_true in E. apply vlt_true in Hfl.
        assert (E1 : vlt from (fst r) = true) by (apply vlt_true; eapply vlt_prop_trans; eassumption). rewrite E1. cbn [andb].
        destruct (vlt v1 (fst r)) eqn:E2; [reflexivity|]. exfalso.
        apply vlt_false_vle in E2.
        assert (Hsel : In r (select_versions registered from (Some v1))) by (apply select_In; auto).
        apply Hmax in Hsel. apply vle_true in Hsel. contradiction.
      + destruct (vlt from (fst r)); cbn [andb]; [|reflexivity].
        destruct (vlt v1 (fst r)) eqn:E2; [|reflexivity]. exfalso.
        apply vlt_true in E2. apply vlt_false_vle in E. apply vle_true in E. apply E.
        eapply vle_lt_trans; [exact Hlv | exact E2]. }
  unfold migrate_to, migrate_with in *. rewrite Hh in *. rewrite Hh1. rewrite Hsplit.
  destruct (select_versions registered from (Some v1)) as [|s0 steps1] eqn:E1; [discriminate|].
  change ((s0 :: steps1) ++ select_versions registered vlast to2)
    with (s0 :: (steps1 ++ select_versions registered vlast to2)).
  cbv iota. change (s0 :: (steps1 ++ select_versions registered vlast to2))
    with ((s0 :: steps1) ++ select_versions registered vlast to2).
  rewrite apply_versions_app, H1.
  destruct (select_versions registered vlast to2) as [|t0 steps2]; [reflexivity|].
  pose proof (apply_versions_not_same tx (t0 :: steps2) fr1 f1) as Hns.
  destruct (apply_versions tx (t0 :: steps2) fr1 f1) as [m l]. cbn [fst] in Hns.
  destruct m; try reflexivity. congruence.
Qed.
