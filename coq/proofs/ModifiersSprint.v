(* ModifiersSprint.v — the sprint-level clauses of C03 and C06 on the step model of model/Modifiers.v
   (run_steps / sprint_steps / run_sprint: the contact-writing steps one engine call performs, in order). *)
From Coq Require Import List NArith Bool Lia Setoid.
From Verif Require Import model.Contact model.Modifiers proofs.ModifiersBase proofs.GroupsProofs proofs.ModifiersProofs.
Import ListNotations.
Open Scope N_scope.

(* ---- visible equality of contacts is an equivalence the replay respects ---------------------------------- *)
Lemma same_refl : forall c, same_contact c c.
Proof. intro c. unfold same_contact. repeat split; reflexivity. Qed.

Lemma same_sym : forall a b, same_contact a b -> same_contact b a.
Proof.
  intros a b [H1 [H2 [H3 [H4 [H5 [H6 [H7 [H8 H9]]]]]]]]. unfold same_contact.
  repeat split; try (symmetry; assumption). intro k. symmetry. apply H8.
Qed.

Lemma same_trans : forall a b c, same_contact a b -> same_contact b c -> same_contact a c.
Proof.
  intros a b c [H1 [H2 [H3 [H4 [H5 [H6 [H7 [H8 H9]]]]]]]] [K1 [K2 [K3 [K4 [K5 [K6 [K7 [K8 K9]]]]]]]].
  unfold same_contact. repeat split; try (etransitivity; eassumption). intro k. rewrite H8. apply K8.
Qed.

Lemma apply_event_same : forall c d e, same_contact c d -> same_contact (apply_event c e) (apply_event d e).
Proof.
  intros [n1 l1 s1 z1 t1 u1 g1 f1 k1] [n2 l2 s2 z2 t2 u2 g2 f2 k2] e H.
  unfold same_contact in H. cbn in H. destruct H as [H1 [H2 [H3 [H4 [H5 [H6 [H7 [H8 H9]]]]]]]]. subst.
  destruct e; unfold same_contact; cbn; repeat split; try reflexivity; try assumption.
  intro k. destruct (N.eq_dec k f) as [e|ne].
  - subst k. rewrite !fget_fset_same. reflexivity.
  - rewrite !fget_fset_other by exact ne. apply H8.
Qed.

Lemma replay_same : forall evs c d, same_contact c d -> same_contact (replay evs c) (replay evs d).
Proof.
  induction evs as [|e evs IH]; intros c d H; [exact H|]. cbn [replay fold_left].
  apply IH. apply apply_event_same. exact H.
Qed.

(* ---- Contact.Equal (comparison of the marshalled contacts) ------------------------------------------------- *)
Lemma raw_fields_sub_spec : forall a b, raw_fields_sub a b = true ->
  forall k v, fget k a = Some v -> fget k b = Some v.
Proof.
  induction a as [|[k' v'] a IH]; cbn; intros b H k v Hg; [discriminate|].
  apply andb_true_iff in H. destruct H as [H1 H2].
  destruct (N.eqb_spec k' k) as [e|ne].
  - subst. inversion Hg; subst. destruct (fget k b) as [w|] eqn:Hb; cbn in H1; [|discriminate].
    apply fvalue_eqb_eq in H1. congruence.
  - apply IH; assumption.
Qed.

Lemma json_eqb_same : forall a b, contact_json_eqb a b = true -> same_contact a b.
Proof.
  intros a b H. unfold contact_json_eqb in H. rewrite !andb_true_iff in H.
  destruct H as [[[[[[[[[H1 H2] H3] H4] H5] H6] H7] H8a] H8b] H9].
  apply text_eqb_eq in H1. apply N.eqb_eq in H2. apply status_eqb_eq in H3. apply optN_eqb_eq in H4.
  apply optN_eqb_eq in H5. unfold urns_equal in H6. apply listN_eqb_eq in H6. apply listN_eqb_eq in H7.
  assert (H9' : c_ticket a = c_ticket b).
  { destruct (c_ticket a) as [x|], (c_ticket b) as [y|]; cbn in H9; try discriminate; [|reflexivity].
    destruct x, y. unfold ticket_eqb in H9. cbn in H9. rewrite !andb_true_iff in H9. destruct H9 as [[K1 K2] K3].
    apply N.eqb_eq in K1. apply optN_eqb_eq in K2. apply optN_eqb_eq in K3. congruence. }
  unfold same_contact. repeat split; try assumption.
  intro k. destruct (fget k (c_fields a)) as [v|] eqn:Ha.
  - symmetry. eapply raw_fields_sub_spec; eassumption.
  - destruct (fget k (c_fields b)) as [w|] eqn:Hb; [|reflexivity].
    rewrite (raw_fields_sub_spec _ _ H8b k w Hb) in Ha. discriminate.
Qed.

(* ---- one step ------------------------------------------------------------------------------------------------ *)
Definition step_wf (E : menv) (s : step) : Prop :=
  match s with
  | SApply _ m => mod_wf E m
  | SRefresh c' => wf_contact E c'
  | _ => True
  end.

Section Steps.
Variable E : menv.

(* session.ensureQueryBasedGroups = modifiers.ReevaluateGroups *)
Lemma ensure_spec : forall c c' evs,
  wf_contact E c ->
  ensure_query_groups E c = (c', evs) ->
  c' = with_groups c (c_groups c')
  /\ wf_contact E c'
  /\ Consistent E c'
  /\ (is_active c = false -> c_groups c' = [])
  /\ group_events_sum evs (c_groups c) = c_groups c'
  /\ (evs = [] /\ c_groups c' = c_groups c \/ exists a r, evs = [EGroupsChanged a r]).
Proof.
  intros c c' evs Hwf H. unfold ensure_query_groups in H.
  destruct (reevaluate_groups_spec E c c' evs Hwf H) as [G1 [G2 [G3 [G4 [G5 [_ G7]]]]]]. tauto.
Qed.

Lemma run_step_spec : forall s c c1 evs,
  wf_contact E c -> step_wf E s ->
  run_step E s c = (c1, evs) ->
  same_contact (replay evs c) c1 /\ wf_contact E c1.
Proof.
  intros s c c1 evs Hwf Hs H. destruct s as [fresh m| |c'|t]; cbn [run_step] in H.
  - destruct (apply E fresh m c) as [[c2 evs2] b] eqn:HA. inversion H; subst c2 evs2.
    split; [apply erase_same; eapply replay_modifier; eassumption|].
    destruct b.
    + eapply after_modifier; eassumption.
    + eapply after_noop_modifier; eassumption.
  - destruct (ensure_spec c c1 evs Hwf H) as [G1 [G2 [_ [_ [G5 G6]]]]].
    split; [|exact G2].
    rewrite replay_group_events by (destruct G6 as [[G6 _]|G6]; [left | right]; exact G6).
    rewrite G5, <- G1. apply same_refl.
  - destruct (contact_json_eqb c c') eqn:Heq; inversion H; subst c1 evs.
    + split; [apply json_eqb_same; exact Heq | exact Hs].
    + split; [cbn; apply erase_same; apply erase_idem | exact Hs].
  - inversion H; subst. split; [apply same_refl | destruct c; exact Hwf].
Qed.

(* C03, sprint clause, on the step model: replaying the events of the steps over the contact before gives the
   contact after *)
Theorem replay_steps : forall ss c c' evs,
  wf_contact E c -> Forall (step_wf E) ss ->
  run_steps E ss c = (c', evs) ->
  same_contact (replay evs c) c' /\ wf_contact E c'.
Proof.
  induction ss as [|s ss IH]; intros c c' evs Hwf Hss H; cbn [run_steps] in H.
  - inversion H; subst. split; [apply same_refl | exact Hwf].
  - inversion Hss as [|? ? Hs Hss']; subst.
    destruct (run_step E s c) as [c1 e1] eqn:H1. destruct (run_steps E ss c1) as [c2 e2] eqn:H2.
    inversion H; subst c' evs.
    destruct (run_step_spec s c c1 e1 Hwf Hs H1) as [S1 W1].
    destruct (IH c1 c2 e2 W1 Hss' H2) as [S2 W2].
    split; [|exact W2]. rewrite replay_app. eapply same_trans; [apply replay_same; exact S1 | exact S2].
Qed.

(* ---- C06 over steps: a re-evaluation makes membership right, applied modifiers keep it right ---------------- *)
Lemma apply_steps_consistent : forall acts c c' evs,
  wf_contact E c -> Forall (fun fm => mod_wf E (snd fm)) acts -> Consistent E c ->
  run_steps E (map (fun fm => SApply (fst fm) (snd fm)) acts) c = (c', evs) ->
  Consistent E c' /\ wf_contact E c'.
Proof.
  induction acts as [|[fresh m] acts IH]; intros c c' evs Hwf Hms HC H; cbn [map run_steps] in H.
  - inversion H; subst. split; assumption.
  - inversion Hms as [|? ? Hm Hms']; subst. cbn [fst snd run_step] in H, Hm.
    destruct (apply E fresh m c) as [[c1 e1] b] eqn:HA.
    destruct (run_steps E (map (fun fm => SApply (fst fm) (snd fm)) acts) c1) as [c2 e2] eqn:H2.
    inversion H; subst c' evs.
    assert (HC1 : Consistent E c1 /\ wf_contact E c1).
    { destruct b.
      - destruct (after_modifier E fresh m c c1 e1 Hwf Hm HA) as [K1 [_ [_ K4]]]. split; assumption.
      - destruct (after_noop_modifier E fresh m c c1 e1 Hwf Hm HA) as [_ [K2 [K3 _]]]. split; [apply K2; exact HC | exact K3]. }
    destruct HC1 as [HC1 W1]. eapply IH; eassumption.
Qed.

Lemma ensure_then_applies : forall acts c c' evs,
  wf_contact E c -> Forall (fun fm => mod_wf E (snd fm)) acts ->
  run_steps E (SEnsure :: map (fun fm => SApply (fst fm) (snd fm)) acts) c = (c', evs) ->
  Consistent E c' /\ wf_contact E c'.
Proof.
  intros acts c c' evs Hwf Hms H. cbn [run_steps run_step] in H.
  destruct (ensure_query_groups E c) as [c1 e1] eqn:H1.
  destruct (run_steps E (map (fun fm => SApply (fst fm) (snd fm)) acts) c1) as [c2 e2] eqn:H2.
  inversion H; subst c' evs.
  destruct (run_step_spec SEnsure c c1 e1 Hwf I H1) as [_ W1].
  destruct (ensure_spec c c1 e1 Hwf H1) as [_ [_ [G3 _]]].
  eapply apply_steps_consistent; eassumption.
Qed.

Definition kind_wf (k : sprint_kind) : Prop :=
  match k with KResume (Some c') _ => wf_contact E c' | _ => True end.

Lemma sprint_steps_wf : forall k acts,
  kind_wf k -> Forall (fun fm => mod_wf E (snd fm)) acts -> Forall (step_wf E) (sprint_steps k acts).
Proof.
  intros k acts Hk Hms.
  assert (Happ : Forall (step_wf E) (map (fun fm => SApply (fst fm) (snd fm)) acts)).
  { apply Forall_map. eapply Forall_impl; [|exact Hms]. intros [f m] H. exact H. }
  destruct k as [| |[t|]|[c'|] [t|]]; cbn [sprint_steps opt_step app];
    repeat (constructor; try exact I; try exact Hk); exact Happ.
Qed.

(* the steps before the last re-evaluation only matter through well-formedness *)
Lemma run_steps_app : forall a b c, run_steps E (a ++ b) c =
  let '(c1, e1) := run_steps E a c in let '(c2, e2) := run_steps E b c1 in (c2, e1 ++ e2).
Proof.
  induction a as [|s a IH]; intros b c; cbn [app run_steps].
  - destruct (run_steps E b c) as [c2 e2]. reflexivity.
  - destruct (run_step E s c) as [c1 e1]. rewrite IH.
    destruct (run_steps E a c1) as [c2 e2]. destruct (run_steps E b c2) as [c3 e3]. rewrite app_assoc. reflexivity.
Qed.

(* C03 + C06, sprint clause, for every kind of engine call and every sequence of contact-changing actions:
   the events replay to the contact afterwards, and membership of every query based group is right *)
Theorem after_sprint : forall k acts c c' evs,
  wf_contact E c -> kind_wf k -> Forall (fun fm => mod_wf E (snd fm)) acts ->
  run_sprint E k acts c = (c', evs) ->
  same_contact (replay evs c) c' /\ Consistent E c' /\ wf_contact E c'.
Proof.
  intros k acts c c' evs Hwf Hk Hms H. unfold run_sprint in H.
  destruct (replay_steps _ c c' evs Hwf (sprint_steps_wf k acts Hk Hms) H) as [R W]. split; [exact R|].
  set (applies := map (fun fm => SApply (fst fm) (snd fm)) acts) in *.
  assert (Hsplit : exists pre, sprint_steps k acts = pre ++ SEnsure :: match k with KStartEmpty | KResumeFailed => [] | _ => applies end
                               /\ Forall (step_wf E) pre).
  { destruct k as [| |[t|]|[c0|] [t|]]; cbn [sprint_steps opt_step app]; fold applies.
    - exists []. split; [reflexivity | constructor].
    - exists []. split; [reflexivity | constructor].
    - exists [SEnsure; SSetInput t]. split; [reflexivity | repeat constructor].
    - exists [SEnsure]. split; [reflexivity | repeat constructor].
    - exists [SRefresh c0; SSetInput t]. split; [reflexivity | constructor; [exact Hk | repeat constructor]].
    - exists [SRefresh c0]. split; [reflexivity | constructor; [exact Hk | constructor]].
    - exists [SSetInput t]. split; [reflexivity | repeat constructor].
    - exists []. split; [reflexivity | constructor]. }
  destruct Hsplit as [pre [Hs Hpre]]. rewrite Hs, run_steps_app in H.
  destruct (run_steps E pre c) as [c1 e1] eqn:H1.
  destruct (run_steps E (SEnsure :: match k with KStartEmpty | KResumeFailed => [] | _ => applies end) c1) as [c2 e2] eqn:H2.
  inversion H; subst c' evs.
  destruct (replay_steps pre c c1 e1 Hwf Hpre H1) as [_ W1].
  destruct k; [apply (ensure_then_applies [] c1 c2 e2 W1 (Forall_nil _) H2) | apply (ensure_then_applies [] c1 c2 e2 W1 (Forall_nil _) H2) | |];
    apply (ensure_then_applies acts c1 c2 e2 W1 Hms H2).
Qed.

Corollary replay_sprint : forall k acts c c' evs,
  wf_contact E c -> kind_wf k -> Forall (fun fm => mod_wf E (snd fm)) acts ->
  run_sprint E k acts c = (c', evs) ->
  same_contact (replay evs c) c'.
Proof. intros k acts c c' evs H1 H2 H3 H4. exact (proj1 (after_sprint k acts c c' evs H1 H2 H3 H4)). Qed.

Corollary consistent_after_sprint : forall k acts c c' evs,
  wf_contact E c -> kind_wf k -> Forall (fun fm => mod_wf E (snd fm)) acts ->
  run_sprint E k acts c = (c', evs) ->
  Consistent E c' /\ wf_contact E c'.
Proof. intros k acts c c' evs H1 H2 H3 H4. exact (proj2 (after_sprint k acts c c' evs H1 H2 H3 H4)). Qed.

(* every membership change of the sprint is reported: the contact_groups_changed events (and a contact_refreshed,
   which replaces the membership) add up to the membership afterwards *)
Corollary sprint_group_events : forall k acts c c' evs,
  wf_contact E c -> kind_wf k -> Forall (fun fm => mod_wf E (snd fm)) acts ->
  run_sprint E k acts c = (c', evs) ->
  group_events_sum evs (c_groups c) = c_groups c'.
Proof.
  intros k acts c c' evs H1 H2 H3 H4. rewrite <- replay_groups_sum.
  destruct (replay_sprint k acts c c' evs H1 H2 H3 H4) as [_ [_ [_ [_ [_ [_ [Hg _]]]]]]]. exact Hg.
Qed.

(* ---- where the replay takes last-seen from --------------------------------------------------------------------
   The real msg_received event does not carry the time; the caller replays it with the time the message came in, which
   it knows from the trigger (triggered_on) or the resume (resumed_on) it handed to the engine.  In the model the
   event is annotated with that time; this section shows that the annotation is exactly the input time of the kind of
   engine call, and that nothing else emits such an event. *)
Definition is_msg (e : event) : bool := match e with EMsgReceived _ => true | _ => false end.

Lemma errors_no_msg : forall l, all_errors l -> existsb is_msg l = false.
Proof.
  induction l as [|e l IH]; intro H; [reflexivity|]. inversion H; subst. cbn. apply IH. assumption.
Qed.

Lemma groups_event_no_msg : forall a r, existsb is_msg (groups_event a r) = false.
Proof. intros [|x a] [|y r]; reflexivity. Qed.

Lemma apply_no_msg : forall fresh m c c' evs b,
  NoDup (c_groups c) -> apply E fresh m c = (c', evs, b) -> existsb is_msg evs = false.
Proof.
  intros fresh m c c' evs b Hnd H. unfold apply in H.
  destruct (apply_inner E fresh m c) as [[c1 evs1] b1] eqn:HI.
  assert (H1 : existsb is_msg evs1 = false).
  { destruct m; cbn [apply_inner] in HI.
    - unfold apply_name in HI. destruct (negb _); inversion HI; reflexivity.
    - unfold apply_language in HI. destruct (negb _); inversion HI; reflexivity.
    - unfold apply_status in HI. destruct (negb _); inversion HI; reflexivity.
    - unfold apply_timezone in HI. destruct (negb _); inversion HI; reflexivity.
    - unfold apply_field in HI. destruct (negb _); inversion HI; reflexivity.
    - unfold apply_groups in HI. destruct (negb _); [inversion HI; reflexivity|]. destruct md.
      + destruct (groups_add_loop_spec E gs (c_groups c) [] []) as [d [errs [HL [Herr _]]]]. rewrite HL in HI.
        pose proof (errors_no_msg errs Herr) as Hno.
        destruct ([] ++ d); inversion HI; subst; cbn [app] in *; rewrite ?existsb_app, ?Hno; reflexivity.
      + destruct (groups_remove_loop_spec E gs (c_groups c) [] [] Hnd) as [d [errs [HL [Herr _]]]]. rewrite HL in HI.
        pose proof (errors_no_msg errs Herr) as Hno.
        destruct ([] ++ d); inversion HI; subst; cbn [app] in *; rewrite ?existsb_app, ?Hno; reflexivity.
    - unfold apply_urns in HI.
      destruct (urns_loop_spec E md us (match md with USet => [] | _ => c_urns c end) []) as [errs [HL Herr]].
      rewrite HL in HI. cbn [app] in HI. pose proof (errors_no_msg errs Herr) as Hno.
      destruct (negb _); inversion HI; subst; rewrite ?existsb_app, ?Hno; reflexivity.
    - unfold apply_channel in HI. destruct (match ch with Some k => negb (chan_can_send E k) | None => false end);
        [inversion HI; reflexivity|]. destruct (update_preferred_channel E ch (c_urns c)) as [us' [|]]; inversion HI; reflexivity.
    - unfold apply_ticket in HI. destruct (c_ticket c); inversion HI; reflexivity. }
  destruct b1; [|inversion H; subst; exact H1].
  destruct (reevaluate_groups E c1) as [c2 evs2] eqn:HR. inversion H; subst. rewrite existsb_app, H1.
  unfold reevaluate_groups in HR. destruct (reevaluate_query_groups E c1) as [[cur added] removed].
  destruct (negb (is_active c1)); inversion HR; subst; apply groups_event_no_msg.
Qed.

Lemma steps_msg_time : forall ss c c' evs t,
  wf_contact E c -> Forall (step_wf E) ss ->
  run_steps E ss c = (c', evs) -> In (EMsgReceived t) evs -> In (SSetInput t) ss.
Proof.
  induction ss as [|s ss IH]; intros c c' evs t Hwf Hss H Hin; cbn [run_steps] in H.
  - inversion H; subst. destruct Hin.
  - inversion Hss as [|? ? Hs Hss']; subst.
    destruct (run_step E s c) as [c1 e1] eqn:H1. destruct (run_steps E ss c1) as [c2 e2] eqn:H2.
    inversion H; subst c' evs. destruct (run_step_spec s c c1 e1 Hwf Hs H1) as [_ W1].
    apply in_app_iff in Hin. destruct Hin as [Hin|Hin]; [|right; eapply IH; eassumption]. left.
    destruct s as [fresh m| |c0|t0]; cbn [run_step] in H1.
    + exfalso. destruct (apply E fresh m c) as [[cx ex] bx] eqn:HA. inversion H1; subst cx ex.
      destruct Hwf as [Hnd _]. pose proof (apply_no_msg fresh m c c1 e1 bx Hnd HA) as Hno.
      assert (Hex : existsb is_msg e1 = true) by (apply existsb_exists; exists (EMsgReceived t); split; [exact Hin | reflexivity]).
      congruence.
    + exfalso. destruct (ensure_spec c c1 e1 Hwf H1) as [_ [_ [_ [_ [_ [[G _]|[a [r G]]]]]]]]; subst e1;
        [destruct Hin | destruct Hin as [Hin|[]]; discriminate].
    + exfalso. destruct (contact_json_eqb c c0); inversion H1; subst; [destruct Hin | destruct Hin as [Hin|[]]; discriminate].
    + inversion H1; subst. destruct Hin as [Hin|[]]. inversion Hin. reflexivity.
Qed.

Definition kind_input (k : sprint_kind) : option N :=
  match k with KStartEmpty | KResumeFailed => None | KStart i => i | KResume _ i => i end.

(* every msg_received of a sprint is replayed with the time of the message the trigger / resume brought *)
Theorem sprint_msg_time : forall k acts c c' evs t,
  wf_contact E c -> kind_wf k -> Forall (fun fm => mod_wf E (snd fm)) acts ->
  run_sprint E k acts c = (c', evs) -> In (EMsgReceived t) evs -> kind_input k = Some t.
Proof.
  intros k acts c c' evs t Hwf Hk Hms H Hin. unfold run_sprint in H.
  pose proof (steps_msg_time _ c c' evs t Hwf (sprint_steps_wf k acts Hk Hms) H Hin) as Hs.
  assert (Hnot : ~ In (SSetInput t) (map (fun fm => SApply (fst fm) (snd fm)) acts)).
  { intro Hm. apply in_map_iff in Hm. destruct Hm as [x [Hx _]]. discriminate. }
  destruct k as [| |[t0|]|[c0|] [t0|]]; cbn [sprint_steps opt_step app kind_input] in *;
    repeat (destruct Hs as [Hs|Hs]; [try discriminate; try (inversion Hs; reflexivity)|]);
    try (exfalso; exact (Hnot Hs)); try destruct Hs.
Qed.

(* ---- "a contact that becomes non-active also leaves all its static groups", at sprint level ----------------------
   Invariant: a non-active contact is in no static group.  ensureQueryBasedGroups and SetInput keep status and static
   membership; an effective modifier clears every group of a non-active contact; a modifier that changes nothing
   leaves the contact; a refreshed contact is the caller's (premise). *)
Definition step_static_ok (s : step) : Prop :=
  match s with SRefresh c' => NoStaticIfInactive E c' | _ => True end.

Lemma run_step_no_static : forall s c c1 evs,
  wf_contact E c -> step_wf E s -> step_static_ok s -> NoStaticIfInactive E c ->
  run_step E s c = (c1, evs) -> NoStaticIfInactive E c1.
Proof.
  intros s c c1 evs Hwf Hs Hst HN H. destruct s as [fresh m| |c'|t]; cbn [run_step] in H.
  - destruct (apply E fresh m c) as [[c2 evs2] b] eqn:HA. inversion H; subst c2 evs2. destruct b.
    + destruct (after_modifier E fresh m c c1 evs Hwf Hs HA) as [_ [K2 _]].
      intros Hact g Hg. rewrite (K2 Hact) in Hg. destruct Hg.
    + destruct (after_noop_modifier E fresh m c c1 evs Hwf Hs HA) as [K1 _].
      assert (Hsame := erase_same _ _ K1). destruct Hsame as [_ [_ [Hstat [_ [_ [_ [Hg _]]]]]]].
      intros Hact g Hin. rewrite Hg in Hin. apply HN; [unfold is_active in *; rewrite <- Hstat; exact Hact | exact Hin].
  - destruct (ensure_spec c c1 evs Hwf H) as [G1 [_ [_ [G4 _]]]].
    intros Hact g Hin. assert (Hact0 : is_active c = false) by (rewrite G1 in Hact; destruct c; exact Hact).
    rewrite (G4 Hact0) in Hin. destruct Hin.
  - destruct (contact_json_eqb c c'); inversion H; subst; exact Hst.
  - inversion H; subst. intros Hact g Hin. apply HN; [destruct c; exact Hact | destruct c; exact Hin].
Qed.

Theorem steps_no_static : forall ss c c' evs,
  wf_contact E c -> Forall (step_wf E) ss -> Forall step_static_ok ss -> NoStaticIfInactive E c ->
  run_steps E ss c = (c', evs) -> NoStaticIfInactive E c'.
Proof.
  induction ss as [|s ss IH]; intros c c' evs Hwf Hss Hst HN H; cbn [run_steps] in H.
  - inversion H; subst. exact HN.
  - inversion Hss as [|? ? Hs Hss']; subst. inversion Hst as [|? ? Hs2 Hst']; subst.
    destruct (run_step E s c) as [c1 e1] eqn:H1. destruct (run_steps E ss c1) as [c2 e2] eqn:H2.
    inversion H; subst c' evs.
    destruct (run_step_spec s c c1 e1 Hwf Hs H1) as [_ W1].
    exact (IH c1 c2 e2 W1 Hss' Hst' (run_step_no_static s c c1 e1 Hwf Hs Hs2 HN H1) H2).
Qed.

Definition kind_static_ok (k : sprint_kind) : Prop :=
  match k with KResume (Some c') _ => NoStaticIfInactive E c' | _ => True end.

Corollary sprint_no_static : forall k acts c c' evs,
  wf_contact E c -> kind_wf k -> kind_static_ok k -> Forall (fun fm => mod_wf E (snd fm)) acts ->
  NoStaticIfInactive E c ->
  run_sprint E k acts c = (c', evs) -> NoStaticIfInactive E c'.
Proof.
  intros k acts c c' evs Hwf Hk Hks Hms HN H. unfold run_sprint in H.
  apply (steps_no_static _ c c' evs Hwf (sprint_steps_wf k acts Hk Hms)); [|exact HN | exact H].
  assert (Happ : Forall step_static_ok (map (fun fm => SApply (fst fm) (snd fm)) acts)).
  { apply Forall_map. apply Forall_forall. intros x _. exact I. }
  destruct k as [| |[t|]|[c0|] [t|]]; cbn [sprint_steps opt_step app];
    repeat (constructor; try exact I; try exact Hks); exact Happ.
Qed.

(* since fix F6e every engine call ends with modifiers.ReevaluateGroups followed by modifiers only: no premise on the
   starting or refreshed contact is needed any more *)
Theorem sprint_no_static_full : forall k acts c c' evs,
  wf_contact E c -> kind_wf k -> Forall (fun fm => mod_wf E (snd fm)) acts ->
  run_sprint E k acts c = (c', evs) -> NoStaticIfInactive E c'.
Proof.
  intros k acts c c' evs Hwf Hk Hms H. unfold run_sprint in H.
  set (applies := map (fun fm => SApply (fst fm) (snd fm)) acts) in *.
  assert (Hsplit : exists pre tail, sprint_steps k acts = pre ++ SEnsure :: tail
                               /\ Forall (step_wf E) pre /\ Forall (step_wf E) tail /\ Forall step_static_ok tail).
  { assert (Happ : Forall (step_wf E) applies).
    { apply Forall_map. eapply Forall_impl; [|exact Hms]. intros [f m] Hx. exact Hx. }
    assert (Happ2 : Forall step_static_ok applies).
    { apply Forall_map. apply Forall_forall. intros x _. exact I. }
    destruct k as [| |[t|]|[c0|] [t|]]; cbn [sprint_steps opt_step app]; fold applies.
    - exists [], []. repeat split; constructor.
    - exists [], []. repeat split; constructor.
    - exists [SEnsure; SSetInput t], applies. split; [reflexivity|]. split; [repeat constructor | split; assumption].
    - exists [SEnsure], applies. split; [reflexivity|]. split; [repeat constructor | split; assumption].
    - exists [SRefresh c0; SSetInput t], applies. split; [reflexivity|]. split; [constructor; [exact Hk | repeat constructor] | split; assumption].
    - exists [SRefresh c0], applies. split; [reflexivity|]. split; [constructor; [exact Hk | constructor] | split; assumption].
    - exists [SSetInput t], applies. split; [reflexivity|]. split; [repeat constructor | split; assumption].
    - exists [], applies. split; [reflexivity|]. split; [constructor | split; assumption]. }
  destruct Hsplit as [pre [tail [Hs [Hpre [Htail Htail2]]]]]. rewrite Hs, run_steps_app in H.
  destruct (run_steps E pre c) as [c1 e1] eqn:H1.
  destruct (run_steps E (SEnsure :: tail) c1) as [c2 e2] eqn:H2. inversion H; subst c' evs.
  destruct (replay_steps pre c c1 e1 Hwf Hpre H1) as [_ W1].
  cbn [run_steps run_step] in H2. destruct (ensure_query_groups E c1) as [c3 e3] eqn:H3.
  destruct (run_steps E tail c3) as [c4 e4] eqn:H4. inversion H2; subst c2 e2.
  destruct (ensure_spec c1 c3 e3 W1 H3) as [G1 [W3 [_ [G4 _]]]].
  apply (steps_no_static tail c3 c4 e4 W3 Htail Htail2); [|exact H4].
  intros Hact g Hin. assert (Hact1 : is_active c1 = false) by (rewrite G1 in Hact; destruct c1; exact Hact).
  rewrite (G4 Hact1) in Hin. destruct Hin.
Qed.

End Steps.

(* ---- two environments (finding F6d) ----------------------------------------------------------------------------------
   The engine re-evaluates in the session environment at start/resume and in the contact-merged environment inside
   modifiers.Apply (model: run_sprint2 Es Em).  If the two agree on groups and on what every query says of every
   contact, everything above carries over; if they can disagree (a date condition whose day differs between the
   session's and the contact's time zone) membership after a sprint depends on which re-evaluation ran last. *)
Definition groups_env_agree (Es Em : menv) : Prop :=
  all_groups Es = all_groups Em /\ (forall g, uses_query Es g = uses_query Em g)
  /\ (forall g c, matches Es g c = matches Em g c).

Lemma reeval_loop_agree : forall Es Em c todo cur a r,
  (forall g, uses_query Es g = uses_query Em g) -> (forall g c, matches Es g c = matches Em g c) ->
  reeval_loop Es c todo cur a r = reeval_loop Em c todo cur a r.
Proof.
  intros Es Em c todo. induction todo as [|h todo IH]; intros cur a r Hu Hm; [reflexivity|].
  cbn [reeval_loop]. unfold qualifies. rewrite Hu, Hm.
  destruct (negb (uses_query Em h)); [apply IH; assumption|].
  destruct (is_active c && matches Em h (qview c)); destruct (gmem h cur); apply IH; assumption.
Qed.

Lemma ensure_agree : forall Es Em c, groups_env_agree Es Em -> ensure_query_groups Es c = ensure_query_groups Em c.
Proof.
  intros Es Em c [Ha [Hu Hm]]. unfold ensure_query_groups, reevaluate_groups, reevaluate_query_groups.
  rewrite Ha, (reeval_loop_agree Es Em c _ _ _ _ Hu Hm).
  destruct (reeval_loop Em c (all_groups Em) (c_groups c) [] []) as [[cur added] removed].
  rewrite (filter_ext (fun g => negb (uses_query Es g)) (fun g => negb (uses_query Em g)) (fun g => f_equal negb (Hu g))).
  reflexivity.
Qed.

Lemma run_steps2_agree : forall Es Em ss c, groups_env_agree Es Em -> run_steps2 Es Em ss c = run_steps Em ss c.
Proof.
  intros Es Em ss. induction ss as [|s ss IH]; intros c Hag; [reflexivity|]. cbn [run_steps2 run_steps].
  assert (Hs : run_step2 Es Em s c = run_step Em s c) by (destruct s; cbn; [reflexivity | apply ensure_agree; exact Hag | reflexivity | reflexivity]).
  rewrite Hs. destruct (run_step Em s c) as [c1 e1]. rewrite IH by exact Hag. reflexivity.
Qed.

Lemma consistent_agree : forall Es Em c, groups_env_agree Es Em -> Consistent Em c -> Consistent Es c.
Proof.
  intros Es Em c [Ha [Hu Hm]] HC g Hall Huq. unfold qualifies. rewrite Hm. rewrite Ha in Hall. rewrite Hu in Huq.
  exact (HC g Hall Huq).
Qed.

(* what the two-environment sprint satisfies WITHOUT any agreement of the evaluators: only the group lists are shared *)
Definition groups_shared (Es Em : menv) : Prop :=
  all_groups Es = all_groups Em /\ (forall g, uses_query Es g = uses_query Em g).

Lemma wf_shared : forall Es Em c, all_groups Es = all_groups Em -> (wf_contact Es c <-> wf_contact Em c).
Proof. intros Es Em c H. unfold wf_contact. rewrite H. tauto. Qed.

(* C03 for the engine as it stands: any interleaving of contact writes replays, whatever the two evaluators say *)
Theorem replay_steps2 : forall Es Em ss c c' evs,
  all_groups Es = all_groups Em ->
  wf_contact Em c -> Forall (step_wf Em) ss ->
  run_steps2 Es Em ss c = (c', evs) ->
  same_contact (replay evs c) c' /\ wf_contact Em c'.
Proof.
  intros Es Em ss. induction ss as [|s ss IH]; intros c c' evs Hag Hwf Hss H; cbn [run_steps2] in H.
  - inversion H; subst. split; [apply same_refl | exact Hwf].
  - inversion Hss as [|? ? Hs Hss']; subst.
    destruct (run_step2 Es Em s c) as [c1 e1] eqn:H1. destruct (run_steps2 Es Em ss c1) as [c2 e2] eqn:H2.
    inversion H; subst c' evs.
    assert (Hstep : same_contact (replay e1 c) c1 /\ wf_contact Em c1).
    { destruct s as [fresh m| |c0|t].
      - exact (run_step_spec Em (SApply fresh m) c c1 e1 Hwf Hs H1).
      - destruct (run_step_spec Es SEnsure c c1 e1 (proj2 (wf_shared Es Em c Hag) Hwf) I H1) as [S W].
        split; [exact S | exact (proj1 (wf_shared Es Em c1 Hag) W)].
      - exact (run_step_spec Em (SRefresh c0) c c1 e1 Hwf Hs H1).
      - exact (run_step_spec Em (SSetInput t) c c1 e1 Hwf Hs H1). }
    destruct Hstep as [S1 W1]. destruct (IH c1 c2 e2 Hag W1 Hss' H2) as [S2 W2].
    split; [|exact W2]. rewrite replay_app. eapply same_trans; [apply replay_same; exact S1 | exact S2].
Qed.

Lemma run_steps2_app : forall Es Em a b c, run_steps2 Es Em (a ++ b) c =
  let '(c1, e1) := run_steps2 Es Em a c in let '(c2, e2) := run_steps2 Es Em b c1 in (c2, e1 ++ e2).
Proof.
  intros Es Em. induction a as [|s a IH]; intros b c; cbn [app run_steps2].
  - destruct (run_steps2 Es Em b c) as [c2 e2]. reflexivity.
  - destruct (run_step2 Es Em s c) as [c1 e1]. rewrite IH.
    destruct (run_steps2 Es Em a c1) as [c2 e2]. destruct (run_steps2 Es Em b c2) as [c3 e3]. rewrite app_assoc. reflexivity.
Qed.

(* membership follows the re-evaluation that ran last: right for the merged environment if some action reported a
   change after the session-level re-evaluation, else right for the session environment *)
Lemma applies2_consistent : forall Es Em acts c c' evs,
  wf_contact Em c -> Forall (fun fm => mod_wf Em (snd fm)) acts ->
  Consistent Es c \/ Consistent Em c ->
  run_steps2 Es Em (map (fun fm => SApply (fst fm) (snd fm)) acts) c = (c', evs) ->
  (Consistent Es c' \/ Consistent Em c') /\ wf_contact Em c'.
Proof.
  intros Es Em. induction acts as [|[fresh m] acts IH]; intros c c' evs Hwf Hms HC H; cbn [map run_steps2] in H.
  - inversion H; subst. split; assumption.
  - inversion Hms as [|? ? Hm Hms']; subst. cbn [fst snd run_step2] in H, Hm.
    destruct (apply Em fresh m c) as [[c1 e1] b] eqn:HA.
    destruct (run_steps2 Es Em (map (fun fm => SApply (fst fm) (snd fm)) acts) c1) as [c2 e2] eqn:H2.
    inversion H; subst c' evs.
    assert (H1 : (Consistent Es c1 \/ Consistent Em c1) /\ wf_contact Em c1).
    { destruct b.
      - destruct (after_modifier Em fresh m c c1 e1 Hwf Hm HA) as [K1 [_ [_ K4]]]. split; [right; exact K1 | exact K4].
      - destruct (after_noop_modifier Em fresh m c c1 e1 Hwf Hm HA) as [K1 [_ [K3 _]]]. split; [|exact K3].
        destruct HC as [HC|HC]; [left | right]; eapply consistent_erase; eassumption. }
    destruct H1 as [HC1 W1]. eapply IH; eassumption.
Qed.

Theorem after_sprint_two_env : forall Es Em k acts c c' evs,
  groups_shared Es Em ->
  wf_contact Em c -> kind_wf Em k -> Forall (fun fm => mod_wf Em (snd fm)) acts ->
  run_sprint2 Es Em k acts c = (c', evs) ->
  same_contact (replay evs c) c'
  /\ (Consistent Es c' \/ Consistent Em c')
  /\ ((forall g, In g (all_groups Em) -> uses_query Em g = true -> matches Es g (qview c') = matches Em g (qview c'))
      -> Consistent Es c' /\ Consistent Em c').
Proof.
  intros Es Em k acts c c' evs [Hag Hu] Hwf Hk Hms H. unfold run_sprint2 in H.
  destruct (replay_steps2 Es Em _ c c' evs Hag Hwf (sprint_steps_wf Em k acts Hk Hms) H) as [R W]. split; [exact R|].
  set (applies := map (fun fm => SApply (fst fm) (snd fm)) acts) in *.
  assert (Hsplit : exists pre, sprint_steps k acts = pre ++ SEnsure :: match k with KStartEmpty | KResumeFailed => [] | _ => applies end
                               /\ Forall (step_wf Em) pre).
  { destruct k as [| |[t|]|[c0|] [t|]]; cbn [sprint_steps opt_step app]; fold applies.
    - exists []. split; [reflexivity | constructor].
    - exists []. split; [reflexivity | constructor].
    - exists [SEnsure; SSetInput t]. split; [reflexivity | repeat constructor].
    - exists [SEnsure]. split; [reflexivity | repeat constructor].
    - exists [SRefresh c0; SSetInput t]. split; [reflexivity | constructor; [exact Hk | repeat constructor]].
    - exists [SRefresh c0]. split; [reflexivity | constructor; [exact Hk | constructor]].
    - exists [SSetInput t]. split; [reflexivity | repeat constructor].
    - exists []. split; [reflexivity | constructor]. }
  destruct Hsplit as [pre [Hs Hpre]]. rewrite Hs, run_steps2_app in H.
  destruct (run_steps2 Es Em pre c) as [c1 e1] eqn:H1.
  destruct (run_steps2 Es Em (SEnsure :: match k with KStartEmpty | KResumeFailed => [] | _ => applies end) c1) as [c2 e2] eqn:H2.
  inversion H; subst c' evs.
  destruct (replay_steps2 Es Em pre c c1 e1 Hag Hwf Hpre H1) as [_ W1].
  cbn [run_steps2 run_step2] in H2. destruct (ensure_query_groups Es c1) as [c3 e3] eqn:H3.
  destruct (run_steps2 Es Em (match k with KStartEmpty | KResumeFailed => [] | _ => applies end) c3) as [c4 e4] eqn:H4.
  inversion H2; subst c2 e2.
  destruct (ensure_spec Es c1 c3 e3 (proj2 (wf_shared Es Em c1 Hag) W1) H3) as [_ [W3 [C3 _]]].
  apply (proj1 (wf_shared Es Em c3 Hag)) in W3.
  assert (Hdis : Consistent Es c4 \/ Consistent Em c4).
  { destruct k; [cbn in H4; inversion H4; subst; left; exact C3 | cbn in H4; inversion H4; subst; left; exact C3 | |];
      exact (proj1 (applies2_consistent Es Em acts c3 c4 e4 W3 Hms (or_introl C3) H4)). }
  split; [exact Hdis|].
  intro Hpt.
  assert (Hiff : Consistent Es c4 <-> Consistent Em c4).
  { unfold Consistent, qualifies. rewrite Hag. split; intros HC g Hall Huq.
    - rewrite <- (Hpt g Hall Huq). apply HC; [exact Hall | rewrite Hu; exact Huq].
    - rewrite Hu in Huq. rewrite (Hpt g Hall Huq). apply HC; assumption. }
  destruct Hdis as [HC|HC]; split; tauto.
Qed.

Corollary replay_sprint2 : forall Es Em k acts c c' evs,
  all_groups Es = all_groups Em ->
  wf_contact Em c -> kind_wf Em k -> Forall (fun fm => mod_wf Em (snd fm)) acts ->
  run_sprint2 Es Em k acts c = (c', evs) -> same_contact (replay evs c) c'.
Proof.
  intros Es Em k acts c c' evs Hag Hwf Hk Hms H.
  exact (proj1 (replay_steps2 Es Em _ c c' evs Hag Hwf (sprint_steps_wf Em k acts Hk Hms) H)).
Qed.

Definition with_matches (E : menv) (f : N -> contact -> bool) : menv :=
  {| max_field_chars := max_field_chars E; urn_norm1 := urn_norm1 E; urn_valid := urn_valid E;
     urn_identity := urn_identity E; urn_scheme := urn_scheme E; urn_set_channel := urn_set_channel E;
     urn_channel := urn_channel E;
     tel_scheme := tel_scheme E; chan_can_send := chan_can_send E; chan_supports := chan_supports E;
     field_types := field_types E; parse_num := parse_num E; parse_dt := parse_dt E; parse_loc := parse_loc E;
     all_groups := all_groups E; uses_query := uses_query E; matches := f |}.

(* without the agreement: the same resume, once without and once with an action that does not touch what the query
   reads; after the first the contact is in the group (right for the session environment, wrong for the merged one),
   after the second it is out (the other way round) *)
Theorem after_sprint_two_env_refuted :
  exists Es Em k c c1 e1 c2 e2,
    Em = with_matches Es (matches Em) /\ wf_contact Em c
    /\ run_sprint2 Es Em k [] c = (c1, e1) /\ run_sprint2 Es Em k [(7, MLanguage 2)] c = (c2, e2)
    /\ Consistent Es c1 /\ ~ Consistent Em c1 /\ Consistent Em c2 /\ ~ Consistent Es c2.
Proof.
  exists (with_matches ex_env (fun _ _ => true)), (with_matches ex_env (fun _ _ => false)),
         (KResume None (Some 5)), (ex_contact [106] [0]).
  eexists. eexists. eexists. eexists.
  split; [reflexivity|]. split; [split; [repeat constructor; cbn; intuition discriminate | intros g [H|[]]; subst; cbn; tauto]|].
  split; [reflexivity|]. split; [reflexivity|].
  split; [|split; [|split]].
  - intros g [H|[H|[]]] Hu; subst; cbn in Hu; try discriminate. cbn. intuition.
  - intro HC. specialize (HC 1 (or_intror (or_introl eq_refl)) eq_refl). cbn in HC. destruct HC as [HC _].
    specialize (HC (or_intror (or_introl eq_refl))). discriminate.
  - intros g [H|[H|[]]] Hu; subst; cbn in Hu; try discriminate. cbn. split; [intros [H|[]]; discriminate | discriminate].
  - intro HC. specialize (HC 1 (or_intror (or_introl eq_refl)) eq_refl). cbn in HC. destruct HC as [_ HC].
    destruct (HC eq_refl) as [H|[]]. discriminate.
Qed.

(* the premises are satisfiable: a msg resume with a refreshed contact whose stored membership is wrong *)
Example ex_sprint :
  run_sprint ex_env (KResume (Some (ex_contact [98; 111; 98] [0])) (Some 5)) [(7, MLanguage 2)] (ex_contact [106] [0])
  = ({| c_name := [98; 111; 98]; c_lang := 2; c_status := Active; c_tz := None; c_last_seen := Some 5;
        c_urns := []; c_groups := [0; 1]; c_fields := []; c_ticket := None |},
     [EContactRefreshed (ex_contact [98; 111; 98] [0]); EMsgReceived 5; EGroupsChanged [1] []; ELanguageChanged 2]).
Proof. reflexivity. Qed.
