(* RouterEngine.v — bridge between the two models of the switch router (read-only use of model/Engine.v).

   model/Engine.v (properties C01/C05/C10) contains a switch router restricted to the core flow language: operand =
   the input text, every case is has_only_text with one literal argument, categories are addressed by index.
   model/Router.v (property C07) is the general router, parametric in the tests.  Here Router.v's oracles are
   instantiated with has_only_text and an Engine.v router is embedded into Router.v's vocabulary; the exit
   Engine.v's router picks is the exit Router.v's route_switch answers — so the theorems of props/C07.v speak about
   the router inside the engine model as well. *)
From Coq Require Import List NArith ZArith Bool Lia.
From Verif Require Import model.Lang model.Router proofs.LangProofs proofs.RouterProofs.
From Verif Require model.Engine.
Import ListNotations.
Open Scope N_scope.

(* ---- Router.v's oracles for the core flow language ---------------------------------------------------------- *)

(* values are texts; arguments are literal (evaluate to themselves, no events); every text converts to itself *)
Definition cfl_eval (t : text) : text * (bool * nat) := (t, (false, O)).
Definition cfl_text (v : text) : option text := Some v.
Definition cfl_registered (t : test_id) : bool := true.
(* has_only_text(operand, argument): matches when they are equal, the match is the operand; wrong arity: error *)
Definition cfl_test (t : test_id) (op : text) (args : list text) : test_result text :=
  match args with
  | [arg] => TObject (Engine.text_eqb op arg) (Some op) ExAbsent
  | _ => TError
  end.

(* ---- embedding of an Engine.v router: category i gets UUID i+1, exit ids are shifted by one (0 = "") ----------- *)

Definition cat_uuid (i : nat) : uuid := N.of_nat i + 1.

Fixpoint embed_cats_from (i : nat) (cs : list Engine.category) : list category :=
  match cs with
  | [] => []
  | c :: rest => {| c_uuid := cat_uuid i; c_name := Engine.cat_name c; c_exit := Engine.cat_exit c + 1; c_tr_name := [] |}
                 :: embed_cats_from (S i) rest
  end.

Definition embed_base (rt : Engine.router) : base_router :=
  {| b_result_name := match Engine.rt_result rt with Some n => n | None => [] end;
     b_categories := embed_cats_from 0 (Engine.rt_cats rt);
     b_timeout := match Engine.rt_wait rt with
                  | Some w => match Engine.w_timeout w with Some (_, ci) => Some (cat_uuid ci) | None => None end
                  | None => None
                  end |}.

Definition embed_case (k : text * nat) : case_def :=
  {| k_test := 0; k_args := [fst k]; k_tr_args := []; k_cat := cat_uuid (snd k) |}.

Definition embed_default (rt : Engine.router) : uuid :=
  match Engine.rt_default rt with Some ci => cat_uuid ci | None => no_uuid end.

(* the category Engine.v's route picks: the first case whose argument equals the operand, otherwise the default *)
Definition engine_choice (rt : Engine.router) (operand : text) : option nat :=
  match Engine.match_case (Engine.rt_cases rt) operand with
  | Some c => Some c
  | None => Engine.rt_default rt
  end.

(* ... and what its routeToCategory answers for it: no category, an unknown category (Go error), or the exit *)
Definition engine_answer (rt : Engine.router) (operand : text) : route_res :=
  match engine_choice rt operand with
  | None => RExit no_uuid operand
  | Some ci =>
      match nth_error (Engine.rt_cats rt) ci with
      | Some c => RExit (Engine.cat_exit c + 1) operand
      | None => RError
      end
  end.

(* ---- lemmas ------------------------------------------------------------------------------------------------------- *)

Lemma cat_uuid_nonzero i : cat_uuid i <> no_uuid.
Proof. unfold cat_uuid, no_uuid. lia. Qed.

Lemma cat_uuid_inj i j : cat_uuid i = cat_uuid j -> i = j.
Proof. unfold cat_uuid. lia. Qed.

Lemma find_embedded_from i cs ci :
  find_category (embed_cats_from i cs) (cat_uuid (i + ci))
  = match nth_error cs ci with
    | Some c => Some {| c_uuid := cat_uuid (i + ci); c_name := Engine.cat_name c; c_exit := Engine.cat_exit c + 1;
                        c_tr_name := [] |}
    | None => None
    end.
Proof.
  revert i ci. induction cs as [|c rest IH]; intros i ci; cbn [embed_cats_from find_category].
  - destruct ci; reflexivity.
  - cbn [c_uuid]. destruct ci as [|ci]; cbn [nth_error].
    + rewrite Nat.add_0_r, N.eqb_refl. reflexivity.
    + destruct (N.eqb (cat_uuid i) (cat_uuid (i + S ci))) eqn:E.
      * apply N.eqb_eq in E. apply cat_uuid_inj in E. lia.
      * replace (i + S ci)%nat with (S i + ci)%nat by lia. apply IH.
Qed.

Lemma find_embedded cs ci :
  find_category (embed_cats_from 0 cs) (cat_uuid ci)
  = match nth_error cs ci with
    | Some c => Some {| c_uuid := cat_uuid ci; c_name := Engine.cat_name c; c_exit := Engine.cat_exit c + 1;
                        c_tr_name := [] |}
    | None => None
    end.
Proof. apply (find_embedded_from 0 cs ci). Qed.

(* without translations the localized arguments are the arguments *)
Lemma get_text_in_no_translations langs base native : fst (get_text_in langs base native []) = native.
Proof.
  induction langs as [|l rest IH]; cbn [get_text_in]; [reflexivity|].
  destruct (N.eqb l base); [reflexivity|]. cbn. exact IH.
Qed.

Lemma case_arguments_no_translations cl allowed base args : case_arguments cl allowed base args [] = args.
Proof.
  unfold case_arguments, get_text.
  pose proof (get_text_in_no_translations (get_languages cl allowed base) base args) as H.
  destruct (get_text_in (get_languages cl allowed base) base args []) as [largs l]. cbn [fst] in H. subst largs.
  rewrite Nat.eqb_refl. reflexivity.
Qed.

Section Bridge.

Variable lc : lctx.
Variable max_result_chars : nat.
Variable max_template_chars : nat.

Notation match_case' := (match_case text cfl_eval cfl_text cfl_registered cfl_test lc).
Notation route_switch' := (route_switch text cfl_eval cfl_text cfl_registered cfl_test lc max_result_chars max_template_chars).

(* matchCase of the two models agree: no events, and the first case whose argument equals the operand *)
Lemma match_case_bridge operand cs :
  match_case' operand (map embed_case cs)
  = ([], match Engine.match_case cs operand with
         | Some ci => MFound operand (cat_uuid ci) None
         | None => MNone
         end).
Proof.
  induction cs as [|[arg ci] rest IH]; cbn [map Engine.match_case]; [reflexivity|].
  cbn [match_case]. unfold localized_args.
  change (k_test (embed_case (arg, ci))) with 0.
  change (k_args (embed_case (arg, ci))) with [arg].
  change (k_tr_args (embed_case (arg, ci))) with (@nil (lang * list text)).
  change (k_cat (embed_case (arg, ci))) with (cat_uuid ci).
  rewrite case_arguments_no_translations.
  cbn [cfl_registered negb eval_args cfl_eval tpl_events fst snd repeat app cfl_test opt_to_xtext cfl_text extra_json].
  destruct (Engine.text_eqb operand arg).
  - reflexivity.
  - rewrite IH. reflexivity.
Qed.

(* the switch router of Engine.v answers what Router.v's route_switch answers on the embedded definition *)
Theorem engine_switch_refines (rt : Engine.router) (operand : text) (prev : option result) :
  ro_res (route_switch' (embed_base rt) operand (map embed_case (Engine.rt_cases rt)) (embed_default rt) prev)
  = engine_answer rt operand.
Proof.
  unfold route_switch, engine_answer, engine_choice.
  cbn [cfl_eval cfl_text text_or_empty]. rewrite match_case_bridge.
  destruct (Engine.match_case (Engine.rt_cases rt) operand) as [ci|].
  - pose proof (cat_uuid_nonzero ci) as Hnz. apply N.eqb_neq in Hnz. rewrite Hnz. cbn [andb].
    unfold route_to_category. rewrite Hnz. cbn [embed_base b_categories]. rewrite find_embedded.
    destruct (nth_error (Engine.rt_cats rt) ci) as [c|]; [|reflexivity].
    unfold route_via. cbn [c_exit]. destruct (b_result_name _); reflexivity.
  - rewrite N.eqb_refl. cbn [andb]. unfold embed_default.
    destruct (Engine.rt_default rt) as [ci|].
    + pose proof (cat_uuid_nonzero ci) as Hnz. apply N.eqb_neq in Hnz. rewrite Hnz. cbn [negb].
      unfold route_to_category. rewrite Hnz. cbn [embed_base b_categories]. rewrite find_embedded.
      destruct (nth_error (Engine.rt_cats rt) ci) as [c|]; [|reflexivity].
      unfold route_via. cbn [c_exit]. destruct (b_result_name _); reflexivity.
    + rewrite N.eqb_refl. cbn [negb]. reflexivity.
Qed.

End Bridge.

(* Engine.v's route itself: whenever it answers, the exit id and the operand are those of engine_answer, i.e. (by
   engine_switch_refines) those of Router.v's route_switch on the embedded router *)
Lemma engine_route_answer a x ri sr n rt x' e op :
  Engine.route a x ri sr n rt = Engine.Done x' (e, op) ->
  op = Engine.operand_of (Engine.session_ x)
  /\ engine_answer rt op = match e with Some i => RExit (i + 1) op | None => RExit no_uuid op end.
Proof.
  unfold Engine.route, Engine.route_to_category, engine_answer, engine_choice.
  set (operand := Engine.operand_of (Engine.session_ x)).
  destruct (match Engine.match_case (Engine.rt_cases rt) operand with Some c => Some c | None => Engine.rt_default rt end)
    as [ci|] eqn:Hc.
  - destruct (nth_error (Engine.rt_cats rt) ci) as [c|] eqn:Hn; [|discriminate].
    destruct (Engine.rt_result rt) as [name|].
    + destruct (Engine.save_and_log a x ri sr name operand (Engine.cat_name c) (Engine.n_id n) operand) as [x1 []|x1|];
        try discriminate.
      intros H; inversion H; subst. split; [reflexivity|]. fold operand. rewrite Hc, Hn. reflexivity.
    + intros H; inversion H; subst. split; [reflexivity|]. fold operand. rewrite Hc, Hn. reflexivity.
  - intros H; inversion H; subst. split; [reflexivity|]. fold operand. rewrite Hc. reflexivity.
Qed.

Theorem engine_route_refines (lc : lctx) (max_result_chars max_template_chars : nat) a x ri sr n rt x' e op prev :
  Engine.route a x ri sr n rt = Engine.Done x' (e, op) ->
  op = Engine.operand_of (Engine.session_ x)
  /\ ro_res (route_switch text cfl_eval cfl_text cfl_registered cfl_test lc max_result_chars max_template_chars
                          (embed_base rt) op (map embed_case (Engine.rt_cases rt)) (embed_default rt) prev)
     = match e with Some i => RExit (i + 1) op | None => RExit no_uuid op end.
Proof.
  intros H. destruct (engine_route_answer _ _ _ _ _ _ _ _ _ H) as [Hop Hans].
  split; [exact Hop|]. rewrite engine_switch_refines. exact Hans.
Qed.

(* the hypotheses are satisfiable: a two-case router, operand equal to the second argument *)
Example engine_bridge_demo :
  let rt := {| Engine.rt_wait := None; Engine.rt_result := Some [82];
               Engine.rt_cats := [ {| Engine.cat_name := [65]; Engine.cat_exit := 7 |};
                                   {| Engine.cat_name := [66]; Engine.cat_exit := 8 |};
                                   {| Engine.cat_name := [67]; Engine.cat_exit := 9 |} ];
               Engine.rt_cases := [([120], 0%nat); ([121], 1%nat); ([121], 0%nat)];
               Engine.rt_default := Some 2%nat |} in
  engine_answer rt [121] = RExit 9 [121] /\ engine_answer rt [122] = RExit 10 [122].
Proof. split; reflexivity. Qed.

Print Assumptions engine_switch_refines.
Print Assumptions engine_route_refines.
