(* proofs/CqlRoundTripProofs.v — parse (print q) = q: a valid query in Simplify's normal form, built with arbitrary
   text values, formats (Stringify) to a text that ParseQuery accepts and turns back into exactly that query. *)
From Coq Require Import List Arith NArith Bool Lia.
From Verif Require Import lib.Quote lib.RegexLM proofs.QuoteProofs model.CqlSyntax gen.GrammarCQL
  model.CqlPrinter model.CqlParser proofs.CqlQuoteProofs proofs.CqlRegexProofs proofs.CqlLexProofs
  proofs.CqlGrammarFacts proofs.CqlSimplifyProofs proofs.CqlLexPrintProofs proofs.CqlParserProofs
  proofs.CqlParseProofs.
Import ListNotations.
Close Scope N_scope.

Lemma text_eqb_eq : forall a b, text_eqb a b = true -> a = b.
Proof.
  induction a as [|x a IH]; destruct b as [|y b]; simpl; intros H; try discriminate; auto.
  apply andb_prop in H. destruct H as [H1 H2]. apply N.eqb_eq in H1. subst. f_equal. auto.
Qed.

Lemma text_eqb_refl : forall a, text_eqb a a = true.
Proof. induction a; simpl; auto. rewrite N.eqb_refl. auto. Qed.

Section RoundTrip.
  Variable p : N -> bool.      (* unicode.IsPrint *)
  Variable e : penv.

  (* ---- the parse tree of a formatted query ------------------------------------------------------------ *)

  Definition nest (b : boolop) (l : list ast) (d : ast) : ast :=
    match l with [] => d | x :: r => fold_left (ABin b) r x end.

  Definition adummy : ast := AImplicit (TEXT, []).

  Fixpoint ast_of (q : node) : ast :=
    match q with
    | Cond pt key o v => ACond (prop_prefix pt ++ key) (oper_text o) (tok_value p v)
    | Comb b ch => nest b (map ast_of ch) adummy
    end.

  Definition good (q : node) : Prop := lexable q /\ nonempty_combs q.

  Lemma tok_value_lit v : is_lit (fst (tok_value p v)) = true.
  Proof. unfold tok_value. destruct (is_number v); [destruct (has_dot v)|]; reflexivity. Qed.

  Definition stop_ok (s : list token) : Prop := s = [] \/ exists t r, s = (RPAREN, t) :: r.

  Lemma loop_stop_ok : forall pp l s, stop_ok s -> Loop pp l s l s.
  Proof. intros pp l s [->|(t & r & ->)]; constructor. Qed.

  Definition sep_toks (b : boolop) (cs : list node) : list token :=
    flat_map (fun c => bool_tok b :: toks p c) cs.

  Lemma jointoks_cons b x cs :
    jointoks (bool_tok b) (map (toks p) (x :: cs)) = toks p x ++ sep_toks b cs.
  Proof.
    revert x. induction cs as [|y cs IH]; intros x.
    - cbn [map jointoks sep_toks flat_map]. rewrite app_nil_r. reflexivity.
    - change (jointoks (bool_tok b) (map (toks p) (x :: y :: cs)))
        with (toks p x ++ bool_tok b :: jointoks (bool_tok b) (map (toks p) (y :: cs))).
      rewrite IH. reflexivity.
  Qed.

  (* the loop stops in front of a separator of the same operator when called one level up *)
  Lemma loop_stops_at_sep b l cs stop : stop_ok stop ->
    Loop (S (match b with BAnd => prec_and | BOr => prec_or end)) l (sep_toks b cs ++ stop) l (sep_toks b cs ++ stop).
  Proof.
    intros Hs. destruct cs as [|c cs]; [apply loop_stop_ok; exact Hs|].
    cbn [sep_toks flat_map app]. destruct b; cbn [bool_tok].
    - apply loop_and_stop. lia.
    - apply loop_or_stop. lia.
  Qed.

  Definition prim_ok (c : node) : Prop :=
    forall pp rest a r', Loop pp (ast_of c) rest a r' -> Expr pp (toks p c ++ rest) a r'.

  Lemma loop_children b : forall cs, Forall prim_ok cs -> forall l stop, stop_ok stop ->
    Loop 0 l (sep_toks b cs ++ stop) (fold_left (ABin b) (map ast_of cs) l) stop.
  Proof.
    induction cs as [|c cs IH]; intros H l stop Hs.
    - cbn [sep_toks flat_map app map fold_left]. apply loop_stop_ok. exact Hs.
    - inversion H as [|? ? Hc Hcs]; subst.
      cbn [sep_toks flat_map map fold_left]. fold (sep_toks b cs).
      rewrite <- app_assoc. cbn [app].
      destruct b; cbn [bool_tok].
      + eapply loop_and; [lia| |apply IH; assumption].
        apply Hc. apply (loop_stops_at_sep BAnd). exact Hs.
      + eapply loop_or; [lia| |apply IH; assumption].
        apply Hc. apply (loop_stops_at_sep BOr). exact Hs.
  Qed.

  Lemma seq_expr b ch d : ch <> [] -> Forall prim_ok ch -> forall stop, stop_ok stop ->
    Expr 0 (jointoks (bool_tok b) (map (toks p) ch) ++ stop) (nest b (map ast_of ch) d) stop.
  Proof.
    intros Hne H stop Hs. destruct ch as [|c cs]; [congruence|].
    inversion H as [|? ? Hc Hcs]; subst.
    rewrite jointoks_cons. cbn [map nest]. rewrite <- app_assoc.
    apply Hc. apply loop_children; assumption.
  Qed.

  Lemma prim_node : forall q, good q -> prim_ok q.
  Proof.
    induction q as [pt key o v|b ch IH] using node_ind'; intros [Hl Hn].
    - intros pp rest a r' HL. cbn [toks ast_of] in *. unfold toks_cond. cbn [app].
      pose proof (tok_value_lit v) as Hlit. destruct (tok_value p v) as [k3 t3]. cbn [fst] in Hlit.
      apply expr_cond; assumption.
    - inversion Hl as [|? ? Hch]; subst. inversion Hn as [|? ? Hne Hnch]; subst.
      assert (HP : Forall prim_ok ch).
      { rewrite Forall_forall in *. intros c Hc. apply IH; [exact Hc|]. split; [apply Hch|apply Hnch]; exact Hc. }
      intros pp rest a r' HL. cbn [toks ast_of]. cbn [app]. rewrite <- app_assoc. cbn [app].
      eapply expr_group; [|exact HL].
      apply (seq_expr b ch adummy Hne HP). right. eauto.
  Qed.

  (* the token list of the text Stringify produces: the outer parentheses of a combination are removed *)
  Definition toks_top (q : node) : list token :=
    match q with
    | Cond _ _ _ _ => toks p q
    | Comb b ch => jointoks (bool_tok b) (map (toks p) ch)
    end.

  Lemma parse_toks_top : forall q, good q -> parse_tokens (toks_top q) = POk (ast_of q) [].
  Proof.
    intros q Hg. apply expr_parse_tokens. destruct q as [pt key o v|b ch].
    - pose proof (prim_node _ Hg) as HP. cbn [toks_top]. rewrite <- (app_nil_r (toks p _)).
      apply HP. constructor.
    - destruct Hg as [Hl Hn]. inversion Hl as [|? ? Hch]; subst. inversion Hn as [|? ? Hne Hnch]; subst.
      cbn [toks_top ast_of]. rewrite <- (app_nil_r (jointoks _ _)).
      apply seq_expr; [exact Hne| |left; reflexivity].
      rewrite Forall_forall in *. intros c Hc. apply prim_node. split; [apply Hch|apply Hnch]; exact Hc.
  Qed.

  (* ---- the visitor on that parse tree ------------------------------------------------------------------ *)

  Definition redacted (v : list N) : bool := pe_redact e && negb (is_nil v).

  (* a condition that ParseQuery can yield again *)
  Definition cond_valid (pt : ptype) (key : list N) (o : oper) (v : list N) : Prop :=
    key_ok pt key /\ op_ok o
    /\ lower e (prop_prefix pt ++ key) = prop_prefix pt ++ key
    /\ lower e (oper_text o) = oper_text o
    /\ valid_codepoints v
    /\ (redacted v = true -> pt = PField \/ (pt = PAttr /\ key <> AttributeURN))
    /\ pe_valid e pt key o v = true.

  Inductive valid_tree : node -> Prop :=
  | vt_cond : forall pt key o v, cond_valid pt key o v -> valid_tree (Cond pt key o v)
  | vt_comb : forall b ch, Forall valid_tree ch -> valid_tree (Comb b ch).

  Hypothesis Hnl : p 10%N = false.

  Lemma literal_tok_value v : valid_codepoints v -> literal_value (tok_value p v) = LVal v.
  Proof.
    intros Hv. unfold tok_value. destruct (is_number v); [destruct (has_dot v); reflexivity|].
    apply literal_value_quoted; assumption.
  Qed.

  Lemma lookup_oper_text o : op_ok o -> lookup_oper (oper_text o) = o.
  Proof. intros H. destruct o; try reflexivity. exfalso. exact (H t eq_refl). Qed.

  Lemma attribute_facts key ft : In (key, ft) attributes ->
    split_dot key = (key, None) /\ is_attribute key = true.
  Proof.
    intros H.
    assert (A : forallb (fun a => match split_dot (fst a) with (k, None) => text_eqb k (fst a) | _ => false end
                                  && is_attribute (fst a)) attributes = true) by (vm_compute; reflexivity).
    rewrite forallb_forall in A. specialize (A _ H). cbn [fst] in A.
    apply andb_prop in A. destruct A as [A1 A2]. split; [|exact A2].
    destruct (split_dot key) as [k [x|]]; [discriminate|]. apply text_eqb_eq in A1. subst. reflexivity.
  Qed.

  Lemma split_dot_key : forall key, forallb inK key = true -> split_dot key = (key, None).
  Proof.
    induction key as [|c key IH]; intros H; [reflexivity|].
    cbn [forallb] in H. apply andb_prop in H. destruct H as [H1 H2].
    cbn [split_dot]. destruct (N.eqb_spec c 46) as [->|Hc].
    - exfalso. destruct class_facts as (_ & D & _). unfold inK in *. congruence.
    - rewrite (IH H2). reflexivity.
  Qed.

  Lemma split_dot_prefixed pre key : forallb inK key = true -> forallb (fun c => negb (N.eqb c 46)) pre = true ->
    split_dot (pre ++ 46%N :: key) = (pre, Some key).
  Proof.
    intros Hk. induction pre as [|c pre IH]; intros H.
    - reflexivity.
    - cbn [forallb] in H. apply andb_prop in H. destruct H as [H1 H2]. apply negb_true_iff in H1.
      cbn [app split_dot]. rewrite H1, (IH H2). reflexivity.
  Qed.

  Lemma visit_cond pt key o v : cond_valid pt key o v ->
    visit_condition e (prop_prefix pt ++ key) (oper_text o) v = (Cond pt key o v, []).
  Proof.
    intros (Hk & Ho & Hlk & Hlo & Hv & Hred & _). unfold visit_condition.
    rewrite Hlk, Hlo, (lookup_oper_text o Ho). fold (redacted v).
    destruct pt; cbn [key_ok prop_prefix] in *.
    - destruct Hk as [ft Hin]. cbn [app]. destruct (attribute_facts key ft Hin) as [-> ->].
      destruct (text_eqb key AttributeURN && redacted v) eqn:E; [|reflexivity].
      apply andb_prop in E. destruct E as [E1 E2]. apply text_eqb_eq in E1.
      destruct (Hred E2) as [?|[_ ?]]; [discriminate|contradiction].
    - destruct Hk as [_ Hk].
      change prefix_urns with (k_urns ++ [46%N]). rewrite <- app_assoc. cbn [app].
      rewrite (split_dot_prefixed k_urns key Hk eq_refl).
      change (text_eqb k_urns k_fields) with false. change (text_eqb k_urns k_urns) with true. cbv iota.
      destruct (redacted v) eqn:E; [|reflexivity].
      destruct (Hred eq_refl) as [?|[? _]]; discriminate.
    - destruct Hk as [_ Hk].
      change prefix_fields with (k_fields ++ [46%N]). rewrite <- app_assoc. cbn [app].
      rewrite (split_dot_prefixed k_fields key Hk eq_refl).
      change (text_eqb k_fields k_fields) with true. reflexivity.
    - contradiction.
  Qed.

  (* the tree the visitor builds: binary, left-nested *)
  Definition pair_up (b : boolop) (acc c : node) : node := Comb b [acc; c].

  Fixpoint unsimp (q : node) : node :=
    match q with
    | Cond _ _ _ _ => q
    | Comb b ch => match map unsimp ch with
                   | [] => Comb b []
                   | x :: r => fold_left (pair_up b) r x
                   end
    end.

  Lemma visit_fold b : forall asts ns a n,
    visit e a = VNode n [] -> Forall2 (fun a' n' => visit e a' = VNode n' []) asts ns ->
    visit e (fold_left (ABin b) asts a) = VNode (fold_left (pair_up b) ns n) [].
  Proof.
    induction asts as [|a' asts IH]; intros ns a n Ha H; inversion H; subst; [exact Ha|].
    cbn [fold_left]. apply IH; [|assumption]. cbn [visit]. rewrite Ha. rewrite H2. reflexivity.
  Qed.

  Lemma visit_ast_of : forall q, valid_tree q -> nonempty_combs q -> visit e (ast_of q) = VNode (unsimp q) [].
  Proof.
    induction q as [pt key o v|b ch IH] using node_ind'; intros Hv Hn.
    - inversion Hv as [? ? ? ? Hc|]; subst. cbn [ast_of visit unsimp].
      destruct Hc as (Hk & Ho & Hlk & Hlo & Hvc & Hrest).
      rewrite (literal_tok_value v Hvc).
      rewrite (visit_cond pt key o v) by (repeat split; tauto). reflexivity.
    - inversion Hv as [|? ? Hch]; subst. inversion Hn as [|? ? Hne Hnch]; subst.
      assert (HF : Forall2 (fun a' n' => visit e a' = VNode n' []) (map ast_of ch) (map unsimp ch)).
      { clear Hne Hv Hn. induction ch as [|c ch IHch]; [constructor|].
        inversion IH; subst. inversion Hch; subst. inversion Hnch; subst. cbn [map]. constructor; auto. }
      cbn [ast_of unsimp]. destruct ch as [|c ch]; [congruence|]. cbn [map nest] in *.
      inversion HF; subst. apply visit_fold; assumption.
  Qed.

  (* ---- Simplify undoes the nesting --------------------------------------------------------------------- *)

  Lemma conditions_valid_fold b : forall ns n,
    conditions_valid e n = true -> forallb (conditions_valid e) ns = true ->
    conditions_valid e (fold_left (pair_up b) ns n) = true.
  Proof.
    induction ns as [|n' ns IH]; intros n Hn H; [exact Hn|].
    cbn [forallb] in H. apply andb_prop in H. destruct H as [H1 H2].
    cbn [fold_left]. apply IH; [|exact H2]. cbn [pair_up conditions_valid forallb]. rewrite Hn, H1. reflexivity.
  Qed.

  Lemma conditions_valid_unsimp : forall q, valid_tree q -> conditions_valid e (unsimp q) = true.
  Proof.
    induction q as [pt key o v|b ch IH] using node_ind'; intros Hv.
    - inversion Hv as [? ? ? ? Hc|]; subst. cbn [unsimp conditions_valid]. destruct Hc as (_ & _ & _ & _ & _ & _ & H). exact H.
    - inversion Hv as [|? ? Hch]; subst. cbn [unsimp].
      assert (HA : forallb (conditions_valid e) (map unsimp ch) = true).
      { clear Hv. induction ch as [|c ch IHch]; [reflexivity|].
        inversion IH; subst. inversion Hch; subst. cbn [map forallb]. rewrite H1 by assumption. apply IHch; assumption. }
      destruct (map unsimp ch) as [|x r]; [reflexivity|].
      cbn [forallb] in HA. apply andb_prop in HA. destruct HA as [HA1 HA2].
      apply conditions_valid_fold; assumption.
  Qed.

  (* what [promote b] makes of the simplified form of a node *)
  Definition flat (b : boolop) (n : node) : list node :=
    match simplify n with Some x => promote b x | None => [] end.

  Lemma simplify_pair b n1 n2 : simplify (pair_up b n1 n2) = finish b (flat b n1 ++ flat b n2).
  Proof.
    unfold pair_up, flat. cbn [simplify map].
    destruct (simplify n1) as [x1|]; destruct (simplify n2) as [x2|]; cbn [keep_some flat_map]; rewrite ?app_nil_r; reflexivity.
  Qed.

  Lemma flat_fold b : forall ns cs n c0,
    (2 <= length (c0 ++ cs) -> True) ->
    flat b n = c0 -> c0 <> [] -> Forall (not_comb b) c0 ->
    Forall2 (fun n' c' => flat b n' = [c'] /\ not_comb b c') ns cs ->
    ns <> [] ->
    simplify (fold_left (pair_up b) ns n) = Some (Comb b (c0 ++ cs)).
  Proof.
    induction ns as [|n' ns IH]; intros cs n c0 _ Hn Hc0 Hnc H Hne; [congruence|].
    inversion H as [|? c' ? cs' [Hf Hc'] Hrest]; subst. cbn [fold_left].
    destruct ns as [|n'' ns'].
    - inversion Hrest; subst. cbn [fold_left]. rewrite simplify_pair, Hf.
      destruct (flat b n) as [|x [|y l]] eqn:E; [congruence| |]; reflexivity.
    - replace (flat b n ++ c' :: cs') with ((flat b n ++ [c']) ++ cs') by (rewrite <- app_assoc; reflexivity).
      apply IH; try assumption; try discriminate; [exact (fun _ => I)| | |].
      + unfold flat at 1. rewrite simplify_pair, Hf.
        destruct (flat b n) as [|x [|y l]] eqn:E; [congruence| |].
        * cbn [app finish promote].
          (* Comb b [x; c'] promotes to its children *)
          cbn [promote]. rewrite (proj2 (boolop_eqb_eq b b) eq_refl). reflexivity.
        * cbn [app finish promote]. rewrite (proj2 (boolop_eqb_eq b b) eq_refl). reflexivity.
      + destruct (flat b n); discriminate.
      + apply Forall_app. split; [exact Hnc|]. constructor; [exact Hc'|constructor].
  Qed.

  Lemma simplify_unsimp : forall q, simplified q -> simplify (unsimp q) = Some q.
  Proof.
    induction q as [pt key o v|b ch IH] using node_ind'; intros Hs; [reflexivity|].
    inversion Hs as [|? ? Hlen Hch Hnc]; subst.
    assert (HF : Forall2 (fun n' c' => flat b n' = [c'] /\ not_comb b c') (map unsimp ch) ch).
    { clear Hlen Hs. induction ch as [|c ch IHch]; [constructor|].
      inversion IH; subst. inversion Hch; subst. inversion Hnc; subst. cbn [map]. constructor; [|auto].
      split; [|assumption]. unfold flat. rewrite H1 by assumption. apply promote_not_comb. assumption. }
    cbn [unsimp]. destruct ch as [|c1 [|c2 ch]]; cbn [length] in Hlen; try lia.
    cbn [map] in *. inversion HF as [|? ? ? ? [Hf1 Hn1] HF']; subst.
    change (c1 :: c2 :: ch) with ([c1] ++ c2 :: ch).
    apply flat_fold; try assumption; try discriminate; [exact (fun _ => I)|].
    constructor; [exact Hn1|constructor].
  Qed.

  (* the same for trees that are not in normal form (what NewBoolCombination can build: nested same-operator
     combinations, single-child combinations): Simplify of the visitor's tree is Simplify of the tree *)
  Lemma flat_not_comb b n : Forall (not_comb b) (flat b n).
  Proof.
    unfold flat. destruct (simplify n) as [x|] eqn:E; [|constructor].
    pose proof (simplify_simplified n x E) as Hx.
    pose proof (promote_elements b [x] (Forall_cons x Hx (Forall_nil _))) as H.
    cbn [flat_map] in H. rewrite app_nil_r in H.
    eapply Forall_impl; [|exact H]. intros a [_ Ha]. exact Ha.
  Qed.

  Lemma flat_pair b n1 n2 : flat b (pair_up b n1 n2) = flat b n1 ++ flat b n2.
  Proof.
    unfold flat at 1. rewrite simplify_pair.
    assert (HN : Forall (not_comb b) (flat b n1 ++ flat b n2)) by (apply Forall_app; split; apply flat_not_comb).
    destruct (flat b n1 ++ flat b n2) as [|x [|y l]]; cbn [finish]; [reflexivity| |].
    - inversion HN; subst. apply promote_not_comb. assumption.
    - cbn [promote]. rewrite (proj2 (boolop_eqb_eq b b) eq_refl). reflexivity.
  Qed.

  Lemma simplify_fold b : forall ns n, ns <> [] ->
    simplify (fold_left (pair_up b) ns n) = finish b (flat b n ++ concat (map (flat b) ns)).
  Proof.
    induction ns as [|n' ns IH]; intros n Hne; [congruence|].
    destruct ns as [|n'' r].
    - cbn [fold_left map concat]. rewrite app_nil_r. apply simplify_pair.
    - change (fold_left (pair_up b) (n' :: n'' :: r) n) with (fold_left (pair_up b) (n'' :: r) (pair_up b n n')).
      rewrite IH by discriminate. rewrite flat_pair. cbn [map concat]. rewrite <- app_assoc. reflexivity.
  Qed.

  Lemma simplify_comb_flat b ch : simplify (Comb b ch) = finish b (concat (map (flat b) ch)).
  Proof.
    cbn [simplify]. f_equal. induction ch as [|c ch IH]; [reflexivity|].
    cbn [map concat keep_some]. unfold flat at 1. destruct (simplify c); cbn [keep_some flat_map]; rewrite IH; reflexivity.
  Qed.

  Lemma finish_flat b c : finish b (flat b c) = simplify c.
  Proof.
    unfold flat. destruct (simplify c) as [x|] eqn:E; [|reflexivity].
    pose proof (simplify_simplified c x E) as Hx.
    destruct x as [pt k o v|b' gc]; [reflexivity|]. cbn [promote].
    destruct (boolop_eqb b' b) eqn:Eb; [|reflexivity].
    apply boolop_eqb_eq in Eb. subst b'. inversion Hx as [|? ? Hlen _ _]; subst.
    destruct gc as [|g1 [|g2 gc']]; cbn [length] in Hlen; try lia. reflexivity.
  Qed.

  Lemma simplify_unsimp_gen : forall q, simplify (unsimp q) = simplify q.
  Proof.
    induction q as [pt key o v|b ch IH] using node_ind'; [reflexivity|].
    assert (HF : map (flat b) (map unsimp ch) = map (flat b) ch).
    { induction ch as [|c ch IHch]; [reflexivity|]. inversion IH; subst. cbn [map]. f_equal; [|auto].
      unfold flat. rewrite H1. reflexivity. }
    rewrite simplify_comb_flat, <- HF. cbn [unsimp].
    destruct ch as [|c1 ch]; [reflexivity|]. cbn [map] in *.
    destruct (map unsimp ch) as [|x r] eqn:Er.
    - cbn [fold_left map concat]. rewrite app_nil_r. symmetry. apply finish_flat.
    - rewrite simplify_fold by discriminate. reflexivity.
  Qed.

  (* ---- the text: no surrounding white space, not a phone number ---------------------------------------- *)

  Lemma trim_noop : forall s c r c' r', s = c :: r -> is_space c = false -> s = r' ++ [c'] -> is_space c' = false ->
    trim s = s.
  Proof.
    intros s c r c' r' E1 H1 E2 H2. unfold trim.
    assert (T1 : trim_left s = s) by (rewrite E1; cbn [trim_left]; rewrite H1; reflexivity).
    rewrite T1. rewrite E2 at 1. rewrite rev_app_distr. cbn [rev app trim_left]. rewrite H2.
    change (c' :: rev r') with (rev [c'] ++ rev r'). rewrite <- rev_app_distr, rev_involutive. symmetry. exact E2.
  Qed.

  Lemma only_phone_false : forall a c b, a <> [] -> phone_char c = false -> only_phone (a ++ c :: b) = false.
  Proof.
    intros a c b Ha Hc. unfold only_phone. destruct a as [|x a]; [congruence|]. cbn [app].
    assert (F : forall l, forallb phone_char (l ++ c :: b) = false).
    { induction l as [|y l IHl]; cbn [app forallb]; [rewrite Hc; reflexivity|]. rewrite IHl. apply andb_false_r. }
    destruct (N.eqb x 43).
    - rewrite F. reflexivity.
    - change (x :: a ++ c :: b) with ((x :: a) ++ c :: b). rewrite F. reflexivity.
  Qed.

  (* head, operator position and end of a formatted condition *)
  Definition head_ok (c : N) : Prop := is_space c = false /\ c <> 40%N.

  Lemma key_head2 pt key : key_ok pt key -> exists c s, prop_prefix pt ++ key = c :: s /\ head_ok c.
  Proof.
    intros H. destruct pt; cbn [key_ok prop_prefix] in *.
    - destruct H as [ft H]. cbn [app].
      assert (A : forallb (fun a => match fst a with c :: _ => negb (is_space c) && negb (N.eqb c 40) | [] => false end)
                          attributes = true) by (vm_compute; reflexivity).
      rewrite forallb_forall in A. specialize (A _ H). cbn [fst] in A.
      destruct key as [|c s]; [discriminate|]. exists c, s. split; [reflexivity|].
      apply andb_prop in A. destruct A as [A1 A2]. apply negb_true_iff in A1. apply negb_true_iff in A2.
      apply N.eqb_neq in A2. split; assumption.
    - eexists _, _. split; [reflexivity|]. split; [reflexivity|discriminate].
    - eexists _, _. split; [reflexivity|]. split; [reflexivity|discriminate].
    - contradiction.
  Qed.

  Lemma oper_nonphone o : op_ok o -> exists c s, oper_text o = c :: s /\ phone_char c = false.
  Proof.
    intros H. destruct o; try (eexists _, _; split; [reflexivity|reflexivity]). exfalso. exact (H t eq_refl).
  Qed.

  Lemma digit_not_space c : is_digit c = true -> is_space c = false.
  Proof.
    unfold is_digit, is_space. intros H. apply andb_prop in H. destruct H as [H1 H2].
    apply N.leb_le in H1. apply N.leb_le in H2.
    repeat match goal with
           | |- (_ || _) = false => apply orb_false_intro
           | |- (_ && _) = false => apply andb_false_iff
           end;
      try (apply N.eqb_neq; lia); try (right; apply N.leb_gt; lia); try (left; apply N.leb_gt; lia).
  Qed.

  Lemma print_value_last v : exists r c, print_value p v = r ++ [c] /\ is_space c = false.
  Proof.
    unfold print_value. destruct (is_number v) eqn:E.
    - destruct (is_number_shape v E) as [Hne Hd|a d -> Ha Hd Hda Hdd].
      + destruct (exists_last Hne) as (r & c & ->). exists r, c. split; [reflexivity|].
        rewrite forallb_app in Hd. apply andb_prop in Hd. destruct Hd as [_ Hd]. cbn [forallb] in Hd.
        apply andb_prop in Hd. destruct Hd as [Hd _]. apply digit_not_space. exact Hd.
      + destruct (exists_last Hd) as (r & c & ->). exists (a ++ 46%N :: r), c.
        split; [rewrite <- app_assoc; reflexivity|].
        rewrite forallb_app in Hdd. apply andb_prop in Hdd. destruct Hdd as [_ Hdd]. cbn [forallb] in Hdd.
        apply andb_prop in Hdd. destruct Hdd as [Hdd _]. apply digit_not_space. exact Hdd.
    - destruct (quote_value_shape p v) as (body & -> & _). exists (34%N :: body), 34%N. split; reflexivity.
  Qed.

  (* a formatted tree: first character, a non-phone character after it, last character *)
  Definition text_ok (s : list N) : Prop :=
    (exists c r, s = c :: r /\ is_space c = false)
    /\ (exists a c b, s = a ++ c :: b /\ a <> [] /\ phone_char c = false)
    /\ (exists r c, s = r ++ [c] /\ is_space c = false).

  Lemma text_ok_cond pt key o v : key_ok pt key -> op_ok o -> text_ok (print_cond p pt key o v).
  Proof.
    intros Hk Ho. unfold print_cond.
    destruct (key_head2 pt key Hk) as (c & s & E & [Hc _]).
    destruct (oper_nonphone o Ho) as (co & so & Eo & Hco).
    destruct (print_value_last v) as (rv & cv & Ev & Hcv).
    split; [|split].
    - rewrite app_assoc, E. cbn [app]. eauto.
    - exists (prop_prefix pt ++ key ++ [32%N]), co, (so ++ [32%N] ++ print_value p v).
      split; [rewrite Eo; repeat rewrite <- app_assoc; reflexivity|]. split; [|exact Hco].
      rewrite app_assoc, E. discriminate.
    - exists (prop_prefix pt ++ key ++ [32%N] ++ oper_text o ++ [32%N] ++ rv), cv.
      split; [rewrite Ev; repeat rewrite <- app_assoc; reflexivity|exact Hcv].
  Qed.

  Lemma text_ok_join sep : forall ch, ch <> [] -> Forall text_ok ch -> text_ok (join sep ch).
  Proof.
    induction ch as [|x ch IH]; intros Hne H; [congruence|].
    inversion H as [|? ? Hx Hch]; subst. destruct ch as [|y ch'].
    - exact Hx.
    - change (join sep (x :: y :: ch')) with (x ++ sep ++ join sep (y :: ch')).
      destruct Hx as ((c & r & -> & Hc) & (a & co & b & Ea & Hane & Hco) & _).
      destruct (IH ltac:(discriminate) Hch) as (_ & _ & (r' & c' & E' & Hc')).
      split; [|split].
      + cbn [app]. eauto.
      + exists a, co, (b ++ sep ++ join sep (y :: ch')). split; [rewrite Ea; repeat rewrite <- app_assoc; reflexivity|].
        split; assumption.
      + exists ((c :: r) ++ sep ++ r'), c'. split; [rewrite E'; repeat rewrite <- app_assoc; reflexivity|exact Hc'].
  Qed.

  Lemma text_ok_print : forall q, good q -> text_ok (print p q).
  Proof.
    induction q as [pt key o v|b ch IH] using node_ind'; intros [Hl Hn].
    - inversion Hl; subst. apply text_ok_cond; assumption.
    - inversion Hl as [|? ? Hch]; subst. inversion Hn as [|? ? Hne Hnch]; subst. cbn [print].
      assert (HJ : text_ok (join (bool_word b) (map (print p) ch))).
      { apply text_ok_join; [destruct ch; [congruence|discriminate]|].
        rewrite Forall_forall in *. intros s Hs. apply in_map_iff in Hs. destruct Hs as (c & <- & Hc).
        apply IH; [exact Hc|]. split; [apply Hch|apply Hnch]; exact Hc. }
      destruct HJ as (_ & (a & co & bb & Ea & _ & Hco) & _).
      split; [|split].
      + exists 40%N, (join (bool_word b) (map (print p) ch) ++ [41%N]). split; reflexivity.
      + exists ([40%N] ++ a), co, (bb ++ [41%N]). split; [rewrite Ea; repeat rewrite <- app_assoc; reflexivity|].
        split; [discriminate|exact Hco].
      + exists ([40%N] ++ join (bool_word b) (map (print p) ch)), 41%N. split; [rewrite <- app_assoc; reflexivity|reflexivity].
  Qed.

  (* Stringify *)
  Definition top_text (q : node) : list N :=
    match q with
    | Cond _ _ _ _ => print p q
    | Comb b ch => join (bool_word b) (map (print p) ch)
    end.

  Lemma removelast_app_one {A} (l : list A) x : removelast (l ++ [x]) = l.
  Proof. rewrite removelast_app by discriminate. cbn [removelast]. apply app_nil_r. Qed.

  Lemma stringify_top : forall q, lexable q -> stringify p (Some q) = top_text q.
  Proof.
    intros q Hl. unfold stringify. destruct q as [pt key o v|b ch].
    - inversion Hl as [? ? ? ? Hk Ho|]; subst. cbn [print top_text]. unfold print_cond.
      destruct (key_head2 pt key Hk) as (c & s & E & [_ Hc]).
      rewrite app_assoc, E. cbn [app first_is].
      replace (N.eqb c 40) with false by (symmetry; apply N.eqb_neq; exact Hc). reflexivity.
    - cbn [print top_text]. cbn [app first_is]. change (N.eqb 40 40) with true. cbn [andb].
      unfold last_is. cbn [rev]. rewrite rev_app_distr. cbn [rev app first_is]. change (N.eqb 41 41) with true. cbv iota.
      cbn [tl]. apply removelast_app_one.
  Qed.

  Lemma text_ok_top : forall q, good q -> text_ok (top_text q).
  Proof.
    intros q Hg. destruct q as [pt key o v|b ch]; [apply text_ok_print; exact Hg|].
    destruct Hg as [Hl Hn]. inversion Hl as [|? ? Hch]; subst. inversion Hn as [|? ? Hne Hnch]; subst.
    cbn [top_text]. apply text_ok_join; [destruct ch; [congruence|discriminate]|].
    rewrite Forall_forall in *. intros s Hs. apply in_map_iff in Hs. destruct Hs as (c & <- & Hc).
    apply text_ok_print. split; [apply Hch|apply Hnch]; exact Hc.
  Qed.

  Lemma preprocess_noop : forall s, text_ok s -> preprocess e s = s.
  Proof.
    intros s ((c & r & E1 & H1) & (a & co & b & Ea & Hane & Hco) & (r' & c' & E2 & H2)).
    unfold preprocess. rewrite (trim_noop s c r c' r' E1 H1 E2 H2).
    destruct (pe_redact e); [reflexivity|].
    rewrite (trim_noop s c r c' r' E1 H1 E2 H2).
    rewrite Ea at 1. rewrite (only_phone_false a co b Hane Hco). reflexivity.
  Qed.

  (* ---- the lexer on the top-level text ------------------------------------------------------------------ *)

  Lemma lex_top : forall q, lexable q -> cql_lex (top_text q) = LexOk (toks_top q).
  Proof.
    intros q Hl.
    assert (L0 : cql_lex [] = LexOk []) by reflexivity.
    destruct q as [pt key o v|b ch].
    - cbn [top_text toks_top]. rewrite <- (app_nil_r (print p _)).
      rewrite (lex_node p _ Hl [] I). rewrite L0. cbn [pushl]. rewrite app_nil_r. reflexivity.
    - inversion Hl as [|? ? Hch]; subst. cbn [top_text toks_top].
      rewrite <- (app_nil_r (join _ _)).
      rewrite (lex_children p b ch) with (t := []); [rewrite L0; cbn [pushl]; rewrite app_nil_r; reflexivity| |exact I].
      rewrite Forall_forall in *. intros c Hc. split; [apply Hch; exact Hc|].
      intros t Ht. apply lex_node; [apply Hch; exact Hc|exact Ht].
  Qed.

  (* ---- parse (print q) = q -------------------------------------------------------------------------------- *)

  Lemma valid_tree_lexable : forall q, valid_tree q -> lexable q.
  Proof.
    induction q as [pt key o v|b ch IH] using node_ind'; intros Hv.
    - inversion Hv as [? ? ? ? (Hk & Ho & _)|]; subst. constructor; assumption.
    - inversion Hv as [|? ? Hch]; subst. constructor. rewrite Forall_forall in *. intros c Hc. apply IH; [exact Hc|apply Hch; exact Hc].
  Qed.

  Lemma simplified_nonempty : forall q, simplified q -> nonempty_combs q.
  Proof.
    induction q as [pt key o v|b ch IH] using node_ind'; intros Hs; [constructor|].
    inversion Hs as [|? ? Hlen Hch _]; subst. constructor.
    - destruct ch; [cbn [length] in Hlen; lia|discriminate].
    - rewrite Forall_forall in *. intros c Hc. apply IH; [exact Hc|apply Hch; exact Hc].
  Qed.

  (* any valid tree without an empty combination: ParseQuery of its text returns Simplify of the tree *)
  Theorem print_parse_gen : forall q, valid_tree q -> nonempty_combs q ->
    parse_query e (stringify p (Some q)) = QOk (simplify q).
  Proof.
    intros q Hv Hn.
    pose proof (valid_tree_lexable q Hv) as Hl.
    assert (Hg : good q) by (split; assumption).
    unfold parse_query, parse_front.
    rewrite (stringify_top q Hl).
    rewrite (preprocess_noop _ (text_ok_top q Hg)).
    rewrite (lex_top q Hl).
    rewrite (parse_toks_top q Hg).
    rewrite (visit_ast_of q Hv Hn).
    rewrite (conditions_valid_unsimp q Hv).
    rewrite (simplify_unsimp_gen q). reflexivity.
  Qed.

  Theorem print_parse : forall q, valid_tree q -> simplified q ->
    parse_query e (stringify p (Some q)) = QOk (Some q).
  Proof.
    intros q Hv Hs. rewrite (print_parse_gen q Hv (simplified_nonempty q Hs)). rewrite (simplify_fixed q Hs). reflexivity.
  Qed.
End RoundTrip.

(* ---- corollaries and witnesses ------------------------------------------------------------------------------- *)

(* re-parsing what ParseQuery accepted: under the hypothesis that the accepted query is a valid tree *)
Corollary parse_print_parse : forall p e s q, p 10%N = false ->
  parse_query e s = QOk (Some q) -> valid_tree e q ->
  parse_query e (stringify p (Some q)) = QOk (Some q).
Proof.
  intros p e s q Hnl H Hv. apply print_parse; [exact Hnl|exact Hv|].
  destruct (parse_query_simplified e s (Some q) H) as (q' & E & Hs & _). inversion E; subst. exact Hs.
Qed.

(* an environment for the examples: ASCII lower-casing, no phone numbers, URNs `tel:...` only *)
Definition ascii_lower (c : N) : N := if ((65 <=? c) && (c <=? 90))%N then (c + 32)%N else c.
Definition ascii_print (c : N) : bool := ((32 <=? c) && (c <? 127))%N.

Definition env_example (redact : bool) (lower : N -> N) : penv := {|
  pe_redact := redact; pe_lower := lower; pe_phone := fun _ => None; pe_urn := fun _ => None;
  pe_valid_scheme := fun k => text_eqb k k_tel; pe_tokens := fun s => [s];
  pe_valid := fun _ _ _ _ => true |}.

(* the hypotheses of print_parse are satisfiable: a three-level tree with a value that tries to inject, a value of
   backslashes, a keyword value, bare numbers, under both redaction policies *)
Definition q_example : node :=
  Comb BOr [Cond PAttr AttributeName OpEqual [34; 32; 79; 82; 32; 105; 100; 32; 61; 32; 49; 32; 79; 82; 32; 110; 97; 109; 101; 32; 61; 32; 34]%N;
            Comb BAnd [Cond PField [111; 114]%N OpNotEqual [92; 92]%N;
                       Cond PField [97; 103; 101]%N OpGreaterThanOrEqual [49; 50; 46; 53]%N;
                       Comb BOr [Cond PField [120]%N OpContains [79; 82]%N; Cond PAttr AttributeID OpEqual [55]%N]];
            Cond PField [120]%N OpEqual []].

Lemma q_example_ok : forall redact,
  valid_tree (env_example redact ascii_lower) q_example /\ simplified q_example
  /\ parse_query (env_example redact ascii_lower) (stringify ascii_print (Some q_example)) = QOk (Some q_example).
Proof.
  intros redact.
  assert (K : forall key, forallb inK key = true -> key <> [] -> key_chars key) by (intros; split; assumption).
  assert (V : valid_tree (env_example redact ascii_lower) q_example).
  { unfold q_example.
    repeat first [apply vt_comb | apply Forall_cons | apply Forall_nil | apply vt_cond];
      (split; [first [eexists; vm_compute; tauto | apply K; [vm_compute; reflexivity|discriminate]]|]);
      (split; [intros t; discriminate|]); (split; [reflexivity|]); (split; [reflexivity|]);
      (split; [repeat constructor|]); (split; [|reflexivity]);
      intros _; first [left; reflexivity | right; split; [reflexivity|discriminate]]. }
  assert (S : simplified q_example).
  { unfold q_example.
    repeat first [apply simp_cond | apply simp_comb; [cbn [length]; lia| |]
                 | apply Forall_cons | apply Forall_nil | (intros gc; discriminate)]. }
  split; [exact V|]. split; [exact S|].
  apply print_parse; [reflexivity|exact V|exact S].
Qed.

(* the hypothesis [valid_tree] of parse_print_parse is needed: ParseQuery accepts `fields.X = 1` for X = U+13A0,
   the visitor lower-cases the key to U+AB70 (as Go's unicode.ToLower does), which the grammar's letter table lacks *)
Definition cherokee_lower (c : N) : N := if (c =? 5024)%N then 43888%N else ascii_lower c.

Lemma parse_print_parse_counterexample :
  let e := env_example false cherokee_lower in
  let s := [102; 105; 101; 108; 100; 115; 46; 5024; 32; 61; 32; 49]%N in
  let q := Cond PField [43888%N] OpEqual [49%N] in
  parse_query e s = QOk (Some q)
  /\ stringify ascii_print (Some q) = [102; 105; 101; 108; 100; 115; 46; 43888; 32; 61; 32; 49]%N
  /\ parse_query e (stringify ascii_print (Some q)) = QSyntax.
Proof. cbv zeta. repeat split; vm_compute; reflexivity. Qed.

(* ---- neither the lexer nor the parser runs out of fuel ---------------------------------------------------------- *)

Lemma lex_loop_no_fuel {kind} (rules : list (rule kind)) : forall n s f acc,
  length s <= n -> length s <= f -> lex_loop f rules s acc <> LexFuel.
Proof.
  induction n as [|n IH]; intros s f acc Hn Hf.
  - destruct s; [|cbn [length] in Hn; lia]. destruct f; discriminate.
  - destruct s as [|c s]; [destruct f; discriminate|].
    destruct f as [|f]; [cbn [length] in Hf; lia|].
    cbn [lex_loop]. destruct (pick rules (c :: s) None) as [[ru m]|] eqn:P; [|discriminate].
    assert (Hm : 1 <= m) by (eapply pick_pos; [|exact P]; exact I).
    assert (Hl : length (skipn m (c :: s)) <= length s) by (rewrite skipn_length; cbn [length]; lia).
    cbn [length] in *. apply IH; lia.
Qed.

Theorem parse_query_no_fuel : forall e s, parse_query e s <> QFuel.
Proof.
  intros e s. unfold parse_query, parse_front.
  destruct (cql_lex (preprocess e s)) as [ts| |] eqn:L.
  - pose proof (parse_tokens_total ts) as T.
    destruct (parse_tokens ts) as [| |a r]; try discriminate; [congruence|].
    destruct (visit e a) as [|n [|er errs]]; try discriminate.
    destruct (conditions_valid e n); discriminate.
  - discriminate.
  - exfalso. unfold cql_lex, lex in L.
    exact (lex_loop_no_fuel lexer_rules _ _ _ _ (le_n _) (le_n _) L).
Qed.

(* ---- from query TEXT: accepted texts with implicit conditions, aliases, juxtaposition, bare literals, a value ending
   in a backslash; each formats to a text that parses to the same query --------------------------------------------- *)

Definition reparses (e : penv) (s : list N) : bool :=
  match parse_query e s with
  | QOk (Some q) =>
      match parse_query e (stringify ascii_print (Some q)) with
      | QOk (Some q') => node_eqb q q'
      | _ => false
      end
  | _ => false
  end.

(* Name has bob (age > 10 or QUOTE x y QUOTE) +12345 *)
Definition text_example1 : list N :=
  [78; 97; 109; 101; 32; 104; 97; 115; 32; 98; 111; 98; 32; 40; 97; 103; 101; 32; 62; 32; 49; 48; 32; 111; 114; 32; 34; 120;
   32; 121; 34; 41; 32; 43; 49; 50; 51; 52; 53]%N.
(* name = QUOTE a BACKSLASH QUOTE *)
Definition text_example2 : list N := [110; 97; 109; 101; 32; 61; 32; 34; 97; 92; 34]%N.
(* fields.x IS 1.50 AND (uuid != QUOTE a BACKSLASH QUOTE b QUOTE OR tel ~ 123) *)
Definition text_example3 : list N :=
  [102; 105; 101; 108; 100; 115; 46; 120; 32; 73; 83; 32; 49; 46; 53; 48; 32; 65; 78; 68; 32; 40; 117; 117; 105; 100; 32; 33; 61;
   32; 34; 97; 92; 34; 98; 34; 32; 79; 82; 32; 116; 101; 108; 32; 126; 32; 49; 50; 51; 41]%N.

Lemma text_examples :
  parse_query (env_example false ascii_lower) text_example1
  = QOk (Some (Comb BAnd [Cond PAttr AttributeName OpContains [98; 111; 98]%N;
                          Comb BOr [Cond PField [97; 103; 101]%N OpGreaterThan [49; 48]%N;
                                    Cond PAttr AttributeName OpContains [120; 32; 121]%N];
                          Cond PURN k_tel OpContains [43; 49; 50; 51; 52; 53]%N]))
  /\ reparses (env_example false ascii_lower) text_example1 = true
  /\ parse_query (env_example false ascii_lower) text_example2 = QOk (Some (Cond PAttr AttributeName OpEqual [97; 92]%N))
  /\ reparses (env_example false ascii_lower) text_example2 = true
  /\ reparses (env_example false ascii_lower) text_example3 = true
  /\ reparses (env_example true ascii_lower) text_example2 = true.
Proof. repeat split; vm_compute; reflexivity. Qed.
