(* EngineResults.v — C05 length clause for what is STORED: every result value kept in a run's results has at most
   max(MaxResultChars, 0) characters (not only the values announced in run_result_changed events), for histories
   over one option set (a lowered limit does not re-truncate values stored earlier). *)

From Coq Require Import List NArith ZArith Bool Lia.
From Verif Require Import model.Lang model.Engine proofs.EngineProofs proofs.EngineInv proofs.EnginePaths.
Import ListNotations.
Open Scope N_scope.

(* what a stored result keeps: its value within MaxResultChars, and the input it was computed from (the operand of
   the router that saved it; empty for set_run_result) within MaxTemplateChars - so nothing a result keeps can grow
   from visit to visit *)
Definition value_ok (a : assets) (res : result) : Prop :=
  (Z.of_nat (length (res_value res)) <= Z.max (max_result_chars (a_opts a)) 0)%Z /\
  (Z.of_nat (length (res_input res)) <= Z.max (max_template_chars (a_opts a)) 0)%Z.

Definition results_ok (a : assets) (s : session) : Prop :=
  forall i r res, nth_error (s_runs s) i = Some r -> In res (r_results r) -> value_ok a res.

Lemma save_result_in : forall rs x y, In y (fst (save_result rs x)) -> y = x \/ In y rs.
Proof.
  induction rs as [|z rs IH]; intros x y; simpl.
  - intros [<-|[]]; auto.
  - destruct (text_eqb (res_name z) (res_name x)).
    + simpl. intros [<-|H]; auto.
    + destruct (save_result rs x) as [rs' ch] eqn:E. simpl. intros [<-|H]; auto.
      specialize (IH x y). rewrite E in IH. destruct (IH H); auto.
Qed.

Lemma results_ok_upd : forall a x k g, results_ok a (session_ x) ->
  (forall r res, In res (r_results (g r)) -> In res (r_results r) \/ value_ok a res) ->
  results_ok a (session_ (with_session x (fun s => upd_run s k g))).
Proof.
  intros a x k g H Hg i r res Hi Hin. simpl in Hi. unfold upd_run in Hi; simpl in Hi.
  destruct (Nat.eq_dec k i) as [->|Hne].
  - rewrite nth_error_update_nth_eq in Hi. destruct (nth_error (s_runs (session_ x)) i) as [r0|] eqn:E; inversion Hi; subst.
    destruct (Hg _ _ Hin) as [A|A]; auto. eapply H; eauto.
  - rewrite nth_error_update_nth_neq in Hi by auto. eapply H; eauto.
Qed.

Lemma results_ok_upd_same : forall a x k g, results_ok a (session_ x) -> (forall r, r_results (g r) = r_results r) ->
  results_ok a (session_ (with_session x (fun s => upd_run s k g))).
Proof. intros. apply results_ok_upd; auto. intros r res Hin. rewrite H0 in Hin. auto. Qed.

Lemma results_ok_log_event : forall a x ri sr k, results_ok a (session_ x) -> results_ok a (session_ (log_event x ri sr k)).
Proof. intros. unfold log_event. apply (results_ok_upd_same a x ri _ H). reflexivity. Qed.

Lemma results_ok_fail_run : forall a x ri sr c, results_ok a (session_ x) -> results_ok a (session_ (fail_run x ri sr c)).
Proof. intros. unfold fail_run. apply results_ok_log_event. apply results_ok_upd_same; auto. Qed.

Lemma results_ok_same_runs : forall a s s', s_runs s' = s_runs s -> results_ok a s -> results_ok a s'.
Proof. intros a s s' E H i r res Hi. rewrite E in Hi. eapply H; eauto. Qed.

Lemma save_and_log_results : forall a x ri sr name value cat nid input x' v,
  results_ok a (session_ x) -> save_and_log a x ri sr name value cat nid input = Done x' v -> results_ok a (session_ x').
Proof.
  intros a x ri sr name value cat nid input x' v H. unfold save_and_log.
  destruct (trunc_spec value (max_result_chars (a_opts a))) as (t & -> & Hl & _).
  destruct (trunc_ellipsis_spec input (max_template_chars (a_opts a))) as (kept & -> & Hkept & _).
  destruct (get_run (session_ x) ri) as [r0|] eqn:Er.
  - destruct (save_result (r_results r0) _) as [rs ch] eqn:Es. intros E; inversion E; subst.
    assert (K : results_ok a (session_ (with_session x (fun s => upd_run s ri (run_set_results rs))))).
    { intros i r res Hi Hin0. simpl in Hi. unfold upd_run in Hi; simpl in Hi.
      destruct (Nat.eq_dec ri i) as [->|Hne].
      - rewrite nth_error_update_nth_eq in Hi. unfold get_run in Er. rewrite Er in Hi. inversion Hi; subst. simpl in Hin0.
        pose proof (save_result_in (r_results r0) {| res_name := name; res_value := t; res_cat := cat; res_node := nid; res_input := kept |} res) as S.
        rewrite Es in S. destruct (S Hin0) as [->|Hold].
        + split; [exact Hl|exact Hkept].
        + eapply H; eauto.
      - rewrite nth_error_update_nth_neq in Hi by auto. eapply H; eauto. }
    destruct ch; [apply results_ok_log_event|]; exact K.
  - intros E; inversion E; subst. exact H.
Qed.

Lemma route_to_category_results : forall a x ri sr n rt cat m op x' v,
  results_ok a (session_ x) -> route_to_category a x ri sr n rt cat m op = Done x' v -> results_ok a (session_ x').
Proof.
  intros a x ri sr n rt cat m op x' v H. unfold route_to_category.
  destruct cat; [|intros E; inversion E; subst; auto].
  destruct (nth_error _ _); [|discriminate].
  destruct (rt_result rt); [|intros E; inversion E; subst; auto].
  destruct (save_and_log _ _ _ _ _ _ _ _ _) eqn:Es; try discriminate.
  intros E; inversion E; subst. eapply save_and_log_results; eauto.
Qed.

Lemma pick_node_exit_results : forall a x ri n pos it tmo x' v,
  results_ok a (session_ x) -> pick_node_exit a x ri n pos it tmo = Done x' v -> results_ok a (session_ x').
Proof.
  intros a x ri n pos it tmo x' v H. unfold pick_node_exit.
  destruct (n_router n) as [rt|].
  - destruct it.
    + unfold route_timeout. destruct (rt_wait rt) as [[wt [[? ci]|]]|]; try discriminate.
      destruct (route_to_category a x ri (Some (ri, pos)) n rt (Some ci) tmo []) as [y w| |] eqn:E; try discriminate.
      pose proof (route_to_category_results _ _ _ _ _ _ _ _ _ _ _ H E) as Hy.
      destruct w; intros E'; inversion E'; subst; [apply results_ok_upd_same; auto|apply results_ok_fail_run; auto].
    + unfold route.
      match goal with |- context [route_to_category ?A ?X ?R ?S ?N ?RT ?C ?M ?O] =>
        destruct (route_to_category A X R S N RT C M O) as [y w| |] eqn:E end; try discriminate.
      pose proof (route_to_category_results _ _ _ _ _ _ _ _ _ _ _ H E) as Hy.
      destruct w; intros E'; inversion E'; subst; [apply results_ok_upd_same; auto|apply results_ok_fail_run; auto].
  - destruct (n_exits n); intros E; inversion E; subst; apply results_ok_upd_same; auto.
Qed.

Lemma find_resume_exit_results : forall a x ri it tmo, results_ok a (session_ x) ->
  match find_resume_exit a x ri it tmo with
  | FreOk x' _ _ => results_ok a (session_ x')
  | FreErr x' => x' = x
  | _ => True
  end.
Proof.
  intros a x ri it tmo H. unfold find_resume_exit. destruct (run_status (session_ x) ri) as [[]|]; auto.
  destruct (path_location a (session_ x) ri) as [[pos n]|]; auto.
  destruct (pick_node_exit a x ri n pos it tmo) as [x' [e op]|x'|] eqn:E; auto.
  - eapply pick_node_exit_results; eauto.
  - eapply pick_node_exit_goerr; eauto.
Qed.

Lemma exec_actions_results : forall a acts x ri pos n x' b,
  results_ok a (session_ x) -> exec_actions a x ri pos n acts = Done x' b -> results_ok a (session_ x').
Proof.
  induction acts as [|act acts IH]; intros x ri pos n x' b H; simpl.
  - intros E; inversion E; subst; auto.
  - destruct (exec_action a x ri pos n act) as [y v| |] eqn:E; try discriminate.
    assert (Hy : results_ok a (session_ y)).
    { revert E. unfold exec_action. destruct act.
      - destruct (trunc_ellipsis _ _); [|discriminate]. intros E; inversion E; subst. apply results_ok_log_event; auto.
      - destruct (trunc_ellipsis _ _); [|discriminate]. apply save_and_log_results; auto.
      - destruct (get_flow a flow); [destruct (negb _)|]; intros E; inversion E; subst.
        + change (results_ok a (session_ (fail_run x ri (Some (ri, pos)) FEnterFlowType))). apply results_ok_fail_run; auto.
        + apply results_ok_log_event. eapply results_ok_same_runs; [|exact H]. reflexivity.
        + change (results_ok a (session_ (fail_run x ri (Some (ri, pos)) FEnterMissingFlow))). apply results_ok_fail_run; auto. }
    destruct (run_status (session_ y) ri) as [[]|]; try (intros E'; eapply IH; [exact Hy|exact E']).
    intros E'; inversion E'; subst. eapply results_ok_same_runs; [|exact Hy]. reflexivity.
Qed.

Lemma visit_node_results : forall a x ri n wt x' v,
  results_ok a (session_ x) -> visit_node a x ri n wt = Done x' v -> results_ok a (session_ x').
Proof.
  intros a x ri n wt x' v H. unfold visit_node.
  destruct (get_run (session_ x) ri) as [r0|] eqn:Er; [|discriminate].
  set (x1 := with_session x (fun s => upd_run s ri (run_add_step {| st_node := n_id n; st_exit := None |}))).
  assert (H1 : results_ok a (session_ x1)) by (apply results_ok_upd_same; auto).
  match goal with |- context [exec_actions a ?X ri ?P n ?A] => set (x2 := X) end.
  assert (H2 : results_ok a (session_ x2)).
  { unfold x2. destruct wt; [destruct (s_trigger (session_ x1))|]; auto.
    apply results_ok_log_event. eapply results_ok_same_runs; [|exact H1]. reflexivity. }
  destruct (exec_actions a x2 ri (length (r_path r0)) n (n_actions n)) as [x3 b| |] eqn:Ea; try discriminate.
  pose proof (exec_actions_results _ _ _ _ _ _ _ _ H2 Ea) as H3.
  destruct b; [intros E; inversion E; subst; exact H3|].
  destruct (s_pushed (session_ x3)); [intros E; inversion E; subst; exact H3|].
  match goal with |- context [match ?bw with Some _ => _ | None => match pick_node_exit ?A ?X ?R ?N ?P ?I ?T with _ => _ end end] =>
    destruct bw as [x4|] eqn:Ebw end.
  - intros E; inversion E; subst.
    assert (H4 : results_ok a (session_ x4)).
    { destruct (n_router n) as [rt|]; [|discriminate]. destruct (rt_wait rt) as [[[] tmo]|]; try discriminate; try (dmatch_hyp Ebw; [discriminate|]); inversion Ebw; subst.
      all: (apply results_ok_log_event; auto). }
    change (results_ok a (session_ (with_session x4 (fun s => upd_run s ri (run_set_status RWaiting))))). apply results_ok_upd_same; auto.
  - destruct (pick_node_exit a x3 ri n (length (r_path r0)) false []) as [x5 [e5 op5]| |] eqn:Epk; try discriminate.
    intros E; inversion E; subst. eapply pick_node_exit_results; eauto.
Qed.

(* ---- the loop ------------------------------------------------------------------------------------------------ *)

Definition iter_results (a : assets) (r : iter) : Prop :=
  match r with ICont x' _ => results_ok a (session_ x') | IStop (ROk x') => results_ok a (session_ x') | _ => True end.

Lemma pick_dest_results : forall a x l x1 l1 dest, results_ok a (session_ x) -> pick_dest a x l = (x1, l1, dest) -> results_ok a (session_ x1).
Proof.
  intros a x l x1 l1 dest H. unfold pick_dest.
  destruct (s_pushed (session_ x)) as [p|].
  - intros E; inversion E; subst; clear E. intros i r res Hi Hin. simpl in Hi.
    set (rs0 := s_runs (session_ (if p_terminal p then with_session x exit_all_completed else x))) in *.
    assert (H0 : forall j r0 res0, nth_error rs0 j = Some r0 -> In res0 (r_results r0) -> value_ok a res0).
    { unfold rs0. destruct (p_terminal p); [|apply H]. intros j r0 res0 Hj Hr. simpl in Hj. rewrite nth_error_map in Hj.
      destruct (nth_error (s_runs (session_ x)) j) as [r1|] eqn:E1; inversion Hj; subst. simpl in Hr. eapply H; eauto. }
    destruct (nth_error_snoc_inv _ _ _ _ _ Hi) as [[_ Hi']|[_ ->]]; [eapply H0; eauto|destruct Hin].
  - destruct (l_exit l) as [e|]; [|intros E; inversion E; subst; auto].
    intros E. assert (Hs : session_ x1 = session_ x) by (revert E; repeat dmatch; intros E; inversion E; subst; auto).
    rewrite Hs. exact H.
Qed.

Lemma goto_node_results : forall a x l c d r, results_ok a (session_ x) -> goto_node a x l c d = r -> iter_results a r.
Proof.
  intros a x l c d r H. unfold goto_node. cbv zeta. cbn [l_trigger l_steps l_cur l_exit l_step l_node l_operand].
  destruct (l_steps l + 1 >? max_steps (a_opts a))%Z; [intros <-; simpl; apply results_ok_fail_run; auto|].
  destruct (get_run (session_ x) c) as [r0|]; [|intros <-; exact I].
  destruct (get_flow a (r_flow r0)) as [f|]; [|intros <-; exact I].
  destruct (get_node f d) as [n|]; [|intros <-; exact I].
  destruct (visit_node a x c n (l_trigger l)) as [y [[pos e] op]|y|] eqn:Ev; try (intros <-; exact I).
  pose proof (visit_node_results _ _ _ _ _ _ _ H Ev) as Hy.
  destruct (sstatus_eqb (s_status (session_ y)) SWaiting); intros <-; exact Hy.
Qed.

Lemma finish_run_results : forall a x l c r, results_ok a (session_ x) -> finish_run a x l c = r -> iter_results a r.
Proof.
  intros a x l c r H. unfold finish_run.
  set (x1 := match get_run (session_ x) c with
             | Some r => if r_exited r then x else with_session x (fun s => upd_run s c (run_exit RCompleted))
             | None => x end).
  assert (H1 : results_ok a (session_ x1)).
  { unfold x1. destruct (get_run (session_ x) c) as [r0|]; [destruct (r_exited r0)|]; auto. apply results_ok_upd_same; auto. }
  cbv zeta.
  destruct (match get_run (session_ x1) c with Some r => r_parent r | None => None end) as [pi|].
  2:{ intros <-. simpl. eapply results_ok_same_runs; [|exact H1]. reflexivity. }
  destruct (run_status (session_ x1) pi) as [[]|];
    try (intros <-; simpl; eapply results_ok_same_runs; [|exact H1]; reflexivity).
  destruct (negb match run_status (session_ x1) c with Some RFailed => true | _ => false end).
  - destruct (run_flow_unusable a (session_ x1) pi).
    + intros <-. simpl. apply results_ok_fail_run; auto.
    + pose proof (find_resume_exit_results a x1 pi false [] H1) as K.
      destruct (find_resume_exit a x1 pi false []) as [y e op|y|y|]; try (intros <-; exact I).
      * intros <-. exact K.
      * subst y. intros <-. simpl. apply results_ok_fail_run; auto.
  - intros <-. simpl. apply results_ok_fail_run; auto.
Qed.

Lemma cuw_results : forall a fuel x l x',
  loop_inv x l -> results_ok a (session_ x) -> continue_until_wait fuel a x l = ROk x' -> results_ok a (session_ x').
Proof.
  intros a fuel x l x' HL H Hr.
  assert (Hit : forall x1 l1, loop_inv x1 l1 -> results_ok a (session_ x1) -> iter_results a (cuw_iter a x1 l1)).
  { intros x1 l1 H1 H2. rewrite cuw_iter_phases.
    destruct (pick_dest a x1 l1) as [[y ly] dest] eqn:Epd.
    destruct (pick_dest_inv _ _ _ _ _ _ H1 Epd) as (c & M & _).
    pose proof (pick_dest_results _ _ _ _ _ _ H2 Epd) as Hy. rewrite (mi_cur _ _ _ _ M).
    destruct dest as [d|]; [eapply goto_node_results|eapply finish_run_results]; eauto. }
  pose proof (cuw_induct a (fun x1 l1 => loop_inv x1 l1 /\ results_ok a (session_ x1))
                (fun r => match r with ROk x2 => results_ok a (session_ x2) | _ => True end)) as P.
  specialize (P ltac:(intros x1 l1 x2 l2 [H1 H2] E; pose proof (cuw_iter_inv a x1 l1 H1) as K;
                      pose proof (Hit x1 l1 H1 H2) as F; rewrite E in K, F; split; auto)).
  specialize (P ltac:(intros x1 l1 r [H1 H2] E; pose proof (Hit x1 l1 H1 H2) as F; rewrite E in F; destruct r; auto)).
  specialize (P I fuel x l (conj HL H)). rewrite Hr in P. exact P.
Qed.

(* ---- engine calls ------------------------------------------------------------------------------------------- *)

Theorem start_results : forall a t f x', start a t f = ROk x' -> results_ok a (session_ x').
Proof.
  intros a t f x'. unfold start. destruct (get_flow a f) as [fl0|]; [|discriminate].
  intros H. eapply cuw_results; [apply loop_inv_start| |exact H]. intros i r res Hi. destruct i; discriminate.
Qed.

Lemma apply_resume_results : forall a x wi sr r, results_ok a (session_ x) -> results_ok a (session_ (apply_resume x wi sr r)).
Proof.
  intros a x wi sr r H.
  assert (Hbase : forall y, results_ok a (session_ y) ->
            results_ok a (session_ (with_session (with_session y (fun s => match run_status s wi with
                                                             | Some RWaiting => upd_run s wi (run_set_status RActive)
                                                             | _ => s end)) (fun s => set_input s None)))).
  { intros y Hy. eapply results_ok_same_runs; [reflexivity|]. simpl.
    destruct (run_status (session_ y) wi) as [[]|]; auto.
    change (results_ok a (session_ (with_session y (fun s => upd_run s wi (run_set_status RActive))))). apply results_ok_upd_same; auto. }
  destruct r; unfold apply_resume; cbv zeta.
  - apply results_ok_log_event. eapply results_ok_same_runs; [reflexivity|]. apply Hbase; auto.
  - apply Hbase. apply results_ok_log_event; auto.
  - apply Hbase. apply results_ok_log_event. apply results_ok_upd_same; auto.
  - apply Hbase. apply results_ok_log_event; auto.
Qed.

Lemma fail_session_results : forall a x wi c, results_ok a (session_ x) -> results_ok a (session_ (fail_session x wi c)).
Proof.
  intros a x wi c H. unfold fail_session. pose proof (results_ok_fail_run a x wi None c H) as K.
  intros i r res Hi Hin. cbn [session_ with_session s_runs set_status set_runs] in Hi. rewrite nth_error_map in Hi.
  destruct (nth_error (s_runs (session_ (fail_run x wi None c))) i) as [r0|] eqn:E; inversion Hi; subst.
  eapply K; [exact E|]. destruct (r_status r0); exact Hin.
Qed.

Theorem resume_results : forall a s r tmo x',
  post_inv s -> results_ok a s -> resume_session a s r tmo = Resumed (ROk x') -> results_ok a (session_ x').
Proof.
  intros a s r tmo x' Hpost Hs H.
  assert (H0 : results_ok a (session_ (resume_x0 s))) by (eapply results_ok_same_runs; [|exact Hs]; reflexivity).
  destruct (resume_decompose _ _ _ _ _ Hpost H) as [(y & wi & c & E & _ & _ & _ & _ & Hy)|(x2 & l & E & HL & _ & _ & _ & wi & pos & e & op & _ & _ & _ & Hfre & _)].
  - inversion E; subst. apply fail_session_results. destruct Hy as [->|(pos & n & _ & ->)]; [exact Hs|apply apply_resume_results; exact H0].
  - pose proof (find_resume_exit_results a _ wi (is_timeout r) tmo (apply_resume_results a _ wi (Some (wi, pos)) r H0)) as K.
    rewrite Hfre in K. symmetry in E. eapply cuw_results; eauto.
Qed.

(* histories over one store *)
Theorem reachable_results : forall a s, reachable_in a s -> results_ok a s.
Proof.
  induction 1.
  - eapply start_results; eauto.
  - eapply resume_results; eauto. apply reachable_post. eapply reachable_in_reachable; eauto.
Qed.
